#!/bin/bash
# tools/rerun_harmless.sh [jobs] — re-run every kept behaviour-preserving refactoring against its property's check
# (scratch worktrees); the check must stay silent.  One line per refactoring in build/rerun_harmless.log.
cd "$(dirname "$0")/.."
J=${1:-4}
mkdir -p build; : > build/rerun_harmless.log
ls harmless | xargs -P "$J" -I{} bash -c '
  n={}; p=${n:0:3}
  out=$(tools/try_mutation.sh $p $PWD/harmless/$n/refactor.diff $PWD/harmless/$n/equiv.py 2>&1 | tail -1)
  echo "$n | $out" >> build/rerun_harmless.log'
alarms=$(grep -vc "exit=0" build/rerun_harmless.log)
echo "harmless refactorings re-run: $(wc -l < build/rerun_harmless.log), alarms: $alarms"
[ "$alarms" = 0 ]
