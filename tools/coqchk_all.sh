#!/bin/bash
# tools/coqchk_all.sh — clean full build of the development in a scratch directory, then the independent checker coqchk -o
# on every Props module; writes /verif/coqchk_report.txt (axioms of everything the property theorems depend on)
set -e
D=$(mktemp -d /tmp/coqchk.XXXX)
git -C /verif archive HEAD coq | tar -x -C $D
cd $D/coq
coq_makefile -f _CoqProject -o Makefile > /dev/null
make -j12 > $D/make.log 2>&1
MODS=$(ls Props/*.v | sed 's|Props/\(.*\)\.v|Xpl.Props.\1|' | tr '\n' ' ')
( echo "coqchk -o -silent -Q . Xpl $MODS"; echo "commit: $(git -C /verif rev-parse --short HEAD)  date: $(date -u +%FT%TZ)"; coqchk -o -silent -Q . Xpl $MODS 2>&1 ) > /verif/coqchk_report.txt
rm -rf $D
tail -15 /verif/coqchk_report.txt
