#!/bin/bash
# tools/try_mutation.sh <Cxx> <patch.diff> <demo.py> [tests...]   — confirm a seeded change and run the check against it,
# in a scratch worktree (never in /repo itself); prints a one-line summary.
P=$1; PATCH=$2; DEMO=$3; shift 3
WT=/tmp/trymut_$$
git -C /repo worktree add --detach $WT HEAD -q || exit 9
run_demo() { (cd /tmp && PYTHONPATH=$WT PYTHONHASHSEED=0 CUDA_VISIBLE_DEVICES=-1 TF_CPP_MIN_LOG_LEVEL=3 timeout 900 /venv/bin/python $DEMO >/tmp/trymut_demo_$$.log 2>&1; echo $?); }
CLEAN=$(run_demo)
git -C $WT apply $PATCH || { echo "PATCH DOES NOT APPLY"; git -C /repo worktree remove --force $WT; exit 8; }
MUT=$(run_demo)
TESTS="n/a"
if [ $# -gt 0 ]; then
  (cd $WT && timeout 2400 /venv/bin/python -m pytest -q -p no:cacheprovider --timeout=900 "$@" > /tmp/trymut_tests_$$.log 2>&1); TESTS=$(tail -1 /tmp/trymut_tests_$$.log)
fi
cd /verif
XPLIQUE_REPO=$WT ./check $P quick > /tmp/trymut_check_$$.log 2>&1; RC=$?
NV=$(grep -c '^VIOLATION' /tmp/trymut_check_$$.log)
echo "mutation $PATCH: demo clean=$CLEAN mutated=$MUT | tests: $TESTS | check $P exit=$RC violations_lines=$NV | $(tail -1 /tmp/trymut_check_$$.log)"
git -C /repo worktree remove --force $WT
