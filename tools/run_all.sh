#!/bin/bash
# tools/run_all.sh [quick|thorough] [ids...] — run the checks one after the other against /repo, print one line each
cd "$(dirname "$0")/.."
TIER=${1:-quick}; shift
IDS=${@:-C01 C02 C03 C04 C05 C06 C07 C08 C09 C10 C11 C12 C13 C14 C15 C16 C17 C18 C19 C20}
for p in $IDS; do
  s=$(date +%s)
  ./check $p $TIER > build/run_all_$p.log 2>&1; rc=$?
  echo "$p rc=$rc $(( $(date +%s) - s ))s | $(grep -c '^VIOLATION' build/run_all_$p.log) violation lines | $(grep -c '^KNOWN-FINDING' build/run_all_$p.log) known | $(tail -1 build/run_all_$p.log)"
done
