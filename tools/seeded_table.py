#!/usr/bin/env python3
"""prints the DESIGN.md section 12 table from seeded/*/meta.json and rewrites that section in place"""
import json, pathlib, re
root = pathlib.Path('/verif')
rows = []
for d in sorted((root / 'seeded').iterdir()):
    m = json.loads((d / 'meta.json').read_text())
    res = m['result']
    caught = re.search(r'check (C\d+) exit=1[^|]*', res)
    by = f"`./check {m['property']}`"
    extra = re.findall(r'\(([^()]*disagreements[^()]*|[^()]*violations of[^()]*)\)', res)
    note = extra[-1] if extra else ''
    if not note:
        q = re.search(r'quick: (\d+) cases, (\d+) disagreements', res)
        note = f"{q.group(2)} disagreements of {q.group(1)}" if q else "caught"
    missed = ' — **missed at first**, check strengthened: ' + m.get('strengthening', '') if m.get('initially_missed') else ''
    rows.append(f"| `{d.name}` | {m['property']} | {m['needs_to_manifest']} | {by} ({note}){missed} |")
table = ("| seeded change | property | needs, to manifest | caught by |\n|---|---|---|---|\n" + "\n".join(rows))
design = (root / 'DESIGN.md').read_text()
head = design[:design.index('## 12. Seeded changes')]
new = head + """## 12. Seeded changes (independent agents) and which check catches them

Each change was written by a separate agent that saw only the text of one property and a scratch worktree of /repo
(nothing from /verif).  I confirmed each one in a scratch worktree (`tools/try_mutation.sh`): its demonstration passes on
/repo HEAD and fails with the patch, the baseline tests reaching the changed code still pass (run by the authoring agent,
logs in its notes), and then ran the property's check against the patched worktree (`XPLIQUE_REPO=...`).  Where a check
missed a change, the check was strengthened (never the change weakened) and the change re-run; the `meta.json` records it.
Four rounds were run: round 1 asked for any realistic property-breaking change (off-by-one, axes, tile / repeat, remainder
batches, signs ...), round 2 for state / history, pairs of non-default arguments, float32-cancelling rewrites and shared
helpers, round 3 for API glue and coercions, edges of valid ranges, ordering and ties, one of several code paths that must
agree, and edits far from the obvious file, round 4 for optional / None-valued arguments, defects visible only from the
third batch / input / class on, documented constants and normalisations, dtype and container leaks, and error handling
that hides a failing case.  A few round-2 / round-3 submissions repeated an earlier idea and were tried
(all caught) but not kept twice.  `tools/rerun_seeded.sh` re-runs every kept change against the current checks.
""" + f"\n{len(rows)} changes kept, all caught by the current checks ({sum(1 for r in rows if 'missed at first' in r)} were missed at first).\n\n" + table + "\n"
(root / 'DESIGN.md').write_text(new)
print(len(rows), 'rows')
