#!/bin/bash
# tools/rerun_seeded.sh [jobs] [name-filter] — re-run every kept seeded change against its property's check (scratch worktrees,
# never /repo itself); one line per change in build/rerun_seeded.log; exit 1 if a change is no longer caught.
cd "$(dirname "$0")/.."
J=${1:-4}; F=${2:-.}
mkdir -p build; : > build/rerun_seeded.log
ls seeded | grep -E "$F" | xargs -P "$J" -I{} bash -c '
  n={}; p=$(python3 -c "import json;print(json.load(open(\"seeded/$n/meta.json\"))[\"property\"])")
  out=$(tools/try_mutation.sh $p $PWD/seeded/$n/patch.diff $PWD/seeded/$n/demo.py 2>&1 | tail -1)
  echo "$n | $out" >> build/rerun_seeded.log'
missed=$(grep -vc "mutated=1 .* exit=1" build/rerun_seeded.log)
echo "seeded changes re-run: $(wc -l < build/rerun_seeded.log), not caught: $missed"
[ "$missed" = 0 ]
