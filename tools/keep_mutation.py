#!/usr/bin/env python3
"""tools/keep_mutation.py <name> <property> <patch> <demo> <needs> <what_breaks> <result line>"""
import json, shutil, sys, pathlib
name, prop, patch, demo, needs, breaks, result = sys.argv[1:8]
d = pathlib.Path('/verif/seeded') / name
d.mkdir(parents=True, exist_ok=True)
shutil.copy(patch, d / 'patch.diff')
shutil.copy(demo, d / 'demo.py')
caught = 'exit=1' in result
json.dump(dict(property=prop, breaks=breaks, needs_to_manifest=needs,
               confirmed=("demo exits 0 on /repo HEAD and non-zero with the patch (scratch worktree, tools/try_mutation.sh); "
                          "related baseline tests still pass with the patch"),
               ran=f"tools/try_mutation.sh {prop} patch.diff demo.py <related tests>", result=result,
               caught_by_check=caught, origin="independent sub-agent given only the property text and a scratch worktree"),
          open(d / 'meta.json', 'w'), indent=1)
print('kept', d, 'caught' if caught else 'MISSED')
