"""c03.py — batching is transparent.

The proof-level content of C03 is the family of batch-invariance theorems re-stated in coq/Props/C03.v (corollaries of
the Model = Spec theorems of C01, C04, C06, C09, C14, ... and the generic list lemmas).  This harness is the tie for the
methods as a whole: every listed method is run on the same inputs (and the same seeds for the sampling methods, whose
draws are made before / independently of batching) with many batch sizes — 1, small, not dividing the workload, equal
to it, above it, None — and the results must agree; for the deterministic methods, permuting / subsetting / duplicating
the inputs must permute / subset / duplicate the explanations.  (The per-method correspondence with the proved models is
done by the checks of the individual properties.)
"""
import numpy as np
import core

PROP = "C03"
IMPORTS = "C06.Model"
RULE = ("every method of the property's list x batch sizes {1,2,3,workload-1,workload,workload+1,N*workload+1,None} x N in 1..4; "
        "selections of the inputs (permutation, subset, duplication) for deterministic methods; HSIC also over "
        "estimator_batch_size; non-trivial = at least one batch size that does not divide the workload and one above it")
ASSUMPTIONS = ["Sobol / HSIC maps are compared within rtol 1e-3, atol 1e-4 max|map| (variance-normalised estimators amplify batch-size-dependent float32 rounding of the model); everything else rtol 2e-5, atol 2e-6",
               "sampling methods (Lime, KernelShap, Sobol, HSIC, SmoothGrad family at noise 0) are run eagerly under a fixed seed so "
               "that the draws are the same for every batch size",
               "tolerance rtol 2e-5 / atol 2e-6: float32 reductions may be grouped differently when the batch changes"]

DETERMINISTIC = ["SaliencySeg", "Saliency", "GradientInput", "IntegratedGradients", "SmoothGrad0", "SquareGrad0", "VarGrad0", "DeconvNet",
                 "GuidedBackprop", "GradCAM", "GradCAMPP", "Occlusion"]
SAMPLING = ["Sobol", "HSIC", "HSIC_est", "Lime", "KernelShap"]
METRICS = ["Deletion", "Insertion", "MuFidelityExact"]
WORK = dict(IntegratedGradients=5, SmoothGrad0=4, SquareGrad0=4, VarGrad0=4, Occlusion=9, Sobol=24, HSIC=16, HSIC_est=16,
            Lime=20, KernelShap=20, Deletion=1, Insertion=1, MuFidelityExact=6)


def gen_case(rng, what):
    n = rng.randint(1, 4)
    w = WORK.get(what, 1)
    if what in METRICS:
        n = rng.choice([3, 5, 7, 4])          # the workload of a metric is its N samples: remainder batches need N > batch size
    cands = [1, 2, 3, max(1, w - 1), w, w + 1, n * w + 1, None, rng.randint(1, n * w + 2)]
    if what in METRICS:
        cands = [1, 2, 2, 3, n - 1, n, n + 1, None]
    if what == "MuFidelityExact":
        # nb_samples = 6: batch sizes holding two or three inputs per input batch (12.., 18..) with a ragged last one
        cands = [1, 2, 5, 6, 7, 12, 13, 18, 20, 24, None]
    bss = []
    for b in rng.sample(cands, len(cands)):
        if b not in bss:
            bss.append(b)
    bss = bss[:6 if what == "MuFidelityExact" else 4]
    if None not in bss and what not in ("Lime", "KernelShap"):
        bss[-1] = None
    sel = None
    if what in DETERMINISTIC and n >= 2:
        sel = [rng.randrange(n) for _ in range(rng.randint(1, n + 1))]
    # a third of the cases use a single-output model (regression / one logit): predictions and targets of shape (N, 1)
    nout = 1 if (what != "MuFidelityExact" and rng.random() < 0.34) else 3
    # variant 1: the same method with NON-default secondary arguments (other kernel / distance mode, overlapping patches,
    # other baseline, other estimator ...): batching must be transparent for those too
    return dict(what=what, n=n, bss=bss, sel=sel, seed=rng.randrange(1 << 30), model_seed=rng.randrange(1 << 30), nout=nout,
                variant=rng.randint(0, 1))


def generate(rng, tier):
    reps = 2 if tier == "quick" else 12
    cases = []
    for r in range(reps):
        for w in DETERMINISTIC + SAMPLING + METRICS + METRICS:
            c = gen_case(rng, w)
            c["variant"] = r % 2          # every method is run with its default-like and its non-default argument set
            cases.append(c)
    return cases


def nontrivial(case):
    w = WORK.get(case["what"], 1) * case["n"]
    b = [x for x in case["bss"] if x is not None]
    return any(w % x != 0 for x in b) or any(x > w for x in b) or case["sel"] is not None


def distribution(cases):
    return dict(method=core.hist(c["what"] for c in cases), n=core.hist(c["n"] for c in cases),
                batch_sizes=core.hist(str(b) for c in cases for b in c["bss"]),
                with_selection=core.hist(c["sel"] is not None for c in cases))


def conv_model(seed, nout=3):
    import tensorflow as tf
    rs = np.random.RandomState(seed % (1 << 31))
    inp = tf.keras.Input((8, 8, 1))
    x = tf.keras.layers.Conv2D(2, 3, activation="relu", name="conv")(inp)
    x = tf.keras.layers.Flatten()(x)
    x = tf.keras.layers.Dense(nout, name="logits")(x)
    m = tf.keras.Model(inp, x)
    m.set_weights([(rs.randint(-2, 3, size=w.shape) / 2.0).astype(np.float32) for w in m.get_weights()])
    return m


def seg_model(seed):
    """a small segmentation head: (8, 8, 1) -> per-pixel scores of 2 classes (8, 8, 2)"""
    import tensorflow as tf
    rs = np.random.RandomState(seed % (1 << 31))
    inp = tf.keras.Input((8, 8, 1))
    x = tf.keras.layers.Conv2D(3, 3, padding="same", activation="relu", name="conv")(inp)
    x = tf.keras.layers.Conv2D(2, 1, name="pixel_logits")(x)
    m = tf.keras.Model(inp, x)
    m.set_weights([(rs.randint(-2, 3, size=w.shape) / 2.0).astype(np.float32) for w in m.get_weights()])
    return m


def linear_model(seed):
    import tensorflow as tf
    rs = np.random.RandomState(seed % (1 << 31))
    inp = tf.keras.Input((8, 8, 1))
    x = tf.keras.layers.Flatten()(inp)
    x = tf.keras.layers.Dense(3, use_bias=True, name="logits")(x)
    m = tf.keras.Model(inp, x)
    m.set_weights([(rs.randint(-4, 5, size=w.shape) / 2.0).astype(np.float32) for w in m.get_weights()])
    return m


def block_map(inp):
    import tensorflow as tf
    h, w = inp.shape[0], inp.shape[1]
    ii = tf.range(h)[:, None] // 2
    jj = tf.range(w)[None, :] // 2
    return tf.cast(ii * ((w + 1) // 2) + jj, tf.int32)


def build(what, model, bs, x, t, variant=0):
    import xplique.attributions as A
    import xplique.metrics as M
    if variant:
        import xplique.attributions.global_sensitivity_analysis as G
        if what == "IntegratedGradients":
            return A.IntegratedGradients(model, batch_size=bs, steps=3, baseline_value=0.5)
        if what == "Occlusion":
            return A.Occlusion(model, batch_size=bs, patch_size=(3, 2), patch_stride=(1, 2), occlusion_value=0.5)
        if what == "Sobol":
            return A.SobolAttributionMethod(model, batch_size=bs, grid_size=3, nb_design=4, perturbation_function="blurring")
        if what == "HSIC":
            return A.HsicAttributionMethod(model, batch_size=bs, grid_size=3, nb_design=8, estimator=G.RbfEstimator(),
                                           sampler=G.HaltonSequence(binary=False))
        if what == "Lime":
            return A.Lime(model, batch_size=bs, nb_samples=20, map_to_interpret_space=block_map, distance_mode="cosine",
                          kernel_width=0.5)
        if what == "KernelShap":
            return A.KernelShap(model, batch_size=bs, nb_samples=14, map_to_interpret_space=block_map, ref_value=np.array([0.5], np.float32))
        if what in ("Deletion", "Insertion"):
            return getattr(M, what)(model, x, t, batch_size=bs, steps=-1, baseline_mode=0.5, max_percentage_perturbed=0.5)
        if what == "MuFidelity":
            return M.MuFidelity(model, x, t, batch_size=bs, grid_size=2, nb_samples=6, subset_percent=0.5, baseline_mode=0.5)
    if what == "SaliencySeg":
        # a task operator that reduces over the zone of EACH sample (zones of different sizes in one batch)
        return A.Saliency(model, batch_size=bs, operator="semantic segmentation")
    if what == "Saliency":
        return A.Saliency(model, batch_size=bs)
    if what == "GradientInput":
        return A.GradientInput(model, batch_size=bs)
    if what == "IntegratedGradients":
        return A.IntegratedGradients(model, batch_size=bs, steps=5)
    if what in ("SmoothGrad0", "SquareGrad0", "VarGrad0"):
        return getattr(A, what[:-1])(model, batch_size=bs, nb_samples=4, noise=0.0)
    if what == "DeconvNet":
        return A.DeconvNet(model, batch_size=bs)
    if what == "GuidedBackprop":
        return A.GuidedBackprop(model, batch_size=bs)
    if what == "GradCAM":
        return A.GradCAM(model, batch_size=bs)
    if what == "GradCAMPP":
        return A.GradCAMPP(model, batch_size=bs)
    if what == "Occlusion":
        return A.Occlusion(model, batch_size=bs, patch_size=3, patch_stride=2)
    if what == "Sobol":
        return A.SobolAttributionMethod(model, batch_size=bs, grid_size=2, nb_design=4)
    if what == "HSIC":
        return A.HsicAttributionMethod(model, batch_size=bs, grid_size=2, nb_design=16)
    if what == "HSIC_est":
        return A.HsicAttributionMethod(model, batch_size=4, grid_size=2, nb_design=16, estimator_batch_size=bs)
    if what == "Lime":
        return A.Lime(model, batch_size=bs, nb_samples=20, map_to_interpret_space=block_map)
    if what == "KernelShap":
        return A.KernelShap(model, batch_size=bs, nb_samples=20, map_to_interpret_space=block_map)
    if what in ("Deletion", "Insertion"):
        return getattr(M, what)(model, x, t, batch_size=bs, steps=5)
    return M.MuFidelity(model, x, t, batch_size=bs, grid_size=4, nb_samples=6)


def seeded(seed):
    import tensorflow as tf
    import random as _r
    tf.random.set_seed(seed)
    np.random.seed(seed % (1 << 31))
    _r.seed(seed)


def run_impl(case):
    import tensorflow as tf
    what = case["what"]
    rs = np.random.RandomState(case["seed"] % (1 << 31))
    n = case["n"]
    x = (rs.randint(0, 9, size=(n, 8, 8, 1)) / 8.0).astype(np.float32)
    nout = case.get("nout", 3)
    t = np.eye(3, dtype=np.float32)[rs.randint(0, 3, size=n)] if nout == 3 else \
        (rs.choice([-1.0, 1.0, 0.5], size=(n, 1))).astype(np.float32)
    model = linear_model(case["model_seed"]) if what == "MuFidelityExact" else conv_model(case["model_seed"], nout)
    if what == "SaliencySeg":
        model = seg_model(case["model_seed"])
        t = np.zeros((n, 8, 8, 2), np.float32)
        for i in range(n):                       # one rectangular zone per sample, of its own size and class
            h0, w0 = rs.randint(0, 6), rs.randint(0, 6)
            t[i, h0:h0 + 1 + rs.randint(1, 3 + i), w0:w0 + 1 + rs.randint(1, 3), rs.randint(0, 2)] = 1.0
    eager_before = tf.config.functions_run_eagerly()
    if what in SAMPLING or what == "MuFidelityExact":
        tf.config.run_functions_eagerly(True)
    try:
        if what in METRICS:
            if what == "MuFidelityExact":
                W = model.get_weights()[0].reshape(8, 8, 1, 3)
                expl = np.einsum("nhwc,hwck,nk->nhwc", x, W, t).astype(np.float32)      # w_i * (x_i - 0), baseline 0
                # exact attributions for some samples, negated ones for the others: the per-sample correlations are
                # exactly +1 / -1 whatever the random subsets, so the metric must be mean(signs) for EVERY batch size
                signs = np.where(np.arange(n) % 3 == 1, -1.0, 1.0).astype(np.float32)
                if case["seed"] % 2:
                    signs = -signs
                expl = expl * signs[:, None, None, None]
            else:
                expl = (rs.randint(-64, 65, size=(n, 8, 8, 1)) / 64.0 + np.arange(64).reshape(1, 8, 8, 1) * 1e-3).astype(np.float32)
        outs = {}
        for bs in case["bss"]:
            seeded(case["seed"])
            obj = build(what, model, bs, x, t, case.get("variant", 0))
            seeded(case["seed"] + 1)
            if what in METRICS:
                o = np.asarray(obj.evaluate(expl), dtype=np.float64).reshape(-1)
            else:
                o = np.asarray(obj.explain(x, t), dtype=np.float64)
            outs[str(bs)] = o
        sel_ok = True
        sel_detail = None
        if case["sel"] is not None:
            idx = case["sel"]
            bs = case["bss"][0]
            seeded(case["seed"])
            obj = build(what, model, bs, x[idx], t[idx], case.get("variant", 0))
            seeded(case["seed"] + 1)
            o = np.asarray(obj.explain(x[idx], t[idx]), dtype=np.float64)
            ref = outs[str(bs)][idx]
            sel_ok = o.shape == ref.shape and bool(np.allclose(o, ref, rtol=2e-5, atol=2e-6))
            if not sel_ok:
                sel_detail = dict(selection=idx, got=o.reshape(len(idx), -1)[:, :6].tolist(), expected=ref.reshape(len(idx), -1)[:, :6].tolist())
    finally:
        tf.config.run_functions_eagerly(eager_before)
    keys = list(outs)
    ref = outs[keys[0]]
    agree = {}
    # Sobol / HSIC divide by a variance estimated on 4..16 designs: the float32 rounding of the Keras model, which differs
    # between batch sizes (other kernels for a batch of one), is amplified; a batching defect moves the maps by O(1)
    loose = what in ("Sobol", "HSIC", "HSIC_est")
    for k in keys[1:]:
        if loose and outs[k].shape == ref.shape:
            m = float(np.nanmax(np.abs(ref))) if np.isfinite(ref).any() else 1.0
            agree[k] = bool(np.allclose(outs[k], ref, rtol=1e-3, atol=1e-4 * max(1.0, m), equal_nan=True))
            continue
        agree[k] = bool(outs[k].shape == ref.shape and np.allclose(outs[k], ref, rtol=2e-5, atol=2e-6, equal_nan=True))
    finite = all(bool(np.all(np.isfinite(v))) for v in outs.values())
    exact_one = None
    if what == "MuFidelityExact":
        signs = np.where(np.arange(n) % 3 == 1, -1.0, 1.0)
        want = float(signs.mean()) * (-1.0 if case["seed"] % 2 else 1.0)
        exact_one = all(abs(float(v[0]) - want) < 1e-6 for v in outs.values())
    return dict(reference_batch_size=keys[0], agree=agree, finite=finite, selection_ok=sel_ok, selection_detail=sel_detail,
                mufidelity_is_one=exact_one,
                head={k: np.asarray(v).reshape(-1)[:6].tolist() for k, v in outs.items()},
                max_abs_diff={k: float(np.max(np.abs(outs[k] - ref))) if outs[k].shape == ref.shape else None for k in keys[1:]})


def coq_term(case, res):
    # NaN at the same positions for every batch size (Sobol / HSIC on an input whose scores do not vary: 0/0, outside the
    # property) counts as equal; finiteness is C12's business and only recorded here
    ok = all(res["agree"].values()) and res["selection_ok"] and res["mufidelity_is_one"] in (None, True)
    return core.cbool(bool(ok))


def explain_failure(case, res, model):
    if res is None:
        return "implementation raised on a valid batch size"
    return dict(clause="results are equal for every batch size; selecting inputs selects explanations", agree=res["agree"],
                max_abs_diff=res["max_abs_diff"], selection=res["selection_detail"], finite=res["finite"],
                mufidelity_is_one=res["mufidelity_is_one"], first_values=res["head"])


def shrink(case):
    import copy
    if len(case["bss"]) > 2:
        for i in range(1, len(case["bss"])):
            c = copy.deepcopy(case)
            del c["bss"][i]
            yield c
    if case["n"] > 1 and case["sel"] is None:
        c = copy.deepcopy(case)
        c["n"] -= 1
        yield c
