"""c12.py — common API contract: shapes, dtypes, containers.

For every attribution method and every data kind it supports: one finite float32 explanation per input with the
documented shape, identical explanations for NumPy arrays, tf.Tensors of any real dtype and batched / unbatched
tf.data datasets holding the same values, and explainer(x, t) == explainer.explain(x, t).
The container logic is proved on the model of tensor_sanitize (coq/C12); the Coq side of each case re-checks
`sanitize (batched b xs ts) = (xs, ts)` on the case's own sizes and the documented shape arithmetic; everything
else in this stream is an observation of the implementation (dtype, finiteness and shapes cannot be expressed over
exact rationals).
"""
import numpy as np
import core

PROP = "C12"
IMPORTS = "C12.Model C12.Proofs"
RULE = ("every method x supported kinds (tabular, time series, images 1/3 channels) x odd / non-square shapes x N in {1,2,3,5} x "
        "containers {numpy float32, numpy float64, numpy int32 (integer-valued), tf.Tensor, tf.data unbatched, tf.data "
        "batch(b) for b in 1..N+1}; non-trivial = N >= 2 with a dataset batch size not dividing N, or a non-float32 dtype")
ASSUMPTIONS = ["sampling methods run eagerly under a fixed seed so that containers can be compared value by value",
               "values are float32-representable (k/8 grid, integers for the int container), so the dtype cast is the identity",
               "the probe 'batched dataset wrapped by prefetch' is a known finding (see known_findings.json), reported, not a verdict"]

IMG_ONLY = ["DeconvNet", "GuidedBackprop", "GradCAM", "GradCAMPP", "SobolAttributionMethod", "HsicAttributionMethod"]
ALL_KINDS = ["Saliency", "GradientInput", "IntegratedGradients", "SmoothGrad", "SquareGrad", "VarGrad", "Occlusion", "Rise",
             "Lime", "KernelShap"]
RANDOM = {"SmoothGrad", "SquareGrad", "VarGrad", "Rise", "Lime", "KernelShap", "SobolAttributionMethod", "HsicAttributionMethod"}


def gen_case(rng, method, tier, force=None):
    if force is not None:
        kind = force
    elif method in IMG_ONLY:
        kind = "img"
    else:
        kind = rng.choice(["tab", "ts", "img", "img"])
    if force == "tab":
        shape = [1]                           # the smallest valid input: a single feature
    elif force == "ts":
        shape = [1, 1]                        # a single time step of a single feature
    elif kind == "tab":
        shape = [rng.choice([1, 3, 5, 7])]
    elif kind == "ts":
        shape = [rng.choice([1, 4, 5]), rng.choice([1, 3, 4])]
    else:
        big = method in ("GradCAM", "GradCAMPP", "SobolAttributionMethod", "HsicAttributionMethod", "Lime", "KernelShap")
        shape = [rng.choice([6, 7, 9] if big else [2, 5, 6, 7]), rng.choice([5, 8] if big else [3, 5, 8]), rng.choice([1, 3])]
        if method in ("Lime", "KernelShap") and shape[2] not in (1, 3):
            shape[2] = 3
    n = rng.choice([1, 2, 3, 5])
    conts = ["np32", "np64", "npint", "tf32", "tf64", "ds_unbatched"] + [f"ds_batch{b}" for b in sorted({1, 2, n, n + 1, max(1, n - 1)})]
    # batch(b, drop_remainder=True) with b dividing N: a batched dataset with a STATIC batch axis holding the same values
    conts += [f"ds_dropbatch{b}" for b in range(1, n + 1) if n % b == 0]
    # a per-sample dataset whose pipeline has a .batch() UPSTREAM (samples picked out of a loader that delivers batches)
    conts += [f"ds_rebatched{b}" for b in sorted({1, 2, n})]
    # np32_reused: the same ndarray OBJECTS were explained just before with other values, then overwritten in place
    chosen = ["np32"] + rng.sample(conts[1:], 3 if tier == "quick" else 5) + ["np32_reused"]
    return dict(method=method, kind=kind, shape=shape, n=n, containers=chosen, seed=rng.randrange(1 << 30),
                probe_prefetch=(rng.random() < 0.15 and n in (2, 4)))


def generate(rng, tier):
    reps = 2 if tier == "quick" else 10
    cases = [gen_case(rng, m, tier) for _ in range(reps) for m in ALL_KINDS + IMG_ONLY]
    # edge of the valid range, for every method that accepts non-image data: one feature, one time step
    cases += [gen_case(rng, m, tier, force=f) for m in ALL_KINDS for f in ("tab", "ts")]
    # Rise grids that do not fit the input size (L mod g > L // g): the up-sampled mask must still cover the input
    for (h, w, g) in ((7, 5, 4), (5, 8, 3), (7, 3, 4), (11, 7, 4)):
        c = gen_case(rng, "Rise", tier)
        c.update(kind="img", shape=[h, w, rng.choice([1, 3])], rise_grid=g)
        cases.append(c)
    return cases


def nontrivial(case):
    return any(c in ("np64", "npint", "tf64") or c.startswith("ds_dropbatch") or c.startswith("ds_rebatched") or
               (c.startswith("ds_batch") and case["n"] % int(c[8:]) != 0) for c in case["containers"])


def distribution(cases):
    return dict(method=core.hist(c["method"] for c in cases), kind=core.hist(c["kind"] for c in cases),
                n=core.hist(c["n"] for c in cases), containers=core.hist(k for c in cases for k in c["containers"]),
                shapes=core.hist("x".join(map(str, c["shape"])) for c in cases))


def build_model(kind, shape, seed):
    import tensorflow as tf
    rs = np.random.RandomState(seed % (1 << 31))
    inp = tf.keras.Input(tuple(shape))
    if kind == "img":
        k = 2 if min(shape[0], shape[1]) >= 2 else 1
        x = tf.keras.layers.Conv2D(2, k, activation="relu", name="conv")(inp)
        x = tf.keras.layers.Flatten()(x)
    else:
        x = tf.keras.layers.Flatten()(inp) if kind == "ts" else inp
        x = tf.keras.layers.Dense(4, activation="relu")(x)
    x = tf.keras.layers.Dense(3, name="logits")(x)
    m = tf.keras.Model(inp, x)
    m.set_weights([((rs.randint(-2, 3, size=w.shape) + 0.5) / 2.0).astype(np.float32) for w in m.get_weights()])
    return m


def make_explainer(method, model, kind, shape, rise_grid=None):
    import xplique.attributions as A
    kw = dict(Saliency={}, GradientInput={}, IntegratedGradients=dict(steps=3), SmoothGrad=dict(nb_samples=3, noise=0.1),
              SquareGrad=dict(nb_samples=3, noise=0.1), VarGrad=dict(nb_samples=3, noise=0.1), DeconvNet={}, GuidedBackprop={},
              GradCAM={}, GradCAMPP={}, Occlusion=dict(patch_size=1, patch_stride=1), Rise=dict(nb_samples=5, grid_size=2),
              Lime=dict(nb_samples=10), KernelShap=dict(nb_samples=10), SobolAttributionMethod=dict(grid_size=2, nb_design=4),
              HsicAttributionMethod=dict(grid_size=2, nb_design=8))[method]
    if method == "Rise" and kind == "tab":
        kw = dict(nb_samples=5, grid_size=1)
    elif method == "Rise":
        # grids that do not fit the input size (L mod g > L // g happens for g = 3, 4 on sizes 5, 7 ...)
        kw = dict(nb_samples=5, grid_size=rise_grid or [2, 3, 4][(shape[0] + shape[1]) % 3])
    return getattr(A, method)(model, batch_size=3, **kw)


def container(name, x, t):
    import tensorflow as tf
    if name == "np32":
        return x.astype(np.float32), t.astype(np.float32)
    if name == "np64":
        return x.astype(np.float64), t.astype(np.float64)
    if name == "npint":
        return x.astype(np.int32), t.astype(np.int32)
    if name == "tf32":
        return tf.constant(x, tf.float32), tf.constant(t, tf.float32)
    if name == "tf64":
        return tf.constant(x, tf.float64), tf.constant(t, tf.float64)
    ds = tf.data.Dataset.from_tensor_slices((x.astype(np.float32), t.astype(np.float32)))
    if name == "ds_unbatched":
        return ds, None
    if name == "ds_prefetch":
        return ds.batch(2).prefetch(1), None
    if name.startswith("ds_dropbatch"):
        return ds.batch(int(name[12:]), drop_remainder=True), None
    if name.startswith("ds_rebatched"):
        return ds.batch(int(name[12:])).unbatch(), None
    return ds.batch(int(name[8:])), None


def seeded(seed):
    import tensorflow as tf
    import random as _r
    tf.random.set_seed(seed)
    np.random.seed(seed % (1 << 31))
    _r.seed(seed)


def documented_shape(case):
    n, sh = case["n"], case["shape"]
    if case["kind"] == "img":
        return [n, sh[0], sh[1], 1]
    return [n] + sh


def run_impl(case):
    import tensorflow as tf
    rs = np.random.RandomState(case["seed"] % (1 << 31))
    n, shape = case["n"], case["shape"]
    intvals = "npint" in case["containers"]
    x = rs.randint(0, 4, size=[n] + shape).astype(np.float32) if intvals else (rs.randint(0, 17, size=[n] + shape) / 8.0).astype(np.float32)
    t = np.eye(3, dtype=np.float32)[rs.randint(0, 3, size=n)]
    model = build_model(case["kind"], shape, case["seed"])
    method = case["method"]
    eager_before = tf.config.functions_run_eagerly()
    if method in RANDOM:
        tf.config.run_functions_eagerly(True)
    out = {}
    try:
        expl = make_explainer(method, model, case["kind"], shape, case.get("rise_grid"))
        for c in case["containers"] + (["ds_prefetch"] if case["probe_prefetch"] else []):
            try:
                if c == "ds_prefetch":
                    # the probe of the known finding hands a wrongly shaped tensor to the explainer (the batch axis is not
                    # removed), which may fix lazily-set parameters for another input kind: use an explainer of its own
                    probe = make_explainer(method, model, case["kind"], shape, case.get("rise_grid"))
                    xi, ti = container(c, x, t)
                    seeded(case["seed"])
                    e = probe.explain(xi, ti)
                    a = np.asarray(e)
                    out[c] = dict(shape=list(a.shape), dtype=str(e.dtype.name if hasattr(e.dtype, "name") else e.dtype),
                                  finite=bool(np.all(np.isfinite(a))), values=a.astype(np.float64))
                    continue
                if c == "np32_reused":
                    xi, ti = (x * 0.5 + 0.25).astype(np.float32), np.roll(t, 1, axis=1).astype(np.float32)
                    seeded(case["seed"] + 1)
                    expl.explain(xi, ti)
                    xi[...] = x
                    ti[...] = t
                else:
                    xi, ti = container(c, x, t)
                seeded(case["seed"])
                e = expl.explain(xi, ti)
                a = np.asarray(e)
                out[c] = dict(shape=list(a.shape), dtype=str(e.dtype.name if hasattr(e.dtype, "name") else e.dtype),
                              finite=bool(np.all(np.isfinite(a))), values=a.astype(np.float64))
            except Exception as ex:          # noqa: BLE001
                out[c] = dict(error=f"{type(ex).__name__}: {str(ex)[:200]}")
        xi, ti = container("np32", x, t)
        seeded(case["seed"])
        called = np.asarray(expl(xi, ti)).astype(np.float64)
    finally:
        tf.config.run_functions_eagerly(eager_before)
    ref = out["np32"]
    res = dict(documented_shape=documented_shape(case), containers={}, call_equals_explain=None)
    for c, o in out.items():
        if "error" in o:
            res["containers"][c] = dict(error=o["error"])
            continue
        same = "values" in ref and o["values"].shape == ref["values"].shape and bool(np.allclose(o["values"], ref["values"], rtol=1e-6, atol=1e-7))
        res["containers"][c] = dict(shape=o["shape"], dtype=o["dtype"], finite=o["finite"], equals_numpy_float32=same,
                                    head=o["values"].reshape(-1)[:4].tolist())
    if "values" in ref:
        res["call_equals_explain"] = bool(called.shape == ref["values"].shape and np.allclose(called, ref["values"], rtol=1e-6, atol=1e-7))
    return res


def verdict(case, res):
    bad = []
    for c, o in res["containers"].items():
        if c == "ds_prefetch":
            continue
        if "error" in o:
            bad.append(f"{c}: {o['error']}")
        else:
            if o["shape"] != res["documented_shape"]:
                bad.append(f"{c}: shape {o['shape']} instead of {res['documented_shape']}")
            if o["dtype"] != "float32":
                bad.append(f"{c}: dtype {o['dtype']}")
            if not o["finite"]:
                bad.append(f"{c}: non-finite values")
            if not o["equals_numpy_float32"]:
                bad.append(f"{c}: values differ from the NumPy float32 container")
    if res["call_equals_explain"] is False:
        bad.append("explainer(x, t) differs from explainer.explain(x, t)")
    return bad


def prefetch_finding(case, res):
    o = res["containers"].get("ds_prefetch")
    if o is None:
        return False
    return "error" in o or o.get("shape") != res["documented_shape"] or not o.get("equals_numpy_float32")


def coq_term(case, res):
    if verdict(case, res) or prefetch_finding(case, res):
        return "false"
    n = case["n"]
    bs = sorted({int(c[8:]) for c in case["containers"] if c.startswith("ds_batch")} |
                {int(c[12:]) for c in case["containers"] if c.startswith("ds_dropbatch")} | {1})
    xs = core.cnatlist(range(n))
    ts = core.cnatlist(range(100, 100 + n))
    parts = [f"(let '(a, b) := sanitize (batched {b} {xs} {ts}) in list_eqb Nat.eqb a {xs} && list_eqb Nat.eqb b {ts})" for b in bs]
    sh = case["shape"]
    if case["kind"] == "img":
        parts.append(f"Nat.eqb (out_size (C01.Model.KImg {sh[0]} {sh[1]} {sh[2]}) (Some C01.Model.RMean)) {sh[0] * sh[1]}")
    elif case["kind"] == "ts":
        parts.append(f"Nat.eqb (out_size (C01.Model.KTs {sh[0]} {sh[1]}) None) {sh[0] * sh[1]}")
    else:
        parts.append(f"Nat.eqb (out_size (C01.Model.KTab {sh[0]}) None) {sh[0]}")
    return "(" + " && ".join(parts) + ")"


PRELUDE = "From Xpl Require C01.Model.\n"


def classify_known(case, res, err, known):
    if res is None or verdict(case, res):
        return None
    if prefetch_finding(case, res):
        return "C12-prefetch"
    return None


def explain_failure(case, res, model):
    if res is None:
        return "implementation raised before any container could be compared"
    return dict(clause="one finite float32 explanation per input with the documented shape; identical across containers; __call__ = explain",
                problems=verdict(case, res), documented_shape=res["documented_shape"], containers=res["containers"])


def shrink(case):
    import copy
    if len(case["containers"]) > 2:
        for i in range(1, len(case["containers"])):
            c = copy.deepcopy(case)
            del c["containers"][i]
            yield c
