"""c07.py — Lime / KernelShap vs coq/C07/Model.v.

Streams
  lime     Lime.explain with a recording estimator (public `interpretable_model=`) and a recording NumPy model:
           the recorded X is the drawn sample matrix Z (INPUT of the Coq model); compared with the model:
           y handed to fit (exact), log(sample_weight) against the model's argument of exp, the set of inputs
           handed to the model (exact), the returned explanation = coef_ o mapping (exact; coef_ is a probe
           function of (X, y) evaluated on both sides).
  kshap    KernelShap.explain end to end on F-additive models: recorded coalitions have 1..F-1 active features,
           y = s(masked) exactly, sample weights are ones, and — when the recorded design [Z 1] has full column
           rank (exact rational rank; otherwise skipped and counted) — the result is w_i (x_i - ref_i) summed per
           segment and broadcast.  F = 2 can never be full rank: known finding C07-kshap-F2.
  probs    KernelShap._get_probs_nb_selected_feature(F) against kshap_probs F.
  sampler  KernelShap._kernel_shap_pertub_func run eagerly with tf.random.categorical / tf.random.normal /
           tf.argsort wrapped by recording functions: the model's construction kshap_sample on the recorded
           draws must give the returned samples.
"""
import copy
import math
import numpy as np
import core
import families as fam

PROP = "C07"
IMPORTS = "C07.Model C07.Spec"
SHARD = 25
RULE = ("lime: tabular (d<=8) / time series (<=3x4) / images (<=4x4x3), custom maps with unequal segments (possibly a "
        "different map and F per input), identity maps, default and custom per-channel reference values, F in 2..8 "
        "(identity maps up to 12), nb_samples in F+1..F+12, batch sizes biased to {1,2,3,nb-1,nb,nb+1,divisor,None}, "
        "euclidean and cosine kernels, widths {1,2,4,8,45}/dyadic, F-quad score with cross terms, real-valued targets; "
        "kshap: F-additive scores, F in 3..8 (+ a few F=2), nb_samples in F+1..40; probs: F in 2..12; sampler: F in 2..8; "
        "distinct = different canonical JSON encoding; non-trivial = at least two sample batches or a remainder batch, "
        "or unequal segments")
ASSUMPTIONS = ["score is applied row-wise (no cross-sample coupling)",
               "the drawn binary samples are inputs of the model: they are the X recorded by the estimator (nothing is assumed of their distribution)",
               "float32 evaluation of F-quad on dyadic inputs with small integer weights is exact (y, queries and explanations are compared exactly)",
               "sample weights: float64 log of the recorded float32 weight against the model's argument of exp, |diff| <= 2e-5 (1 + |arg|); weights below 1e-30 only require arg <= -69",
               "cosine mode: square roots enter the model as a lookup table of float64 sqrt values of the exact squared norms",
               "KernelShap exactness: sklearn LinearRegression returns a least-squares minimiser (float64), tolerance 1e-4 (1 + max |Delta|); designs [Z 1] without full column rank are skipped and counted",
               "sampler stream: tf.random.categorical / tf.random.normal / tf.argsort are wrapped by recording functions while the public static method runs eagerly"]
EXTRA_COVERAGE = {"kshap_rank_deficient_designs_skipped": 0, "kshap_exactness_checked": 0, "kshap_F2_cases": 0,
                  "weights_underflow_entries": 0, "sampler_rows_checked": 0}

TOL_W = "(Qcx.q 1 50000)"
TOL_K = "(Qcx.q 1 10000)"

PRELUDE = """
Open Scope Qc_scope.
(* probe estimator: coef_j = (j+1) + y[j mod n] + 2 X[(j+1) mod n][j]  (the same function is evaluated by the
   recording estimator in Python) *)
Definition fit_probe (Z : list (list bool)) (y w : list Qc) : list Qc :=
  let n := List.length Z in
  map (fun j => qn (j + 1) + nthq y (j mod n) + two * b2q (nth j (nth ((j + 1) mod n) Z []) false))
      (seq 0 (List.length (hd [] Z))).
Fixpoint assoc_map (tab : list (list Qc * list nat)) (x : list Qc) : list nat :=
  match tab with [] => [] | (k, v) :: r => if qlist_eqb k x then v else assoc_map r x end.
Fixpoint sqrt_tab (tab : list (Qc * Qc)) (v : Qc) : Qc :=
  match tab with [] => 0 | (k, s) :: r => if Qceqb k v then s else sqrt_tab r v end.
Definition close_arg (tol a : Qc) (l : option Qc) : bool :=
  match l with Some v => qclose tol (1 + Qcabs a) a v | None => Qcleb a (Qcx.q (-69) 1) end.
Definition args_close (tol : Qc) (a : list Qc) (l : list (option Qc)) : bool :=
  Nat.eqb (List.length a) (List.length l) && forallb (fun p => close_arg tol (fst p) (snd p)) (combine a l).
Definition set_eq (a b : list (list Qc)) : bool :=
  Nat.eqb (List.length a) (List.length b) && forallb (fun x => existsb (qlist_eqb x) b) a
  && forallb (fun x => existsb (qlist_eqb x) a) b.
(* recorded per input: queries, y, log-weights, explanation *)
Definition trace_ok (tol : Qc) (t : trace) (r : list (list Qc) * list Qc * list (option Qc) * list Qc) : bool :=
  let '(qs, y, lw, ex) := r in
  set_eq (tr_queries t) qs && qlist_eqb (tr_y t) y && args_close tol (tr_w t) lw && qlist_eqb (tr_expl t) ex.
Definition traces_ok (tol : Qc) (m : option (list trace)) (rs : list (list (list Qc) * list Qc * list (option Qc) * list Qc)) : bool :=
  match m with
  | None => false
  | Some ts => Nat.eqb (List.length ts) (List.length rs) && forallb (fun p => trace_ok tol (fst p) (snd p)) (combine ts rs)
  end.
Definition no_segment (x : list Qc) : list nat := [].
(* KernelShap end to end: coalition sizes, y exact, weights ones (arg 0), explanation close to the Shapley values *)
Definition kshap_ok (tol : Qc) (exact : bool) (F : nat) (t : trace) (Z : list (list bool)) (y ex : list Qc) (shap : list Qc) : bool :=
  forallb (coalition_ok F) Z && qlist_eqb (tr_y t) y && forallb (fun a => Qceqb a 0) (tr_w t)
  && (negb exact || qlist_close tol (1 + fold_right Qcmax 0 (map Qcabs shap)) shap ex).
Definition kshap_case (score : list Qc -> list Qc -> Qc) (tol : Qc) (exact : bool) bs nb refarg maparg k x t wts Z y ex : bool :=
  match lime_api score (fun _ _ _ => 0) (fun _ _ _ => []) bs nb refarg maparg no_segment k [x] [t] [Z], set_ref refarg k with
  | Some [tr], Some ref =>
      let mapping := set_map maparg no_segment k x in
      kshap_ok tol exact (num_features mapping) tr Z y ex (shapley_expl k ref x wts mapping)
  | _, _ => false
  end.
Close Scope Qc_scope.
"""


# ------------------------------------------------------------------------------------------- generators
def rand_map(rng, npos, F):
    """surjective map positions -> 0..F-1 with unequal segments"""
    m = list(range(F)) + [min(rng.randrange(F), rng.randrange(F)) for _ in range(npos - F)]
    rng.shuffle(m)
    return m


def gen_shape(rng, tier, kinds=("tab", "ts", "img", "img")):
    big = tier == "thorough"
    kind = rng.choice(kinds)
    if kind == "tab":
        shape = [rng.randint(2, 10 if big else 8)]
    elif kind == "ts":
        shape = [rng.randint(1, 4 if big else 3), rng.randint(2, 4)]
    else:
        shape = [rng.randint(1, 4), rng.randint(2, 4), rng.choice([1, 2, 3, 3])]
    return kind, shape


def npos_of(kind, shape):
    return shape[0] if kind == "tab" else shape[0] * shape[1]


def chan_of(kind, shape):
    return shape[2] if kind == "img" else 1


def pick_bs(rng, nb):
    divs = [d for d in range(2, nb) if nb % d == 0] or [1]
    return rng.choice([1, 2, 3, max(1, nb - 1), nb, nb + 1, rng.choice(divs), None, None, rng.randint(1, nb + 2)])


def gen_lime(rng, tier):
    kind, shape = gen_shape(rng, tier)
    npos, c = npos_of(kind, shape), chan_of(kind, shape)
    n = rng.randint(1, 3)
    # maps: None = default identity (tab / ts only); else one map per input
    if kind != "img" and rng.random() < 0.3:
        maps = None
        Fs = [npos] * n
    else:
        same = rng.random() < 0.5
        maps, Fs = [], []
        for i in range(n):
            if same and i > 0:
                maps.append(list(maps[0]))
                Fs.append(Fs[0])
                continue
            if rng.random() < 0.2:
                F = npos                       # custom identity map (possibly permuted)
                m = list(range(npos))
                if rng.random() < 0.5:
                    rng.shuffle(m)
            else:
                F = rng.randint(2, min(8, npos)) if npos >= 2 else 1
                m = rand_map(rng, npos, F)
            maps.append(m)
            Fs.append(F)
    # reference value: None = default (only where a default exists)
    has_default = kind != "img" or c in (1, 3)
    if has_default and rng.random() < 0.4:
        ref = None
    else:
        ref = [rng.choice([0.0, 0.25, -0.5, 0.5, 1.0, -1.0]) for _ in range(c)]
    nb = max(Fs) + rng.randint(1, 12 if tier == "quick" else 20)
    dim = npos * c
    ncls = rng.randint(1, 3)
    xs = []
    while len(xs) < n:                          # distinct inputs (the per-input map is looked up by value)
        x = fam.dyadic(rng, dim)
        if x not in xs and any(x):
            xs.append(x)
    if n >= 2 and rng.random() < 0.4:
        # two inputs of one call with the same shape AND the same multiset of values (a permuted row, a shifted image):
        # equal sums, norms, histograms — only the content per position tells them apart
        k = rng.randint(1, dim - 1) if dim > 1 else 0
        perm = xs[0][k:] + xs[0][:k]
        if perm not in xs:
            xs[1] = perm
    mode = rng.choice(["euclidean", "euclidean", "cosine"])
    width = rng.choice([1.0, 2.0, 4.0, 8.0, 45.0, 1.5, 0.75, 3.0, 0.5, 0.25, 0.25]) if mode == "euclidean" else rng.choice([1.0, 2.0, 0.5, 0.25, 45.0, 0.75])
    params = fam.gen_fquad(rng, ncls, dim)
    big = None
    if mode == "euclidean" and rng.random() < 0.25:
        # un-normalised inputs: large magnitude, reference value close to them, kernel width of the order of the true
        # distances (|x - masked|^2 << |x|^2: an expanded |x|^2 + |s|^2 - 2<x,s> cancels in float32).  Linear score so
        # that the float32 evaluation stays exact.
        big = rng.choice([4096.0, 1024.0, -2048.0, 8192.0])
        xs = [[big + v for v in x] for x in xs]
        ref = [big] * c
        width = rng.choice([1.0, 2.0, 0.75, 1.5])
        for p in params:
            p["X"] = []
            p["V"] = [0] * len(p["V"])
    return dict(stream="lime", kind=kind, shape=shape, maps=maps, ref=ref, nb=nb, bs=pick_bs(rng, nb), mode=mode,
                width=width, prob=rng.choice([0.5, 0.5, 0.3, 0.8]), params=params, xs=xs, big=big,
                ts=fam.gen_targets(rng, n, ncls), seed=rng.randrange(1 << 30))


def gen_kshap(rng, tier, F2=False):
    kind, shape = gen_shape(rng, tier)
    npos, c = npos_of(kind, shape), chan_of(kind, shape)
    while not F2 and npos < 3:                 # the exactness stream has F >= 3 (F = 2: separate small stream)
        kind, shape = gen_shape(rng, tier)
        npos, c = npos_of(kind, shape), chan_of(kind, shape)
    if F2:
        kind = rng.choice(["tab", "ts", "img"])
        shape = {"tab": [rng.randint(2, 4)], "ts": [1, rng.randint(2, 3)], "img": [2, rng.randint(1, 2), rng.choice([1, 3])]}[kind]
        npos, c = npos_of(kind, shape), chan_of(kind, shape)
    n = rng.randint(1, 2)
    if F2:
        maps, Fs = [rand_map(rng, npos, 2) for _ in range(n)], [2] * n
    elif kind != "img" and rng.random() < 0.3:
        maps, Fs = None, [npos] * n
    else:
        maps, Fs = [], []
        for i in range(n):
            F = rng.randint(3, min(8, npos))
            maps.append(rand_map(rng, npos, F))
            Fs.append(F)
    has_default = kind != "img" or c in (1, 3)
    ref = None if (has_default and rng.random() < 0.4) else [rng.choice([0.0, 0.25, -0.5, 0.5, 1.0]) for _ in range(c)]
    nb = max(Fs) + rng.choice([1, 2, 3, 6, 12, 20, 30])
    nb = min(nb, 40)
    dim = npos * c
    ncls = rng.randint(1, 3)
    xs = []
    while len(xs) < n:
        x = fam.dyadic(rng, dim)
        if x not in xs:
            xs.append(x)
    return dict(stream="kshap", kind=kind, shape=shape, maps=maps, ref=ref, nb=nb, bs=pick_bs(rng, nb),
                params=fam.gen_fquad(rng, ncls, dim, cross=False, quad=False), xs=xs, ts=fam.gen_targets(rng, n, ncls),
                seed=rng.randrange(1 << 30))


def generate(rng, tier):
    quick = tier == "quick"
    cases = [gen_lime(rng, tier) for _ in range(70 if quick else 800)]
    cases += [gen_kshap(rng, tier) for _ in range(40 if quick else 400)]
    cases += [gen_kshap(rng, tier, F2=True) for _ in range(4 if quick else 20)]
    for c in cases:
        # re-use: a quarter of the multi-input cases first explain the SAME inputs in another order with the same
        # explainer object (same shape, other content per position): the segmentation must follow the input
        if c.get("maps") is not None and len(c["xs"]) >= 2 and rng.random() < 0.4:
            c["warmup"] = True
    cases += [dict(stream="probs", F=F) for F in range(2, 13 if quick else 40)]
    cases += [dict(stream="sampler", F=rng.randint(2, 8), n=rng.randint(1, 12), seed=rng.randrange(1 << 30))
              for _ in range(20 if quick else 200)]
    return cases


def case_F(case, i):
    if case["maps"] is None:
        return npos_of(case["kind"], case["shape"])
    return max(case["maps"][i]) + 1


def nontrivial(case):
    if case["stream"] in ("probs", "sampler"):
        return case["F"] >= 3
    nb = case["nb"]
    bs = case["bs"] or nb
    unequal = case["maps"] is not None and any(len(set(m)) < len(m) for m in case["maps"])
    return nb > bs or unequal


def distribution(cases):
    lk = [c for c in cases if c["stream"] in ("lime", "kshap")]
    return dict(stream=core.hist(c["stream"] for c in cases),
                kind=core.hist(c["kind"] for c in lk),
                F=core.hist(case_F(c, i) for c in lk for i in range(len(c["xs"]))),
                nb_samples=core.hist(c["nb"] // 5 * 5 for c in lk),
                unnormalised_inputs=core.hist(str(c.get("big")) for c in lk if c["stream"] == "lime"),
                batch_class=core.hist(("None" if c["bs"] is None else "1" if c["bs"] == 1 else "lt" if c["bs"] < c["nb"] else
                                       "eq" if c["bs"] == c["nb"] else "gt") for c in lk),
                remainder_batch=core.hist(bool(c["bs"]) and c["nb"] % c["bs"] != 0 and c["bs"] < c["nb"] for c in lk),
                map_kind=core.hist(("default" if c["maps"] is None else
                                    "unequal" if any(len(set(m)) < len(m) for m in c["maps"]) else "identity") for c in lk),
                per_input_maps_differ=core.hist(c["maps"] is not None and len({tuple(m) for m in c["maps"]}) > 1 for c in lk),
                ref=core.hist(("default" if c["ref"] is None else "custom") for c in lk),
                distance_mode=core.hist(c["mode"] for c in cases if c["stream"] == "lime"),
                width=core.hist(c["width"] for c in cases if c["stream"] == "lime"))


# ------------------------------------------------------------------------------------------- implementation drivers
class RecordingEstimator:
    """user-level estimator: records (X, y, sample_weight); coef_ = probe function of (X, y)"""
    def __init__(self):
        self.calls = []

    def fit(self, X, y, sample_weight=None):
        X = np.array(X)
        y = np.array(y, dtype=np.float64)
        self.calls.append((X.copy(), y.copy(), None if sample_weight is None else np.array(sample_weight)))
        n, F = X.shape
        self.coef_ = np.array([(j + 1) + y[j % n] + 2.0 * X[(j + 1) % n][j] for j in range(F)], dtype=np.float64)
        return self

    def predict(self, X):
        return np.zeros(len(X))


class RecordingOLS:
    """sklearn LinearRegression (what KernelShap installs) wrapped to record its arguments"""
    def __init__(self, inner):
        self.inner = inner
        self.calls = []

    def fit(self, X, y, sample_weight=None):
        self.calls.append((np.array(X), np.array(y, dtype=np.float64), None if sample_weight is None else np.array(sample_weight)))
        self.inner.fit(X, y, sample_weight=sample_weight)
        self.coef_ = self.inner.coef_
        return self

    def predict(self, X):
        return self.inner.predict(X)


def make_map_fn(case, xs_arr):
    import tensorflow as tf
    if case["maps"] is None:
        return None
    spatial = case["shape"][:1] if case["kind"] == "tab" else case["shape"][:2]
    table = {xs_arr[i].tobytes(): np.array(m, dtype=np.int32).reshape(spatial) for i, m in enumerate(case["maps"])}

    def fn(inp):
        return tf.constant(table[np.asarray(inp, dtype=np.float32).tobytes()])
    return fn


def expected_out_shape(case):
    n = len(case["xs"])
    if case["kind"] == "tab":
        return [n, case["shape"][0]]
    if case["kind"] == "ts":
        return [n] + case["shape"]
    return [n] + case["shape"][:2] + [1]


def run_lime_like(case, kshap):
    import tensorflow as tf
    from xplique.attributions import Lime, KernelShap
    tf.random.set_seed(case["seed"])
    model = fam.FQuadNumpy(case["params"], record=True)
    xs = np.array(case["xs"], dtype=np.float32).reshape([len(case["xs"])] + case["shape"])
    ts = np.array(case["ts"], dtype=np.float32)
    ref = None if case["ref"] is None else np.array(case["ref"], dtype=np.float32)
    if kshap:
        expl = KernelShap(model, batch_size=case["bs"], map_to_interpret_space=make_map_fn(case, xs),
                          nb_samples=case["nb"], ref_value=ref)
        est = RecordingOLS(expl.interpretable_model)
        expl.interpretable_model = est
    else:
        est = RecordingEstimator()
        expl = Lime(model, batch_size=case["bs"], interpretable_model=est, map_to_interpret_space=make_map_fn(case, xs),
                    ref_value=ref, nb_samples=case["nb"], distance_mode=case["mode"], kernel_width=case["width"],
                    prob=case["prob"])
    if case.get("warmup"):
        expl.explain(np.roll(xs, 1, axis=0), np.roll(ts, 1, axis=0))
        model.queries.clear()
        est.calls.clear()
        tf.random.set_seed(case["seed"])
    out = np.asarray(expl.explain(xs, ts))
    if list(out.shape) != expected_out_shape(case):
        raise AssertionError(f"explain returned shape {list(out.shape)}, expected {expected_out_shape(case)}")
    if len(est.calls) != len(case["xs"]):
        raise AssertionError(f"estimator fitted {len(est.calls)} times for {len(case['xs'])} inputs")
    recs, pos = [], 0
    for i, (X, y, w) in enumerate(est.calls):
        nq = X.shape[0]
        if not np.isin(X, (0, 1)).all():
            raise AssertionError("interpretable samples are not binary")
        qs = model.queries[pos:pos + nq]
        pos += nq
        recs.append(dict(Z=X.astype(int).tolist(), y=[float(v) for v in y], w=[float(v) for v in w],
                         queries=[[float(v) for v in q] for q in qs],
                         out=[float(v) for v in out[i].reshape(-1)]))
    if pos != len(model.queries):
        raise AssertionError(f"the model was queried {len(model.queries)} times, the estimator saw {pos} samples")
    return dict(recs=recs)


_rec_state = {}


def run_sampler(case):
    """runs the public static sampler eagerly with the three library functions it draws from wrapped"""
    import tensorflow as tf
    from xplique.attributions import KernelShap
    F, n = case["F"], case["n"]
    rec = dict(cat=[], normal=[], argsort=[])
    o_cat, o_norm, o_sort = tf.random.categorical, tf.random.normal, tf.argsort

    def w_cat(*a, **k):
        r = o_cat(*a, **k)
        rec["cat"].append(np.asarray(r))
        return r

    def w_norm(*a, **k):
        r = o_norm(*a, **k)
        rec["normal"].append(np.asarray(r))
        return r

    def w_sort(*a, **k):
        r = o_sort(*a, **k)
        rec["argsort"].append(np.asarray(r))
        return r
    tf.random.set_seed(case["seed"])
    tf.config.run_functions_eagerly(True)
    tf.random.categorical, tf.random.normal, tf.argsort = w_cat, w_norm, w_sort
    try:
        Z = np.asarray(KernelShap._kernel_shap_pertub_func(tf.constant([F], tf.int32), n))
    finally:
        tf.random.categorical, tf.random.normal, tf.argsort = o_cat, o_norm, o_sort
        tf.config.run_functions_eagerly(False)
    ok = (len(rec["cat"]) == 1 and len(rec["normal"]) == 1 and len(rec["argsort"]) == 1
          and rec["normal"][0].shape == (n, F) and rec["argsort"][0].shape == (n, F) and rec["cat"][0].size == n)
    res = dict(Z=Z.astype(int).tolist(), recorded=ok)
    if ok:
        res.update(ks=[int(v) for v in rec["cat"][0].reshape(-1)],
                   rs=[[float(v) for v in row] for row in rec["normal"][0]],
                   perms=[[int(v) for v in row] for row in rec["argsort"][0]])
    return res


def _finite(v, where):
    if isinstance(v, float):
        if not math.isfinite(v):
            raise AssertionError(f"non-finite value {v} in {where}")
    elif isinstance(v, (list, tuple)):
        for u in v:
            _finite(u, where)
    elif isinstance(v, dict):
        for k, u in v.items():
            _finite(u, f"{where}.{k}")


def run_impl(case):
    if case["stream"] == "lime":
        res = run_lime_like(case, False)
    elif case["stream"] == "kshap":
        res = run_lime_like(case, True)
    elif case["stream"] == "probs":
        from xplique.attributions import KernelShap
        p = np.asarray(KernelShap._get_probs_nb_selected_feature(case["F"]))
        res = dict(probs=[float(v) for v in p.reshape(-1)])
    else:
        res = run_sampler(case)
    _finite(res, "result")          # a NaN / inf anywhere is reported as an implementation failure, with the case
    return res


# ------------------------------------------------------------------------------------------- Coq encoders
def coq_kind(case):
    sh = case["shape"]
    if case["kind"] == "tab":
        return f"(Tab {sh[0]})"
    if case["kind"] == "ts":
        return f"(TS {sh[0]} {sh[1]})"
    return f"(Img {sh[0]} {sh[1]} {sh[2]})"


def cbools(row):
    return core.cl([core.cbool(bool(v)) for v in row])


def cbools2(rows):
    return core.cl([cbools(r) for r in rows])


def coq_map_arg(case):
    if case["maps"] is None:
        return "None"
    tab = core.cl([f"({core.cqlist(x)}, {core.cnatlist(m)})" for x, m in zip(case["xs"], case["maps"])])
    return f"(Some (assoc_map {tab}))"


def sqnorm(v):
    return sum((core.frac(a) ** 2 for a in v), core.Fraction(0))


def coq_karg(case, res):
    w = core.cq(case["width"])
    if case["mode"] == "euclidean":
        return f"(fun x _ p => eucl_arg {w} x p)"
    keys = {}
    for x in case["xs"]:
        keys[sqnorm(x)] = None
    for r in res["recs"]:
        for qv in r["queries"]:
            keys[sqnorm(qv)] = None
    tab = core.cl([f"({core.cq(k)}, {core.cq(math.sqrt(float(k)))})" for k in keys])
    return f"(fun x _ p => cos_arg (sqrt_tab {tab}) {w} x p)"


def logw(v):
    if v < 1e-30:
        EXTRA_COVERAGE["weights_underflow_entries"] += 1
        return "None"
    return f"(Some {core.cq(math.log(v))})"


def lime_model_term(case, res, karg=None):
    bs = core.copt(None if case["bs"] is None else core.cnat(case["bs"]))
    ref = core.copt(None if case["ref"] is None else core.cqlist(case["ref"]))
    Zs = core.cl([cbools2(r["Z"]) for r in res["recs"]])
    return (f"(lime_api (fquad {fam.coq_fquad(case['params'])}) {karg or coq_karg(case, res)} fit_probe {bs} {core.cnat(case['nb'])} "
            f"{ref} {coq_map_arg(case)} no_segment {coq_kind(case)} {core.cqlist2(case['xs'])} {core.cqlist2(case['ts'])} {Zs})")


def lime_term(case, res):
    recs = core.cl([f"({core.cqlist2(r['queries'])}, {core.cqlist(r['y'])}, {core.cl([logw(v) for v in r['w']])}, {core.cqlist(r['out'])})"
                    for r in res["recs"]])
    return f"traces_ok {TOL_W} {lime_model_term(case, res)} {recs}"


def rank(rows):
    """exact rank of a rational matrix"""
    M = [[core.Fraction(v) for v in r] for r in rows]
    rk, ncol = 0, len(M[0]) if M else 0
    for c in range(ncol):
        piv = next((i for i in range(rk, len(M)) if M[i][c] != 0), None)
        if piv is None:
            continue
        M[rk], M[piv] = M[piv], M[rk]
        for i in range(len(M)):
            if i != rk and M[i][c] != 0:
                f = M[i][c] / M[rk][c]
                M[i] = [a - f * b for a, b in zip(M[i], M[rk])]
        rk += 1
    return rk


def full_rank(Z):
    F = len(Z[0])
    return rank([list(r) + [1] for r in Z]) == F + 1


def kshap_term(case, res):
    bs = core.copt(None if case["bs"] is None else core.cnat(case["bs"]))
    ref = core.copt(None if case["ref"] is None else core.cqlist(case["ref"]))
    parts = []
    for i, r in enumerate(res["recs"]):
        F = case_F(case, i)
        exact = full_rank(r["Z"])
        if F == 2 and rank([list(z) + [1] for z in r["Z"]]) == 2:
            # structurally singular (rank 2 is the most an F = 2 design can reach): the property still claims
            # exactness -> compared; the disagreement is the known finding C07-kshap-F2
            EXTRA_COVERAGE["kshap_F2_cases"] += 1
            exact = True
        elif exact:
            EXTRA_COVERAGE["kshap_exactness_checked"] += 1
        else:
            EXTRA_COVERAGE["kshap_rank_deficient_designs_skipped"] += 1
        if any(abs(v - 1.0) > 0 for v in r["w"]):
            return "false"
        one = (f"(kshap_case (fquad {fam.coq_fquad(case['params'])}) {TOL_K} {core.cbool(exact)} {bs} {core.cnat(case['nb'])} {ref} "
               f"{coq_map_arg(case)} {coq_kind(case)} {core.cqlist(case['xs'][i])} {core.cqlist(case['ts'][i])} "
               f"(lin_weights {len(case['xs'][i])} {fam.coq_fquad(case['params'])} {core.cqlist(case['ts'][i])}) {cbools2(r['Z'])} {core.cqlist(r['y'])} {core.cqlist(r['out'])})")
        parts.append(one)
    return " && ".join(parts)


def class_weights(case, i):
    """w_p = sum_c t_c W_cp : the linear part of the explained additive score"""
    t = case["ts"][i]
    dim = len(case["xs"][i])
    return [sum(core.frac(t[c]) * core.frac(k["W"][p]) for c, k in enumerate(case["params"])) for p in range(dim)]


def coq_term(case, res):
    if case["stream"] == "lime":
        return lime_term(case, res)
    if case["stream"] == "kshap":
        return kshap_term(case, res)
    if case["stream"] == "probs":
        return f"qlist_close (Qcx.q 1 1000000) (Qcx.q 1 1) (kshap_probs {core.cnat(case['F'])}) {core.cqlist(res['probs'])}"
    F = case["F"]
    sizes = f"forallb (coalition_ok {core.cnat(F)}) {cbools2(res['Z'])}"
    if not res["recorded"]:
        return sizes
    EXTRA_COVERAGE["sampler_rows_checked"] += len(res["Z"])
    return (f"{sizes} && list_eqb (list_eqb Bool.eqb) (kshap_sample {core.cnat(F)} {core.cnatlist(res['ks'])} "
            f"{core.cqlist2(res['rs'])} {core.cl([core.cnatlist(p) for p in res['perms']])}) {cbools2(res['Z'])}")


def dump_term(case, res):
    if case["stream"] == "lime":
        return (f"match {lime_model_term(case, res)} with None => [] | Some l => map (fun t => (map (map qdump) (tr_queries t), "
                f"map qdump (tr_y t), map qdump (tr_w t), map qdump (tr_expl t))) l end")
    if case["stream"] == "probs":
        return f"map qdump (kshap_probs {core.cnat(case['F'])})"
    if case["stream"] == "kshap":
        return "0%nat"
    return f"kshap_sample {core.cnat(case['F'])} {core.cnatlist(res.get('ks', []))} {core.cqlist2(res.get('rs', []))} {core.cl([core.cnatlist(p) for p in res.get('perms', [])])}"


def explain_failure(case, res, model):
    if res is None:
        return "implementation raised on a valid configuration"
    if case["stream"] == "lime" and isinstance(model, list):
        out = []
        for i, (m, r) in enumerate(zip(model, res["recs"])):
            qs, y, w, ex = m
            d = dict(input=i)
            if [core.frac(a) for a in y] != [core.frac(b) for b in r["y"]]:
                d["y"] = dict(reference=y, implementation=core.fstrs(r["y"]))
            if [core.frac(a) for a in ex] != [core.frac(b) for b in r["out"]]:
                d["explanation"] = dict(reference=ex, implementation=core.fstrs(r["out"]))
            mq = sorted(tuple(core.frac(a) for a in q) for q in qs)
            iq = sorted(tuple(core.frac(a) for a in q) for q in r["queries"])
            if mq != iq:
                d["queries"] = "the multiset of inputs handed to the model differs from {x masked by z with the reference value}"
            wm = [float(core.frac(a)) for a in w]
            wi = [math.log(v) if v > 0 else float("-inf") for v in r["w"]]
            if any(abs(a - b) > 2e-5 * (1 + abs(a)) for a, b in zip(wm, wi) if b > -69):
                d["log_weights"] = dict(reference=wm[:8], implementation=wi[:8])
            if len(d) > 1:
                out.append(d)
        return dict(clause="fit receives (Z, score(masked z), exp(-D^2/width^2)); explain = coef o mapping", differences=out[:3])
    if case["stream"] == "kshap":
        out = []
        for i, r in enumerate(res["recs"]):
            w = class_weights(case, i)
            ref = case["ref"]
            out.append(dict(input=i, F=case_F(case, i), full_rank=full_rank(r["Z"]),
                            coalition_sizes=sorted({sum(z) for z in r["Z"]}), implementation=r["out"]))
        return dict(clause="KernelShap on an additive model returns w_i (x_i - ref_i) summed per segment; coalitions have 1..F-1 features",
                    per_input=out)
    return dict(clause="probs / sampler construction", model=model)


def minimum_norm_F2(case, i, r):
    """the answer sklearn gives for F = 2: ((D1 - D2)/2, (D2 - D1)/2) broadcast by the mapping"""
    w = class_weights(case, i)
    c = chan_of(case["kind"], case["shape"])
    ref = case["ref"] if case["ref"] is not None else ([0.5] * 3 if (case["kind"] == "img" and c == 3) else [0.0] * c)
    mp = case["maps"][i] if case["maps"] is not None else list(range(npos_of(case["kind"], case["shape"])))
    D = [core.Fraction(0), core.Fraction(0)]
    for p, wp in enumerate(w):
        D[mp[p // c]] += wp * (core.frac(case["xs"][i][p]) - core.frac(ref[p % c]))
    mn = [(D[0] - D[1]) / 2, (D[1] - D[0]) / 2]
    exp = [float(mn[j]) for j in mp]
    scale = 1 + max(abs(float(D[0])), abs(float(D[1])))
    return all(abs(a - b) <= 1e-4 * scale for a, b in zip(exp, r["out"])), D


def expected_y(case, i, r):
    """s(masked z) for every recorded coalition, in exact arithmetic (additive family)"""
    w = class_weights(case, i)
    c = chan_of(case["kind"], case["shape"])
    ref = case["ref"] if case["ref"] is not None else ([0.5] * 3 if (case["kind"] == "img" and c == 3) else [0.0] * c)
    mp = case["maps"][i] if case["maps"] is not None else list(range(npos_of(case["kind"], case["shape"])))
    bias = sum(core.frac(t) * core.frac(k["b"]) for t, k in zip(case["ts"][i], case["params"]))
    ys = []
    for z in r["Z"]:
        ys.append(bias + sum(wp * (core.frac(case["xs"][i][p]) if z[mp[p // c]] else core.frac(ref[p % c]))
                             for p, wp in enumerate(w)))
    return ys


def classify_known(case, res, err, known):
    """C07-kshap-F2: KernelShap exactness case where every input has F == 2, everything but the exactness clause is
       right (coalition sizes, unit weights, y), and every compared input (design of rank 2, the most F = 2 allows)
       shows the minimum-norm answer ((D1-D2)/2, (D2-D1)/2); inputs whose design has rank 1 were not compared"""
    if err is not None or res is None or case.get("stream") != "kshap":
        return None
    ids = {e["id"] for e in known if e.get("status") == "known"}
    if "C07-kshap-F2" not in ids:
        return None
    matched = 0
    for i, r in enumerate(res["recs"]):
        if case_F(case, i) != 2:
            return None
        if any(sum(z) != 1 or len(z) != 2 for z in r["Z"]) or any(v != 1.0 for v in r["w"]):
            return None
        if [core.frac(v) for v in r["y"]] != expected_y(case, i, r):
            return None
        if rank([list(z) + [1] for z in r["Z"]]) < 2:
            continue
        ok, D = minimum_norm_F2(case, i, r)
        if not ok:
            return None
        matched += 1
    return "C07-kshap-F2" if matched else None


def shrink(case):
    if case["stream"] not in ("lime", "kshap"):
        return
    n = len(case["xs"])
    if n > 1:
        for i in range(n):
            c = copy.deepcopy(case)
            del c["xs"][i]
            del c["ts"][i]
            if c["maps"] is not None:
                del c["maps"][i]
            yield c
    if len(case["params"]) > 1:
        for i in range(len(case["params"])):
            c = copy.deepcopy(case)
            del c["params"][i]
            for t in c["ts"]:
                del t[i]
            yield c
    if any(k["X"] for k in case["params"]):
        c = copy.deepcopy(case)
        for k in c["params"]:
            k["X"] = []
        yield c
    if any(any(k["V"]) for k in case["params"]):
        c = copy.deepcopy(case)
        for k in c["params"]:
            k["V"] = [0] * len(k["V"])
        yield c
    Fmax = max(case_F(case, i) for i in range(n))
    if case["nb"] > Fmax + 1:
        c = copy.deepcopy(case)
        c["nb"] = max(Fmax + 1, case["nb"] // 2)
        yield c
    if case["bs"] is not None:
        c = copy.deepcopy(case)
        c["bs"] = None
        yield c
