"""c02.py — which function is explained: dispatch tables, task operators, operator selection end to end, output_layer.

Streams (case["stream"]):
  dispatch   exhaustive: every (operator spec) x (model kind) through get_operator / get_inference_function /
             get_gradient_functions; the returned functions are identified by identity or by behaviour on a probe
  operator   predictions / segmentation / object-detection operators on random outputs, targets and boxes
  select     Occlusion (black-box) and Saliency / GradientInput (white-box) built with operator given as None, task
             name, Tasks member or custom callable, on F-quad models, against the proved models with that score
  olayer     white-box methods built with output_layer=L (name or negative / positive index) on dense-relu nets with a
             non-linear head: against the Coq net model (Saliency, GradientInput) and against the same method built on
             the truncated Keras model (all gradient white-box methods)
"""
import fractions
import math
import numpy as np
import core
import families as fam

PROP = "C02"
IMPORTS = "C02.Model C06.Model"
SHARD = 40
RULE = ("dispatch stream exhaustive (7 model kinds x 21 operator specs); operator stream: random dyadic outputs / masks / box "
        "sets (1-4 predicted, 1-3 reference boxes, 1-4 classes, rational-norm class vectors, degenerate and disjoint boxes); "
        "select stream: 6 operator spellings x {Occlusion, Saliency, GradientInput}; olayer stream: nets of 2-4 dense layers, "
        "layer by name / negative / positive index, relu or softmax head; non-trivial = not the default spelling / chosen "
        "layer is not the last / more than one box")
ASSUMPTIONS = ["TensorFlow autodiff differentiates the selected operator correctly (validated on F-quad and dense-relu nets)",
               "tf.norm is the Euclidean norm; class vectors in generated cases have rational norms",
               "_EPSILON enters float32 arithmetic as float32(1e-4)",
               "TfLite interpreter kind is modelled in the dispatch table but not exercised"]

ALIASES = ["classification", "regression", "semantic segmentation", "object detection", "object detection box position",
           "object detection box proba", "object detection box class"]
MEMBERS = ["CLASSIFICATION", "REGRESSION", "SEMANTIC_SEGMENTATION", "OBJECT_DETECTION", "OBJECT_DETECTION_BOX_POSITION",
           "OBJECT_DETECTION_BOX_PROBA", "OBJECT_DETECTION_BOX_CLASS"]
KINDS = ["KerasModel", "TorchWrapped", "TfModule", "KerasLayer", "PlainCallable", "PredictProba"]
EPS32 = float(np.float32(1e-4))


# ----------------------------------------------------------------------------- generation
def gen_dispatch():
    specs = [["none"]] + [["name", a] for a in ALIASES] + [["name", "segmentation"], ["name", "Classification"]] + \
            [["member", m] for m in MEMBERS] + [["custom", 3], ["custom", 4], ["custom", 2]]
    return [dict(stream="dispatch", kind=k, spec=s) for k in KINDS for s in specs]


VECS = [([1, 0, 0], 1), ([0, 1, 0], 1), ([0, 0, 1], 1), ([3, 4, 0], 5), ([1, 2, 2], 3), ([2, 3, 6], 7), ([0, 0, 0], 0),
        ([4, 4, 2], 6), ([0, 3, 4], 5)]


def gen_class_vec(rng, nc):
    if nc == 1:
        v = rng.choice([1, 2, 0.5, 0])
        return [v]
    v, _ = rng.choice(VECS)
    v = list(v)[:3]
    if nc == 2:
        v = rng.choice([[1, 0], [0, 1], [3, 4], [4, 3], [0, 0]])
    if nc == 4:
        v = v + [0]
        rng.shuffle(v)
    s = rng.choice([1, 1, 0.5, 0.25, 2])
    return [x * s for x in v]


def gen_box(rng):
    x1, y1 = rng.randint(0, 12) / 4, rng.randint(0, 12) / 4
    w, h = rng.randint(0, 8) / 4, rng.randint(0, 8) / 4
    return [x1, y1, x1 + w, y1 + h]


def gen_operator_case(rng):
    op = rng.choice(["predictions", "segmentation", "detection", "detection", "detection"])
    if op == "predictions":
        n, c = rng.randint(1, 4), rng.randint(1, 5)
        return dict(stream="operator", op=op, out=[fam.dyadic(rng, c) for _ in range(n)], t=fam.gen_targets(rng, n, c))
    if op == "segmentation":
        n, h, w, c = rng.randint(1, 3), rng.randint(1, 4), rng.randint(1, 4), rng.randint(1, 3)
        out = [fam.dyadic(rng, h * w * c, 0, 1) for _ in range(n)]
        t = []
        for _ in range(n):
            m = [rng.choice([0, 0, 1]) for _ in range(h * w * c)]
            if rng.random() < 0.3:
                m = [v * rng.choice([1, 0.5, -1]) for v in m]      # border-style masks with signs / weights
            if not any(m):
                m[rng.randrange(len(m))] = 1
            t.append(m)
        return dict(stream="operator", op=op, shape=[h, w, c], out=out, t=t)
    nc = rng.randint(1, 4)
    n = rng.randint(1, 3)
    nb_pred = rng.randint(1, 4)
    multi = rng.random() < 0.6
    alias = rng.choice(["object detection", "object detection box position", "object detection box proba",
                        "object detection box class", "OBJECT_DETECTION", "OBJECT_DETECTION_BOX_PROBA"])
    objs, refs = [], []
    nref = rng.randint(1, 3) if multi else 1
    for _ in range(n):
        preds = [gen_box(rng) + [rng.randint(0, 8) / 8] + gen_class_vec(rng, nc) for _ in range(nb_pred)]
        rs = []
        for _ in range(nref):
            b = list(rng.choice(preds)[:4]) if rng.random() < 0.5 else gen_box(rng)
            rs.append(b + [rng.randint(0, 8) / 8] + gen_class_vec(rng, nc))
        objs.append(preds)
        refs.append(rs)
    return dict(stream="operator", op="detection", alias=alias, nc=nc, multi=multi, objs=objs, refs=refs)


SPELLINGS = ["none", "classification", "regression", "CLASSIFICATION", "REGRESSION", "custom_sq"]


def gen_select_case(rng):
    method = rng.choice(["Occlusion", "Saliency", "GradientInput"])
    d = rng.randint(2, 6)
    ncls = rng.choice([1, 1, 2, 3])        # single-output models (regression / one logit): (N, 1) predictions and targets
    n = rng.choice([1, 2, 2, 3])
    wrapping = rng.choice(["numpy", "tfmodule"]) if method == "Occlusion" else rng.choice(["tfmodule", "keras"])
    # the named task operators are TensorFlow functions: they call model(inputs) on symbolic tensors, so a NumPy
    # callable can only be combined with the default operator or with a custom operator written for it
    spelling = rng.choice(["none", "none", "custom_sq"]) if wrapping == "numpy" else rng.choice(SPELLINGS)
    return dict(stream="select", method=method, spelling=spelling, d=d, wrapping=wrapping,
                params=fam.gen_fquad(rng, ncls, d), xs=[fam.dyadic(rng, d) for _ in range(n)], ts=fam.gen_targets(rng, n, ncls),
                bs=rng.choice([1, 2, None, None]), patch=rng.randint(1, d), stride=rng.randint(1, d))


def gen_olayer_case(rng):
    depth = rng.randint(2, 4)
    d_in = rng.randint(2, 4)
    layers = []
    prev = d_in
    n_dense = 0
    for i in range(depth):
        if i > 0 and rng.random() < 0.5:
            # a layer WITHOUT an `activation` attribute (Rescaling = temperature / offset on the previous activations):
            # in the Coq net it is the dense layer with kernel scale*I and bias offset
            sc, off = rng.choice([0.5, 2.0, 0.25, -1.0]), rng.choice([0.0, 0.25, -0.5])
            layers.append(dict(name=f"L{i}", kind="rescale", scale=sc, offset=off,
                               W=[[sc if a == b else 0 for b in range(prev)] for a in range(prev)], b=[off] * prev, relu=False))
            continue
        w = rng.randint(2, 4)
        W = [[rng.randint(-2, 2) for _ in range(prev)] for _ in range(w)]
        b = [rng.randint(-1, 1) for _ in range(w)]
        layers.append(dict(name=f"L{i}", kind="dense", W=W, b=b, relu=(rng.random() < 0.6)))
        prev = w
        n_dense += 1
    head = rng.choice(["relu", "relu", "softmax", "sigmoid"])
    if head == "relu":
        if layers[-1]["kind"] != "dense":
            w = rng.randint(2, 4)
            layers.append(dict(name=f"L{depth}", kind="dense", W=[[rng.randint(-2, 2) for _ in range(prev)] for _ in range(w)],
                               b=[rng.randint(-1, 1) for _ in range(w)], relu=True))
            depth += 1
        layers[-1]["relu"] = True
    k = rng.randint(1, depth)             # number of layers kept
    resc = [i + 1 for i, l in enumerate(layers) if l["kind"] == "rescale"]
    if resc and rng.random() < 0.6:
        k = rng.choice(resc)              # the chosen layer is one WITHOUT an `activation` attribute
    how = rng.choice(["name", "neg", "pos"])
    if how == "name":
        ref = layers[k - 1]["name"]
    elif how == "neg":
        ref = k - (depth + 1)             # model.layers = [Input] + layers (+ activation layer for softmax / sigmoid heads)
        if head in ("softmax", "sigmoid"):
            ref -= 1
    else:
        ref = k
    n = rng.randint(1, 3)
    others = ["IntegratedGradients", "SmoothGrad", "SquareGrad", "DeconvNet", "GuidedBackprop"]
    return dict(stream="olayer", layers=layers, head=head, ref=ref, kept=k, d_in=d_in,
                methods=["Saliency", "GradientInput"] + rng.sample(others, 1),
                xs=[fam.dyadic(rng, d_in) for _ in range(n)],
                ts=[[rng.randint(-2, 2) / 2 for _ in range(len(layers[k - 1]["W"]))] for _ in range(n)], bs=rng.choice([1, 2, None]))


def gen_gradcam_op_case(rng):
    return dict(stream="gradcam_op", method=rng.choice(["GradCAM", "GradCAMPP"]), seed=rng.randrange(1 << 30),
                shape=[rng.choice([5, 6]), rng.choice([4, 7]), 1], n=rng.randint(1, 2))


def generate(rng, tier):
    cases = gen_dispatch()
    cases += [gen_gradcam_op_case(rng) for _ in range(3 if tier == "quick" else 12)]
    n = 80 if tier == "quick" else 800
    for _ in range(n):
        r = rng.random()
        cases.append(gen_operator_case(rng) if r < 0.36 else gen_select_case(rng) if r < 0.68 else gen_olayer_case(rng))
    return cases


def nontrivial(case):
    s = case["stream"]
    if s == "gradcam_op":
        return True
    if s == "dispatch":
        return case["spec"][0] != "none"
    if s == "operator":
        return case["op"] != "predictions" or len(case["out"]) > 1
    if s == "select":
        return case["spelling"] != "none"
    return case["kept"] < len(case["layers"]) or case["head"] != "relu"


def distribution(cases):
    return dict(stream=core.hist(c["stream"] for c in cases),
                operator=core.hist(c.get("op") for c in cases if c["stream"] == "operator"),
                spelling=core.hist(c.get("spelling") for c in cases if c["stream"] == "select"),
                method=core.hist(c.get("method") for c in cases if c["stream"] == "select"),
                olayer_kept_vs_depth=core.hist(f"{c['kept']}/{len(c['layers'])}" for c in cases if c["stream"] == "olayer"),
                olayer_head=core.hist(c.get("head") for c in cases if c["stream"] == "olayer"))


# ----------------------------------------------------------------------------- implementation: dispatch
_probe = None


def probe_objects():
    """model objects of every kind computing the same linear map W x, plus probes"""
    global _probe
    if _probe is not None:
        return _probe
    import tensorflow as tf
    from xplique.wrappers import TorchWrapper
    import torch
    W = np.array([[1.0, 2.0, -1.0], [0.5, -1.0, 2.0]], dtype=np.float32)
    inp = tf.keras.Input((3,))
    dl = tf.keras.layers.Dense(2, use_bias=False)
    keras = tf.keras.Model(inp, dl(inp))
    dl.set_weights([W.T])

    class Mod(tf.Module):
        def __call__(self, x):
            return tf.matmul(x, tf.constant(W.T))
    lin = torch.nn.Linear(3, 2, bias=False)
    with torch.no_grad():
        lin.weight.copy_(torch.tensor(W))
    lin.eval()
    eager_before = tf.config.functions_run_eagerly()
    torchw = TorchWrapper(lin, "cpu")
    tf.config.run_functions_eagerly(eager_before)

    class PP:
        def predict_proba(self, x):
            return np.asarray(x) @ W.T
    _probe = dict(W=W, KerasModel=keras, TorchWrapped=torchw, TfModule=Mod(), KerasLayer=dl,
                  PlainCallable=(lambda x: np.asarray(x) @ W.T), PredictProba=PP())
    return _probe


def custom_op(nargs):
    import tensorflow as tf
    if nargs == 2:
        return lambda model, inputs: tf.reduce_sum(model(inputs), -1)
    if nargs == 3:
        return lambda model, inputs, targets: tf.reduce_sum(model(inputs) ** 2 * targets, -1)
    return lambda model, inputs, targets, extra=None: tf.reduce_sum(model(inputs) ** 2 * targets, -1)


_ident_cache = {}


def identify_operator(fn, custom):
    """map an operator function to the opsem code of the model, by identity then by behaviour"""
    if fn is not custom and id(fn) in _ident_cache and _ident_cache[id(fn)][0] is fn:
        return _ident_cache[id(fn)][1]
    code = _identify_operator(fn, custom)
    if fn is not custom:
        _ident_cache[id(fn)] = (fn, code)
    return code


def _identify_operator(fn, custom):
    import tensorflow as tf
    from xplique.commons import operators as ops
    from xplique.commons.callable_operations import predictions_one_hot_callable
    from xplique.commons.exceptions import no_gradients_available
    if fn is custom:
        return "OpCustom"
    if fn is ops.predictions_operator:
        return "OpPredictions"
    if fn is ops.semantic_segmentation_operator:
        return "OpSegmentation"
    if fn is predictions_one_hot_callable:
        return "OpCallablePredictions"
    if fn is no_gradients_available:
        return "NoGradient"
    # object detection family: identify by behaviour on a probe where the three factors differ
    objs = tf.constant([[[0.0, 0.0, 2.0, 2.0, 0.5, 3.0, 4.0], [1.0, 1.0, 3.0, 3.0, 0.25, 1.0, 0.0]]], tf.float32)
    refs = tf.constant([[0.0, 0.0, 2.0, 3.0, 1.0, 1.0, 0.0]], tf.float32)
    try:
        v = float(fn(lambda x: objs, tf.zeros((1, 2, 2, 1)), refs)[0])
    except Exception:
        return "Unknown"
    for p in (True, False):
        for c in (True, False):
            ref = float(ops.object_detection_operator(lambda x: objs, tf.zeros((1, 2, 2, 1)), refs,
                                                      include_detection_probability=p, include_classification_score=c)[0])
            others = [float(ops.object_detection_operator(lambda x: objs, tf.zeros((1, 2, 2, 1)), refs,
                                                          include_detection_probability=p2, include_classification_score=c2)[0])
                      for p2 in (True, False) for c2 in (True, False) if (p2, c2) != (p, c)]
            if abs(v - ref) < 1e-6 and all(abs(v - o) > 1e-4 for o in others):
                return f"OpDetection {core.cbool(p)} {core.cbool(c)}"
    return "Unknown"


def identify_gradient(gfn, model_obj, custom):
    """identify which operator a gradient function differentiates, by behaviour on the linear probe model"""
    import tensorflow as tf
    from xplique.commons.exceptions import no_gradients_available
    from xplique.commons import operators_operations as oo
    if gfn is no_gradients_available:
        return "NoGradient"
    if gfn is oo.gradients_predictions:
        return "OpPredictions"
    P = probe_objects()
    W = P["W"]
    x = tf.constant([[1.0, -2.0, 0.5]], tf.float32)
    t = tf.constant([[2.0, -1.0]], tf.float32)
    keras = P["KerasModel"]
    try:
        g = np.asarray(gfn(keras, x, t))[0]
    except Exception:
        return "GradientFailed"
    if np.allclose(g, (W.T @ np.array([2.0, -1.0])), atol=1e-5):
        return "OpPredictions"
    fx = W @ np.array([1.0, -2.0, 0.5])
    if np.allclose(g, W.T @ (2 * fx * np.array([2.0, -1.0])), atol=1e-5):
        return "OpCustom"
    return "OtherOperator"


def run_dispatch(case):
    import tensorflow as tf
    from xplique.commons import Tasks, get_inference_function, get_gradient_functions
    from xplique.commons.operators_operations import get_operator
    from xplique.commons.exceptions import no_gradients_available
    from xplique.attributions import Occlusion
    P = probe_objects()
    model = P[case["kind"]]
    spec = case["spec"]
    custom = None
    if spec[0] == "none":
        op = None
    elif spec[0] == "name":
        op = spec[1]
    elif spec[0] == "member":
        op = getattr(Tasks, spec[1])
    else:
        op = custom = custom_op(spec[1])
    res = {}
    try:
        res["get_operator"] = identify_operator(get_operator(op), custom)
    except BaseException as e:
        res["get_operator"] = "Error"
    try:
        inf, binf = get_inference_function(model, op)
        res["inference"] = identify_operator(inf, custom)
    except BaseException:
        res["inference"] = "Error"
    try:
        g, bg = get_gradient_functions(model, op)
        code = identify_operator(g, custom)
        if code == "Unknown":
            code = identify_gradient(g, model, custom)
            # gradient of a detection / segmentation operator: fall back to comparing with the inference identification
            if code in ("OtherOperator", "GradientFailed"):
                code = "GradOf:" + res["inference"]
        res["gradient"] = code
    except BaseException:
        res["gradient"] = "Error"
    # a black-box explainer never holds a gradient
    try:
        e = Occlusion(model, operator=op)
        res["blackbox_gradient_none"] = e.gradient is no_gradients_available and e.batch_gradient is no_gradients_available
        res["blackbox_inference"] = identify_operator(e.inference_function, custom)
    except BaseException:
        res["blackbox_gradient_none"] = True
        res["blackbox_inference"] = "Error"
    return res


# ----------------------------------------------------------------------------- implementation: operators
def run_operator(case):
    import tensorflow as tf
    from xplique.commons import operators as ops, Tasks
    from xplique.commons.operators_operations import get_operator
    out = np.array(case["out"], np.float32) if "out" in case else None
    if case["op"] == "predictions":
        t = np.array(case["t"], np.float32)
        v = ops.predictions_operator(lambda x: tf.constant(out), tf.zeros((len(out), 1)), tf.constant(t))
        return dict(values=[float(a) for a in np.asarray(v)])
    if case["op"] == "segmentation":
        h, w, c = case["shape"]
        o = out.reshape(-1, h, w, c)
        t = np.array(case["t"], np.float32).reshape(-1, h, w, c)
        v = ops.semantic_segmentation_operator(lambda x: tf.constant(o), tf.zeros((len(o), h, w, 1)), tf.constant(t))
        return dict(values=[float(a) for a in np.asarray(v)])
    alias = case["alias"]
    fn = get_operator(alias) if alias[0].islower() else getattr(Tasks, alias)
    objs = tf.constant(np.array(case["objs"], np.float32))
    refs = np.array(case["refs"], np.float32)
    if not case["multi"]:
        refs = refs[:, 0, :]
    v = fn(lambda x: objs, tf.zeros((len(case["objs"]), 2, 2, 1)), tf.constant(refs))
    return dict(values=[float(a) for a in np.asarray(v)])


# ----------------------------------------------------------------------------- implementation: select
def spelled_operator(sp):
    import tensorflow as tf
    from xplique.commons import Tasks
    if sp == "none":
        return None
    if sp in ("classification", "regression"):
        return sp
    if sp in ("CLASSIFICATION", "REGRESSION"):
        return getattr(Tasks, sp)
    return lambda model, inputs, targets: tf.reduce_sum(tf.cast(model(inputs), tf.float32) ** 2 * targets, axis=-1)


def run_select(case):
    import tensorflow as tf
    from xplique.attributions import Occlusion, Saliency, GradientInput
    d = case["d"]
    if case["wrapping"] == "numpy":
        model = fam.FQuadNumpy(case["params"])
        if case["spelling"] == "custom_sq":
            inner = model
            model = lambda x: tf.constant(inner(np.asarray(x)), tf.float32)    # custom operator calls model(inputs) with a tensor
    elif case["wrapping"] == "tfmodule":
        model = fam.fquad_tf_module(case["params"], [d])
    else:
        model = fam.fquad_keras(case["params"], [d])
    op = spelled_operator(case["spelling"])
    xs = np.array(case["xs"], np.float32)
    ts = np.array(case["ts"], np.float32)
    if case["method"] == "Occlusion":
        e = Occlusion(model, batch_size=case["bs"], operator=op, patch_size=case["patch"], patch_stride=case["stride"])
    elif case["method"] == "Saliency":
        if op is None and case["wrapping"] != "keras":
            op = "classification"      # a tf.Module has no default gradient: documented, the dispatch stream checks it
        e = Saliency(model, batch_size=case["bs"], operator=op)
    else:
        if op is None and case["wrapping"] != "keras":
            op = "classification"
        e = GradientInput(model, batch_size=case["bs"], operator=op)
    out = np.asarray(e.explain(xs, ts))
    return dict(maps=[[float(v) for v in m.reshape(-1)] for m in out])


# ----------------------------------------------------------------------------- implementation: output_layer
def build_net(case):
    import tensorflow as tf
    inp = tf.keras.Input((case["d_in"],))
    x = inp
    dense = []
    for l in case["layers"]:
        if l.get("kind", "dense") == "rescale":
            x = tf.keras.layers.Rescaling(scale=l["scale"], offset=l["offset"], name=l["name"])(x)
            continue
        lay = tf.keras.layers.Dense(len(l["W"]), activation="relu" if l["relu"] else None, name=l["name"])
        x = lay(x)
        dense.append((lay, l))
    if case["head"] in ("softmax", "sigmoid"):
        x = tf.keras.layers.Activation(case["head"], name="head_act")(x)
    m = tf.keras.Model(inp, x)
    for lay, l in dense:
        lay.set_weights([np.array(l["W"], np.float32).T, np.array(l["b"], np.float32)])
    return m


def run_olayer(case):
    import tensorflow as tf
    from xplique.attributions import (Saliency, GradientInput, IntegratedGradients, SmoothGrad, VarGrad, SquareGrad,
                                      DeconvNet, GuidedBackprop)
    model = build_net(case)
    ref = case["ref"]
    xs = np.array(case["xs"], np.float32)
    ts = np.array(case["ts"], np.float32)
    trunc = tf.keras.Model(model.input, model.get_layer(case["layers"][case["kept"] - 1]["name"]).output)
    # interleaving: an explainer on the FULL model exists before the ones built with output_layer (same Input tensor, and
    # often the same output width): which model an explainer holds must not depend on it
    Saliency(model)
    res = dict(methods={})
    specs = [("Saliency", Saliency, {}), ("GradientInput", GradientInput, {}),
             ("IntegratedGradients", IntegratedGradients, dict(steps=5)),
             ("SmoothGrad", SmoothGrad, dict(nb_samples=3, noise=0.0)), ("SquareGrad", SquareGrad, dict(nb_samples=3, noise=0.0)),
             ("DeconvNet", DeconvNet, {}), ("GuidedBackprop", GuidedBackprop, {})]
    for name, cls, kw in specs:
        if name not in case["methods"]:
            continue
        a = np.asarray(cls(model, output_layer=ref, batch_size=case["bs"], **kw).explain(xs, ts))
        b = np.asarray(cls(trunc, batch_size=case["bs"], **kw).explain(xs, ts))
        res["methods"][name] = dict(with_output_layer=[[float(v) for v in m.reshape(-1)] for m in a],
                                    on_truncated=[[float(v) for v in m.reshape(-1)] for m in b])
    return res


def run_gradcam_op(case):
    """Grad-CAM(++) built with a custom operator must explain THAT score: reference computed with plain TensorFlow"""
    import tensorflow as tf
    import xplique.attributions as A
    rs = np.random.RandomState(case["seed"] % (1 << 31))
    h, w, c = case["shape"]
    inp = tf.keras.Input((h, w, c))
    conv = tf.keras.layers.Conv2D(2, 2, activation="relu", name="conv")
    x = conv(inp)
    x = tf.keras.layers.Flatten()(x)
    out = tf.keras.layers.Dense(3, name="logits")(x)
    model = tf.keras.Model(inp, out)
    model.set_weights([(rs.randint(-2, 3, size=v.shape) / 2.0 + 0.25).astype(np.float32) for v in model.get_weights()])
    xs = (rs.randint(0, 9, size=(case["n"], h, w, c)) / 8.0).astype(np.float32)
    ts = np.eye(3, dtype=np.float32)[rs.randint(0, 3, size=case["n"])]
    op = lambda m, inputs, targets: tf.reduce_sum(m(inputs) ** 2 * targets, axis=-1)
    cls = getattr(A, case["method"])
    with_op = np.asarray(cls(model, operator=op).explain(xs, ts))
    default = np.asarray(cls(model).explain(xs, ts))
    # reference for Grad-CAM (not ++): relu(sum_k mean_ab(d score / d A_k) A_k), bicubic resize
    two = tf.keras.Model(model.input, [conv.output, model.output])
    xt = tf.constant(xs)
    with tf.GradientTape() as tape:
        a, p = two(xt)
        score = tf.reduce_sum(p ** 2 * tf.constant(ts), axis=-1)
    g = tape.gradient(score, a)
    ref = None
    if case["method"] == "GradCAM":
        wts = tf.reduce_mean(g, axis=(1, 2), keepdims=True)
        cam = tf.nn.relu(tf.reduce_sum(wts * a, axis=-1))
        ref = np.asarray(tf.image.resize(cam[..., None], (h, w), method=tf.image.ResizeMethod.BICUBIC))
    return dict(equals_default=bool(np.allclose(with_op, default, rtol=1e-6, atol=1e-7)),
                equals_reference=None if ref is None else bool(np.allclose(with_op, ref, rtol=1e-4, atol=1e-5)),
                default_differs_from_reference=None if ref is None else bool(not np.allclose(default, ref, rtol=1e-3, atol=1e-4)))


def run_impl(case):
    return dict(dispatch=run_dispatch, operator=run_operator, select=run_select, olayer=run_olayer,
                gradcam_op=run_gradcam_op)[case["stream"]](case)


# ----------------------------------------------------------------------------- Coq side
PRELUDE = """
From Coq Require Import String.
Open Scope string_scope.
Definition opsem_eqb (a b : opsem) : bool :=
  match a, b with
  | OpPredictions, OpPredictions | OpSegmentation, OpSegmentation | OpCustom, OpCustom
  | OpCallablePredictions, OpCallablePredictions => true
  | OpDetection p c, OpDetection p' c' => Bool.eqb p p' && Bool.eqb c c'
  | _, _ => false end.
Definition oo_eqb (a b : option opsem) : bool :=
  match a, b with Some x, Some y => opsem_eqb x y | None, None => true | _, _ => false end.
(* gradient codes from the harness: Some (Some g) / Some None (no gradient) / None (error) *)
Definition ooo_eqb (a b : option (option opsem)) : bool :=
  match a, b with Some x, Some y => oo_eqb x y | None, None => true | _, _ => false end.
Fixpoint norm_tab (tab : list (list Qc * Qc)) (v : list Qc) : Qc :=
  match tab with [] => Qcx.q 0 1 | (w, n) :: r => if qlist_eqb w v then n else norm_tab r v end.
Definition close_list (tol : Qc) (a b : list Qc) : bool :=
  Nat.eqb (List.length a) (List.length b) &&
  forallb (fun p => qclose tol (Qcx.q 1 1 + Qcabs (fst p))%Qc (fst p) (snd p)) (combine a b).
Definition close_list2 (tol scale : Qc) (a b : list (list Qc)) : bool :=
  Nat.eqb (List.length a) (List.length b) &&
  forallb (fun p => qlist_close tol scale (fst p) (snd p)) (combine a b).
Definition sq_score (ks : list qclass) (x t : list Qc) : Qc := dot (map (fun v => (v * v)%Qc) (fquad_out ks x)) t.
Definition sq_grad (ks : list qclass) (x t : list Qc) : list Qc :=
  fquad_grad ks x (map2 (fun o tc => (two * o * tc)%Qc) (fquad_out ks x) t).
Definition oeq (a : option (list Qc)) (b : list Qc) : bool := match a with Some l => qlist_eqb l b | None => false end.
"""

TOL = "(Qcx.q 1 100000)"


def coq_spec(spec):
    if spec[0] == "none":
        return "SNone"
    if spec[0] == "name":
        return f'(SName "{spec[1]}")'
    if spec[0] == "member":
        m = dict(CLASSIFICATION="OpPredictions", REGRESSION="OpPredictions", SEMANTIC_SEGMENTATION="OpSegmentation",
                 OBJECT_DETECTION="(OpDetection true true)", OBJECT_DETECTION_BOX_POSITION="(OpDetection false false)",
                 OBJECT_DETECTION_BOX_PROBA="(OpDetection true false)", OBJECT_DETECTION_BOX_CLASS="(OpDetection false true)")
        return f"(SMember {m[spec[1]]})"
    return f"(SCustom {spec[1]})"


def code_to_oo(code):
    if code == "Error":
        return "None"
    if code in ("Unknown", "OtherOperator", "GradientFailed", "NoGradient"):
        return None
    return f"(Some ({code}))"


def coq_term(case, res):
    s = case["stream"]
    if s == "gradcam_op":
        # the property: the custom operator is what gets explained (Grad-CAM: equals the reference; Grad-CAM++: at least it
        # must not coincide with the default-score explanation)
        ok = (res["equals_reference"] is True) if res["equals_reference"] is not None else (not res["equals_default"])
        return core.cbool(bool(ok))
    if s == "dispatch":
        k, sp = case["kind"], coq_spec(case["spec"])
        parts = []
        for key, term in (("get_operator", f"get_operator {sp}"), ("inference", f"inference_of {k} {sp}"),
                          ("blackbox_inference", f"inference_of {k} {sp}")):
            oo = code_to_oo(res[key])
            if oo is None:
                return "false"
            parts.append(f"oo_eqb ({term}) {oo}")
        g = res["gradient"]
        if g.startswith("GradOf:"):
            g = g[len("GradOf:"):]
        if g == "Error":
            gg = "None"
        elif g == "NoGradient":
            gg = "(Some None)"
        else:
            oo = code_to_oo(g)
            if oo is None:
                return "false"
            gg = f"(Some {oo})"
        parts.append(f"ooo_eqb (gradient_of {k} {sp}) {gg}")
        parts.append(core.cbool(res["blackbox_gradient_none"]))
        return "(" + " && ".join(parts) + ")"
    if s == "operator":
        if case["op"] == "predictions":
            model = f"map2 predictions_op {core.cqlist2(case['out'])} {core.cqlist2(case['t'])}"
            return f"qlist_eqb ({model}) {core.cqlist(res['values'])}"
        if case["op"] == "segmentation":
            model = f"map2 segmentation_op {core.cqlist2(case['out'])} {core.cqlist2(case['t'])}"
            return f"close_list {TOL} ({model}) {core.cqlist(res['values'])}"
        flags = {"object detection": (True, True), "object detection box position": (False, False),
                 "object detection box proba": (True, False), "object detection box class": (False, True),
                 "OBJECT_DETECTION": (True, True), "OBJECT_DETECTION_BOX_PROBA": (True, False)}[case["alias"]]
        vecs = {}
        for img in case["objs"] + case["refs"]:
            for o in img:
                v = tuple(o[5:])
                sq = sum(core.frac(a) ** 2 for a in v)
                r = fractions.Fraction(math.isqrt(sq.numerator), math.isqrt(sq.denominator))
                assert r * r == sq, "generator produced a class vector with irrational norm"
                vecs[v] = r
        tab = core.cl([f"({core.cqlist(list(v))}, {core.cq(r)})" for v, r in vecs.items()])
        objs = core.cl([core.cqlist2(img) for img in case["objs"]])
        refs = core.cl([core.cqlist2(img) for img in case["refs"]])
        model = (f"map2 (detection_op {core.cq(EPS32)} (norm_tab {tab}) {core.cbool(flags[0])} {core.cbool(flags[1])}) "
                 f"{objs} {refs}")
        return f"close_list {TOL} ({model}) {core.cqlist(res['values'])}"
    if s == "select":
        ks = fam.coq_fquad(case["params"])
        sq = case["spelling"] == "custom_sq"
        xs, ts = core.cqlist2(case["xs"]), core.cqlist2(case["ts"])
        if case["method"] == "Occlusion":
            score = f"(sq_score {ks})" if sq else f"(fquad {ks})"
            bs = core.copt(None if case["bs"] is None else core.cnat(case["bs"]))
            model = f"occlusion {score} (Tab {case['d']} {case['patch']} {case['stride']}) {bs} (Qcx.q 0 1) {xs} {ts}"
        else:
            grad = f"(sq_grad {ks})" if sq else f"(fquad_grad {ks})"
            if case["method"] == "Saliency":
                model = f"map2 (fun x t => map Qcabs ({grad} x t)) {xs} {ts}"
            else:
                model = f"map2 (fun x t => vmul x ({grad} x t)) {xs} {ts}"
        if sq:
            # tf's `** 2` is pow(): not exact in float32 (observed: 19.9375 ** 2 off by one ulp); the squared scores are
            # compared within 1e-5 of the largest |t| . o^2 the method can evaluate (inputs with any subset of features at 0)
            from math import ceil
            plain = fam.FQuadNumpy(case["params"])
            big = 1.0
            for x, t in zip(case["xs"], case["ts"]):
                pts = [np.array(x, np.float64)]
                for a in range(0, ceil((case["d"] - case["patch"] + 1) / case["stride"])) if case["method"] == "Occlusion" else []:
                    z = np.array(x, np.float64)
                    z[a * case["stride"]:a * case["stride"] + case["patch"]] = 0.0
                    pts.append(z)
                o = plain(np.stack(pts))
                big = max(big, float(np.max((o * o) @ np.abs(np.array(t, np.float64)))), float(np.max(np.abs(o)) * np.max(np.abs(t)) * 2 * (1 + np.max(np.abs(x)))))
            return f"close_list2 {TOL} {core.cq(big)} ({model}) {core.cqlist2(res['maps'])}"
        return f"qlist2_eqb ({model}) {core.cqlist2(res['maps'])}"
    # olayer
    for name, r in res["methods"].items():
        a, b = np.array(r["with_output_layer"]), np.array(r["on_truncated"])
        if a.shape != b.shape or not np.allclose(a, b, rtol=1e-5, atol=1e-6):
            return "false"
    layers = list(case["layers"])
    if case["head"] in ("softmax", "sigmoid"):
        # the stand-alone Activation layer occupies a slot of model.layers (indices must line up); it is never kept by a
        # generated case (the chosen layer always precedes the non-linear head), so its function is a placeholder
        w = len(layers[-1]["W"])
        layers.append(dict(name="head_act", W=[[1 if i == j else 0 for j in range(w)] for i in range(w)], b=[0] * w, relu=False))
    net = core.cl(["{| d_name := \"%s\"; d_W := %s; d_b := %s; d_relu := %s |}" % (
        l["name"], core.cqlist2(l["W"]), core.cqlist(l["b"]), core.cbool(l["relu"])) for l in layers])
    ref = f'(ByName "{case["ref"]}")' if isinstance(case["ref"], str) else f"(ByIndex ({case['ref']})%Z)"
    parts = []
    for x, t, ms, mg in zip(case["xs"], case["ts"], res["methods"]["Saliency"]["with_output_layer"],
                            res["methods"]["GradientInput"]["with_output_layer"]):
        parts.append(f"oeq (saliency_with wb_model net (Some {ref}) {core.cqlist(x)} {core.cqlist(t)}) {core.cqlist(ms)}")
        parts.append(f"oeq (gradinput_with wb_model net (Some {ref}) {core.cqlist(x)} {core.cqlist(t)}) {core.cqlist(mg)}")
    return f"(let net := {net} in " + " && ".join(parts) + ")"


def classify_known(case, res, err, known):
    """KNOWN-FINDING C02-gradcam-operator: Grad-CAM / Grad-CAM++ ignore `operator=` — only when the explanation built with
    the custom operator is exactly the default-score explanation"""
    if err is None and res is not None and case.get("stream") == "gradcam_op" and res.get("equals_default") and \
            any(e.get("id") == "C02-gradcam-operator" and e.get("status") == "known" for e in known):
        return "C02-gradcam-operator"
    return None


def explain_failure(case, res, model):
    if res is None:
        return "implementation raised on a valid configuration"
    if case["stream"] == "olayer":
        bad = {}
        for name, r in res["methods"].items():
            a, b = np.array(r["with_output_layer"]), np.array(r["on_truncated"])
            if a.shape != b.shape or not np.allclose(a, b, rtol=1e-5, atol=1e-6):
                bad[name] = dict(with_output_layer=r["with_output_layer"], on_truncated_model=r["on_truncated"])
        return dict(clause="a white-box method built with output_layer=L equals the same method built on the model truncated at L",
                    methods_that_differ=bad)
    return dict(clause=f"stream {case['stream']}: implementation differs from the documented / proved behaviour", implementation=res)


def shrink(case):
    import copy
    if case["stream"] in ("select", "olayer") and len(case["xs"]) > 1:
        for i in range(len(case["xs"])):
            c = copy.deepcopy(case)
            del c["xs"][i]
            del c["ts"][i]
            yield c
    if case["stream"] == "operator" and case["op"] == "detection" and len(case["objs"]) > 1:
        for i in range(len(case["objs"])):
            c = copy.deepcopy(case)
            del c["objs"][i]
            del c["refs"][i]
            yield c
