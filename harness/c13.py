"""c13.py — reusability: results do not depend on call history.

Streams:
  cache     random histories of NewModel / ShareIO / Discard(+gc.collect) / NewExplainer on real Keras models and
            explainers; the function each explainer ends up explaining (identified by the weights its explanation
            reveals) is compared with `effective (run h) e` of coq/C13/Model.v.  Python id() values are renamed to small
            integers consistently (the same address gets the same integer, so address re-use after a free is kept).
  history   for each of the 16 attribution methods and 4 metrics: several calls with varying N / inputs / targets on ONE
            object, each result compared with the result of a FRESH object given the same arguments and the same seeds
            (tf / NumPy seeded before every call; random methods run eagerly so that the seed fixes the draws); inputs,
            targets and model weights must be byte-identical afterwards.  This stream is implementation-vs-implementation:
            it is the observational tie of the generic lazy-field / accumulator machine of the Coq model.
"""
import gc
import numpy as np
import core

PROP = "C13"
IMPORTS = "C13.Model"
SHARD = 60
RULE = ("cache stream: histories of 4-12 operations over up to 5 models (fresh / sharing tensors / discarded and collected, "
        "explainers created in between); history stream: every method and metric, 3 calls with N in 1..3 and fresh inputs / "
        "targets, compared with fresh objects under identical seeds; non-trivial = history contains a Discard followed by a "
        "NewModel, or a cache hit through ShareIO / repeated NewExplainer; for the history stream: the calls differ in N or inputs")
ASSUMPTIONS = ["a functional Keras model's function is determined by its input and output tensor objects",
               "CPython frees an object when it becomes unreachable (gc.collect() is called after each Discard)",
               "BlackBoxExplainer._cache_models is emptied at the start of each cache-stream case (a fresh process)",
               "tf.random.set_seed / np.random.seed before a call fix the draws made during that call (eager mode for random methods)"]

METHODS = ["Saliency", "GradientInput", "IntegratedGradients", "SmoothGrad", "SquareGrad", "VarGrad", "DeconvNet",
           "GuidedBackprop", "GradCAM", "GradCAMPP", "Occlusion", "Rise", "Lime", "KernelShap", "SobolAttributionMethod",
           "HsicAttributionMethod"]
METRICS = ["Deletion", "Insertion", "MuFidelity", "AverageStability"]
WHITE_BOX = {"Saliency", "GradientInput", "IntegratedGradients", "SmoothGrad", "SquareGrad", "VarGrad", "DeconvNet",
             "GuidedBackprop", "GradCAM", "GradCAMPP"}
RANDOM = {"SmoothGrad", "SquareGrad", "VarGrad", "Rise", "Lime", "KernelShap", "SobolAttributionMethod",
          "HsicAttributionMethod", "MuFidelity", "AverageStability"}


# ----------------------------------------------------------------------------- generation
def gen_cache_case(rng, tier):
    nops = rng.randint(4, 12 if tier == "quick" else 18)
    ops = []
    live = []          # model numbers the user still references
    nmodels = 0
    nexpl = 0
    for _ in range(nops):
        r = rng.random()
        if not live or (r < 0.3 and nmodels < 6):
            ops.append(["new", nmodels])
            live.append(nmodels)
            nmodels += 1
        elif r < 0.42 and nmodels < 6:
            ops.append([rng.choice(["share", "newout"]), nmodels, rng.choice(live)])
            live.append(nmodels)
            nmodels += 1
        elif r < 0.62:
            m = rng.choice(live)
            ops.append(["discard", m])
            live.remove(m)
        else:
            # half of the explainers are built with output_layer=-1 (the model's own last layer: the same function,
            # reached through the white-box reconfiguration path)
            ops.append(["explainer", nexpl, rng.choice(live)] + ([-1] if rng.random() < 0.5 else []))
            nexpl += 1
    if nexpl == 0 and live:
        ops.append(["explainer", 0, rng.choice(live)])
    return dict(stream="cache", ops=ops)


def gen_history_case(rng, what):
    calls = []
    for _ in range(3):
        calls.append(dict(n=rng.randint(1, 3), seed=rng.randrange(1 << 30), data_seed=rng.randrange(1 << 30)))
    if rng.random() < 0.6:
        calls[1]["n"] = calls[0]["n"]     # same shape, other content: what a shape-keyed cache would confuse
    if rng.random() < 0.4:
        calls[2] = dict(calls[0])         # the same call again: idempotence
    case = dict(stream="history", what=what, calls=calls, model_seed=rng.randrange(1 << 30))
    if rng.random() < 0.4:
        # batch_size=None (derived from the first call's N when resolved late): N grows from call to call
        case["bs_none"] = True
        for c, n in zip(calls, (1, 3, 2)):
            c["n"] = n
    case["standalone_relu"] = rng.random() < 0.5
    if what in WHITE_BOX and rng.random() < 0.4:
        case["ol"] = rng.choice([-1, "logits"])      # the model's own last layer, by index or by name: the same function
    if what in METHODS:
        case["reweight"] = True            # the model is updated after the calls; an explainer created THEN must explain it
    if what in ("Deletion", "Insertion"):
        case["baseline"] = rng.choice(["persistent", "persistent", "scalar", None])
    return case


FIXED_CACHE_CASES = [
    # two heads on one Input tensor, each explained through output_layer=-1 (and plainly), in both orders
    dict(stream="cache", ops=[["new", 0], ["newout", 1, 0], ["explainer", 0, 0, -1], ["explainer", 1, 1, -1]]),
    dict(stream="cache", ops=[["new", 0], ["newout", 1, 0], ["explainer", 0, 1, -1], ["explainer", 1, 0, -1], ["explainer", 2, 1]]),
    dict(stream="cache", ops=[["new", 0], ["newout", 1, 0], ["newout", 2, 0], ["explainer", 0, 2, -1], ["discard", 2],
                              ["explainer", 1, 1, -1], ["explainer", 2, 0, -1]]),
]


def generate(rng, tier):
    cases = [dict(c) for c in FIXED_CACHE_CASES] + [gen_cache_case(rng, tier) for _ in range(40 if tier == "quick" else 400)]
    reps = 1 if tier == "quick" else 6
    for _ in range(reps):
        for i, w in enumerate(METHODS + METRICS + METRICS):   # metrics twice: their state (stored inputs, masks) is the likeliest to leak
            cases.append(gen_history_case(rng, w))
            if w in ("DeconvNet", "GuidedBackprop"):
                # the two methods that rebuild the model: always with a stand-alone ReLU layer and / or an explicit
                # output_layer (the user's own model object must keep its true gradients)
                for sr, ol in ((True, None), (False, -1), (True, "logits")):
                    c2 = gen_history_case(rng, w)
                    c2["standalone_relu"] = sr
                    c2.pop("ol", None)
                    if ol is not None:
                        c2["ol"] = ol
                    cases.append(c2)
            if w in ("SmoothGrad", "SquareGrad", "VarGrad"):
                # the gradient statistics derive their working batch size from N when batch_size is None: always covered
                c2 = gen_history_case(rng, w)
                c2["bs_none"] = True
                for c, n in zip(c2["calls"], (1, 3, 2)):
                    c["n"] = n
                cases.append(c2)
            if w in ("Deletion", "Insertion"):
                # first pass: scalar / default baselines; second pass: a function handing out a persistent array
                cases[-1]["baseline"] = rng.choice(["scalar", None]) if i < len(METHODS + METRICS) else "persistent"
    return cases


def nontrivial(case):
    if case["stream"] == "cache":
        kinds = [o[0] for o in case["ops"]]
        seen_discard = False
        for k in kinds:
            if k == "discard":
                seen_discard = True
            if k == "new" and seen_discard:
                return True
        return "share" in kinds or "newout" in kinds or kinds.count("explainer") >= 2
    c = case["calls"]
    return any(a["n"] != b["n"] or a["data_seed"] != b["data_seed"] for a in c for b in c)


def distribution(cases):
    return dict(stream=core.hist(c["stream"] for c in cases),
                ops=core.hist(o[0] for c in cases if c["stream"] == "cache" for o in c["ops"]),
                history_what=core.hist(c.get("what") for c in cases if c["stream"] == "history"),
                history_n=core.hist(cl["n"] for c in cases if c["stream"] == "history" for cl in c["calls"]))


# ----------------------------------------------------------------------------- cache stream
def run_cache(case):
    import tensorflow as tf
    from xplique.attributions import Saliency
    from xplique.attributions.base import BlackBoxExplainer
    BlackBoxExplainer._cache_models.clear()
    gc.collect()
    models = {}          # model number -> keras model (user references)
    sig = {}             # model number -> signature weight (identifies the function)
    pid_names = {}       # python id -> small integer
    expl = {}
    trace = []

    def small(p):
        if p not in pid_names:
            pid_names[p] = len(pid_names) + 1
        return pid_names[p]
    for o in case["ops"]:
        if o[0] == "new":
            k = o[1]
            inp = tf.keras.Input((2,))
            lay = tf.keras.layers.Dense(1, use_bias=False)
            m = tf.keras.Model(inp, lay(inp))
            w = float(k + 1)
            lay.set_weights([np.array([[w], [2 * w]], np.float32)])
            models[k] = m
            sig[k] = w
            trace.append(["new", k, small(id(m.input)), small(id(m.output))])
            del inp, lay, m
        elif o[0] == "share":
            k, src = o[1], o[2]
            m = tf.keras.Model(models[src].input, models[src].output)
            models[k] = m
            sig[k] = sig[src]
            trace.append(["share", k, src])
            del m
        elif o[0] == "newout":
            # same input tensor, a new output tensor computing a different function (what output_layer= builds)
            k, src = o[1], o[2]
            lay = tf.keras.layers.Dense(1, use_bias=False)
            m = tf.keras.Model(models[src].input, lay(models[src].input))
            w = float(k + 1)
            lay.set_weights([np.array([[w], [2 * w]], np.float32)])
            models[k] = m
            sig[k] = w
            trace.append(["newout", k, src, small(id(m.output))])
            del lay, m
        elif o[0] == "discard":
            del models[o[1]]
            gc.collect()
            trace.append(["discard", o[1]])
        else:
            e, k = o[1], o[2]
            expl[e] = Saliency(models[k], output_layer=o[3]) if len(o) > 3 else Saliency(models[k])
            trace.append(["explainer", e, k])
    # which function does each explainer explain?  gradient of w*x0 + 2w*x1 is (w, 2w)
    x = np.array([[1.0, 1.0]], np.float32)
    t = np.array([[1.0]], np.float32)
    found = {}
    for e, ex in expl.items():
        g = np.asarray(ex.explain(x, t))[0]
        found[str(e)] = [float(g[0]), float(g[1])]
    res = dict(trace=trace, found=found, sig={str(k): v for k, v in sig.items()})
    BlackBoxExplainer._cache_models.clear()
    expl.clear()
    models.clear()
    gc.collect()
    return res


# ----------------------------------------------------------------------------- history stream
_model_cache = {}


def conv_model(seed, weights=None, standalone_relu=False):
    import tensorflow as tf
    rs = np.random.RandomState(seed % (1 << 31))
    inp = tf.keras.Input((8, 8, 1))
    if standalone_relu:
        # the non-linearity as a layer of its own (keras.layers.ReLU) instead of an `activation=` attribute
        x = tf.keras.layers.Conv2D(2, 3, name="conv")(inp)
        x = tf.keras.layers.ReLU(name="relu")(x)
    else:
        x = tf.keras.layers.Conv2D(2, 3, activation="relu", name="conv")(inp)
    x = tf.keras.layers.Flatten()(x)
    x = tf.keras.layers.Dense(3, name="logits")(x)
    m = tf.keras.Model(inp, x)
    m.set_weights(weights or [(rs.randint(-2, 3, size=w.shape) / 2.0).astype(np.float32) for w in m.get_weights()])
    return m


def content_map(inp):
    """a segmentation that depends on the CONTENT of the input (like the default quickshift / felzenszwalb maps):
    pixels above / below the mean, split again by the column parity"""
    import tensorflow as tf
    above = tf.cast(inp[:, :, 0] > tf.reduce_mean(inp), tf.int32)
    cols = tf.range(tf.shape(inp)[1])[None, :] % 2
    return above * 2 + cols


def make_object(what, model, inputs=None, targets=None, baseline=None, bs=4, ol=None):
    import xplique.attributions as A
    import xplique.metrics as M
    kw = dict(
        Saliency={}, GradientInput={}, IntegratedGradients=dict(steps=4), SmoothGrad=dict(nb_samples=3, noise=0.1),
        SquareGrad=dict(nb_samples=3, noise=0.1), VarGrad=dict(nb_samples=3, noise=0.1), DeconvNet={}, GuidedBackprop={},
        GradCAM={}, GradCAMPP={}, Occlusion=dict(patch_size=3, patch_stride=2), Rise=dict(nb_samples=6, grid_size=3),
        Lime=dict(nb_samples=12, map_to_interpret_space=content_map),
        KernelShap=dict(nb_samples=12, map_to_interpret_space=content_map), SobolAttributionMethod=dict(grid_size=2, nb_design=4),
        HsicAttributionMethod=dict(grid_size=2, nb_design=8))
    if what in kw:
        if ol is not None and what in WHITE_BOX:
            return getattr(A, what)(model, batch_size=bs, output_layer=ol, **kw[what])
        return getattr(A, what)(model, batch_size=bs, **kw[what])
    if what in ("Deletion", "Insertion"):
        if baseline is None:
            return getattr(M, what)(model, inputs, targets, batch_size=bs, steps=4)
        return getattr(M, what)(model, inputs, targets, batch_size=bs, steps=4, baseline_mode=baseline)
    if what == "MuFidelity":
        return M.MuFidelity(model, inputs, targets, batch_size=bs, grid_size=4, nb_samples=6)
    return M.AverageStability(model, inputs, targets, batch_size=bs, nb_samples=3)


def call_data(c):
    rs = np.random.RandomState(c["data_seed"] % (1 << 31))
    x = (rs.randint(0, 9, size=(c["n"], 8, 8, 1)) / 8.0).astype(np.float32)
    t = np.eye(3, dtype=np.float32)[rs.randint(0, 3, size=c["n"])]
    e = (rs.randint(-8, 9, size=(c["n"], 8, 8, 1)) / 8.0).astype(np.float32)
    return x, t, e


def seeded(seed):
    import tensorflow as tf
    tf.random.set_seed(seed)
    np.random.seed(seed % (1 << 31))
    import random as _r
    _r.seed(seed)


def run_history(case):
    import tensorflow as tf
    what = case["what"]
    BS = None if case.get("bs_none") else 4
    SR = bool(case.get("standalone_relu"))
    OL = case.get("ol")
    model = conv_model(case["model_seed"], standalone_relu=SR)
    weights_before = [w.tobytes() for w in model.get_weights()]

    def user_model_fingerprint():
        """forward values AND input gradient of the USER's model object, on a batch size no explainer call uses"""
        xs = tf.constant(((np.arange(5 * 64).reshape(5, 8, 8, 1) % 9) / 8.0).astype(np.float32))
        with tf.GradientTape() as tape:
            tape.watch(xs)
            out = model(xs)
            sc = tf.reduce_sum(out * tf.constant([[1.0, -0.5, 2.0]]))
        return np.asarray(out).tobytes() + np.asarray(tape.gradient(sc, xs)).tobytes()
    fingerprint_before = user_model_fingerprint()
    eager_before = tf.config.functions_run_eagerly()
    if what in RANDOM:
        tf.config.run_functions_eagerly(True)
    try:
        results, fresh, untouched = [], [], True
        is_metric = what in METRICS
        if is_metric:
            # a metric object is built on fixed (inputs, targets); the calls vary the explanations / the explainer
            x0, t0, _ = call_data(dict(n=3, data_seed=case["model_seed"]))
            seeded(case["model_seed"])       # draws made by a constructor (AverageStability's noise) belong to the object
            # baseline_mode as a function returning a PRE-COMPUTED array that outlives the calls (the usual way to
            # use the callable form): every object gets its own copy, the user's copy must stay intact
            pristine = (x0 * 0.5 + 0.125).astype(np.float32)
            def bl():
                if case.get("baseline") == "persistent":
                    mine = pristine.copy()
                    keep.append(mine)
                    return lambda inputs: mine
                return 0.25 if case.get("baseline") == "scalar" else None
            keep = []
            obj = make_object(what, model, x0, t0, bl(), bs=BS)
        else:
            seeded(case["model_seed"])
            obj = make_object(what, model, bs=BS, ol=OL)
        for c in case["calls"]:
            x, t, e = call_data(c)
            xb, tb, eb = x.tobytes(), t.tobytes(), e.tobytes()
            for target_list, o in ((results, obj), (fresh, None)):
                if o is None:
                    seeded(case["model_seed"])
                    o = make_object(what, model, *((x0, t0, bl()) if is_metric else ()), bs=BS, ol=OL)
                seeded(c["seed"])
                if not is_metric:
                    out = np.asarray(o.explain(x, t))
                elif what == "AverageStability":
                    import xplique.attributions as A
                    out = np.asarray(o.evaluate(A.Saliency(model)))
                else:
                    ee = (np.resize(e, x0.shape)).astype(np.float32)
                    out = np.asarray(o.evaluate(ee))
                target_list.append([float(v) for v in np.asarray(out, dtype=np.float64).reshape(-1)])
            untouched = untouched and x.tobytes() == xb and t.tobytes() == tb and e.tobytes() == eb
        weights_same = [w.tobytes() for w in model.get_weights()] == weights_before
        # the user's model object still computes the same values and the same (true) gradients
        weights_same = weights_same and user_model_fingerprint() == fingerprint_before
        if is_metric:
            untouched = untouched and all(k.tobytes() == pristine.tobytes() for k in keep)
        if case.get("reweight"):
            # the model is updated in place (one more epoch); an explainer created afterwards explains the NEW weights:
            # compared with the same method on a never-seen twin model holding those weights
            w2 = [(w * 0.5 + 0.25).astype(np.float32) for w in model.get_weights()]
            model.set_weights(w2)
            twin = conv_model(case["model_seed"], weights=w2, standalone_relu=SR)
            x, t, _ = call_data(case["calls"][0])
            for target_list, mdl in ((results, model), (fresh, twin)):
                seeded(case["model_seed"])
                o = make_object(what, mdl, bs=BS, ol=OL)
                seeded(case["calls"][0]["seed"])
                target_list.append([float(v) for v in np.asarray(o.explain(x, t), dtype=np.float64).reshape(-1)])
    finally:
        tf.config.run_functions_eagerly(eager_before)
    return dict(results=results, fresh=fresh, inputs_untouched=untouched, weights_untouched=weights_same)


def run_impl(case):
    return run_cache(case) if case["stream"] == "cache" else run_history(case)


# ----------------------------------------------------------------------------- Coq side
PRELUDE = """
Definition opt_pair_eqb (a : option (nat * nat)) (b : nat * nat) : bool :=
  match a with Some (x, y) => Nat.eqb x (fst b) && Nat.eqb y (snd b) | None => false end.
"""


def coq_term(case, res):
    if case["stream"] == "history":
        ok = res["inputs_untouched"] and res["weights_untouched"] and len(res["results"]) == len(res["fresh"])
        for a, b in zip(res["results"], res["fresh"]):
            a, b = np.array(a), np.array(b)
            ok = ok and a.shape == b.shape and bool(np.all(np.isfinite(a)) == np.all(np.isfinite(b))) and \
                bool(np.allclose(a, b, rtol=1e-5, atol=1e-6, equal_nan=True))
        return core.cbool(bool(ok))
    # cache stream: replay the recorded trace in the model, mirroring its uid numbering
    nxt = 0
    muid, tens = {}, {}
    ops = []
    for o in res["trace"]:
        if o[0] == "new":
            ops.append(f"NewModel {o[2]} {o[3]}")
            tens[o[1]] = (nxt, nxt + 1)
            muid[o[1]] = nxt + 2
            nxt += 3
        elif o[0] == "share":
            ops.append(f"ShareIO {muid[o[2]]}")
            tens[o[1]] = tens[o[2]]
            muid[o[1]] = nxt
            nxt += 1
        elif o[0] == "newout":
            ops.append(f"NewOutput {muid[o[2]]} {o[3]}")
            tens[o[1]] = (tens[o[2]][0], nxt)
            muid[o[1]] = nxt + 1
            nxt += 2
        elif o[0] == "discard":
            ops.append(f"Discard {muid[o[1]]}")
        else:
            ops.append(f"NewExplainer {o[1]} {muid[o[2]]}")
    # the function each real explainer explains, as the tensor pair of a model with that signature
    by_sig = {}
    for k, w in res["sig"].items():
        by_sig.setdefault(w, tens[int(k)])
    parts = []
    for e, g in res["found"].items():
        w = g[0]
        if w not in by_sig or abs(g[1] - 2 * w) > 1e-6:
            return "false"
        parts.append(f"opt_pair_eqb (effective st {e}) ({by_sig[w][0]}, {by_sig[w][1]})")
    # the NewModel ops must have been accepted by the model (Python never hands out a live id)
    n_models_expected = None
    return f"(let st := run {core.cl(ops)} in " + " && ".join(parts or ["true"]) + f" && Nat.eqb (next st) {nxt})"


def dump_term(case, res):
    if case["stream"] != "cache":
        return "0"
    return "0"


def explain_failure(case, res, model):
    if res is None:
        return "implementation raised"
    if case["stream"] == "history":
        diffs = []
        for i, (a, b) in enumerate(zip(res["results"], res["fresh"])):
            a, b = np.array(a), np.array(b)
            if a.shape != b.shape or not np.allclose(a, b, rtol=1e-5, atol=1e-6, equal_nan=True):
                diffs.append(dict(call=i, on_reused_object=a[:8].tolist(), on_fresh_object=b[:8].tolist()))
        return dict(clause="the k-th call on a reused object equals the same call on a fresh object (same seeds); inputs, targets, "
                           "weights untouched", differing_calls=diffs, inputs_untouched=res["inputs_untouched"],
                    weights_untouched=res["weights_untouched"])
    return dict(clause="every explainer explains the function of the model it was built on, whatever the history",
                trace=res["trace"], explained=res["found"], signatures=res["sig"])


def shrink(case):
    import copy
    if case["stream"] == "history":
        for i in range(len(case["calls"]) - 1):
            c = copy.deepcopy(case)
            del c["calls"][i]
            yield c
        return
    ops = case["ops"]
    for i in range(len(ops) - 1, -1, -1):
        o = ops[i]
        if o[0] in ("new", "share", "newout"):
            k = o[1]
            if any((p[0] in ("share", "newout") and p[2] == k) or (p[0] == "discard" and p[1] == k) or (p[0] == "explainer" and p[2] == k)
                   for p in ops[i + 1:]):
                continue
        c = copy.deepcopy(case)
        del c["ops"][i]
        yield c
