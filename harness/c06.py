"""c06.py — Occlusion vs coq/C06/Model.v (proved equal to the reference definition)."""
import numpy as np
import core
import families as fam

PROP = "C06"
IMPORTS = "C06.Model C06.Spec"
PRELUDE = """
(* the occluded inputs the model must receive, input after input, patch after patch *)
Definition expected_queries (g : geom) (v : Qc) (xs : list (list Qc)) : list (list Qc) :=
  xs ++ flat_map (fun x => map (occlude g v x) (patches g)) xs.
"""
RULE = ("random geometry (tabular / time series / image up to 6x7x3, every patch size and stride in 1..dim, scalar or "
        "per-axis), F-quad score with cross terms (non-additive), real-valued targets, batch sizes biased to "
        "{1,2,#masks-1,#masks,#masks+1,N,None}; distinct = different canonical JSON encoding; non-trivial = at least two "
        "mask batches or a remainder batch or overlapping / non-tiling patches")
ASSUMPTIONS = ["score is applied row-wise (no cross-sample coupling)",
               "float32 evaluation of F-quad on dyadic inputs with small integer weights is exact (comparison is exact equality)"]


def n_anchors(d, p, s):
    return max(0, -(-(d - p + 1) // s))


def geometry(case):
    sh = case["shape"]
    if case["kind"] == "tab":
        return dict(d=sh[0], p=case["patch"], s=case["stride"])
    p = case["patch"] if isinstance(case["patch"], list) else [case["patch"]] * 2
    s = case["stride"] if isinstance(case["stride"], list) else [case["stride"]] * 2
    c = sh[2] if case["kind"] == "img" else 1
    return dict(h=sh[0], w=sh[1], c=c, p0=p[0], p1=p[1], s0=s[0], s1=s[1])


def n_masks(case):
    g = geometry(case)
    if case["kind"] == "tab":
        return n_anchors(g["d"], g["p"], g["s"])
    return n_anchors(g["h"], g["p0"], g["s0"]) * n_anchors(g["w"], g["p1"], g["s1"])


def small(rng, d):
    """1..d, biased towards small values (more patches) but reaching d"""
    return min(rng.randint(1, d), rng.randint(1, d)) if rng.random() < 0.7 else rng.randint(1, d)


def gen_case(rng, tier):
    big = tier == "thorough"
    kind = rng.choice(["tab", "ts", "img", "img", "img"])
    if kind == "tab":
        shape = [rng.randint(1, 9 if big else 7)]
        patch = small(rng, shape[0])
        stride = small(rng, shape[0])
    else:
        h, w = rng.randint(1, 7 if big else 5), rng.randint(1, 8 if big else 6)
        shape = [h, w] if kind == "ts" else [h, w, rng.choice([1, 2, 3, 4] if big else [1, 2, 3])]
        if rng.random() < 0.35:
            m = min(h, w)
            patch, stride = small(rng, m), small(rng, m)
        else:
            patch = [small(rng, h), small(rng, w)]
            stride = [small(rng, h), small(rng, w)]
            if rng.random() < 0.3:     # mixed scalar / tuple
                stride = rng.randint(1, min(h, w))
    dim = int(np.prod(shape))
    n = rng.randint(1, 4)
    ncls = rng.randint(1, 3)
    case = dict(kind=kind, shape=shape, patch=patch, stride=stride, v=rng.choice([0.0, 0.0, 0.5, -1.0, 1.25]),
                params=fam.gen_fquad(rng, ncls, dim), xs=[fam.dyadic(rng, dim) for _ in range(n)],
                ts=fam.gen_targets(rng, n, ncls))
    if kind == "img" and shape[2] >= 2 and rng.random() < 0.3:
        # degenerate-but-valid inputs: some pixels EQUAL the occlusion value in every channel (occluding them changes
        # nothing), others deviate from it by amounts that cancel over the channels (+a, -a[, 0 ...]): still a change
        C, v = shape[2], case["v"]
        for x in case["xs"]:
            for p in range(shape[0] * shape[1]):
                r = rng.random()
                if r < 0.3:
                    x[p * C:(p + 1) * C] = [v] * C
                elif r < 0.8:
                    a = rng.choice([0.25, 0.5, 1.0, 1.5])
                    x[p * C:(p + 1) * C] = [v + a, v - a] + [v] * (C - 2)
        case["balanced"] = True
    nm = n_masks(case)
    case["bs"] = rng.choice([1, 2, 3, max(1, nm - 1), nm, nm + 1, n, None, None, rng.randint(1, max(2, nm + 2))])
    return case


def with_geometry(case, stride):
    c = dict(case)
    c["stride"] = stride
    return c


def gen_huge_case(rng, tier):
    """inputs mixing ordinary dyadic values with features of magnitude 2^25 .. 2^27 and a small non-zero occlusion value:
    only the occluded inputs handed to the model are compared (exactly): the patch must hold the occlusion value"""
    c = gen_case(rng, tier)
    c["v"] = rng.choice([0.5, -1.0, 1.25, 0.25])
    for x in c["xs"]:
        for i in range(len(x)):
            if rng.random() < 0.4:
                x[i] = rng.choice([-1, 1]) * 2.0 ** rng.randint(25, 27)
    c["huge"] = True
    c.pop("stride2", None)
    return c


def generate(rng, tier):
    n = 120 if tier == "quick" else 1500
    cases = [gen_case(rng, tier) for _ in range(n)]
    for c in cases:
        # re-use: a quarter of the cases change patch_stride through the public attribute and explain again
        if rng.random() < 0.25:
            g = geometry(c)
            if c["kind"] == "tab":
                c["stride2"] = rng.randint(1, g["d"])
            else:
                c["stride2"] = [rng.randint(1, g["h"]), rng.randint(1, g["w"])] if rng.random() < 0.5 else rng.randint(1, min(g["h"], g["w"]))
    return cases + [gen_huge_case(rng, tier) for _ in range(12 if tier == "quick" else 150)]


def nontrivial(case):
    nm = n_masks(case)
    bs = case["bs"] or len(case["xs"])
    g = geometry(case)
    if case["kind"] == "tab":
        overlap = g["s"] < g["p"] or (g["d"] - g["p"]) % g["s"] != 0
    else:
        overlap = g["s0"] < g["p0"] or g["s1"] < g["p1"] or (g["h"] - g["p0"]) % g["s0"] != 0 or (g["w"] - g["p1"]) % g["s1"] != 0
    return nm > bs or (nm % bs != 0 and nm > 1) or (overlap and nm > 1)


def distribution(cases):
    return dict(kind=core.hist(c["kind"] for c in cases),
                n_inputs=core.hist(len(c["xs"]) for c in cases),
                n_masks=core.hist(min(n_masks(c), 20) for c in cases),
                batch_class=core.hist(("None" if c["bs"] is None else "lt" if c["bs"] < n_masks(c) else
                                       "eq" if c["bs"] == n_masks(c) else "gt") for c in cases),
                scalar_geometry=core.hist(not isinstance(c["patch"], list) for c in cases))


_tf = None


def run_impl(case):
    global _tf
    import tensorflow as tf
    from xplique.attributions import Occlusion
    model = fam.FQuadNumpy(case["params"], record=bool(case.get("huge")))
    conv = (lambda a: tuple(a) if isinstance(a, list) else a)
    expl = Occlusion(model, batch_size=case["bs"], patch_size=conv(case["patch"]), patch_stride=conv(case["stride"]),
                     occlusion_value=case["v"])
    xs = np.array(case["xs"], dtype=np.float32).reshape([len(case["xs"])] + case["shape"])
    ts = np.array(case["ts"], dtype=np.float32)
    out = expl.explain(xs, ts)
    out = np.asarray(out)
    if out.shape[0] != len(case["xs"]):
        raise AssertionError(f"explain returned {out.shape[0]} maps for {len(case['xs'])} inputs")
    res = dict(shape=list(out.shape), maps=[[float(v) for v in m.reshape(-1)] for m in out])
    if case.get("huge"):
        res["queries"] = [[float(v) for v in q] for q in model.queries]
    if case.get("stride2") is not None:
        expl.patch_stride = conv(case["stride2"])          # public attribute, then the same object explains again
        out2 = np.asarray(expl.explain(xs, ts))
        res["maps2"] = [[float(v) for v in m.reshape(-1)] for m in out2]
    return res


def coq_geom(case):
    g = geometry(case)
    if case["kind"] == "tab":
        return f"(Tab {g['d']} {g['p']} {g['s']})"
    return f"(Grid {g['h']} {g['w']} {g['c']} {g['p0']} {g['p1']} {g['s0']} {g['s1']})"


def model_term(case):
    bs = core.copt(None if case["bs"] is None else core.cnat(case["bs"]))
    return (f"(occlusion (fquad {fam.coq_fquad(case['params'])}) {coq_geom(case)} {bs} {core.cq(case['v'])} "
            f"{core.cqlist2(case['xs'])} {core.cqlist2(case['ts'])})")


def coq_term(case, res):
    if case.get("huge"):
        return (f"qlist2_eqb (expected_queries {coq_geom(case)} {core.cq(case['v'])} {core.cqlist2(case['xs'])}) "
                f"{core.cqlist2(res['queries'])}")
    t = f"qlist2_eqb {model_term(case)} {core.cqlist2(res['maps'])}"
    if case.get("stride2") is not None:
        if "maps2" not in res:
            return "false"
        t = f"({t} && qlist2_eqb {model_term(with_geometry(case, case['stride2']))} {core.cqlist2(res['maps2'])})"
    return t


def dump_term(case, res):
    return f"map (map qdump) {model_term(case)}"


def explain_failure(case, res, model):
    if model is None:
        return "implementation raised on a valid configuration"
    bad = []
    for n, (mm, im) in enumerate(zip(model, res["maps"])):
        for p, (a, b) in enumerate(zip(mm, im)):
            if core.frac(a) != core.frac(b):
                bad.append(dict(sample=n, position=p, reference=a, implementation=core.fstr(b)))
    return dict(clause="map[p] = sum over covering patches of score(x) - score(x occluded)", first_differences=bad[:6],
                lengths=[len(model), len(res["maps"])])


def shrink(case):
    import copy
    if len(case["xs"]) > 1:
        for i in range(len(case["xs"])):
            c = copy.deepcopy(case)
            del c["xs"][i]
            del c["ts"][i]
            yield c
    if len(case["params"]) > 1:
        for i in range(len(case["params"])):
            c = copy.deepcopy(case)
            del c["params"][i]
            for t in c["ts"]:
                del t[i]
            yield c
    if any(k["X"] for k in case["params"]):
        c = copy.deepcopy(case)
        for k in c["params"]:
            k["X"] = []
        yield c
    if any(any(k["V"]) for k in case["params"]):
        c = copy.deepcopy(case)
        for k in c["params"]:
            k["V"] = [0] * len(k["V"])
        yield c
    if case["bs"] is not None:
        c = copy.deepcopy(case)
        c["bs"] = None
        yield c
    if case["v"] != 0.0:
        c = copy.deepcopy(case)
        c["v"] = 0.0
        yield c
