"""c01.py — Saliency / GradientInput / SmoothGrad / SquareGrad / VarGrad vs coq/C01/Model.v
(proved equal to the per-sample reference definitions for every batch size, nb_samples and shape)."""
import copy
import numpy as np
import core
import families as fam

PROP = "C01"
IMPORTS = "C01.Model"
TOL_FRAC = core.Fraction(1, 100000)
TOL = float(TOL_FRAC)      # relative to the per-element magnitude bound computed by the model (|weights| at |x|); 0 where exact
RULE = ("method in {Saliency, GradientInput, SmoothGrad, SquareGrad, VarGrad} x kind in {tabular, time series, HxWxC image "
        "with C in 1..4, mostly non-square} x reducer in {min,max,mean,sum,None,default} x wrapping in {tf.Module + explicit "
        "recording operator, functional Keras model}; F-quad score with cross terms, real-valued targets, N in 1..4, "
        "nb_samples in 1..6 (>=2 VarGrad), noise in {0, 1/4, 1/2, 1}, batch sizes biased to {1,2,nb-1,nb,nb+1,2nb-1,2nb,2nb+1,"
        "N*nb-1,N*nb,N*nb+1,None}; noisy points recorded from the implementation in eager mode, assigned to the nearest input "
        "(inputs 16 apart in coordinate 0 when noise>0), count per input asserted = nb_samples, recorded targets asserted = "
        "the input's target; distinct = different canonical JSON encoding; non-trivial = more than one gradient batch, or a "
        "remainder batch / remainder perturbation chunk, or several inputs per input batch")
ASSUMPTIONS = ["the operator is applied row-wise (no cross-sample coupling), so the gradient of a batch is the list of per-sample gradients",
               "TF autodiff returns the analytic gradient of F-quad (fquad_grad, proved to be the derivative in Coq: C01_fquad_grad_is_derivative)",
               "float32 evaluation of F-quad gradients on dyadic inputs with small integer weights is exact: Saliency, GradientInput and "
               "SmoothGrad at noise 0 are compared exactly; SquareGrad, VarGrad, every run with noise > 0 and the mean reducer over 3 channels "
               f"are compared with |impl - model| <= {TOL} * (statistic of the magnitude bound |W|+2|V||x|+... computed by the model per element)",
               "noise tensors drawn by tf.random.normal are inputs of the model (recorded as evaluated point - input); nothing is assumed about their distribution"]

METHODS = ["saliency", "gradinput", "smoothgrad", "squaregrad", "vargrad"]
STAT = dict(smoothgrad="SMean", squaregrad="SSquare", vargrad="SVar")
RED = {"min": "RMin", "max": "RMax", "mean": "RMean", "sum": "RSum"}
DEFAULT_REDUCER = dict(saliency="max", gradinput="mean", smoothgrad="mean", squaregrad="mean", vargrad="mean")


def eff_reducer(case):
    return DEFAULT_REDUCER[case["method"]] if case["reducer"] == "default" else case["reducer"]


def work(case):
    n = len(case["xs"])
    return n * case["nb"] if case["method"] in STAT else n


def gen_case(rng, tier, method=None):
    big = tier == "thorough"
    method = method or rng.choice(METHODS)
    kind = rng.choice(["tab", "ts", "img", "img", "img"])
    if kind == "tab":
        shape = [rng.randint(1, 8)]
    elif kind == "ts":
        shape = [rng.randint(1, 4), rng.randint(1, 4)]
    else:
        h, w = rng.randint(1, 4), rng.randint(1, 4)
        if h == w and rng.random() < 0.7:
            w = h % 4 + 1
        shape = [h, w, rng.choice([1, 2, 3, 3, 4])]
    dim = int(np.prod(shape))
    n = rng.randint(1, 5 if big else 4)
    ncls = rng.randint(1, 3)
    noise = 0.0
    nb = 1
    if method in STAT:
        nb = rng.randint(2 if method == "vargrad" else 1, 7 if big else 6)
        noise = rng.choice([0.0, 0.25, 0.5, 1.0, 1.0] if method != "vargrad" else [0.0, 0.25, 0.5, 1.0, 1.0, 1.0])
    xs = []
    while len(xs) < n:
        x = fam.dyadic(rng, dim)
        if noise > 0:
            x[0] += 16.0 * len(xs)          # inputs far apart: a recorded noisy point identifies its input
        if x not in xs:
            xs.append(x)
    case = dict(method=method, kind=kind, shape=shape, reducer=rng.choice(["min", "max", "mean", "sum", None, "default"]),
                wrap=rng.choice(["module", "module", "keras"]), params=fam.gen_fquad(rng, ncls, dim),
                xs=xs, ts=fam.gen_targets(rng, n, ncls), nb=nb, noise=noise, seed=rng.randint(0, 10 ** 6))
    case["eager"] = bool(noise > 0 or rng.random() < 0.4)
    if method in STAT:
        opts = [1, 2, 3, nb - 1, nb, nb + 1, 2 * nb - 1, 2 * nb, 2 * nb + 1, n * nb - 1, n * nb, n * nb + 1, None, None,
                rng.randint(1, n * nb + 2)]
    else:
        opts = [1, 2, 3, n - 1, n, n + 1, None, None, rng.randint(1, n + 2)]
    bs = rng.choice(opts)
    nondiv = [b for b in range(2, nb) if nb % b] if method in STAT else []
    if nondiv and rng.random() < 0.3:       # remainder perturbation chunk (e.g. nb=5, bs=2: passes of 2,2,1)
        bs = rng.choice(nondiv)
    case["bs"] = None if bs is None else max(1, bs)
    return case


def generate(rng, tier):
    n = 140 if tier == "quick" else 2000
    cases = [gen_case(rng, tier, m) for m in METHODS for _ in range(4)]      # every method present whatever the seed
    # always present: every gradient statistic with a non-linear channel reducer (min / max), several channels and real
    # noise — the statistic must be taken over the FULL gradients before the channels are reduced
    for m in [mm for mm in METHODS if mm in STAT]:
        for red in ("min", "max"):
            for _ in range(60):
                c = gen_case(rng, tier, m)
                if c["kind"] == "img" and c["shape"][2] >= 2 and c["noise"] > 0:
                    c["reducer"] = red
                    cases.append(c)
                    break
    cases += [gen_case(rng, tier) for _ in range(n - len(cases))]
    for c in cases:
        if c["method"] in STAT and c["noise"] == 0 and not c["eager"] and rng.random() < 0.5:
            c["warm_noise"] = rng.choice([0.25, 0.5, 1.0])
    return cases


def loop_shape(case):
    """(B, pb, ib) of GradientStatistic.explain"""
    n, nb = len(case["xs"]), case["nb"]
    B = case["bs"] or n * nb
    pb = min(B, nb)
    return B, pb, max(1, B // pb)


def nontrivial(case):
    n = len(case["xs"])
    if case["method"] in STAT:
        B, pb, ib = loop_shape(case)
        return pb < case["nb"] or (ib > 1 and n > 1) or (n > ib)
    bs = case["bs"]
    return bs is not None and n > bs


def distribution(cases):
    def bclass(c):
        if c["bs"] is None:
            return "None"
        if c["method"] in STAT:
            nb = c["nb"]
            return "lt_nb" if c["bs"] < nb else "eq_nb" if c["bs"] == nb else "gt_nb_nondiv" if c["bs"] % nb else "multiple_nb"
        n = len(c["xs"])
        return "lt_N" if c["bs"] < n else "eq_N" if c["bs"] == n else "gt_N"
    return dict(method=core.hist(c["method"] for c in cases), kind=core.hist(c["kind"] for c in cases),
                channels=core.hist(c["shape"][2] for c in cases if c["kind"] == "img"),
                non_square=core.hist(c["shape"][0] != c["shape"][1] for c in cases if c["kind"] == "img"),
                reducer=core.hist(str(c["reducer"]) for c in cases), wrap=core.hist(c["wrap"] for c in cases),
                n_inputs=core.hist(len(c["xs"]) for c in cases),
                nb_samples=core.hist(c["nb"] for c in cases if c["method"] in STAT),
                noise=core.hist(c["noise"] for c in cases if c["method"] in STAT),
                eager_recorded=core.hist(c["eager"] for c in cases),
                batch_class=core.hist(bclass(c) for c in cases),
                remainder_perturbation_chunk=core.hist(bool(c["nb"] % loop_shape(c)[1]) for c in cases if c["method"] in STAT),
                inputs_per_batch=core.hist(min(loop_shape(c)[2], len(c["xs"])) for c in cases if c["method"] in STAT))


# --------------------------------------------------------------------------- implementation driver
class Recorder:
    def __init__(self):
        self.points, self.targets = [], []

    def add(self, x, t=None):
        x = np.asarray(x)
        self.points.extend(x.reshape(x.shape[0], -1).astype(np.float64).tolist())
        if t is not None:
            self.targets.extend(np.asarray(t).astype(np.float64).tolist())


def build(case, rec):
    """returns (model, operator) offering the F-quad member through the requested wrapping; queries go to rec"""
    import tensorflow as tf
    mod = fam.fquad_tf_module(case["params"], case["shape"])
    if case["wrap"] == "module":
        def operator(model, inputs, targets):
            if rec is not None and tf.executing_eagerly() and hasattr(inputs, "numpy"):
                rec.add(inputs.numpy(), targets.numpy())
            return tf.reduce_sum(model(inputs) * targets, axis=-1)
        return mod, operator
    ncls = len(case["params"])

    class L(tf.keras.layers.Layer):
        def call(self, x):
            if rec is not None and tf.executing_eagerly() and hasattr(x, "numpy"):
                rec.add(x.numpy())
            return mod(x)

        def compute_output_shape(self, s):
            return (s[0], ncls)
    inp = tf.keras.Input(shape=tuple(case["shape"]))
    return tf.keras.Model(inp, L()(inp)), None


def run_impl(case):
    import tensorflow as tf
    from xplique.attributions import Saliency, GradientInput, SmoothGrad, SquareGrad, VarGrad
    cls = dict(saliency=Saliency, gradinput=GradientInput, smoothgrad=SmoothGrad, squaregrad=SquareGrad, vargrad=VarGrad)[case["method"]]
    tf.config.run_functions_eagerly(bool(case["eager"]))
    try:
        rec = Recorder() if case["eager"] else None
        model, operator = build(case, rec)
        kw = dict(batch_size=case["bs"], operator=operator)
        if case["reducer"] != "default":
            kw["reducer"] = case["reducer"]
        if case["method"] in STAT:
            kw.update(nb_samples=case["nb"], noise=case.get("warm_noise", case["noise"]))
        expl = cls(model, **kw)
        n = len(case["xs"])
        xs = np.array(case["xs"], dtype=np.float32).reshape([n] + case["shape"])
        ts = np.array(case["ts"], dtype=np.float32)
        if rec is not None:
            rec.points, rec.targets = [], []      # drop what the constructor may have evaluated
        tf.random.set_seed(case["seed"])
        if case.get("warm_noise") is not None:
            # re-use: a first call with another noise level (graph mode, result discarded), then `noise` is changed
            # through the public attribute and the same object explains the same shapes again
            expl.explain(xs, ts)
            expl.noise = case["noise"]
        out = np.asarray(expl.explain(xs, ts))
    finally:
        tf.config.run_functions_eagerly(False)
    if out.shape[0] != n:
        raise AssertionError(f"explain returned {out.shape[0]} explanations for {n} inputs")
    res = dict(shape=list(out.shape), maps=[[float(v) for v in m.reshape(-1)] for m in out])
    if rec is not None and case["method"] in STAT:
        # assign every evaluated point to the nearest input (sup norm); canonical order = sorted
        X = np.array(case["xs"], dtype=np.float64)
        pts = [[] for _ in range(n)]
        stray, bad_target = 0, 0
        radius = 8.0 * case["noise"]
        for k, p in enumerate(rec.points):
            dist = np.max(np.abs(X - np.array(p)[None, :]), axis=1)
            i = int(np.argmin(dist))
            if dist[i] > radius:
                stray += 1
                continue
            pts[i].append(p)
            if rec.targets and [float(v) for v in rec.targets[k]] != [float(v) for v in case["ts"][i]]:
                bad_target += 1
        res.update(points=[sorted(p) for p in pts], stray=stray, bad_target=bad_target, recorded=len(rec.points))
    return res


# --------------------------------------------------------------------------- Coq side
def coq_kind(case):
    sh = case["shape"]
    return {"tab": "(KTab %d)", "ts": "(KTs %d %d)", "img": "(KImg %d %d %d)"}[case["kind"]] % tuple(sh)


def coq_red(r):
    return "None" if r is None else f"(Some {RED[r]})"


def noises(case, res):
    """per input, the list of nb noise tensors = evaluated point - input (exact); zeros when nothing was recorded"""
    dim = len(case["xs"][0])
    if "points" not in res:
        return [[[0] * dim for _ in range(case["nb"])] for _ in case["xs"]]
    return [[[core.frac(a) - core.frac(b) for a, b in zip(p, x)] for p in pts] for x, pts in zip(case["xs"], res["points"])]


def exact(case):
    red3 = eff_reducer(case) == "mean" and case["kind"] == "img" and case["shape"][2] == 3
    return case["noise"] == 0 and case["method"] in ("saliency", "gradinput", "smoothgrad") and not red3


def terms(case, res):
    """(model value, per-element scale) as Coq terms"""
    ks = fam.coq_fquad(case["params"])
    kind, red = coq_kind(case), eff_reducer(case)
    sred = coq_red(None if red is None else "sum")
    bs = core.copt(None if case["bs"] is None else core.cnat(case["bs"]))
    xs, ts = core.cqlist2(case["xs"]), core.cqlist2(case["ts"])
    m = case["method"]
    if m == "saliency":
        return (f"(saliency (fquad_grad {ks}) {kind} {coq_red(red)} {bs} {xs} {ts})",
                f"(saliency (fquad_grad_abs {ks}) {kind} {sred} {bs} {xs} {ts})")
    if m == "gradinput":
        axs = core.cqlist2([[abs(v) for v in x] for x in case["xs"]])
        return (f"(gradient_input (fquad_grad {ks}) {kind} {coq_red(red)} {bs} {xs} {ts})",
                f"(gradient_input (fquad_grad_abs {ks}) {kind} {sred} {bs} {axs} {ts})")
    ns = core.cl([core.cl([core.cqlist(e) for e in es]) for es in noises(case, res)])
    nb = core.cnat(case["nb"])
    sst = "SMean" if m == "smoothgrad" else "SSquare"
    return (f"(gradstat (fquad_grad {ks}) {kind} {coq_red(red)} {STAT[m]} {bs} {nb} {xs} {ts} {ns})",
            f"(gradstat (fquad_grad_abs {ks}) {kind} {sred} {sst} {bs} {nb} {xs} {ts} {ns})")


def queries_ok(case, res):
    if "points" not in res:
        return True
    return (res["stray"] == 0 and res["bad_target"] == 0 and all(len(p) == case["nb"] for p in res["points"])
            and res["recorded"] == case["nb"] * len(case["xs"]))


def coq_term(case, res):
    model, scale = terms(case, res)
    tol = core.cq(0) if exact(case) else core.cq(TOL_FRAC)
    t = f"qlist2_close_by {tol} {scale} {model} {core.cqlist2(res['maps'])}"
    if case["method"] in STAT and "points" in res:
        ns = core.cl([core.cl([core.cqlist(e) for e in es]) for es in noises(case, res)])
        bs = core.copt(None if case["bs"] is None else core.cnat(case["bs"]))
        # the model evaluates exactly nb points per input; the implementation must have evaluated the same number
        counts = (f"list_eqb Nat.eqb (map (@length _) (gradstat_points (fquad_grad {fam.coq_fquad(case['params'])}) {bs} "
                  f"{core.cnat(case['nb'])} {core.cqlist2(case['xs'])} {core.cqlist2(case['ts'])} {ns})) "
                  f"{core.cnatlist([len(p) for p in res['points']])}")
        t = f"andb ({t}) (andb ({counts}) {core.cbool(queries_ok(case, res))})"
    return t


def dump_term(case, res):
    model, scale = terms(case, res)
    return f"map (map qdump) {model}"


def explain_failure(case, res, model):
    if model is None:
        return "implementation raised on a valid configuration"
    out = dict(clause={"saliency": "|ds/dx|", "gradinput": "x * ds/dx", "smoothgrad": "mean of ds/dx over the nb_samples noisy copies",
                       "squaregrad": "mean of (ds/dx)^2 over the nb_samples noisy copies",
                       "vargrad": "unbiased variance of ds/dx over the nb_samples noisy copies"}[case["method"]]
               + f", channel reducer {eff_reducer(case)}", lengths=[len(model), len(res["maps"])])
    if "points" in res and not queries_ok(case, res):
        out["queries"] = dict(clause="exactly nb_samples noisy copies of each input, each with the input's own target",
                              nb_samples=case["nb"], points_per_input=[len(p) for p in res["points"]],
                              recorded=res["recorded"], far_from_every_input=res["stray"], wrong_target=res["bad_target"])
    bad = []
    for n, (mm, im) in enumerate(zip(model, res["maps"])):
        if len(mm) != len(im):
            bad.append(dict(sample=n, reference_length=len(mm), implementation_length=len(im)))
            continue
        for p, (a, b) in enumerate(zip(mm, im)):
            fa, fb = core.frac(a), core.frac(b)
            if fa != fb and (exact(case) or abs(fa - fb) > core.Fraction(1, 10 ** 6) * max(1, abs(fa))):
                bad.append(dict(sample=n, position=p, reference=float(fa), implementation=float(fb)))
    out["first_differences"] = bad[:6]
    return out


def shrink(case):
    n = len(case["xs"])
    if n > 1 and case["noise"] == 0:
        for i in range(n):
            c = copy.deepcopy(case)
            del c["xs"][i]
            del c["ts"][i]
            yield c
    if n > 1 and case["noise"] > 0:       # keep the 16-apart layout: drop the last input only
        c = copy.deepcopy(case)
        del c["xs"][-1]
        del c["ts"][-1]
        yield c
    if len(case["params"]) > 1:
        for i in range(len(case["params"])):
            c = copy.deepcopy(case)
            del c["params"][i]
            for t in c["ts"]:
                del t[i]
            yield c
    if any(k["X"] for k in case["params"]):
        c = copy.deepcopy(case)
        for k in c["params"]:
            k["X"] = []
        yield c
    if case["bs"] is not None:
        c = copy.deepcopy(case)
        c["bs"] = None
        yield c
    if case["method"] in STAT and case["nb"] > (2 if case["method"] == "vargrad" else 1):
        c = copy.deepcopy(case)
        c["nb"] -= 1
        yield c
    if case["wrap"] == "keras":
        c = copy.deepcopy(case)
        c["wrap"] = "module"
        yield c


def extra_checks(tier):
    """VarGrad with a single sample has no unbiased variance: the implementation must refuse it (the theorem needs nb >= 2)"""
    case = dict(method="vargrad", kind="tab", shape=[3], reducer=None, wrap="module",
                params=[dict(b=0, W=[1, 2, 3], V=[1, 0, -1], X=[])], xs=[[0.5, 1.0, -1.0]], ts=[[1.0]], nb=1, noise=0.5,
                seed=1, eager=False, bs=None)
    try:
        res = run_impl(case)
    except AssertionError:
        return []
    except Exception as e:
        return [dict(property=PROP, case=case, clause="VarGrad with nb_samples=1 must be rejected (AssertionError)",
                     implementation_error=repr(e), no_failing_input=False)]
    return [dict(property=PROP, case=case, clause="VarGrad with nb_samples=1 must be rejected: no unbiased variance of one sample",
                 implementation=res)]
