"""c20.py — CRAFT (CraftTorch) vs coq/C20/Model.v.

One case = one CraftTorch object driven through fit / transform / estimate_importance with a small positive-activation
torch extractor g (strided conv with non-negative integer weights + ReLU; 4-D activations, or flattened / pooled: 2-D)
and a quadratic head h (the F-quad family evaluated in float64 on the channels-first flat activation).
Observables compared with the model (inside Coq):
  crops        fit()'s crops = extract_patches (exact) and #rows of crops_u = crop_count;
  transform    transform(x) = reshape_nhw (nmf (flatten_nhw (permute g(x)))) (exact; nmf = scikit-learn's transform
               recorded as a row table from ONE call on the whole matrix, g(x) evaluated by the harness);
  head inputs  every activation the head receives during estimate_importance (recorded by a wrapping nn.Module) =
               (u * mask) @ W in the model's layout and design order (float32: relative tolerance);
  importances  estimate_importance(...) = model (tolerance; guarded by the conditioning of the variance);
plus implementation-only checks: non-negativity of U, W, transform output and importances, row counts, identical
transform for several batch sizes, importances unchanged under logits -> a*logits + b, zero (|.| <= 1e-12) for a concept
whose bank row is zero, stored sensitivity = returned importances.
"""
import copy
import numpy as np
import core
import families as fam

PROP = "C20"
IMPORTS = "C20.Model"
SHARD = 3
RULE = ("CraftTorch on N in 1..3 structured dyadic images (C in 1..3, H != W in 8..16), extractor = strided conv with "
        "non-negative integer weights + ReLU giving 4-D activations (H' != W') or 2-D (flatten / global pooling), "
        "2..4 concepts, patch sizes 2..min(H,W) (strides floor(0.8 p) with and without truncation), batch sizes biased "
        "to {1,2,3,M-1,M,M+1,N,64}, nb_design in {2,3,4,5,8,16}, F-quad heads with 1..3 classes and every class id, "
        "importances global (inputs=None), on the fit inputs, or on other inputs; 1/4 of the cases with a zero bank row; "
        "distinct = different canonical JSON; non-trivial = 4-D activations with at least two locations, or more than one "
        "head batch per input (incl. remainder batches)")
ASSUMPTIONS = ["scikit-learn's NMF.transform is observed as a table row -> coefficients taken from one call on the whole "
               "activation matrix (it is deterministic; its non-negativity is checked at run time, not proved)",
               "the Halton draw is regenerated with the call the code makes (scipy.stats.qmc.Halton(2R, scramble=False)"
               ".random(n).astype(float32)); the replicated design is built by the model (C08) and checked against the "
               "activations the head actually receives",
               "extractor and head are row-wise (no cross-sample coupling)",
               "float32 products u*mask and (u*mask) @ W: relative tolerance 1e-5 on the head inputs; importances: absolute "
               "tolerance 5e-4 * (1 + value) (typically 3e-7; 6.8e-5 seen once with nb_design = 2 and importances of 2000); inputs whose variance of f(A) is below 1e-2 * mean(f(A)^2) (0/0 = NaN in the code when the variance vanishes: the property assumes Var > 0) make the importance checks of the case skipped, and counted"]

TOL_A = 1e-5
TOL_IMP = 5e-4      # relative; 5e-5 was exceeded once (6.8e-5, nb_design = 2, importances ~2000: float32 head inputs amplified by a tiny variance)
GUARD = 1e-2

PRELUDE = """
Definition qlist3_eqb := list_eqb qlist2_eqb.
Definition qlist4_eqb := list_eqb qlist3_eqb.
Definition tabG (raws : list (list Qc)) (idx : list nat) : list (list Qc) := map (fun i => nth i raws []) idx.
Open Scope Qc_scope.
(* every row within tol * (largest entry of the model row) *)
Definition close_rows (tol : Qc) (a b : list (list Qc)) : bool :=
  Nat.eqb (length a) (length b) &&
  forallb (fun p => qlist_close tol (qmax_list (fst p)) (fst p) (snd p)) (combine a b).
Definition close_rows2 (tol : Qc) (a b : list (list (list Qc))) : bool :=
  Nat.eqb (length a) (length b) && forallb (fun p => close_rows tol (fst p) (snd p)) (combine a b).
(* |a - b| <= tol * (1 + a) entrywise *)
Definition close_imp (tol : Qc) (a b : list Qc) : bool :=
  Nat.eqb (length a) (length b) && forallb (fun p => qclose tol (1 + Qcabs (fst p)) (fst p) (snd p)) (combine a b).
Close Scope Qc_scope.
(* the comparisons of one case; data are arguments (no let-bound literals: elaboration of those is very slow) *)
Definition c20_common (C H W p Nfit : nat) (imgs crops : list (list Qc)) (nU : nat) : list bool :=
  [qlist2_eqb (extract_patches C H W p imgs) crops; Nat.eqb (crop_count Nfit H W p) nU].
Definition c20_imp_checks (cmp : bool) (tol : Qc) (imp IMP IMPAFF : list Qc) : list bool :=
  if cmp then [close_imp tol imp IMP; close_imp tol IMP IMPAFF] else [true; true].
Definition c20_checks_2d (C H W p Nfit : nat) (imgs crops : list (list Qc)) (nU : nat)
  (raws : list (list Qc)) (tab : list (list Qc * list Qc)) (ks : list qclass) (Wb AB : list (list Qc))
  (bs Fb cls n R nq : nat) (TU : list (list Qc)) (tolA : Qc) (HI : list (list (list Qc)))
  (cmp : bool) (tol : Qc) (IMP IMPAFF : list Qc) : list bool * list Qc :=
  let G := tabG raws in let nmf := map (row_table tab) in let Hd := map (fquad_out ks) in
  let masks := replicated_sampler R AB in
  let tu := transform_2d G nmf bs (seq 0 nq) in
  let imp := importance_2d Hd bs Wb Fb cls n R masks tu in
  (c20_common C H W p Nfit imgs crops nU
   ++ [qlist2_eqb tu TU; close_rows2 tolA (map (perturbed_2d Wb Fb masks) tu) HI]
   ++ c20_imp_checks cmp tol imp IMP IMPAFF, imp).
Definition c20_checks_4d (C H W p Nfit : nat) (imgs crops : list (list Qc)) (nU : nat)
  (raws : list (list Qc)) (tab : list (list Qc * list Qc)) (ks : list qclass) (Wb AB : list (list Qc))
  (bs Fb cls n R nq Fa Ha Wa : nat) (TU : list (list (list (list Qc)))) (tolA : Qc) (HI : list (list (list Qc)))
  (cmp : bool) (tol : Qc) (IMP IMPAFF : list Qc) : list bool * list Qc :=
  let G := tabG raws in let nmf := map (row_table tab) in let Hd := map (fquad_out ks) in
  let masks := replicated_sampler R AB in
  let tu := transform_4d G nmf bs Fa Ha Wa (seq 0 nq) in
  let imp := importance_4d Hd bs Wb Fb cls n R masks tu in
  (c20_common C H W p Nfit imgs crops nU
   ++ [qlist4_eqb tu TU;
       close_rows2 tolA (map (head_inputs_4d Wb Fb masks (length (hd [] tu)) (length (hd [] (hd [] tu)))) tu) HI]
   ++ c20_imp_checks cmp tol imp IMP IMPAFF, imp).
Definition c20_ok (r : list bool * list Qc) (flags : list bool) : bool :=
  forallb (fun b : bool => b) (fst r) && forallb (fun b : bool => b) flags.
Definition c20_dump (r : list bool * list Qc) : list bool * list (Z * positive) := (fst r, map qdump (snd r)).
"""


# ----------------------------------------------------------------------------- generators
def gen_images(rng, n, C, H, W):
    """structured images: low background + 1..3 rectangles with per-channel intensities; values k/8 in [0, 1]"""
    imgs = []
    for _ in range(n):
        a = np.zeros((C, H, W))
        for c in range(C):
            a[c] = np.array([[rng.choice([0, 0, 0, 1]) for _ in range(W)] for _ in range(H)])
        for _ in range(rng.randint(1, 3)):
            y0, x0 = rng.randrange(H - 1), rng.randrange(W - 1)
            y1, x1 = rng.randint(y0 + 1, H), rng.randint(x0 + 1, W)
            for c in range(C):
                a[c, y0:y1, x0:x1] = rng.randint(0, 8)
        imgs.append([float(v) / 8 for v in a.reshape(-1)])
    return imgs


def out_size(d, k):
    return (d - k) // k + 1


def gen_case(rng, tier):
    big = tier == "thorough"
    while True:
        H = rng.choice([8, 9, 10, 12])
        W = rng.choice([12, 14, 15, 16])
        if rng.random() < 0.3:
            H, W = W, H
        if H != W:
            break
    C = rng.choice([1, 2, 3])
    N = rng.choice([1, 2, 2, 3, 3])
    kind = rng.choice(["4d", "4d", "4d", "flatten", "pool"])
    F = rng.choice([2, 3, 4])
    # kernel = stride of the conv: small output grid (H', W') with H' != W', mostly with both sides >= 2
    while True:
        hh, ww = rng.choice([(2, 3), (3, 2), (2, 3), (3, 2), (2, 4), (4, 2), (1, 2), (2, 1), (1, 3), (3, 1), (1, 4)])
        khs = [k for k in range(1, H + 1) if out_size(H, k) == hh]
        kws = [k for k in range(1, W + 1) if out_size(W, k) == ww]
        if khs and kws and hh * ww * F <= 24:
            kh, kw = rng.choice(khs), rng.choice(kws)
            break
    conv_w = [[[[rng.choice([0, 0, 1, 1, 2]) for _ in range(kw)] for _ in range(kh)] for _ in range(C)] for _ in range(F)]
    for f in range(F):
        conv_w[f][rng.randrange(C)][rng.randrange(kh)][rng.randrange(kw)] = rng.choice([1, 2, 3])
    conv_b = [rng.choice([0, 0, 1]) for _ in range(F)]
    D = F if kind == "pool" else F * hh * ww
    K = rng.choice([1, 2, 3])
    head = fam.gen_fquad(rng, K, D)
    for k in head:       # keep the logits of moderate size: activations reach ~50
        k["V"] = [v if rng.random() < 0.5 else 0 for v in k["V"]]
    R = rng.choice([2, 3, 3, 4])
    m = min(H, W)
    p = rng.choice([m, m - 1, 2, 3, 4, 5, 6, 7, 8, rng.randint(2, m)])
    n = rng.choice([2, 3, 4, 4, 5, 8, 8] + ([16] if N <= 2 else []))
    M = n * (R + 2)
    bs = rng.choice([1, 2, 3, M - 1, M, M + 1, N, 64, 64, rng.randint(1, M + 2)])
    mode = rng.choice(["global", "same", "other", "other"])
    case = dict(stream="craft", kind=kind, N=N, C=C, H=H, W=W, F=F, kh=kh, kw=kw, conv_w=conv_w, conv_b=conv_b,
                head=head, R=R, p=p, n=n, bs=bs, cls=rng.randrange(K), mode=mode,
                xs=gen_images(rng, N, C, H, W), seed=rng.randrange(1 << 30),
                zero_row=(rng.randrange(R) if rng.random() < 0.25 else None),
                affine=rng.choice([[2.0, 0.0], [0.5, 3.0], [3.0, -1.25], [8.0, 100.0], [2.0 ** -10, 0.0], [2.0 ** -12, 1.0], [2.0 ** -8, -0.5], [2.0 ** -16, 0.0], [2.0 ** -20, 2.0 ** -12], [2.0 ** -16, 0.0]]))
    case["xq"] = gen_images(rng, rng.choice([1, 2, 3]), C, H, W) if mode == "other" else None
    case["warm_n"] = rng.choice([k for k in (2, 3, 4, 5, 8, 16, 32) if k != n]) if rng.random() < 0.5 else None
    return case


def generate(rng, tier):
    n = 40 if tier == "quick" else 400
    return [gen_case(rng, tier) for _ in range(n)]


def geom(case):
    hh, ww = out_size(case["H"], case["kh"]), out_size(case["W"], case["kw"])
    D = case["F"] if case["kind"] == "pool" else case["F"] * hh * ww
    return hh, ww, D


def stride(p):
    return (4 * p) // 5


def nontrivial(case):
    M = case["n"] * (case["R"] + 2)
    hh, ww, _ = geom(case)
    return (case["kind"] == "4d" and hh * ww >= 2) or case["bs"] < M


def distribution(cases):
    return dict(kind=core.hist(c["kind"] for c in cases), mode=core.hist(c["mode"] for c in cases),
                image=core.hist(f"{c['C']}x{c['H']}x{c['W']}" for c in cases),
                act_grid=core.hist("%dx%d" % geom(c)[:2] for c in cases),
                patch=core.hist(c["p"] for c in cases), concepts=core.hist(c["R"] for c in cases),
                nb_design=core.hist(c["n"] for c in cases), n_fit=core.hist(c["N"] for c in cases),
                batch_class=core.hist(("lt" if c["bs"] < c["n"] * (c["R"] + 2) else "eq" if c["bs"] == c["n"] * (c["R"] + 2)
                                       else "gt") for c in cases),
                class_id=core.hist(f"{c['cls']}/{len(c['head'])}" for c in cases),
                zero_row=core.hist(c["zero_row"] is not None for c in cases))


# ----------------------------------------------------------------------------- implementation driver
def build_models(case):
    import torch
    from torch import nn
    conv = nn.Conv2d(case["C"], case["F"], (case["kh"], case["kw"]), stride=(case["kh"], case["kw"]))
    with torch.no_grad():
        conv.weight.copy_(torch.tensor(np.array(case["conv_w"], dtype=np.float32)))
        conv.bias.copy_(torch.tensor(np.array(case["conv_b"], dtype=np.float32)))
    layers = [conv, nn.ReLU()]
    if case["kind"] == "flatten":
        layers.append(nn.Flatten())
    elif case["kind"] == "pool":
        layers += [nn.AdaptiveAvgPool2d(1), nn.Flatten()]
    g = nn.Sequential(*layers)
    ks = case["head"]

    class Head(nn.Module):
        """F-quad on the flat (channels-first) activation, float64; records what it receives and returns"""
        def __init__(self, a=1.0, b=0.0, f32=False):
            super().__init__()
            self.f32 = f32
            self.b = torch.tensor([k["b"] for k in ks], dtype=torch.float64)
            self.W = torch.tensor([k["W"] for k in ks], dtype=torch.float64)
            self.V = torch.tensor([k["V"] for k in ks], dtype=torch.float64)
            self.X = [k["X"] for k in ks]
            self.a, self.c = a, b
            self.inputs, self.outputs = [], []

        def forward(self, act):
            self.inputs.append(act.detach().cpu().numpy().copy())
            z = act.double().reshape(act.shape[0], -1)
            out = self.b[None, :] + z @ self.W.T + (z * z) @ self.V.T
            cols = []
            for X in self.X:
                col = torch.zeros_like(z[:, 0])
                for i, j, k in X:
                    col = col + float(k) * z[:, i] * z[:, j]
                cols.append(col)
            out = out + torch.stack(cols, dim=1)
            self.outputs.append(out.detach().numpy().copy())
            res = self.a * out + self.c
            return res.float() if self.f32 else res        # f32: single-precision logits, as real networks produce
    return g, Head


def to_img_tensor(case, xs):
    import torch
    return torch.tensor(np.array(xs, dtype=np.float32).reshape(len(xs), case["C"], case["H"], case["W"]))


def run_impl(case):
    import torch
    import scipy.stats
    from xplique.concepts import CraftTorch
    np.random.seed(case["seed"] % (1 << 31))
    torch.manual_seed(case["seed"] % (1 << 31))
    g, Head = build_models(case)
    h = Head()
    hh, ww, D = geom(case)
    R, n = case["R"], case["n"]
    craft = CraftTorch(g, h, number_of_concepts=R, batch_size=case["bs"], patch_size=case["p"], device="cpu")
    x_fit = to_img_tensor(case, case["xs"])
    crops, crops_u, bank = craft.fit(x_fit, class_id=case["cls"])
    crops, crops_u, bank = np.asarray(crops), np.asarray(crops_u), np.asarray(bank)
    flags = {}
    flags["crops_shape"] = list(crops.shape[1:]) == [case["C"], case["p"], case["p"]]
    flags["u_rows_eq_crops"] = crops_u.shape[0] == crops.shape[0] and crops_u.ndim == 2
    flags["u_cols_eq_concepts"] = crops_u.ndim == 2 and crops_u.shape[1] == R
    flags["bank_shape"] = list(bank.shape) == [R, case["F"]]      # crop activations are pooled over locations (4-D)
    if case["kind"] == "flatten":
        flags["bank_shape"] = list(bank.shape) == [R, D]
    flags["u_nonneg"] = bool(np.all(crops_u >= 0)) and bool(np.all(np.isfinite(crops_u)))
    flags["bank_nonneg"] = bool(np.all(bank >= 0)) and bool(np.all(np.isfinite(bank)))
    flags["factorization_stored"] = (craft.factorization.crops_u is crops_u or np.array_equal(craft.factorization.crops_u, crops_u)) \
        and np.array_equal(craft.factorization.concept_bank_w, bank) and craft.factorization.class_id == case["cls"]

    # ---- transform on the query inputs, several batch sizes
    xq_list = case["xs"] if case["mode"] != "other" else case["xq"]
    xq = to_img_tensor(case, xq_list)
    tu = np.asarray(craft.transform(xq))
    same = True
    for b2 in [1, 2, len(xq_list), len(xq_list) + 1, 64]:
        craft.batch_size = b2
        same = same and np.array_equal(np.asarray(craft.transform(xq)), tu)
    craft.batch_size = case["bs"]
    flags["transform_batch_invariant"] = bool(same)
    flags["transform_nonneg"] = bool(np.all(tu >= 0)) and bool(np.all(np.isfinite(tu)))
    want = [len(xq_list), hh, ww, R] if case["kind"] == "4d" else [len(xq_list), R]
    flags["transform_shape"] = list(tu.shape) == want
    # a fully-convolutional extractor accepts every image size: transform of images LARGER than the fitted ones must give
    # the coefficients of THEIR OWN activations, location by location (library observations: g and the reducer)
    if case["kind"] == "4d":
        import random as _random
        r2 = _random.Random(case["seed"])
        H2, W2 = case["H"] + r2.choice([1, 2, 4]), case["W"] + r2.choice([0, 3, 5])
        x2 = torch.tensor(np.array(gen_images(r2, 2, case["C"], H2, W2), dtype=np.float32).reshape(2, case["C"], H2, W2))
        with torch.no_grad():
            raw2 = g(x2).numpy()
        red = craft.factorization.reducer
        ref2 = np.asarray(red.transform(np.transpose(raw2, (0, 2, 3, 1)).reshape(-1, raw2.shape[1]).astype(red.components_.dtype)))
        ref2 = ref2.reshape(2, raw2.shape[2], raw2.shape[3], R)
        try:
            tu2 = np.asarray(craft.transform(x2))
            flags["other_size_transform"] = tu2.shape == ref2.shape and bool(np.allclose(tu2, ref2, rtol=1e-5, atol=1e-6))
        except Exception:                     # noqa: BLE001
            flags["other_size_transform"] = False
    # the extractor on the query inputs and scikit-learn's transform of the whole activation matrix (library observations)
    with torch.no_grad():
        raw = g(xq).numpy()
    raws = raw.reshape(len(xq_list), -1)
    flat_acts = np.transpose(raw, (0, 2, 3, 1)).reshape(-1, raw.shape[1]) if raw.ndim == 4 else raw
    reducer = craft.factorization.reducer
    flat_u = reducer.transform(flat_acts.astype(reducer.components_.dtype))
    tab, seen = [], set()
    for a_row, u_row in zip(flat_acts.tolist(), np.asarray(flat_u).tolist()):
        key = tuple(a_row)
        if key not in seen:
            seen.add(key)
            tab.append([a_row, u_row])

    # ---- importances
    bank_used = bank
    if case["zero_row"] is not None:
        craft.factorization.concept_bank_w[case["zero_row"]] = 0.0
        bank_used = np.asarray(craft.factorization.concept_bank_w)
    if case.get("warm_n"):
        # history: importances were already estimated on this object with ANOTHER budget (global then local, two budgets)
        craft.estimate_importance(None if case["mode"] == "global" else xq, nb_design=case["warm_n"])
    h.inputs, h.outputs = [], []
    if case["mode"] == "global":
        imp = craft.estimate_importance(nb_design=n)
        # (NaN importances — zero variance of f(A), outside the property — are "stored" when the same NaNs are stored;
        # the decreasing order is only meaningful for finite values)
        imp_arr = np.asarray(imp, dtype=np.float64)
        flags["sensitivity_stored"] = craft.sensitivity is not None \
            and np.array_equal(np.asarray(craft.sensitivity.importances, dtype=np.float64), imp_arr, equal_nan=True) \
            and sorted(np.asarray(craft.sensitivity.most_important_concepts).tolist()) == list(range(R)) \
            and (not np.all(np.isfinite(imp_arr)) or
                 bool(np.all(np.diff(imp_arr[np.asarray(craft.sensitivity.most_important_concepts)]) <= 0)))
    else:
        imp = craft.estimate_importance(xq, nb_design=n)
    imp = np.asarray(imp)
    rec_in = np.concatenate(h.inputs, 0)
    rec_out = np.concatenate(h.outputs, 0)
    M = n * (R + 2)
    flags["head_calls"] = rec_in.shape[0] == M * len(xq_list)
    # conditioning of the variance of f(A), per input (guard; computed from the recorded logits)
    cond = []
    if flags["head_calls"]:
        y = rec_out[:, case["cls"]].reshape(len(xq_list), M)[:, :n]
        for row in y:
            ms = float(np.mean(row * row))
            cond.append(float(np.var(row, ddof=1) / ms) if ms > 0 else 0.0)
    well_posed = bool(cond) and min(cond) >= GUARD          # Var(f(A)) > 0 for every input, with a margin
    finite = bool(np.all(np.isfinite(imp)))
    flags["importance_shape"] = list(imp.shape) == [R]
    if well_posed:
        flags["importance_finite"] = finite
        flags["importance_nonneg"] = finite and bool(np.all(imp >= 0))
        if case["zero_row"] is not None:
            # zero up to the rounding of the library's float32 matmul (identical rows of (u * mask) @ W at different row
            # positions may differ in the last bit: observed 6.7e-33 once in 400 cases); a defect gives 1/n or more
            flags["zero_row_zero_importance"] = finite and abs(float(imp[case["zero_row"]])) <= 1e-12
    # affine rescaling of the logits (same object otherwise)
    a, b = case["affine"]
    craft.latent_to_logit_model = Head(a, b)
    imp_aff = np.asarray(craft.estimate_importance(None if case["mode"] == "global" else xq, nb_design=n))
    # single-precision logits with an offset much larger than their spread (logit = 2 h + b, b ~ 4096..8192 std(f(A))):
    # the indices must not move (two-pass variance: error ~ 1e-3; a one-pass E[v^2] - E[v]^2 in float32 is garbage)
    if well_posed and finite and flags["head_calls"]:
        s_min = min(float(np.std(row)) for row in rec_out[:, case["cls"]].reshape(len(xq_list), M)[:, :n])
        if s_min > 0:
            boff = float(2.0 ** np.ceil(np.log2(4096.0 * s_min)))
            craft.latent_to_logit_model = Head(2.0, boff, f32=True)
            imp_off = np.asarray(craft.estimate_importance(None if case["mode"] == "global" else xq, nb_design=n), dtype=np.float64)
            flags["offset_invariance_float32_logits"] = bool(np.all(np.isfinite(imp_off))) and \
                bool(np.all(np.abs(imp_off - imp) <= 2e-2 * (1.0 + np.abs(imp))))
    AB = scipy.stats.qmc.Halton(2 * R, scramble=False).random(n).astype(np.float32)
    return dict(flags=flags, crops=crops.reshape(crops.shape[0], -1).tolist(), n_u=int(crops_u.shape[0]),
                bank=bank_used.tolist(), raws=raws.tolist(), tab=tab, tu=tu.tolist(), imp=imp.tolist() if finite else None,
                imp_affine=imp_aff.tolist() if bool(np.all(np.isfinite(imp_aff))) else None,
                head_inputs=rec_in.reshape(rec_in.shape[0], -1).tolist() if flags["head_calls"] else None,
                AB=AB.tolist(), cond=cond)


# ----------------------------------------------------------------------------- Coq side
def cq3(a):
    return core.cl([core.cqlist2(x) for x in a])


def cq4(a):
    return core.cl([cq3(x) for x in a])


CHECKS = ["crops", "crop_count", "transform", "head_inputs", "importance", "affine_invariance"]


def skipped(case, res):
    return (not res["cond"]) or min(res["cond"]) < GUARD


def checks_term(case, res):
    hh, ww, D = geom(case)
    nq = len(case["xs"] if case["mode"] != "other" else case["xq"])
    R, n, F, bs = case["R"], case["n"], case["F"], case["bs"]
    M = n * (R + 2)
    nat = core.cnat
    tab = core.cl([f"({core.cqlist(a)}, {core.cqlist(u)})" for a, u in res["tab"]])
    hi = [res["head_inputs"][i * M:(i + 1) * M] for i in range(nq)] if res["head_inputs"] else []
    cmp_imp = not (res["imp"] is None or res["imp_affine"] is None or skipped(case, res))
    args = [nat(case["C"]), nat(case["H"]), nat(case["W"]), nat(case["p"]), nat(case["N"]), core.cqlist2(case["xs"]),
            core.cqlist2(res["crops"]), nat(res["n_u"]), core.cqlist2(res["raws"]), tab, fam.coq_fquad(case["head"]),
            core.cqlist2(res["bank"]), core.cqlist2(res["AB"]), nat(bs), nat(len(res["bank"][0])), nat(case["cls"]),
            nat(n), nat(R), nat(nq)]
    if case["kind"] == "4d":
        args += [nat(F), nat(hh), nat(ww), cq4(res["tu"])]
        fn = "c20_checks_4d"
    else:
        args += [core.cqlist2(res["tu"])]
        fn = "c20_checks_2d"
    args += [core.cq(TOL_A), cq3(hi), core.cbool(cmp_imp), core.cq(TOL_IMP),
             core.cqlist(res["imp"] if cmp_imp else []), core.cqlist(res["imp_affine"] if cmp_imp else [])]
    return "(" + fn + "\n  " + "\n  ".join(args) + ")"


def flag_names(res):
    return sorted(res["flags"])


EXTRA_COVERAGE = dict(importance_comparisons_skipped_under_variance_guard=0, importance_comparisons=0)
_counted = set()


def coq_term(case, res):
    key = (case["seed"], case["n"], case["N"], case["bs"])
    if key not in _counted:
        _counted.add(key)
        k = "importance_comparisons_skipped_under_variance_guard" if skipped(case, res) else "importance_comparisons"
        EXTRA_COVERAGE[k] += 1
    flags = core.cl([core.cbool(res["flags"][k]) for k in flag_names(res)])
    return f"c20_ok {checks_term(case, res)} {flags}"


def dump_term(case, res):
    return f"c20_dump {checks_term(case, res)}"


def explain_failure(case, res, model):
    if res is None:
        return "implementation raised on a valid configuration"
    out = dict(false_flags=[k for k in flag_names(res) if not res["flags"][k]],
               importance_compared=not skipped(case, res), conditioning=res["cond"])
    if model is not None:
        verdicts, imp = model
        out["failed_checks"] = [name for name, ok in zip(CHECKS, verdicts) if not ok]
        out["importances_model"] = [float(core.frac(v)) for v in imp]
        out["importances_implementation"] = res["imp"]
        if res["imp"] is not None and len(imp) == len(res["imp"]):
            out["importances_abs_diff"] = [float(abs(core.frac(a) - core.frac(b))) for a, b in zip(imp, res["imp"])]
    out["clauses"] = dict(crops="fit's crops are the p x p windows anchored at multiples of floor(0.8 p), image-major, row-major",
                          crop_count="one row of U per crop: N (floor((H-p)/s)+1) (floor((W-p)/s)+1)",
                          transform="location (n,h,w) of transform(x) holds the NMF coefficients of the activation at (n,h,w)",
                          head_inputs="the head is evaluated on (u * mask) @ W, masks broadcast over locations, design order A,B,C_0..",
                          importance="mean over inputs of Jansen's total index of the class logit",
                          affine_invariance="importances unchanged under logits -> a logits + b, a > 0")
    return out


def shrink(case):
    nq = len(case["xq"]) if case["mode"] == "other" else 0
    for i in range(nq if nq > 1 else 0):
        c = copy.deepcopy(case)
        del c["xq"][i]
        yield c
    if case["N"] > 1:
        for i in range(case["N"]):
            c = copy.deepcopy(case)
            del c["xs"][i]
            c["N"] -= 1
            yield c
    if case["n"] > 2:
        c = copy.deepcopy(case)
        c["n"] = 2
        yield c
    if case["bs"] != 64:
        c = copy.deepcopy(case)
        c["bs"] = 64
        yield c
    if any(k["X"] for k in case["head"]):
        c = copy.deepcopy(case)
        for k in c["head"]:
            k["X"] = []
        yield c
    if any(any(k["V"]) for k in case["head"]):
        c = copy.deepcopy(case)
        for k in c["head"]:
            k["V"] = [0] * len(k["V"])
        yield c
    if case["zero_row"] is not None:
        c = copy.deepcopy(case)
        c["zero_row"] = None
        yield c



def extra_checks(tier):
    """int(patch_size * 0.80) (binary floating point) is floor(4 p / 5), the stride of the model, for every p up to 2^20"""
    bad = [p for p in range(1, 1 << 20) if int(p * 0.80) != (4 * p) // 5]
    if bad:
        return [dict(property=PROP, broken="stride: int(p * 0.80) != floor(4p/5)", patch_sizes=bad[:10], no_failing_input=False)]
    return []
