"""c15.py — MuFidelity and AverageStability vs coq/C15/Model.v.

Streams (case["stream"]):
  mufid     MuFidelity(model, inputs, targets, batch_size, grid_size, subset_percent, baseline_mode, nb_samples)(phi)
            on F-quad scores through a recording NumPy-callable model.  The random subset masks are INPUTS of the Coq
            model: every recorded query is degraded = x*m + (1-m)*baseline with m in {0,1}, inputs are generated with
            x != baseline everywhere and pairwise different across inputs in every coordinate, so the mask and the input
            a query belongs to are read off the query itself (no knowledge of call order or batch boundaries).
            The model returns the mean over samples of cov/sqrt(var_a var_b) of the average ranks (NaN -> 0), with the
            square root computed inside Coq to 1e-9 (exact on squares); compared with the metric under TOL.
            phi kinds: random, exact attributions of an additive score (metric must be +1), their negation (-1),
            positive rescalings, constant scores (0).
  spearman  the model of the library call: average ranks vs scipy.stats.rankdata (exact), root-free correlation vs
            scipy.stats.spearmanr (TOL), NaN exactly when a variance is 0; vectors with many ties.
  stab      AverageStability(model, inputs, targets, batch_size, radius, distance, nb_samples)(explainer[, base]) with
            recording NumPy explainers (gradient / gradient*input / |gradient| of F-quad, and explainers that ignore
            their input), distances l1 / l2 / callables.  The neighbours the explainer was asked about are recorded;
            the noises fed to the model are neighbour - input (exact rationals).
"""
import copy
import math
import numpy as np
import core
import families as fam

PROP = "C15"
IMPORTS = "C15.Model"
SHARD = 12
TOL = 1e-7          # |model - impl| <= TOL * (1 + |model|)   (float64 on the implementation side, sqrt to 1e-9 in Coq)
RULE = ("mufid: tabular / time series / image (H != W, C in 1..3) inputs, grid_size in {None,1,2,3,5,9}, subset_percent in "
        "{0,0.2,0.4,0.5,0.7,1}, baseline a float or a function, nb_samples 1..12, 1..4 inputs, F-quad scores with cross terms "
        "or additive, explanations with and without channel axis, batch sizes biased to {1,2,nb-1,nb,nb+1,2nb,2nb+1,N*nb,"
        "N*nb+1,None}; stab: same kinds, nb_samples 1..6, radius in {0.1,0.5,1}, l1 / l2 / three callables, five explainers, "
        "base explanations given or not; spearman: vectors of length 1..12 on a coarse grid (ties); distinct = different "
        "canonical JSON encoding; non-trivial = mufid with batch_size < nb_samples or a remainder pass or several inputs "
        "per input batch, spearman with a tie, stab with nb_samples >= 2")
ASSUMPTIONS = [
    "score / explainer are applied row-wise (no cross-sample coupling); a baseline function is row-wise too",
    "the random subset masks are inputs of the model: read off the recorded queries (query == input -> 1, query == baseline "
    "-> 0, anything else is reported); nothing is assumed about their distribution; all channels of a pixel must share "
    "one mask value (checked on every run)",
    "the order of the nb_samples (drop, attribution) pairs of one input is the order of its recorded queries; the "
    "correlation does not depend on it",
    "float32 evaluation of F-quad drops and of the attribution sums on dyadic inputs is exact, so ranks and ties are those "
    "of the rational model; only the final correlation / mean is compared under tolerance "
    f"|model - impl| <= {TOL}*(1+|model|)",
    "scipy.stats.spearmanr is modelled as the Pearson correlation of average ranks (validated by the spearman stream); "
    "the square root inside Coq is floor(sqrt(x)*1e9)/1e9 (exact on squares of rationals)",
    "stability: the noisy masks are inputs of the model, fed as neighbour - input per input (float32 addition rounds); "
    "recorded neighbours must lie in [input, input + radius] and, when the metric exposes noisy_masks, equal "
    "float32(input + noisy_masks[j])",
]
EXTRA_COVERAGE = {}
_seen = dict(additive_plus1=0, additive_minus1=0, additive_cases=0, const_zero=0, worst_rel_err=0.0, ambiguous_queries=0,
             stab_zero_cases=0)

BASE_FUNS = {          # name -> (a, b): baseline = a*x + b, applied elementwise
    "half_plus_one": (0.5, 1.0),
    "neg": (-1.0, 0.0),
    "const_fun": (0.0, 0.75),
}
DISTS = ["l1", "l2", "linf", "signed", "sq"]
EXPLAINERS = ["grad", "gradinput", "absgrad", "const", "const_t"]


# ----------------------------------------------------------------------------------------------- geometry
def npos_c(case):
    sh = case["shape"]
    if case["kind"] == "tab":
        return sh[0], 1
    if case["kind"] == "ts":
        return sh[0] * sh[1], 1
    return sh[0] * sh[1], sh[2]


def baseline_ab(case):
    b = case["baseline"]
    return (0.0, b["const"]) if "const" in b else BASE_FUNS[b["fun"]]


def batch_consts(case):
    n, nb = len(case["xs"]), case["nb"]
    B = case["bs"] or n * nb
    pb = min(B, nb)
    return B, pb, max(1, B // pb)


# ----------------------------------------------------------------------------------------------- generation
GRID8 = [k / 8 for k in range(-16, 17)]


def gen_inputs(rng, n, dim, a, b):
    """n inputs, in every coordinate pairwise different, different from their baseline a*x+b and from the baselines of the
    other inputs"""
    cols = []
    for _ in range(dim):
        while True:
            vals = rng.sample(GRID8, n)
            bl = [a * v + b for v in vals]
            if all(v not in bl for v in vals):
                break
        cols.append(vals)
    return [[cols[j][i] for j in range(dim)] for i in range(n)]


def exact_attr(case, sign=1.0, scale=1.0, chan_sum=False):
    a, b = baseline_ab(case)
    npos, c = npos_c(case)
    out = []
    for x, t in zip(case["xs"], case["ts"]):
        phi = []
        for j, xj in enumerate(x):
            w = sum(tc * k["W"][j] for tc, k in zip(t, case["params"]))
            phi.append(sign * scale * w * (xj - (a * xj + b)))
        if chan_sum:
            phi = [sum(phi[p * c:(p + 1) * c]) for p in range(npos)]
        out.append(phi)
    return out


def gen_mufid(rng, tier):
    kind = rng.choice(["tab", "tab", "ts", "img", "img", "img"])
    if kind == "tab":
        shape = [rng.randint(1, 10)]
    elif kind == "ts":
        shape = [rng.randint(1, 5), rng.randint(1, 4)]
    else:
        h, w = rng.randint(1, 5), rng.randint(1, 5)
        if h == w and rng.random() < 0.7:
            w = w % 5 + 1
        shape = [h, w, rng.choice([1, 2, 3])]
    case = dict(stream="mufid", kind=kind, shape=shape)
    npos, c = npos_c(case)
    dim = npos * c
    n = rng.choice([1, 2, 2, 3, 3, 4, 5])
    nb = rng.choice([1, 2, 3, 4, 5, 6, 7, 8, 9, 10, 12] if rng.random() < 0.5 else [4, 5, 6, 7, 8, 9, 10, 12])
    # a fifth of the cases: several inputs per input batch AND a smaller last input batch (N = 3 or 5 with 2 per batch,
    # N = 4 or 5 with 3 per batch), random explanations of a non-additive score (per-sample correlations differ)
    ragged = rng.random() < 0.2
    if ragged:
        per = rng.choice([2, 2, 3])
        n = rng.choice([3, 5] if per == 2 else [4, 5])
    case["nb"] = nb
    case["grid"] = rng.choice([None, None, 1, 2, 3, 5, 9])
    case["pct"] = rng.choice([0.0, 1.0] if rng.random() < 0.08 else [0.2, 0.4, 0.5, 0.5, 0.7, 0.3, 0.6])
    case["baseline"] = dict(const=rng.choice([0.0, 0.0, 0.5, -1.0, 1.25])) if rng.random() < 0.6 else \
        dict(fun=rng.choice(sorted(BASE_FUNS)))
    a, b = baseline_ab(case)
    ncls = rng.randint(1, 3)
    mk = "quad" if ragged else rng.choice(["quad", "quad", "additive", "additive", "const"])
    if mk == "quad":
        case["params"] = fam.gen_fquad(rng, ncls, dim)
    elif mk == "additive":
        case["params"] = fam.gen_fquad(rng, ncls, dim, cross=False, quad=False)
    else:
        case["params"] = [dict(b=rng.randint(-2, 2), W=[0] * dim, V=[0] * dim, X=[]) for _ in range(ncls)]
    case["model_kind"] = mk
    case["xs"] = gen_inputs(rng, n, dim, a, b)
    case["ts"] = fam.gen_targets(rng, n, ncls)
    if mk == "additive" and all(all(v == 0 for v in t) for t in case["ts"]):
        case["ts"][0][0] = 1.0
    # explanations
    if kind == "img":
        pshape = rng.choice(["hw", "hw1", "hwc"])
    else:
        pshape = "full"
    pk = rng.choice(["exact", "neg_exact", "scaled_exact", "random"]) if mk == "additive" else "random"
    if pk != "random" and pshape == "hw1":
        pshape = "hw"
    case["phi_shape"] = pshape
    case["phi_kind"] = pk
    cphi = c if pshape in ("hwc", "full") else 1
    if pk == "random":
        case["phis"] = [[rng.randint(-16, 16) / 8 for _ in range(npos * cphi)] for _ in range(n)]
    else:
        sign = -1.0 if pk == "neg_exact" else 1.0
        scale = rng.choice([0.5, 2.0, 4.0, 0.125]) if pk == "scaled_exact" else 1.0
        case["phis"] = exact_attr(case, sign, scale, chan_sum=(kind == "img" and pshape != "hwc"))
    bss = [1, 2, 3, max(1, nb - 1), nb, nb + 1, 2 * nb, 2 * nb + 1, n * nb, n * nb + 1, None, None, 64,
           rng.randint(1, n * nb + 2)]
    case["bs"] = rng.choice(bss)
    if ragged:
        case["bs"] = per * nb + rng.choice([0, 0, 1]) if per * nb + 1 < (per + 1) * nb else per * nb
    case["eager"] = rng.random() < 0.25
    case["tfseed"] = rng.randint(0, 2 ** 31 - 1)
    return case


def gen_spearman(rng, tier):
    n = rng.choice([1, 2, 2, 3, 4, 5, 6, 8, 10, 12])
    lev = rng.choice([1, 2, 3, 5, 40])
    a = [rng.randint(-lev, lev) / 4 for _ in range(n)]
    r = rng.random()
    if r < 0.15:
        b = list(a)
    elif r < 0.3:
        b = [-v for v in a]
    elif r < 0.4:
        b = [3.0 * v + 1 for v in a]
    else:
        b = [rng.randint(-lev, lev) / 4 for _ in range(n)]
    return dict(stream="spearman", a=a, b=b)


def gen_stab(rng, tier):
    kind = rng.choice(["tab", "tab", "ts", "img", "img"])
    if kind == "tab":
        shape = [rng.randint(1, 7)]
    elif kind == "ts":
        shape = [rng.randint(1, 3), rng.randint(1, 3)]
    else:
        shape = [rng.randint(1, 3), rng.randint(1, 3), rng.choice([1, 2])]
    case = dict(stream="stab", kind=kind, shape=shape)
    npos, c = npos_c(case)
    dim = npos * c
    n = rng.choice([1, 2, 2, 3])
    ncls = rng.randint(1, 2)
    case["nb"] = rng.choice([1, 2, 3, 4, 5, 6])
    case["radius"] = rng.choice([0.1, 0.5, 1.0])
    case["dist"] = rng.choice(DISTS + ["l1", "l2"])
    case["explainer"] = rng.choice(EXPLAINERS + ["grad", "gradinput"])
    case["params"] = fam.gen_fquad(rng, ncls, dim)
    xs = [fam.dyadic(rng, dim) for _ in range(n)]
    firsts = rng.sample([-6.0, -4.0, -2.0, 0.0, 2.0, 4.0, 6.0], n)       # inputs are >= 2 apart in coordinate 0
    for x, f in zip(xs, firsts):
        x[0] = f + rng.randint(-2, 2) / 8
    case["xs"] = xs
    case["ts"] = fam.gen_targets(rng, n, ncls)
    case["const_e"] = [rng.randint(-8, 8) / 4 for _ in range(dim)]
    case["base"] = rng.choice([None, None, "true", "random"])
    if case["base"] == "random":
        case["base_es"] = [[rng.randint(-8, 8) / 4 for _ in range(dim)] for _ in range(n)]
    case["bs"] = rng.choice([None, 1, 2, 64])
    case["tfseed"] = rng.randint(0, 2 ** 31 - 1)
    case["warm"] = rng.choice([k for k in ("grad", "gradinput", "absgrad", "const") if k != case["explainer"]]) if rng.random() < 0.5 else None
    return case


def generate(rng, tier):
    big = tier == "thorough"
    nm, ns, nt = (85, 25, 40) if not big else (900, 200, 300)
    return ([gen_mufid(rng, tier) for _ in range(nm)] + [gen_spearman(rng, tier) for _ in range(ns)] +
            [gen_stab(rng, tier) for _ in range(nt)])


def nontrivial(case):
    s = case["stream"]
    if s == "mufid":
        B, pb, ib = batch_consts(case)
        return case["nb"] >= 2 and (pb < case["nb"] or (ib >= 2 and len(case["xs"]) >= 2))
    if s == "spearman":
        return len(set(case["a"])) < len(case["a"]) or len(set(case["b"])) < len(case["b"])
    return case["nb"] >= 2


def distribution(cases):
    mf = [c for c in cases if c["stream"] == "mufid"]
    st = [c for c in cases if c["stream"] == "stab"]

    def bclass(c):
        if c["bs"] is None:
            return "None"
        B, pb, ib = batch_consts(c)
        if pb < c["nb"]:
            return "lt-nb-divides" if c["nb"] % pb == 0 else "lt-nb-remainder"
        return f"ge-nb-ib{min(ib, len(c['xs']))}"
    return dict(stream=core.hist(c["stream"] for c in cases),
                mufid_kind=core.hist(c["kind"] for c in mf), mufid_nb=core.hist(c["nb"] for c in mf),
                mufid_batch_class=core.hist(bclass(c) for c in mf), mufid_grid=core.hist(c["grid"] for c in mf),
                mufid_subset_percent=core.hist(c["pct"] for c in mf),
                mufid_baseline=core.hist(("const" if "const" in c["baseline"] else c["baseline"]["fun"]) for c in mf),
                mufid_model=core.hist(c["model_kind"] for c in mf), mufid_phi=core.hist(c["phi_kind"] for c in mf),
                mufid_phi_shape=core.hist(c["phi_shape"] for c in mf), mufid_n=core.hist(len(c["xs"]) for c in mf),
                stab_dist=core.hist(c["dist"] for c in st), stab_explainer=core.hist(c["explainer"] for c in st),
                stab_nb=core.hist(c["nb"] for c in st), stab_base=core.hist(c["base"] for c in st),
                stab_kind=core.hist(c["kind"] for c in st))


# ----------------------------------------------------------------------------------------------- implementation: mufid
def grid_cells(case):
    """position -> grid cell of TF's nearest-neighbour resize (index min(((2i+1)g)//(2H), g-1)); None for tabular data"""
    sh = case["shape"]
    if case["kind"] == "tab":
        return None
    g = case["grid"] or sh[0]
    h, w = sh[0], sh[1]
    rows = [min(((2 * i + 1) * g) // (2 * h), g - 1) for i in range(h)]
    if case["kind"] == "ts":
        cols = list(range(w))
    else:
        cols = [min(((2 * j + 1) * g) // (2 * w), g - 1) for j in range(w)]
    return [(rows[i], cols[j]) for i in range(h) for j in range(w)]


def make_baseline(case):
    import tensorflow as tf
    b = case["baseline"]
    if "const" in b:
        return float(b["const"])
    a, c0 = BASE_FUNS[b["fun"]]
    a32, c32 = np.float32(a), np.float32(c0)
    return lambda x: x * a32 + c32          # a plain function: inspect.isfunction is what the code tests


def phi_array(case):
    n = len(case["xs"])
    sh = case["shape"]
    ps = case["phi_shape"]
    if ps == "full":
        shape = sh
    elif ps == "hw":
        shape = sh[:2]
    elif ps == "hw1":
        shape = sh[:2] + [1]
    else:
        shape = sh
    return np.array(case["phis"], dtype=np.float32).reshape([n] + list(shape))


def run_mufid(case):
    import tensorflow as tf
    from xplique.metrics import MuFidelity
    n, nb = len(case["xs"]), case["nb"]
    npos, c = npos_c(case)
    dim = npos * c
    xs = np.array(case["xs"], dtype=np.float32).reshape([n] + case["shape"])
    ts = np.array(case["ts"], dtype=np.float32)
    model = fam.FQuadNumpy(case["params"], record=True)
    problems = []
    tf.config.run_functions_eagerly(bool(case["eager"]))
    try:
        tf.random.set_seed(case["tfseed"])
        metric = MuFidelity(model, xs, ts, batch_size=case["bs"], grid_size=case["grid"], subset_percent=case["pct"],
                            baseline_mode=make_baseline(case), nb_samples=nb)
        n_init = len(model.queries)
        value = metric(phi_array(case))
    finally:
        tf.config.run_functions_eagerly(False)
    value = float(value)
    res = dict(value=value if math.isfinite(value) else repr(value), n_init=n_init, n_queries=len(model.queries),
               problems=problems)
    if not math.isfinite(value):
        problems.append(f"metric returned {value}")
    # base predictions: one query per input, the inputs themselves
    q0 = np.array(model.queries[:n_init], dtype=np.float64).reshape(n_init, -1)
    xf = np.array(case["xs"], dtype=np.float64)
    if n_init != n or not np.array_equal(np.sort(q0, axis=0), np.sort(xf, axis=0)):
        problems.append(f"{n_init} queries during construction, expected the {n} inputs themselves")
    q = np.array(model.queries[n_init:], dtype=np.float64).reshape(-1, dim) if len(model.queries) > n_init else np.zeros((0, dim))
    if q.shape[0] != n * nb:
        problems.append(f"{q.shape[0]} perturbed inputs evaluated, expected {n}*{nb} (exactly nb_samples per input)")
    a, b = baseline_ab(case)
    bl = (np.float32(a) * xf.astype(np.float32) + np.float32(b)).astype(np.float64)
    # which input / which mask: query[j] in {x_i[j], baseline_i[j]} for every j
    masks = [[] for _ in range(n)]
    pending = []
    for k, qq in enumerate(q):
        comp = []
        for i in range(n):
            is_x = qq == xf[i]
            is_b = qq == bl[i]
            if np.all(is_x | is_b):
                comp.append((i, is_x))
        if not comp:
            problems.append(f"perturbed input #{k} is not of the form x*m + (1-m)*baseline with m in {{0,1}} for any input")
            continue
        if len(comp) == 1:
            masks[comp[0][0]].append(comp[0][1])
        else:
            # compatible with several inputs: only possible when everything was set to a baseline shared by these inputs
            if any(np.any(m) for _, m in comp):
                problems.append(f"perturbed input #{k} cannot be attributed to one input")
                continue
            pending.append([i for i, _ in comp])
    for cand in pending:
        _seen["ambiguous_queries"] += 1
        i = min(cand, key=lambda i: len(masks[i]))
        masks[i].append(np.zeros(dim, dtype=bool))
    out_masks = []
    for i in range(n):
        if len(masks[i]) != nb:
            problems.append(f"input {i} was perturbed {len(masks[i])} times, expected nb_samples={nb}")
        mi = []
        for m in masks[i]:
            mm = np.asarray(m).reshape(npos, c)
            if not np.all(mm == mm[:, :1]):
                problems.append(f"input {i}: channels of a pixel do not share one mask value")
            mi.append([bool(v) for v in mm[:, 0]])
        out_masks.append(mi)
    res["masks"] = out_masks
    # the subsets are unions of grid cells (nearest-neighbour upsampling of a grid_size x grid_size / grid_size x W draw)
    cells = grid_cells(case)
    if cells is not None:
        for i, mi in enumerate(out_masks):
            for m in mi:
                seen = {}
                for p, v in enumerate(m):
                    if seen.setdefault(cells[p], v) != v:
                        problems.append(f"input {i}: a subset cuts through a grid cell (grid_size={case['grid']})")
                        break
    # additive score + exact attributions: every per-sample correlation is +1 (-1 for the negation), or 0 when the
    # drops of a sample are all tied -> n * metric is an integer of the right sign (checked without the model)
    if case["phi_kind"] in ("exact", "scaled_exact", "neg_exact") and math.isfinite(value):
        sign = -1.0 if case["phi_kind"] == "neg_exact" else 1.0
        k = sign * value * n
        if abs(k - round(k)) > 1e-6 * n or round(k) < 0 or round(k) > n:
            problems.append(f"additive score with exact attributions ({case['phi_kind']}): metric {value!r} is not a mean of "
                            f"{sign:+.0f} / 0 correlations")
        _seen["additive_cases"] += 1
        if abs(value - sign) <= 1e-6:
            _seen["additive_plus1" if sign > 0 else "additive_minus1"] += 1
    if case["model_kind"] == "const":
        _seen["const_zero"] += int(value == 0.0)
    EXTRA_COVERAGE["mufid_direct"] = dict(
        note="implementation-side facts checked without the model: additive score + exact attributions give a mean of "
             "+1/-1/0 correlations (1e-6); counts of cases where the metric was exactly +1 / -1; constant scores give 0; "
             "queries compatible with several inputs (everything at a shared baseline) are distributed by count",
        **{k: v for k, v in _seen.items() if k != "worst_rel_err"})
    return res


# ----------------------------------------------------------------------------------------------- implementation: spearman
def run_spearman(case):
    import warnings
    from scipy.stats import spearmanr, rankdata
    a, b = np.array(case["a"]), np.array(case["b"])
    with warnings.catch_warnings():
        warnings.simplefilter("ignore")
        r = float(spearmanr(a, b)[0]) if len(a) >= 2 else float("nan")
    return dict(ra=[float(v) for v in rankdata(a)], rb=[float(v) for v in rankdata(b)],
                rho=None if math.isnan(r) else r)


# ----------------------------------------------------------------------------------------------- implementation: stab
class RecExplainer:
    """NumPy explainer computed in float64; records every (inputs, targets) batch it is called on"""
    def __init__(self, case):
        ks = case["params"]
        self.kind = case["explainer"]
        self.W = np.array([k["W"] for k in ks], dtype=np.float64)
        self.V = np.array([k["V"] for k in ks], dtype=np.float64)
        self.X = [k["X"] for k in ks]
        self.const = np.array(case["const_e"], dtype=np.float64)
        self.shape = case["shape"]
        self.calls = []

    def grad(self, xf, t):
        g = np.zeros_like(xf)
        for ci in range(self.W.shape[0]):
            gc = self.W[ci][None, :] + 2.0 * self.V[ci][None, :] * xf
            for i, j, k in self.X[ci]:
                gc[:, i] += k * xf[:, j]
                gc[:, j] += k * xf[:, i]
            g += t[:, ci:ci + 1] * gc
        return g

    def __call__(self, inputs, targets):
        x = np.asarray(inputs)
        t = np.asarray(targets, dtype=np.float64)
        n = x.shape[0]
        xf = x.reshape(n, -1).astype(np.float64)
        self.calls.append((np.asarray(inputs).reshape(n, -1).copy(), np.asarray(targets).copy()))
        if self.kind == "grad":
            e = self.grad(xf, t)
        elif self.kind == "gradinput":
            e = self.grad(xf, t) * xf
        elif self.kind == "absgrad":
            e = np.abs(self.grad(xf, t))
        elif self.kind == "const":
            e = np.tile(self.const[None, :], (n, 1))
        else:   # const_t: ignores the input, not the target
            e = self.const[None, :] * t[:, :1] + t.sum(axis=1, keepdims=True)
        return e.reshape([n] + self.shape)


def make_distance(name):
    import tensorflow as tf
    if name in ("l1", "l2"):
        return name
    if name == "linf":
        return lambda x, y: tf.reduce_max(tf.abs(x - y))
    if name == "signed":
        return lambda x, y: tf.reduce_sum(x - y)
    return lambda x, y: tf.reduce_sum((x - y) ** 2.0)


def run_stab(case):
    import tensorflow as tf
    from xplique.metrics import AverageStability
    n, nb = len(case["xs"]), case["nb"]
    npos, c = npos_c(case)
    dim = npos * c
    xs = np.array(case["xs"], dtype=np.float32).reshape([n] + case["shape"])
    ts = np.array(case["ts"], dtype=np.float32)
    problems = []
    tf.random.set_seed(case["tfseed"])
    model = fam.FQuadNumpy(case["params"])
    metric = AverageStability(model, xs, ts, batch_size=case["bs"], radius=case["radius"],
                              distance=make_distance(case["dist"]), nb_samples=nb)
    expl = RecExplainer(case)
    if case.get("warm"):
        # history: the usual loop `for explainer in explainers: metric(explainer)` — ANOTHER explainer was evaluated on
        # this metric object just before
        metric(RecExplainer(dict(case, explainer=case["warm"])))
    if case["base"] is None:
        value = metric(expl)
        base = None
    else:
        if case["base"] == "true":
            base = RecExplainer(case)(xs, ts)
        else:
            base = np.array(case["base_es"], dtype=np.float64).reshape([n] + case["shape"])
        value = metric.evaluate(expl, base)
    value = float(value)
    res = dict(value=value if math.isfinite(value) else repr(value), problems=problems, n_calls=len(expl.calls))
    if not math.isfinite(value):
        problems.append(f"metric returned {value}")
    calls = list(expl.calls)
    xf = np.array(case["xs"], dtype=np.float64)
    tf64 = np.array(case["ts"], dtype=np.float64)
    if case["base"] is None:
        # one call on the inputs themselves
        k0 = [k for k, (cx, ct) in enumerate(calls) if cx.shape == xf.shape and np.array_equal(cx, xf) and
              np.array_equal(np.asarray(ct, dtype=np.float64), tf64)]
        if not k0:
            problems.append("base explanations not requested on (inputs, targets)")
        else:
            del calls[k0[0]]
    noisy = getattr(metric, "noisy_masks", None)
    noisy = None if noisy is None else np.asarray(noisy, dtype=np.float32).reshape(-1, dim)
    nbrs = [None] * n
    for cx, ct in calls:
        cx64 = cx.astype(np.float64)
        owner = [i for i in range(n) if -1e-6 <= cx64[0, 0] - xf[i, 0] <= 1.0 + 1e-6] if cx.shape[0] else []
        if len(owner) != 1 or nbrs[owner[0]] is not None:
            problems.append("an explainer call cannot be attributed to exactly one input")
            continue
        i = owner[0]
        if cx.shape[0] != nb:
            problems.append(f"input {i}: explainer asked about {cx.shape[0]} neighbours, expected nb_samples={nb}")
        d = cx64 - xf[i][None, :]
        if d.size and (d.min() < 0 or d.max() > case["radius"] + 1e-6):
            problems.append(f"input {i}: neighbour - input in [{d.min():.9g}, {d.max():.9g}], outside [0, radius={case['radius']}]")
        ct64 = np.asarray(ct, dtype=np.float64).reshape(cx.shape[0], -1)
        if not np.array_equal(ct64, np.repeat(tf64[i][None, :], cx.shape[0], axis=0)):
            problems.append(f"input {i}: the labels of its neighbours are not its own label repeated")
        if noisy is not None and noisy.shape == cx.shape:
            exp = (xs.reshape(n, -1)[i][None, :] + noisy).astype(np.float32)
            if not np.array_equal(exp, cx.astype(np.float32)):
                problems.append(f"input {i}: neighbours are not input + noisy_masks")
        nbrs[i] = [[float(v) for v in row] for row in cx64]
    for i in range(n):
        if nbrs[i] is None:
            problems.append(f"input {i}: no neighbours were explained")
            nbrs[i] = []
    res["neighbors"] = nbrs
    if case["explainer"] in ("const", "const_t") and case["base"] != "random":
        if value != 0.0:
            problems.append(f"explainer ignoring its input scored {value!r}, expected exactly 0")
        _seen["stab_zero_cases"] += 1
        EXTRA_COVERAGE["stab_direct"] = dict(note="explainers that ignore their input must score exactly 0 (checked without the model)",
                                            cases=_seen["stab_zero_cases"])
    if base is not None:
        res["base"] = [[float(v) for v in np.asarray(e, dtype=np.float64).reshape(-1)] for e in base]
    return res


def run_impl(case):
    return dict(mufid=run_mufid, spearman=run_spearman, stab=run_stab)[case["stream"]](case)


# ----------------------------------------------------------------------------------------------- Coq side
PRELUDE = """
Open Scope Qc_scope.
Definition bmask (l : list bool) : list Qc := map b2q l.
Definition bf_affine (a b : Qc) : bmode := BFun (map (fun x => a * x + b)).
Definition close_rel (tol model impl : Qc) : bool := qclose tol (1 + Qcabs model) model impl.
Definition rho_check (tol : Qc) (a b : list Qc) (rho : option Qc) : bool :=
  let t := spearman3 a b in
  match rho with
  | None => Qceqb (t_va t * t_vb t) 0
  | Some r => negb (Qceqb (t_va t * t_vb t) 0) && close_rel tol (corr_nan0 qsqrt9 t) r
  end.
Definition e_grad (ks : list qclass) : sample -> sample -> sample := fquad_grad ks.
Definition e_gradinput (ks : list qclass) (x t : sample) : sample := vmul (fquad_grad ks x t) x.
Definition e_absgrad (ks : list qclass) (x t : sample) : sample := map Qcabs (fquad_grad ks x t).
Definition e_const (e : sample) (x t : sample) : sample := e.
Definition e_const_t (e : sample) (x t : sample) : sample := map (fun v => v * nthq t 0 + qsum t) e.
Definition dist_sq (a b : sample) : Qc := sqdist a b.
Definition dump3 (t : triple) := [qdump (t_cov t); qdump (t_va t); qdump (t_vb t)].
Close Scope Qc_scope.
"""


def cbools(bs):
    return core.cl([core.cbool(b) for b in bs])


def coq_bm(case):
    b = case["baseline"]
    if "const" in b:
        return f"(BConst {core.cq(b['const'])})"
    a, c0 = BASE_FUNS[b["fun"]]
    return f"(bf_affine {core.cq(a)} {core.cq(c0)})"


def mufid_lets(case, res):
    npos, c = npos_c(case)
    cphi = c if case["phi_shape"] in ("hwc", "full") else 1
    masks = core.cl([core.cl([f"bmask {cbools(m)}" for m in mi]) for mi in res["masks"]])
    bs = core.copt(None if case["bs"] is None else core.cnat(case["bs"]))
    return (f"let ks := {fam.coq_fquad(case['params'])} in let bm := {coq_bm(case)} in let bs := {bs} in "
            f"let nb := {core.cnat(case['nb'])} in let c := {core.cnat(c)} in let cphi := {core.cnat(cphi)} in "
            f"let rows := mk_rows {core.cqlist2(case['xs'])} {core.cqlist2(case['ts'])} {core.cqlist2(case['phis'])} {masks} in ")


def coq_expl(case):
    k = case["explainer"]
    if k in ("grad", "gradinput", "absgrad"):
        return f"(expl_rowwise (e_{k} {fam.coq_fquad(case['params'])}))"
    return f"(expl_rowwise (e_{k} {core.cqlist(case['const_e'])}))"


def coq_dist(case):
    return dict(l1="dist_l1", l2="(dist_l2 qsqrt9)", linf="dist_linf", signed="dist_signed", sq="dist_sq")[case["dist"]]


def stab_lets(case, res):
    noises = []
    for x, nb in zip(case["xs"], res["neighbors"]):
        fx = [core.frac(v) for v in x]
        noises.append(core.cl([core.cl([core.cq(core.frac(v) - fx[j]) for j, v in enumerate(row)]) for row in nb]))
    base = "None" if case["base"] is None else f"(Some {core.cqlist2(res['base'])})"
    return (f"let ex := {coq_expl(case)} in let base := {base} in let xs := {core.cqlist2(case['xs'])} in "
            f"let ts := {core.cqlist2(case['ts'])} in let noises := {core.cl(noises)} in ")


def coq_term(case, res):
    s = case["stream"]
    if s == "spearman":
        rho = "None" if res["rho"] is None else f"(Some {core.cq(res['rho'])})"
        a, b = core.cqlist(case["a"]), core.cqlist(case["b"])
        return (f"(qlist_eqb (ranks {a}) {core.cqlist(res['ra'])} && qlist_eqb (ranks {b}) {core.cqlist(res['rb'])} && "
                f"rho_check {core.cq(TOL)} {a} {b} {rho})")
    if res["problems"]:
        return "false"
    if s == "mufid":
        return ("(" + mufid_lets(case, res) +
                f"close_rel {core.cq(TOL)} (mufid (fquad ks) bm c cphi qsqrt9 bs nb rows) {core.cq(res['value'])})")
    return ("(" + stab_lets(case, res) +
            f"close_rel {core.cq(TOL)} (stability ex {coq_dist(case)} base xs ts noises) {core.cq(res['value'])})")


def dump_term(case, res):
    s = case["stream"]
    if s == "spearman":
        a, b = core.cqlist(case["a"]), core.cqlist(case["b"])
        return f"(map qdump (ranks {a}), map qdump (ranks {b}), dump3 (spearman3 {a} {b}))"
    if res.get("problems"):
        return "(@nil nat)"
    if s == "mufid":
        return ("(" + mufid_lets(case, res) +
                "([qdump (mufid (fquad ks) bm c cphi qsqrt9 bs nb rows)], map dump3 (mufid_triples (fquad ks) bm c cphi bs nb rows), "
                "map (fun pa => (map qdump (fst pa), map qdump (snd pa))) (mufid_lists (fquad ks) bm c cphi bs nb rows)))")
    return "(" + stab_lets(case, res) + f"qdump (stability ex {coq_dist(case)} base xs ts noises))"


def _f(s):
    return float(core.Fraction(s)) if isinstance(s, str) else float(s)


def explain_failure(case, res, model):
    s = case["stream"]
    if res is None:
        return "implementation raised on a valid configuration"
    if res.get("problems"):
        return dict(clause="exactly nb_samples perturbations per input, each of the documented form", problems=res["problems"][:8])
    if model is None:
        return "model dump unavailable"
    if s == "spearman":
        return dict(clause="spearmanr = Pearson correlation of average ranks (NaN iff a variance is 0)",
                    model_ranks_a=model[0], scipy_ranks_a=res["ra"], model_ranks_b=model[1], scipy_ranks_b=res["rb"],
                    model_triple=model[2], scipy_rho=res["rho"])
    if s == "mufid":
        import warnings
        from scipy.stats import spearmanr
        (value,), triples, lists = model
        per = []
        for (cv, va, vb), (pr, at) in zip(triples, lists):
            cv, va, vb = _f(cv), _f(va), _f(vb)
            rho = 0.0 if va * vb == 0 else cv / math.sqrt(va * vb)
            with warnings.catch_warnings():
                warnings.simplefilter("ignore")
                sc = float(spearmanr([_f(v) for v in pr], [_f(v) for v in at])[0]) if len(pr) >= 2 else float("nan")
            per.append(dict(drops=[_f(v) for v in pr], summed_attributions=[_f(v) for v in at], reference_correlation=rho,
                            scipy_on_reference_lists=None if math.isnan(sc) else sc))
        return dict(clause="metric = mean over samples of the Spearman correlation between score(x) - score(x with the subset "
                           "at baseline) and the sum of the attributions of that same subset, over the nb_samples subsets applied",
                    reference=_f(value), implementation=res["value"], per_sample=per[:4])
    return dict(clause="metric = mean over inputs of the mean distance between the explanation of the input and the "
                       "explanations of its nb_samples neighbours", reference=_f(model), implementation=res["value"])


def shrink(case):
    s = case["stream"]
    if s == "spearman":
        for i in range(len(case["a"])):
            if len(case["a"]) > 1:
                c = copy.deepcopy(case)
                del c["a"][i]
                del c["b"][i]
                yield c
        return
    if len(case["xs"]) > 1:
        for i in range(len(case["xs"])):
            c = copy.deepcopy(case)
            del c["xs"][i]
            del c["ts"][i]
            if s == "mufid":
                del c["phis"][i]
            elif c.get("base_es"):
                del c["base_es"][i]
            yield c
    if len(case["params"]) > 1:
        for i in range(len(case["params"])):
            c = copy.deepcopy(case)
            del c["params"][i]
            for t in c["ts"]:
                del t[i]
            yield c
    if any(k["X"] for k in case["params"]):
        c = copy.deepcopy(case)
        for k in c["params"]:
            k["X"] = []
        yield c
    if case["nb"] > 2:
        for nb in sorted({case["nb"] // 2, case["nb"] - 1}):
            if nb >= 2:
                c = copy.deepcopy(case)
                c["nb"] = nb
                yield c
    if case["bs"] is not None:
        c = copy.deepcopy(case)
        c["bs"] = None
        yield c
    if s == "mufid" and not case["eager"]:
        c = copy.deepcopy(case)
        c["eager"] = True
        yield c
