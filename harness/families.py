"""families.py — Python mirrors of coq/Base/Families.v (same parameters on both sides)."""
import numpy as np
import core


# ------------------------------------------------------------------ F-quad
def gen_fquad(rng, nclass, dim, cross=True, quad=True):
    ks = []
    for _ in range(nclass):
        b = rng.randint(-2, 2)
        W = [rng.randint(-3, 3) for _ in range(dim)]
        V = [rng.choice([0, 0, 1, -1, 2]) if quad else 0 for _ in range(dim)]
        X = []
        if cross and dim >= 2:
            for _ in range(rng.randint(0, 3)):
                i, j = rng.sample(range(dim), 2)
                X.append([i, j, rng.choice([-2, -1, 1, 2])])
        ks.append(dict(b=b, W=W, V=V, X=X))
    return ks


def coq_fquad(ks):
    out = []
    for k in ks:
        X = core.cl([f"({core.cnat(i)}, {core.cnat(j)}, {core.cq(c)})" for i, j, c in k["X"]])
        out.append("{| qb := %s; qW := %s; qV := %s; qX := %s |}" % (
            core.cq(k["b"]), core.cqlist(k["W"]), core.cqlist(k["V"]), X))
    return core.cl(out)


class FQuadNumpy:
    """NumPy callable: (n, ...) -> (n, nclass); records every query when asked to"""
    def __init__(self, ks, record=False, squeeze_single=False):
        self.squeeze_single = squeeze_single      # a model ending in np.squeeze: (C,) for a batch of one sample
        self.b = np.array([k["b"] for k in ks], dtype=np.float64)
        self.W = np.array([k["W"] for k in ks], dtype=np.float64)
        self.V = np.array([k["V"] for k in ks], dtype=np.float64)
        self.X = [k["X"] for k in ks]
        self.record = record
        self.queries = []

    def __call__(self, x):
        x = np.asarray(x, dtype=np.float64)
        n = x.shape[0]
        xf = x.reshape(n, -1)
        if self.record:
            self.queries.extend(xf.copy())
        out = self.b[None, :] + xf @ self.W.T + (xf * xf) @ self.V.T
        for c, X in enumerate(self.X):
            for i, j, k in X:
                out[:, c] += k * xf[:, i] * xf[:, j]
        if self.squeeze_single and n == 1:
            return out[0]
        return out


def fquad_tf_module(ks, shape):
    """tf.Module computing the same function with TF ops (differentiable); input (n, *shape)"""
    import tensorflow as tf

    class M(tf.Module):
        def __init__(self):
            super().__init__()
            self.b = tf.constant([k["b"] for k in ks], tf.float32)
            self.W = tf.constant([k["W"] for k in ks], tf.float32)
            self.V = tf.constant([k["V"] for k in ks], tf.float32)
            self.X = [k["X"] for k in ks]

        def __call__(self, x):
            x = tf.cast(x, tf.float32)
            xf = tf.reshape(x, (tf.shape(x)[0], -1))
            out = self.b[None, :] + tf.matmul(xf, self.W, transpose_b=True) + tf.matmul(xf * xf, self.V, transpose_b=True)
            cols = []
            for c, X in enumerate(self.X):
                col = tf.zeros_like(xf[:, 0])
                for i, j, k in X:
                    col = col + float(k) * xf[:, i] * xf[:, j]
                cols.append(col)
            return out + tf.stack(cols, axis=1)
    return M()


def fquad_keras(ks, shape):
    """functional Keras model computing F-quad (Lambda-free: Dense on [x, x*x, cross products])"""
    import tensorflow as tf
    dim = int(np.prod(shape))
    inp = tf.keras.Input(shape=tuple(shape))
    mod = fquad_tf_module(ks, shape)

    class L(tf.keras.layers.Layer):
        def call(self, x):
            return mod(x)

        def compute_output_shape(self, s):
            return (s[0], len(ks))
    out = L()(inp)
    return tf.keras.Model(inp, out)


def dyadic(rng, n, lo=-2.0, hi=2.0, den=8):
    return [rng.randint(int(lo * den), int(hi * den)) / den for _ in range(n)]


def gen_targets(rng, n, nclass, onehot_prob=0.4):
    ts = []
    for _ in range(n):
        if rng.random() < onehot_prob:
            t = [0.0] * nclass
            t[rng.randrange(nclass)] = 1.0
        else:
            t = [rng.randint(-4, 4) / 2 for _ in range(nclass)]
        ts.append(t)
    return ts
