"""core.py — shared machinery of the correspondence checks.

Every random choice derives from one PRNG seeded by VERIF_SEED.  Numbers cross to Coq as exact
rationals (float.as_integer_ratio), never as decimals.  Models are evaluated inside Coq with
vm_compute by generated case files; the comparison happens inside Coq and only indices of
disagreeing cases are printed back.
"""
import ast
import fractions
import json
import os
import pathlib
import random
import re
import shutil
import subprocess
import sys
import time

VERIF = pathlib.Path(__file__).resolve().parent.parent
COQ = VERIF / "coq"
BUILD = VERIF / "build"
EVIDENCE = VERIF / "evidence"
REPLAYS = VERIF / "replays"
CORPUS = VERIF / "corpus"
REPO = pathlib.Path(os.environ.get("XPLIQUE_REPO", "/repo"))
Fraction = fractions.Fraction


class HarnessError(Exception):
    """the machinery itself failed (not a verdict about the code)"""


def seed():
    return int(os.environ.get("VERIF_SEED", "20261001"))


def make_rng(salt=""):
    return random.Random(f"{seed()}|{salt}")


# ----------------------------------------------------------------------------- numbers -> Coq
def frac(x):
    """exact rational value of a Python / NumPy number"""
    if isinstance(x, Fraction):
        return x
    if isinstance(x, bool):
        return Fraction(int(x))
    if isinstance(x, int):
        return Fraction(x)
    try:
        import numpy as np
        if isinstance(x, np.integer):
            return Fraction(int(x))
        if isinstance(x, np.floating):
            x = float(x)
    except ImportError:
        pass
    if isinstance(x, float):
        if x != x or x in (float("inf"), float("-inf")):
            raise ValueError(f"non-finite value {x}")
        return Fraction(*x.as_integer_ratio())
    if isinstance(x, str):
        return Fraction(x)
    raise TypeError(f"cannot convert {type(x)}")


def cq(x):
    f = frac(x)
    n, d = f.numerator, f.denominator
    ns = f"({n})" if n < 0 else f"{n}"
    return f"(q {ns} {d})"


def cl(items):
    return "[" + "; ".join(items) + "]"


def cqlist(xs):
    return cl([cq(x) for x in xs])


def cqlist2(xss):
    return cl([cqlist(xs) for xs in xss])


def cnat(n):
    n = int(n)
    if n < 0:
        raise ValueError("negative nat")
    return f"{n}%nat"


def cnatlist(ns):
    return cl([cnat(n) for n in ns])


def cbool(b):
    return "true" if b else "false"


def copt(s):
    return "None" if s is None else f"(Some {s})"


def flat(a):
    """flatten an array-like (row-major) to a list of Fractions"""
    import numpy as np
    return [frac(v) for v in np.asarray(a).reshape(-1).tolist()]


def fstr(x):
    f = frac(x)
    return f"{f.numerator}/{f.denominator}"


def fstrs(a):
    return [fstr(v) for v in flat(a)]


# ----------------------------------------------------------------------------- running Coq
COQFLAGS = ["-Q", str(COQ), "Xpl"]


def sh(cmd, timeout, cwd=None, env=None):
    try:
        p = subprocess.run(cmd, cwd=cwd, env=env, capture_output=True, text=True, timeout=timeout)
        return p.returncode, p.stdout, p.stderr
    except subprocess.TimeoutExpired as e:
        return 124, (e.stdout or b"").decode() if isinstance(e.stdout, bytes) else (e.stdout or ""), "timeout"


def build_proofs(timeout=1500):
    """full .vo build of the Coq development (incremental); returns (ok, log)"""
    if not (COQ / "Makefile").exists() or (COQ / "_CoqProject").stat().st_mtime > (COQ / "Makefile").stat().st_mtime:
        rc, out, err = sh(["coq_makefile", "-f", "_CoqProject", "-o", "Makefile"], 120, cwd=COQ)
        if rc != 0:
            return False, out + err
    rc, out, err = sh(["make", "-j16"], timeout, cwd=COQ)
    return rc == 0, out[-4000:] + err[-4000:]


ALLOWED_AXIOMS = set()   # none: every property theorem must be closed under the global context


def check_props(prop, timeout=600):
    """compile Props/<prop>.v, return dict(obligations, discharged, assumptions(text), axioms(list), ok, log)"""
    src = COQ / "Props" / f"{prop}.v"
    text = src.read_text()
    names = re.findall(r"^\s*Theorem\s+(\w+)", text, flags=re.M)
    # forbid escape hatches anywhere in the development
    bad = []
    for f in COQ.rglob("*.v"):
        t = re.sub(r"\(\*.*?\*\)", "", f.read_text(), flags=re.S)
        for m in re.finditer(r"\b(Admitted|admit|Axiom|Parameter|Conjecture|Admit Obligations|bypass_check|Unset Guard Checking|Unset Positivity Checking|Unset Universe Checking)\b", t):
            bad.append(f"{f.relative_to(COQ)}: {m.group(1)}")
    rc, out, err = sh(["coqc"] + COQFLAGS + [str(src)], timeout, cwd=COQ)
    closed = out.count("Closed under the global context")
    axioms = []
    for blk in re.findall(r"Axioms:\n((?:.+\n?)+)", out):
        for line in blk.splitlines():
            m = re.match(r"^(\S+)\s*:", line)
            if m:
                axioms.append(m.group(1))
    unexpected = [a for a in axioms if a not in ALLOWED_AXIOMS]
    npa = len(re.findall(r"^\s*Print Assumptions", text, flags=re.M))
    discharged = closed + (npa - closed if not unexpected else 0) if rc == 0 else 0
    ok = rc == 0 and not bad and not unexpected and npa >= len(names) and len(names) > 0
    return dict(obligations=len(names), discharged=min(discharged, len(names)) if rc == 0 else 0,
                theorems=names, axioms=sorted(set(axioms)), forbidden=bad, ok=ok,
                log=(out[-3000:] + err[-3000:]) if not ok else "",
                assumptions_text="Closed under the global context" if (rc == 0 and not axioms) else out[-2000:],
                checker_cmd=f"make -C coq && coqc -Q coq Xpl coq/Props/{prop}.v")


_OWN_RUN_DIRS = []


def _cleanup_run_dirs():
    if os.environ.get("VERIF_KEEP_RUN"):
        return
    for d in _OWN_RUN_DIRS:
        shutil.rmtree(d, ignore_errors=True)


def _run_dir(name):
    """scratch directory for generated case files; one per process, so that two checks of the same property (quick and
    thorough, /repo and a scratch worktree) can run at the same time; removed at exit unless VERIF_KEEP_RUN is set"""
    d = BUILD / "run" / f"{name}_{os.getpid()}"
    if d.exists():
        shutil.rmtree(d)
    d.mkdir(parents=True)
    if not _OWN_RUN_DIRS:
        import atexit
        atexit.register(_cleanup_run_dirs)
    _OWN_RUN_DIRS.append(d)
    return d


HEADER = "From Xpl Require Import Base.Qcx Base.ListX Base.Families {imports}.\nClose Scope Qc_scope.\nOpen Scope nat_scope.\nOpen Scope list_scope.\n"


def coq_eval_bools(name, imports, prelude, terms, shard=150, jobs=16, timeout=900):
    """terms: Coq terms of type bool.  Returns list of bool (same order)."""
    if not terms:
        return []
    d = _run_dir(name)
    files = []
    for k in range(0, len(terms), shard):
        part = terms[k:k + shard]
        f = d / f"shard_{k // shard}.v"
        body = [HEADER.format(imports=imports), prelude]
        for i, t in enumerate(part):
            body.append(f"Definition case_{i} : bool := {t}.")
        body.append("Definition all_cases : list bool := " + cl([f"case_{i}" for i in range(len(part))]) + ".")
        body.append("Eval vm_compute in (failing all_cases).")
        f.write_text("\n".join(body) + "\n")
        files.append((k, len(part), f))
    procs = []
    results = [None] * len(terms)
    pending = list(files)
    running = []
    t0 = time.time()
    while pending or running:
        while pending and len(running) < jobs:
            k, n, f = pending.pop(0)
            p = subprocess.Popen(["coqc"] + COQFLAGS + [str(f)], cwd=d, stdout=subprocess.PIPE,
                                 stderr=subprocess.PIPE, text=True)
            running.append((k, n, f, p))
        still = []
        for k, n, f, p in running:
            if p.poll() is None:
                if time.time() - t0 > timeout:
                    p.kill()
                    raise HarnessError(f"coqc timeout on {f}")
                still.append((k, n, f, p))
                continue
            out, err = p.communicate()
            if p.returncode != 0:
                raise HarnessError(f"coqc failed on {f}:\n{err[-3000:]}")
            m = re.search(r"=\s*\[(.*?)\]\s*:\s*list nat", out, flags=re.S)
            if not m:
                raise HarnessError(f"cannot parse coqc output of {f}:\n{out[-2000:]}")
            bad = {int(x) for x in re.findall(r"\d+", m.group(1))}
            for i in range(n):
                results[k + i] = i not in bad
        running = still
        if running:
            time.sleep(0.05)
    return results


def coq_eval_term(name, imports, prelude, term, timeout=600):
    """Eval vm_compute in term; returns the printed value as text"""
    d = _run_dir(name)
    f = d / "term.v"
    f.write_text(HEADER.format(imports=imports) + prelude + f"\nEval vm_compute in ({term}).\n")
    rc, out, err = sh(["coqc"] + COQFLAGS + [str(f)], timeout, cwd=d)
    if rc != 0:
        raise HarnessError(f"coqc failed on {f}:\n{err[-3000:]}")
    m = re.search(r"=\s*(.*)\n\s*:\s", out, flags=re.S)
    return m.group(1).strip() if m else out


def parse_dump(text):
    """parse a printed Coq value made of lists / pairs / Z / positive / nat / bool into Python;
       pairs (n, d) stay tuples — use dump_fracs to turn them into Fractions"""
    t = re.sub(r"%\w+", "", text)
    t = t.replace(";", ",").replace("true", "True").replace("false", "False")
    t = re.sub(r"\s+", " ", t)
    return ast.literal_eval(t)


def dump_fracs(v):
    if isinstance(v, tuple) and len(v) == 2 and all(isinstance(k, int) for k in v):
        return fstr(Fraction(v[0], v[1]))
    if isinstance(v, (list, tuple)):
        return [dump_fracs(k) for k in v]
    return v


# ----------------------------------------------------------------------------- known findings
def known_findings(prop):
    f = VERIF / "known_findings.json"
    if not f.exists():
        return []
    return [e for e in json.loads(f.read_text()).get("findings", []) if e["property"] == prop]


# ----------------------------------------------------------------------------- evidence / replay
def write_evidence(prop, tier, coverage, wall, violations, assumptions):
    # evidence/<id>.json always describes a run against /repo; a run against a scratch worktree (XPLIQUE_REPO) writes aside
    out = EVIDENCE if str(REPO) == "/repo" else BUILD / "evidence-alt"
    out.mkdir(parents=True, exist_ok=True)
    ev = dict(property_id=prop, tier=tier, seed=seed(), level="proof", coverage=coverage,
              assumptions=assumptions, wall_s=round(wall, 2), violations=violations)
    (out / f"{prop}.json").write_text(json.dumps(ev, indent=1, default=str) + "\n")


def write_replay(prop, tag, payload):
    REPLAYS.mkdir(exist_ok=True)
    alt = "" if str(REPO) == "/repo" else "-alt"          # runs against a scratch worktree never overwrite replays of /repo
    p = REPLAYS / f"{prop}-{seed()}-{tag}{alt}.json"
    p.write_text(json.dumps(payload, indent=1, default=str) + "\n")
    return p


def violation(prop, path, no_input=False):
    line = f"VIOLATION property={prop} replay={path}"
    if no_input:
        line += " no-failing-input-found"
    print(line, flush=True)


def hist(values):
    h = {}
    for v in values:
        k = str(v)
        h[k] = h.get(k, 0) + 1
    return dict(sorted(h.items(), key=lambda kv: kv[0]))
