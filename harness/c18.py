"""c18.py — ProtoGreedy / MMDCritic / ProtoDash (global prototypes + local explanations) vs coq/C18/Model.v.

The implementation is driven through the public classes of xplique.example_based (constructor,
get_global_prototypes(), explain()).  The dense kernel matrix handed to the Coq model is the object's own
`kernel_fn` evaluated on all pairs (float32 values passed as exact rationals; lower triangle mirrored so that it
is exactly symmetric) and is separately required to agree with the documented RBF formula exp(-gamma |x-y|^2)
(gamma default 1/nb_features) recomputed in float64.

Near-ties.  The arg-max of a greedy step is only determined up to float32 rounding when the two best objective
values are closer than MARGIN, and ProtoGreedy's objective needs inv(K + 1e-6 I) in float32, meaningless when that
matrix is badly conditioned.  `reference()` is a brute-force dense float64 re-implementation of the DENSE SPEC
(unbatched greedy, first-index tie-breaking) used ONLY to compute these guards, never a verdict: it returns the
number `ncmp` of leading steps whose arg-max is decided by at least MARGIN (or is an exact tie between candidates
with bit-identical inputs in a 0/1 kernel matrix, where float32 ties exactly too and the documented first-index
rule must decide).  Only the first ncmp indices are compared; weights / local explanations only when
ncmp = nb_prototypes.  Cases with ncmp = 0 are skipped and counted.
"""
import copy
import numpy as np
import core

PROP = "C18"
IMPORTS = "C18.Model C18.Spec"
SHARD = 6
RULE = ("method in {MMDCritic, ProtoDash, ProtoGreedy}; data: uniform dyadic grid / clustered / far-apart sites with "
        "duplicates (0/1 kernel matrix, exact ties), N in 1..14 (ProtoDash <= 12 with <= 7 prototypes, ProtoGreedy <= 8 with <= 5 prototypes: exact inverses), d in 1..3, gamma in "
        "{None,1/16..1} (sites: 1..4), kernel_fn in {default, user RBF (must equal gamma=...), user exp(-|x-y|_1)}, optional linear projection, batch size in 1..N+1 or None, nb_global_prototypes in 1..N, "
        "k in 1..nb_global_prototypes, distance in {None(kernel-induced), euclidean, manhattan, chebyshev}; every case is "
        "also run with a second batch size (implementation vs implementation); distinct = different canonical JSON; "
        "non-trivial = at least two batches, or a remainder batch, and at least two prototypes compared")
ASSUMPTIONS = [
    "the kernel matrix given to the model is the object's kernel_fn on all pairs (symmetric: lower triangle mirrored, "
    "values rounded to the absolute grid 2^-24); "
    "kernel_fn evaluated on a pair of batches returns the corresponding block up to float32 rounding (1 ulp of exp)",
    "tf.argmax returns the first maximiser; tf.linalg.inv is the exact inverse up to float32 error bounded through the "
    "conditioning guard (cond(K_S + 1e-6 I) <= %s)" % 60,
    "arg-max steps closer than MARGIN (5e-5 MMDCritic / ProtoDash, 2e-4 ProtoGreedy, objective units) are not compared (counted as skipped / truncated)",
    "tolerances: weights 1e-4 absolute (float32 inverse, cond <= 60; worst error measured 1e-7), MMDCritic weights / column means / diag 2e-6, "
    "local distances 1e-4",
]
EXTRA_COVERAGE = {}

MARGIN = {"mmd": 5e-5, "dash": 5e-5, "greedy": 2e-4}
CMAX = 60.0
TOL_W = {"mmd": 2e-6, "dash": 1e-4, "greedy": 1e-4}
TOL_T = 4e-6
TOL_D = 1e-4
TOL_K = 2e-6
EPS32 = 17 / 2.0 ** 24     # EPSILON = 1e-6 on the 2^-24 grid (1.013e-6): irrelevant at cond <= 60, keeps rationals small
METHODS = {"mmd": "MMDCritic", "dash": "ProtoDash", "greedy": "ProtoGreedy"}


# ----------------------------------------------------------------------------- generators
def dy(rng, lo, hi, den):
    return rng.randint(lo * den, hi * den) / den


def distinct(rng, draw, n, p_dup=0.04):
    """n draws, duplicates mostly rejected (a duplicated case is an exact tie, decided by rounding)"""
    out = []
    for _ in range(n):
        x = draw()
        tries = 0
        while x in out and rng.random() >= p_dup and tries < 50:
            x = draw()
            tries += 1
        out.append(x)
    return out


def gen_points(rng, kind, n, d):
    if kind == "uniform":
        return distinct(rng, lambda: [dy(rng, -2, 2, 8) for _ in range(d)], n)
    if kind == "clustered":
        nc = rng.randint(1, 3)
        centres = [[float(rng.randint(-2, 2)) for _ in range(d)] for _ in range(nc)]
        return distinct(rng, lambda: [c + rng.randint(-4, 4) / 8 for c in centres[rng.randrange(nc)]], n)
    # sites: far-apart sites (kernel exactly 0 between sites in float32), duplicates inside a site (kernel 1)
    ns = rng.randint(1, max(1, n))
    sites = rng.sample([[16.0 * a, 16.0 * b, 16.0 * c][:d] for a in range(-2, 3) for b in range(-2, 3) for c in range(-1, 2)], 40)
    sites = [list(s) for s in {tuple(s) for s in sites}][:ns]
    return [list(sites[rng.randrange(len(sites))]) for _ in range(n)]


def gen_case(rng, tier):
    method = rng.choice(["mmd", "mmd", "dash", "greedy", "greedy"])
    kind = rng.choice(["uniform", "uniform", "clustered", "sites"])
    nmax = {"greedy": 8, "dash": 12, "mmd": 14}[method]
    n = rng.choice([1, 2, 3] + [rng.randint(3, nmax), rng.randint(4, nmax), rng.randint(4, nmax), rng.randint(5, nmax)] * 2)
    d = rng.randint(1, 3)
    X = gen_points(rng, kind, n, d)
    if kind == "sites" and method == "greedy" and rng.random() < 0.7:
        # distinct sites: K = I, well conditioned, every step is an exact tie between all candidates
        pool = [[16.0 * a, 16.0 * b, 16.0 * c][:d] for a in range(-3, 4) for b in range(-3, 4) for c in range(-3, 4)]
        pool = [list(t) for t in sorted({tuple(p) for p in pool})]
        X = rng.sample(pool, min(n, len(pool)))
        n = len(X)
    gamma = rng.choice([None, None, 0.0625, 0.125, 0.25, 0.5, 1.0])
    if kind == "sites":
        gamma = rng.choice([None, 1.0, 2.0]) if d == 1 else rng.choice([1.0, 2.0, 4.0])
    # custom kernel_fn (public argument): the default RBF re-implemented by the user (must change nothing), or a
    # genuinely different kernel exp(-|x-y|_1); the Coq model is fed with that kernel's matrix
    kernel = None
    if kind != "sites" and rng.random() < 0.3:
        kernel = rng.choice(["rbf", "laplace", "poly", "poly", "poly"])      # poly: a kernel whose diagonal k(x,x) is NOT constant
    proj = None
    if kind != "sites" and kernel != "poly" and rng.random() < 0.25:
        d2 = rng.randint(1, 3)
        proj = [[rng.choice([-1, -0.5, 0, 0.5, 1, 2]) for _ in range(d2)] for _ in range(d)]
    npmax = min(n, {"greedy": 5, "dash": 7, "mmd": 14}[method])
    nproto = rng.choice([1, npmax, npmax, rng.randint(1, npmax), rng.randint(2, max(2, npmax)), rng.randint(2, max(2, npmax)), max(1, npmax - 1)])
    nproto = min(nproto, npmax)
    bs = rng.choice([1, 2, 3, max(1, n - 1), n, n + 1, None, rng.randint(1, n + 1), rng.randint(2, max(2, n // 2 + 1)),
                     rng.randint(2, max(2, n // 2 + 1)), rng.randint(2, max(2, n // 2 + 1))])
    if kernel == "poly" and n >= 3:
        # several batches of prototypes in the local search, with a non-constant kernel diagonal
        bs = rng.choice([1, 2, 2, 3])
        nproto = min(npmax, max(bs + 1, nproto))
    eff = n if bs is None else min(bs, n)
    others = [b for b in range(1, n + 1) if b != eff]
    bs2 = rng.choice(others) if others else None
    k = rng.randint(1, nproto)
    nq = rng.randint(1, 3)
    Q = [[dy(rng, -2, 2, 8) + (16.0 * rng.randint(-1, 1) if kind == "sites" else 0.0) for _ in range(d)] for _ in range(nq)]
    offset = None
    if kind != "sites" and kernel != "poly" and rng.random() < 0.2:
        # un-centred cases: a large common offset (features around 1024 .. 3072 with a spread of a few units); pairwise
        # differences are still exact in float32, an expanded |a|^2 - 2ab + |b|^2 is not
        offset = [rng.choice([1024.0, 2048.0, -3072.0, 2560.0]) for _ in range(d)]
        X = [[v + o for v, o in zip(x, offset)] for x in X]
        Q = [[v + o for v, o in zip(x, offset)] for x in Q]
    distance = rng.choice([None, None, "euclidean", "manhattan", "chebyshev"])
    if kernel == "poly" and rng.random() < 0.85:
        distance = None        # the kernel-induced distance needs k(p,p) of each prototype: only interesting off a constant diagonal
    return dict(method=method, kind=kind, X=X, gamma=gamma, kernel=kernel, proj=proj, np=nproto, bs=bs, bs2=bs2, k=k, Q=Q,
                labels=[rng.randint(0, 9) for _ in range(n)], distance=distance, offset=offset)


def generate(rng, tier):
    n = 90 if tier == "quick" else 1200
    cases = [gen_case(rng, tier) for _ in range(n)]
    # always present: ProtoGreedy asked for more prototypes than there are clusters (near-duplicates of selected prototypes
    # are candidates: the unconstrained weights K^-1 mu have negative entries, the clamp w = max(w, 0) is active)
    found = 0
    for _ in range(600):
        if found >= 4:
            break
        c = gen_case(rng, tier)
        if c["method"] == "greedy" and c["kind"] == "clustered" and c["np"] >= 3 and c.get("kernel") is None:
            cases.append(c)
            found += 1
    return cases


def eff_bs(case, key="bs"):
    n = len(case["X"])
    return n if case[key] is None else min(case[key], n)


def nontrivial(case):
    n, b = len(case["X"]), eff_bs(case)
    g = _GUARD_CACHE.get(core.json.dumps(case, sort_keys=True))
    enough = g is None or g["ncmp"] >= 2
    return n > b and case["np"] >= 2 and enough


def distribution(cases):
    def bclass(c):
        n, b = len(c["X"]), eff_bs(c)
        return "1" if b == 1 else "one-batch" if b >= n else "divides" if n % b == 0 else "remainder"
    guards = [_GUARD_CACHE.get(core.json.dumps(c, sort_keys=True)) for c in cases]
    return dict(method=core.hist(c["method"] for c in cases), kind=core.hist(c["kind"] for c in cases),
                n=core.hist(len(c["X"]) for c in cases), nb_prototypes=core.hist(c["np"] for c in cases),
                batch_class=core.hist(bclass(c) for c in cases), bs_None=core.hist(c["bs"] is None for c in cases),
                projection=core.hist(c["proj"] is not None for c in cases),
                kernel_fn=core.hist(c.get("kernel") for c in cases),
                distance=core.hist(c["distance"] for c in cases),
                uncentred_offset=core.hist(c.get("offset") is not None for c in cases),
                full_selection_compared=core.hist(g is not None and g["ncmp"] == c["np"] for g, c in zip(guards, cases)),
                steps_compared=sum(g["ncmp"] for g in guards if g), steps_total=sum(c["np"] for c in cases),
                exact_tie_steps_compared=sum(g["tie_steps"] for g in guards if g),
                weights_compared=sum(1 for g in guards if g and g["cmpw"]),
                local_compared=sum(1 for g in guards if g and g["local"]))


# ----------------------------------------------------------------------------- dense float64 reference (guards only)
def objective64(method, K, cm, sel, c):
    """objective of candidate c given the selection, from the full kernel matrix; returns (value, cond)"""
    t = len(sel)
    if method == "mmd":
        return 2 * cm[c] - (K[c, c] + 2 * K[c, sel].sum()) / (t + 1), 1.0
    if method == "dash":
        return cm[c] - K[c, sel] @ cm[sel], 1.0
    idx = sel + [c]
    Kx = K[np.ix_(idx, idx)]
    mu = cm[idx]
    A = Kx + EPS32 * np.eye(len(idx))
    cond = np.linalg.cond(A)
    w = np.maximum(np.linalg.solve(A, mu), 0)
    return w @ mu - 0.5 * w @ Kx @ w, cond


def reference(method, K, nproto):
    """dense greedy with first-index tie-breaking; returns selection and the number of decided leading steps"""
    n = len(K)
    cm = K.sum(axis=0) / n
    zero_one = bool(np.all((K == 0) | (K == 1)))
    sel, ncmp, decided, tie_steps = [], 0, True, 0
    worst_cond = 1.0
    for t in range(nproto):
        cands = [c for c in range(n) if c not in sel]
        if not cands:
            break
        vals, conds = zip(*[objective64(method, K, cm, sel, c) for c in cands])
        vals = np.array(vals)
        best = int(np.argmax(vals))                       # first maximiser
        near = [i for i in range(len(cands)) if i != best and vals[best] - vals[i] < MARGIN[method]]
        ok = max(conds) <= CMAX
        if near and ok:
            # exact ties are decided by the first-index rule when float32 provably ties too:
            # 0/1 kernel matrix and identical inputs (diag, column sum, kernel row to the selection)
            sig = lambda c: (K[c, c], float(K[:, c].sum()), tuple(K[c, sel]))
            same = all(sig(cands[i]) == sig(cands[best]) for i in near)
            few = method != "dash" or int(np.count_nonzero(K[cands[best], sel])) <= 2
            ok = zero_one and same and few and best == min([best] + near)
            if ok:
                tie_steps += 1 if decided else 0
        worst_cond = max(worst_cond, max(conds)) if decided else worst_cond
        if not ok:
            decided = False
        if decided:
            ncmp += 1
        sel.append(cands[best])
    return dict(sel=sel, ncmp=ncmp, tie_steps=tie_steps, worst_cond=float(worst_cond))


def projected(case, A):
    A = np.asarray(A, dtype=np.float64)
    if case["proj"] is None:
        return A
    return A @ np.asarray(case["proj"], dtype=np.float64)


def kernel64(case, diff, gamma32):
    """documented kernel value from the pairwise differences (float64)"""
    if case.get("kernel") == "laplace":
        return np.exp(-np.abs(diff).sum(-1))
    return np.exp(-gamma32 * (diff ** 2).sum(-1))


def kernel_xy(case, A, B, gamma32):
    """pairwise kernel matrix (float64) between the rows of A and the rows of B"""
    if case.get("kernel") == "poly":
        return (1.0 + (A @ B.T) / 8.0) ** 2
    return kernel64(case, A[:, None, :] - B[None, :, :], gamma32)


def kernel_callable(case, gamma32):
    import tensorflow as tf
    if case.get("kernel") == "laplace":
        return lambda a, b: tf.exp(-tf.reduce_sum(tf.abs(a[:, None, :] - b[None, :, :]), axis=-1))
    if case.get("kernel") == "poly":
        return lambda a, b: tf.square(1.0 + tf.matmul(a, b, transpose_b=True) / 8.0)
    g = tf.constant(gamma32, dtype=tf.float32)
    return lambda a, b: tf.exp(-g * tf.reduce_sum(tf.square(a[:, None, :] - b[None, :, :]), axis=-1))


def gamma32_of(case):
    d = len(case["X"][0]) if case["proj"] is None else len(case["proj"][0])
    return float(np.float32(case["gamma"] if case["gamma"] is not None else 1.0 / d))


def distances64(case, Q, P, gamma32):
    """float64 distance matrix queries x prototypes for the configured distance"""
    diff = Q[:, None, :] - P[None, :, :]
    if case["distance"] is None:          # sqrt(k(x,x) - 2 k(x,p) + k(p,p)) with the object's kernel
        kqq = np.diag(kernel_xy(case, Q, Q, gamma32))[:, None]
        kpp = np.diag(kernel_xy(case, P, P, gamma32))[None, :]
        return np.sqrt(np.maximum(kqq - 2.0 * kernel_xy(case, Q, P, gamma32) + kpp, 0.0))
    if case["distance"] == "euclidean":
        return np.sqrt((diff ** 2).sum(-1))
    if case["distance"] == "manhattan":
        return np.abs(diff).sum(-1)
    return np.abs(diff).max(-1)


_GUARD_CACHE = {}


def guards(case, res):
    key = core.json.dumps(case, sort_keys=True)
    K = np.array(res["K"], dtype=np.float64)
    ref = reference(case["method"], K, case["np"])
    full = ref["ncmp"] == case["np"]
    cmpw = full
    if full and case["method"] == "dash":      # weights need inv(K_SS + eps I) of the final selection
        S = ref["sel"]
        cmpw = np.linalg.cond(K[np.ix_(S, S)] + EPS32 * np.eye(len(S))) <= CMAX
    # local: every query's sorted distances must be separated around the first k
    local = False
    if full and res.get("D") is not None:
        local = True
        for row in res["D"]:
            s = sorted(row)
            for a, b in zip(s[:case["k"]], s[1:case["k"] + 1]):
                if b - a < 1e-3 * max(1.0, abs(b)):
                    local = False
    g = dict(ncmp=ref["ncmp"], cmpw=bool(cmpw), local=local, tie_steps=ref["tie_steps"], ref_sel=ref["sel"],
             worst_cond=ref["worst_cond"])
    _GUARD_CACHE[key] = g
    return g


# ----------------------------------------------------------------------------- implementation driver
def build(case, bs, default_kernel=False):
    import tensorflow as tf
    import xplique.example_based as eb
    cls = getattr(eb, METHODS[case["method"]])
    X = np.array(case["X"], dtype=np.float32)
    kwargs = {}
    if case["proj"] is not None:
        W = tf.constant(np.array(case["proj"], dtype=np.float32))
        kwargs["projection"] = lambda inputs, targets=None: tf.matmul(tf.cast(inputs, tf.float32), W)
    if case["distance"] is not None:
        kwargs["distance"] = case["distance"]
    gamma = case["gamma"]
    if case.get("kernel") is not None and not default_kernel:
        kwargs["kernel_fn"] = kernel_callable(case, gamma32_of(case))
        gamma = None
    return cls(X, labels_dataset=np.array(case["labels"], dtype=np.int64), nb_global_prototypes=case["np"],
               nb_local_prototypes=case["k"], batch_size=bs, gamma=gamma,
               case_returns=["examples", "distances", "labels", "indices"], **kwargs)


def globals_of(m):
    g = m.get_global_prototypes()
    return dict(indices=np.asarray(g["prototypes_indices"]).astype(int).tolist(),
                weights=[float(v) for v in np.asarray(g["prototypes_weights"]).reshape(-1)],
                labels=np.asarray(g["prototypes_labels"]).astype(int).reshape(-1).tolist(),
                prototypes=np.asarray(g["prototypes"]).astype(float).tolist())


def run_impl(case):
    import tensorflow as tf
    n = len(case["X"])
    m = build(case, case["bs"])
    res = globals_of(m)
    res["bs_eff"] = int(m.batch_size)
    if res["bs_eff"] != eff_bs(case):
        raise AssertionError(f"effective batch size {res['bs_eff']} != min(batch_size, N) = {eff_bs(case)}")
    sm = m.global_prototypes_search_method
    Xp = projected(case, case["X"])
    Xp32 = tf.constant(Xp.astype(np.float32))
    Kimpl = np.asarray(sm.kernel_fn(Xp32, Xp32)).astype(np.float64)
    Kl = np.tril(Kimpl)
    Ksym = Kl + np.tril(Kimpl, -1).T
    # rounded to the absolute grid 2^-24 (half a float32 ulp at 1.0): keeps the exact rational arithmetic of the
    # Coq model cheap (common denominator); the rounding is of the order of the float32 error of exp itself
    res["K"] = (np.round(Ksym * 2.0 ** 24) / 2.0 ** 24).tolist()
    # documented kernel: exp(-gamma |x-y|^2), gamma default 1 / nb_features (of the search space)
    gamma32 = float(np.float32(case["gamma"] if case["gamma"] is not None else 1.0 / Xp.shape[1]))
    sq = ((Xp[:, None, :] - Xp[None, :, :]) ** 2).sum(-1)
    Kdoc = kernel_xy(case, Xp, Xp, gamma32)
    res["kernel_dev"] = float(np.max(np.abs(Kdoc - Kimpl) / np.maximum(1.0, np.abs(Kdoc))))
    # the tables of the search method, when they are exposed
    cm, dg = getattr(sm, "kernel_col_means", None), getattr(sm, "kernel_diag", None)
    res["col_means"] = None if cm is None else np.asarray(cm).astype(float).tolist()
    res["diag"] = None if dg is None else np.asarray(dg).astype(float).tolist()
    # prototypes must be the dataset cases at the returned indices
    flat = [b * res["bs_eff"] + p for b, p in res["indices"]]
    res["protos_are_cases"] = bool(all(0 <= f < n for f in flat)
                                   and np.array_equal(np.array(case["X"], dtype=np.float32)[flat],
                                                      np.array(res["prototypes"], dtype=np.float32)))
    # local explanations
    Q = np.array(case["Q"], dtype=np.float32)
    out = m.explain(Q)
    res["local_indices"] = np.asarray(out["indices"]).astype(int).tolist()
    res["local_labels"] = np.asarray(out["labels"]).astype(int).tolist()
    res["local_distances"] = np.asarray(out["distances"]).astype(float).tolist()
    ex = np.asarray(out["examples"])
    lf = [[b * res["bs_eff"] + p for b, p in row] for row in res["local_indices"]]
    res["local_examples_are_cases"] = bool(all(0 <= f < n for row in lf for f in row) and np.array_equal(
        ex, np.array(case["X"], dtype=np.float32)[np.array(lf, dtype=int).reshape(len(lf), -1)]))
    if all(0 <= f < n for f in flat):
        res["D"] = distances64(case, projected(case, case["Q"]), Xp[flat], gamma32).tolist()
    else:
        res["D"] = None
    # second batch size: implementation vs implementation
    if case["bs2"] is not None:
        m2 = build(case, case["bs2"])
        g2 = globals_of(m2)
        res["second"] = dict(bs_eff=int(m2.batch_size), indices=g2["indices"], weights=g2["weights"])
    else:
        res["second"] = None
    # a user-supplied RBF with the same gamma must give what gamma=... gives (same batch size)
    if case.get("kernel") == "rbf":
        g3 = globals_of(build(case, case["bs"], default_kernel=True))
        res["default_kernel"] = dict(bs_eff=res["bs_eff"], indices=g3["indices"], weights=g3["weights"])
    else:
        res["default_kernel"] = None
    return res


# ----------------------------------------------------------------------------- Coq terms
def cpairs(ps):
    return core.cl([f"({core.cnat(a)}, {core.cnat(b)})" for a, b in ps])


def cmethod(case):
    return METHODS[case["method"]]


def well_formed(case, res):
    """shape / range sanity of the implementation output needed to even write the term"""
    n, b = len(case["X"]), res["bs_eff"]
    return (len(res["indices"]) == case["np"] and all(len(p) == 2 and p[0] >= 0 and p[1] >= 0 for p in res["indices"])
            and len(res["weights"]) == case["np"] and all(np.isfinite(res["weights"]))
            and all(p[0] >= 0 and p[1] >= 0 for row in res["local_indices"] for p in row)
            and all(np.isfinite(v) for row in res["local_distances"] for v in row)
            and all(v >= 0 for v in res["labels"]) and all(v >= 0 for row in res["local_labels"] for v in row))


def coq_term(case, res):
    g = guards(case, res)
    if not well_formed(case, res):
        return "false"
    if g["ncmp"] == 0:
        return None
    K = core.cqlist2(res["K"])
    bs, nproto, ncmp = res["bs_eff"], case["np"], g["ncmp"]
    tolw = core.cq(TOL_W[case["method"]])
    kmax = max(1.0, float(np.max(np.abs(np.array(res["K"])))))      # kernels with values above 1 (poly): float32 errors scale with them
    tol_t, tol_d = TOL_T * kmax, TOL_D * kmax
    cmpt = res["col_means"] is not None and res["diag"] is not None
    parts = [core.cbool(res["kernel_dev"] <= TOL_K), core.cbool(res["protos_are_cases"]),
             core.cbool(res["local_examples_are_cases"]),
             f"check_global {cmethod(case)} {core.cq(EPS32)} {K} {core.cnat(bs)} {core.cnat(nproto)} {core.cnat(ncmp)} "
             f"{cpairs(res['indices'])} {core.cbool(g['cmpw'])} {tolw} {core.cqlist(res['weights'])} "
             f"{core.cbool(cmpt)} {core.cq(tol_t)} {core.cqlist2(res['col_means'] or [])} {core.cqlist2(res['diag'] or [])}"]
    # Model = Spec on this case (tables = dense column means / diagonal; batched selection = dense greedy)
    parts.append(f"check_spec {cmethod(case)} {core.cq(EPS32)} {K} {core.cnat(bs)} {core.cnat(nproto)}")
    if res["second"] is not None:
        s = res["second"]
        parts.append(f"check_cross {core.cnat(bs)} {core.cnat(s['bs_eff'])} {core.cnat(ncmp)} {cpairs(res['indices'])} "
                     f"{cpairs(s['indices'])} {core.cbool(g['cmpw'])} {tolw} {core.cqlist(res['weights'])} "
                     f"{core.cqlist(s['weights'])}")
    if res.get("default_kernel") is not None:
        s = res["default_kernel"]
        parts.append(f"check_cross {core.cnat(bs)} {core.cnat(s['bs_eff'])} {core.cnat(ncmp)} {cpairs(res['indices'])} "
                     f"{cpairs(s['indices'])} {core.cbool(g['cmpw'])} {tolw} {core.cqlist(res['weights'])} "
                     f"{core.cqlist(s['weights'])}")
    if g["local"]:
        parts.append(f"check_local {cmethod(case)} {core.cq(EPS32)} {K} {core.cnat(bs)} {core.cnat(nproto)} "
                     f"{core.cnat(case['k'])} {core.cnatlist(case['labels'])} {core.cnatlist(res['labels'])} "
                     f"{core.cqlist2(res['D'])} {core.cq(tol_d)} "
                     f"{core.cl([cpairs(r) for r in res['local_indices']])} "
                     f"{core.cl([core.cnatlist(r) for r in res['local_labels']])} {core.cqlist2(res['local_distances'])}")
    return " && ".join(f"({p})" for p in parts)


def dump_term(case, res):
    K = core.cqlist2(res["K"])
    return (f"let '(sel, w) := find_prototypes {cmethod(case)} {core.cq(EPS32)} {K} {core.cnat(res['bs_eff'])} "
            f"{core.cnat(case['np'])} in (map (fun bp => [fst bp; snd bp]) sel, map qdump w)")


def explain_failure(case, res, model):
    if model is None:
        return "implementation raised on a valid configuration (or the model could not be evaluated)"
    g = guards(case, res)
    sel, w = model
    out = dict(steps_compared=g["ncmp"], weights_compared=g["cmpw"], local_compared=g["local"],
               reference_selection_dataset_positions=g["ref_sel"], model_indices=sel, implementation_indices=res["indices"],
               model_weights=w, implementation_weights=res["weights"], kernel_dev=res["kernel_dev"],
               prototypes_are_cases=res["protos_are_cases"], second_batch_size=res["second"])
    msel = [list(p) for p in sel][:g["ncmp"]]
    if msel != [list(p) for p in res["indices"]][:g["ncmp"]]:
        out["clause"] = ("selected cases / order differ from the dense greedy arg-max of the documented objective "
                         "(first-index tie-breaking) on the full kernel matrix")
    elif res["second"] is not None and [b * res["bs_eff"] + p for b, p in res["indices"]][:g["ncmp"]] != \
            [b * res["second"]["bs_eff"] + p for b, p in res["second"]["indices"]][:g["ncmp"]]:
        out["clause"] = "selection depends on the batch size"
    else:
        out["clause"] = "weights / kernel tables / local explanation (indices, labels, distances) differ"
    return out


def shrink(case):
    n = len(case["X"])
    if n > 1:
        for i in reversed(range(n)):
            c = copy.deepcopy(case)
            del c["X"][i]
            del c["labels"][i]
            m = n - 1
            c["np"] = min(c["np"], m)
            c["k"] = min(c["k"], c["np"])
            if c["bs2"] is not None:
                eff = m if c["bs"] is None else min(c["bs"], m)
                c["bs2"] = next((b for b in range(1, m + 1) if b != eff), None)
            yield c
    if case["np"] > 1:
        c = copy.deepcopy(case)
        c["np"] -= 1
        c["k"] = min(c["k"], c["np"])
        yield c
    if case["proj"] is not None:
        c = copy.deepcopy(case)
        c["proj"] = None
        yield c
    if case.get("kernel") is not None:
        c = copy.deepcopy(case)
        c["kernel"] = None
        yield c
    if len(case["Q"]) > 1:
        c = copy.deepcopy(case)
        c["Q"] = c["Q"][:1]
        yield c
    if case["distance"] is not None:
        c = copy.deepcopy(case)
        c["distance"] = None
        yield c
