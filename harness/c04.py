"""c04.py — IntegratedGradients vs coq/C04/Model.v (proved equal to the straight-path trapezoid formula).

Three things are compared on every case, inside Coq:
  1. explain(...) == ig_explain (model)                      exact when float32 is exact, else scaled tolerance
  2. completeness on the implementation's OWN output:        sum(attributions) == s(x) - s(baseline)  (F-quad)
                                                             sum(attributions) - (s(x)-s(b)) == K/(m-1)^2  (F-cubic)
  3. (recorded stream) the (point, target) pairs handed to the gradient == ig_queries (model) == the m equally
     spaced points of every input, each with the input's own target.
"""
import copy
import numpy as np
import core
import families as fam

PROP = "C04"
IMPORTS = "C04.Model C04.Fam C04.Proofs"
TOL = 1e-5          # worst error / scale measured on the unchanged tree (150 non-exact cases, F-quad and F-cubic): 1.0e-7
PRELUDE = """
Open Scope Qc_scope.
Definition qlist2_close (tol scale : Qc) (a b : list (list Qc)) : bool :=
  Nat.eqb (length a) (length b) && forallb (fun p => qlist_close tol scale (fst p) (snd p)) (combine a b).
Definition pair_eqb (a b : list Qc * list Qc) : bool := qlist_eqb (fst a) (fst b) && qlist_eqb (snd a) (snd b).
Definition red_factor (r : reducer) (c : nat) : Qc :=
  match r with RMean => if (2 <=? c)%nat then qn c else 1 | _ => 1 end.
(* K(x, b) / (m-1)^2 : the completeness gap of F-cubic, with the very K of theorem ig_gap_cubic *)
Definition cubic_gap (As : list (list Qc)) (m : nat) (bv : Qc) (x t : list Qc) : Qc :=
  cubic_K As (length x) bv x t / (qn (m - 1) * qn (m - 1)).
Close Scope Qc_scope.
"""
RULE = ("F-quad (cross terms) and F-cubic scores offered as tf.Module + explicit operator or as functional Keras model; "
        "kinds tabular / time series / image (C in 1..4); steps in {2,3,5,9,17} (float32 exact) and {4,6,7,10,11,12,13} "
        "(tolerance); baseline in {0,-1/2,5/4}; N in 1..4; real-valued targets; batch sizes biased to "
        "{1,2,m-1,m,m+1,2m-1,2m,2m+1,N*m,N*m+1,None}; reducer None mostly, default 'mean' / sum / max / min stream on "
        "images; a quarter of the cases also record the gradient queries (eager mode). distinct = different canonical "
        "JSON encoding; non-trivial = batch_size < steps, or not a multiple of steps, or several input chunks, or a "
        "remainder gradient batch")
ASSUMPTIONS = ["the gradient of the operator is applied row-wise (no cross-sample coupling) and returns the input's shape",
               "TF autodiff differentiates F-quad / F-cubic correctly (fquad_grad / fcubic_grad are the closed forms; "
               "validated by this correspondence)",
               "float32 evaluation on dyadic inputs with small integer weights and steps-1 a power of two is exact "
               "(exact comparison); otherwise |impl - model| <= 1e-5 * (1 + max|x-b| * max|grad along the path|)",
               "tf.linspace(0,1,m)[k] = k/(m-1) up to float32 rounding"]
SHARD = 40

STEPS_EXACT = [2, 3, 5, 9, 17]
STEPS_OTHER = [4, 6, 7, 10, 11, 12, 13]
BASELINES = [0.0, -0.5, 1.25]


def pow2(k):
    return k >= 1 and (k & (k - 1)) == 0


def gen_case(rng, tier):
    big = tier == "thorough"
    kind = rng.choice(["tab", "ts", "img", "img"])
    if kind == "tab":
        shape = [rng.randint(1, 8 if big else 6)]
    elif kind == "ts":
        shape = [rng.randint(1, 4), rng.randint(1, 4)]
    else:
        shape = [rng.randint(1, 3), rng.randint(1, 3), rng.choice([1, 1, 2, 3, 4])]
    dim = int(np.prod(shape))
    n = rng.randint(1, 4)
    ncls = rng.randint(1, 3)
    family = rng.choice(["quad", "quad", "cubic"])
    params = fam.gen_fquad(rng, ncls, dim)
    if family == "cubic":
        for k in params:
            k["A"] = [rng.choice([0, 1, -1, 2]) for _ in range(dim)]
        if not any(any(k["A"]) for k in params):
            params[0]["A"][rng.randrange(dim)] = 1
    m = rng.choice(STEPS_EXACT) if rng.random() < 0.65 else rng.choice(STEPS_OTHER)
    if big and rng.random() < 0.1:
        m = rng.choice([33, 14, 15, 21])
    reducer = None
    if kind == "img" and rng.random() < 0.4:
        reducer = rng.choice(["mean", "mean", "sum", "max", "min"])
    bs = rng.choice([1, 2, max(1, m - 1), m, m + 1, 2 * m - 1, 2 * m, 2 * m + 1, n * m, n * m + 1, None, None,
                     rng.randint(1, max(2, n * m + 2))])
    return dict(kind=kind, shape=shape, family=family, params=params, wrap=rng.choice(["mod", "keras"]),
                steps=m, bv=rng.choice(BASELINES), bs=bs, reducer=reducer, record=rng.random() < 0.25,
                xs=[fam.dyadic(rng, dim) for _ in range(n)], ts=fam.gen_targets(rng, n, ncls))


def generate(rng, tier):
    n = 130 if tier == "quick" else 1200
    cases = [gen_case(rng, tier) for _ in range(n)]
    for c in cases:
        # re-use: a quarter of the cases change baseline_value through the public attribute and explain again (same
        # object, same shapes): the result must be the one of the new baseline
        if not c["record"] and rng.random() < 0.25:
            c["bv2"] = rng.choice([b for b in (0.0, -0.5, 1.25, 0.5) if b != c["bv"]])
    return cases


def eff(case):
    n = len(case["xs"])
    B = case["bs"] or n
    return B, max(B // case["steps"], 1)


def nontrivial(case):
    n, m = len(case["xs"]), case["steps"]
    B, chunk = eff(case)
    return B < m or B % m != 0 or n > chunk or (min(chunk, n) * m) % B != 0


def bs_class(case):
    m = case["steps"]
    if case["bs"] is None:
        return "None"
    b = case["bs"]
    return "lt_steps" if b < m else "eq_steps" if b == m else "multiple" if b % m == 0 else "gt_not_multiple"


def distribution(cases):
    return dict(kind=core.hist(c["kind"] for c in cases), family=core.hist(c["family"] for c in cases),
                wrap=core.hist(c["wrap"] for c in cases), steps=core.hist(c["steps"] for c in cases),
                baseline=core.hist(c["bv"] for c in cases), n_inputs=core.hist(len(c["xs"]) for c in cases),
                batch_class=core.hist(bs_class(c) for c in cases),
                input_chunks=core.hist(-(-len(c["xs"]) // eff(c)[1]) for c in cases),
                reducer=core.hist(c["reducer"] for c in cases), channels=core.hist(chan(c) for c in cases),
                exact_compare=core.hist(is_exact(c) for c in cases), recorded=core.hist(c["record"] for c in cases))


# ------------------------------------------------------------------ implementation side
def cubic_tf_module(ks, shape):
    """F-cubic as a tf.Module: F-quad module + (x^3) A^T"""
    import tensorflow as tf
    quad = fam.fquad_tf_module(ks, shape)
    A = tf.constant([k.get("A", [0] * len(k["W"])) for k in ks], tf.float32)

    class CubicModule(tf.Module):
        def __call__(self, x):
            x = tf.cast(x, tf.float32)
            xf = tf.reshape(x, (tf.shape(x)[0], -1))
            return quad(x) + tf.matmul(xf * xf * xf, A, transpose_b=True)
    return CubicModule()


def as_keras(mod, shape, ncls):
    import tensorflow as tf
    inp = tf.keras.Input(shape=tuple(shape))

    class L(tf.keras.layers.Layer):
        def call(self, x):
            return mod(x)

        def compute_output_shape(self, s):
            return (s[0], ncls)
    return tf.keras.Model(inp, L()(inp))


def run_impl(case):
    import tensorflow as tf
    from xplique.attributions import IntegratedGradients
    ks, shape = case["params"], case["shape"]
    mod = cubic_tf_module(ks, shape) if case["family"] == "cubic" else fam.fquad_tf_module(ks, shape)
    n = len(case["xs"])
    xs = np.array(case["xs"], dtype=np.float32).reshape([n] + shape)
    ts = np.array(case["ts"], dtype=np.float32)
    queries = []
    record = case["record"]

    def operator(model, x, t):
        if record:
            queries.append((np.asarray(x).reshape(len(x), -1).copy(), np.asarray(t).copy()))
        return tf.reduce_sum(model(x) * t, axis=-1)

    kw = dict(batch_size=case["bs"], steps=case["steps"], baseline_value=case["bv"])
    if case["reducer"] != "mean" or case.get("explicit_reducer"):
        kw["reducer"] = case["reducer"]          # 'mean' is the default: left implicit
    if record:
        tf.config.run_functions_eagerly(True)
    try:
        if case["wrap"] == "keras" and not record:
            expl = IntegratedGradients(as_keras(mod, shape, len(ks)), **kw)
        else:
            expl = IntegratedGradients(mod, operator=operator, **kw)
        out = np.asarray(expl.explain(xs, ts))
    finally:
        if record:
            tf.config.run_functions_eagerly(False)
    if out.shape[0] != n:
        raise AssertionError(f"explain returned {out.shape[0]} explanations for {n} inputs")
    res = dict(shape=list(out.shape), maps=[[float(v) for v in m.reshape(-1)] for m in out])
    if case.get("bv2") is not None:
        expl.baseline_value = case["bv2"]
        out2 = np.asarray(expl.explain(xs, ts))
        res["maps2"] = [[float(v) for v in m.reshape(-1)] for m in out2]
    if record:
        res["queries"] = [[[float(v) for v in p], [float(v) for v in t]] for qx, qt in queries for p, t in zip(qx, qt)]
    return res


# ------------------------------------------------------------------ Coq side
def chan(case):
    return case["shape"][2] if case["kind"] == "img" else 0


def is_exact(case):
    if not pow2(case["steps"] - 1) or case["family"] == "cubic":
        return False
    if case["reducer"] == "mean" and chan(case) >= 2 and not pow2(chan(case)):
        return False
    return True


def coq_As(case):
    return core.cqlist2([k["A"] for k in case["params"]])


def coq_grad(case):
    ks = fam.coq_fquad(case["params"])
    return f"(fcubic_grad {ks} {coq_As(case)})" if case["family"] == "cubic" else f"(fquad_grad {ks})"


def coq_score(case):
    ks = fam.coq_fquad(case["params"])
    return f"(fcubic {ks} {coq_As(case)})" if case["family"] == "cubic" else f"(fquad {ks})"


def coq_reducer(case):
    return {None: "RNone", "mean": "RMean", "sum": "RSum", "max": "RMax", "min": "RMin"}[case["reducer"]]


def common_args(case):
    dim = int(np.prod(case["shape"]))
    bs = core.copt(None if case["bs"] is None else core.cnat(case["bs"]))
    return (f"{core.cnat(dim)} {core.cnat(case['steps'])} {bs} {core.cq(case['bv'])} "
            f"{core.cqlist2(case['xs'])} {core.cqlist2(case['ts'])}")


def model_term(case):
    return f"(ig_explain {coq_grad(case)} {coq_reducer(case)} {core.cnat(chan(case))} {common_args(case)})"


def scale_term(case):
    dim = int(np.prod(case["shape"]))
    return (f"(ig_scale {coq_grad(case)} {core.cnat(dim)} {core.cnat(case['steps'])} {core.cq(case['bv'])} "
            f"{core.cqlist2(case['xs'])} {core.cqlist2(case['ts'])})")


def completeness_applies(case):
    return case["reducer"] in (None, "mean", "sum") or chan(case) < 2


def main_check(case, res):
    if is_exact(case):
        return f"qlist2_eqb {model_term(case)} {core.cqlist2(res['maps'])}"
    return f"qlist2_close {core.cq(TOL)} {scale_term(case)} {model_term(case)} {core.cqlist2(res['maps'])}"


def completeness_check(case, res):
    """sum of the implementation's attributions (exact sum of the returned floats, times C for the mean reducer)
       against score(x) - score(baseline) (+ K/(m-1)^2 for F-cubic)"""
    if not completeness_applies(case):
        return None
    dim = int(np.prod(case["shape"]))
    base = f"(repeat {core.cq(case['bv'])} {core.cnat(dim)})"
    sc = coq_score(case)
    gap = (f"cubic_gap {coq_As(case)} {core.cnat(case['steps'])} {core.cq(case['bv'])} x t"
           if case["family"] == "cubic" else "0%Qc")
    expected = (f"(map2 (fun x t => ({sc} x t - {sc} {base} t + {gap})%Qc) "
                f"{core.cqlist2(case['xs'])} {core.cqlist2(case['ts'])})")
    got = (f"(map (fun e => (red_factor {coq_reducer(case)} {core.cnat(chan(case))} * qsum e)%Qc) "
           f"{core.cqlist2(res['maps'])})")
    if is_exact(case):
        return f"qlist_eqb {got} {expected}"
    return f"qlist_close {core.cq(TOL)} ({core.cq(dim)} * {scale_term(case)})%Qc {got} {expected}"


def queries_check(case, res):
    if "queries" not in res:
        return None
    q = core.cl([f"({core.cqlist(p)}, {core.cqlist(t)})" for p, t in res["queries"]])
    term = f"(ig_queries {common_args(case)})"
    if pow2(case["steps"] - 1):
        return f"list_eqb pair_eqb {term} {q}"
    return (f"(Nat.eqb (length {term}) (length {q}) && forallb (fun ab => qlist_close {core.cq(TOL)} (q 4 1) (fst (fst ab)) "
            f"(fst (snd ab)) && qlist_eqb (snd (fst ab)) (snd (snd ab))) (combine {term} {q}))")


def coq_term(case, res):
    parts = [main_check(case, res), completeness_check(case, res), queries_check(case, res)]
    if case.get("bv2") is not None:
        if "maps2" not in res:
            return "false"
        c2 = dict(case, bv=case["bv2"], bv2=None)
        r2 = dict(res, maps=res["maps2"])
        parts += [main_check(c2, r2), completeness_check(c2, r2)]
    return "(" + " && ".join(f"({p})" for p in parts if p is not None) + ")"


def dump_term(case, res):
    return f"map (map qdump) {model_term(case)}"


def explain_failure(case, res, model):
    if model is None:
        return "implementation raised on a valid configuration"
    out = dict(clause="IG_i = (x_i - baseline) * trapezoidal average over the `steps` equally spaced points of grad_i",
               lengths=[len(model), len(res["maps"])])
    bad = []
    for n, (mm, im) in enumerate(zip(model, res["maps"])):
        if len(mm) != len(im):
            bad.append(dict(sample=n, reference_len=len(mm), implementation_len=len(im)))
            continue
        for p, (a, b) in enumerate(zip(mm, im)):
            d = abs(core.frac(a) - core.frac(b))
            if d > (0 if is_exact(case) else core.frac(1e-4) * (1 + abs(core.frac(a)))):
                bad.append(dict(sample=n, position=p, reference=a, implementation=core.fstr(b)))
    out["first_differences"] = bad[:6]
    # which of the three comparisons fails (each re-evaluated alone)
    verdict = {}
    for name, f in (("attributions", main_check), ("completeness_of_impl_output", completeness_check),
                    ("gradient_queries", queries_check)):
        t = f(case, res)
        if t is not None:
            try:
                verdict[name] = core.coq_eval_bools(f"{PROP}_why", IMPORTS, PRELUDE, [t])[0]
            except core.HarnessError as e:
                verdict[name] = f"error: {str(e)[-300:]}"
    out["checks"] = verdict
    if completeness_applies(case):
        out["implementation_sums"] = [core.fstr(sum(core.frac(v) for v in m)) for m in res["maps"]]
    return out


def shrink(case):
    if len(case["xs"]) > 1:
        for i in range(len(case["xs"])):
            c = copy.deepcopy(case)
            del c["xs"][i]
            del c["ts"][i]
            yield c
    if len(case["params"]) > 1:
        for i in range(len(case["params"])):
            c = copy.deepcopy(case)
            del c["params"][i]
            for t in c["ts"]:
                del t[i]
            yield c
    if case["record"]:
        c = copy.deepcopy(case)
        c["record"] = False
        yield c
    if case["family"] == "cubic":
        c = copy.deepcopy(case)
        c["family"] = "quad"
        for k in c["params"]:
            k.pop("A", None)
        yield c
    if any(k["X"] for k in case["params"]):
        c = copy.deepcopy(case)
        for k in c["params"]:
            k["X"] = []
        yield c
    if any(any(k["V"]) for k in case["params"]):
        c = copy.deepcopy(case)
        for k in c["params"]:
            k["V"] = [0] * len(k["V"])
        yield c
    if case["reducer"] is not None:
        c = copy.deepcopy(case)
        c["reducer"] = None
        yield c
    if case["bs"] is not None:
        c = copy.deepcopy(case)
        c["bs"] = None
        yield c
    for m in (2, 3):
        if case["steps"] > m:
            c = copy.deepcopy(case)
            c["steps"] = m
            yield c
    if case["bv"] != 0.0:
        c = copy.deepcopy(case)
        c["bv"] = 0.0
        yield c
