"""translate_sobol.py — second tie for C08: a fail-closed Python-`ast` translator for the five `__call__` bodies of
xplique/attributions/global_sensitivity_analysis/sobol_estimators.py.

On every run of `./check C08` the estimator formulas are RE-GENERATED from the source text of /repo as Coq definitions
(`gen_jansen`, `gen_homma`, ...) over the vocabulary of coq/C08/Model.v, and a fixed proof script shows that each
generated definition equals the hand-written model the theorems are about (`gen_X = Model.X`).  An edit of a formula in the
source therefore changes the generated term and breaks that proof obligation, independently of the sampled cases of the
correspondence check.  Any construct outside the small supported subset makes the translator stop (TranslationError):
it never guesses.

Supported subset (types: S scalar, V vector over design points, D(t) list indexed by the dimension):
  nb_dim = self.masks_dim(masks);  sampling_a, _, replication_c = self.split_abc(outputs, nb_design, nb_dim)
  name = expr;  return self.post_process(name, masks)
  expr ::= name | number | expr (+|-|*|/) expr | expr ** (2|2.|2.0|0.5) | -expr | name[i]
         | np.sum(e) | np.mean(e) | np.var(e) | len(e)
         | [expr for i in range(nb_dim)] | [expr for v in <vector>] | [expr for ci in <D(V) name>]
"""
import ast
import pathlib

ESTIMATORS = {"JansenEstimator": "jansen", "HommaEstimator": "homma", "JanonEstimator": "janon",
              "GlenEstimator": "glen", "SaltelliEstimator": "saltelli"}


class TranslationError(Exception):
    pass


def _num(node):
    if isinstance(node, ast.Constant) and isinstance(node.value, (int, float)) and not isinstance(node.value, bool):
        return node.value
    return None


class Tr:
    def __init__(self):
        self.env = {"sampling_a": "V", "replication_c": "DV", "nb_design": "S"}
        self.coq = {"sampling_a": "a", "replication_c": "c", "nb_design": "(qn n)"}

    def lit(self, v):
        if v == 1:
            return "1"
        if v == 2:
            return "two"
        if v == 0:
            return "0"
        raise TranslationError(f"unsupported numeric literal {v!r}")

    def bin(self, op, l, lt, r, rt):
        sym = {ast.Add: "+", ast.Sub: "-", ast.Mult: "*", ast.Div: "/"}.get(type(op))
        if sym is None:
            raise TranslationError(f"unsupported operator {op!r}")
        if lt == "S" and rt == "S":
            return f"({l} {sym} {r})", "S"
        if lt == "V" and rt == "V":
            fn = {"+": "vadd", "-": "vsub", "*": "vmul"}.get(sym)
            if fn is None:
                raise TranslationError("vector / vector")
            return f"({fn} {l} {r})", "V"
        if lt == "V" and rt == "S":
            return f"(map (fun v_ => v_ {sym} {r}) {l})", "V"
        if lt == "S" and rt == "V":
            return f"(map (fun v_ => {l} {sym} v_) {r})", "V"
        raise TranslationError(f"unsupported operand types {lt} {sym} {rt}")

    def expr(self, e):
        n = _num(e)
        if n is not None:
            return self.lit(n), "S"
        if isinstance(e, ast.Name):
            if e.id not in self.env:
                raise TranslationError(f"unknown name {e.id}")
            return self.coq[e.id], self.env[e.id]
        if isinstance(e, ast.UnaryOp) and isinstance(e.op, ast.USub):
            t, ty = self.expr(e.operand)
            if ty != "S":
                raise TranslationError("unary minus on non-scalar")
            return f"(- {t})", "S"
        if isinstance(e, ast.BinOp) and isinstance(e.op, ast.Pow):
            p = _num(e.right)
            t, ty = self.expr(e.left)
            if p == 2:
                if ty == "S":
                    return f"(sq {t})", "S"
                if ty == "V":
                    return f"(map sq {t})", "V"
            if p == 0.5 and ty == "S":
                return f"(sqrt {t})", "S"
            raise TranslationError(f"unsupported power {ast.dump(e.right)} on {ty}")
        if isinstance(e, ast.BinOp):
            l, lt = self.expr(e.left)
            r, rt = self.expr(e.right)
            return self.bin(e.op, l, lt, r, rt)
        if isinstance(e, ast.Subscript):
            if not (isinstance(e.value, ast.Name) and isinstance(e.slice, ast.Name) and self.env.get(e.slice.id) == "I"):
                raise TranslationError("unsupported subscript")
            base, bt = self.expr(e.value)
            if bt == "DS":
                return f"(nthq {base} {e.slice.id})", "S"
            if bt == "DV":
                return f"(nth {e.slice.id} {base} [])", "V"
            raise TranslationError("subscript of non-indexed value")
        if isinstance(e, ast.Call):
            f = e.func
            if isinstance(f, ast.Attribute) and isinstance(f.value, ast.Name) and f.value.id == "np" and len(e.args) == 1 \
                    and not e.keywords:
                t, ty = self.expr(e.args[0])
                if ty != "V":
                    raise TranslationError(f"np.{f.attr} of a non-vector")
                if f.attr == "sum":
                    return f"(qsum {t})", "S"
                if f.attr == "mean":
                    return f"(np_mean {t})", "S"
                if f.attr == "var":
                    return f"(np_var {t})", "S"
                raise TranslationError(f"unsupported numpy function {f.attr}")
            if isinstance(f, ast.Name) and f.id == "len" and len(e.args) == 1:
                t, ty = self.expr(e.args[0])
                if ty != "V":
                    raise TranslationError("len of a non-vector")
                return f"(qn (length {t}))", "S"
            raise TranslationError(f"unsupported call {ast.dump(f)}")
        if isinstance(e, ast.ListComp):
            if len(e.generators) != 1 or e.generators[0].ifs or not isinstance(e.generators[0].target, ast.Name):
                raise TranslationError("unsupported comprehension")
            g = e.generators[0]
            var = g.target.id
            it = g.iter
            saved = (dict(self.env), dict(self.coq))
            try:
                if isinstance(it, ast.Call) and isinstance(it.func, ast.Name) and it.func.id == "range" \
                        and len(it.args) == 1 and isinstance(it.args[0], ast.Name) and it.args[0].id == "nb_dim":
                    self.env[var] = "I"
                    self.coq[var] = var
                    body, bt = self.expr(e.elt)
                    if bt not in ("S", "V"):
                        raise TranslationError("nested per-dimension lists")
                    return f"(map (fun {var} => {body}) (seq 0 d))", "D" + bt
                src, st = self.expr(it)
                if st == "V":
                    self.env[var] = "S"
                    self.coq[var] = var
                    body, bt = self.expr(e.elt)
                    if bt != "S":
                        raise TranslationError("vector comprehension with non-scalar body")
                    return f"(map (fun {var} => {body}) {src})", "V"
                if st == "DV":
                    self.env[var] = "V"
                    self.coq[var] = var
                    body, bt = self.expr(e.elt)
                    if bt != "S":
                        raise TranslationError("per-dimension comprehension with non-scalar body")
                    return f"(map (fun {var} => {body}) {src})", "DS"
                raise TranslationError("comprehension over unsupported iterable")
            finally:
                self.env, self.coq = saved
        raise TranslationError(f"unsupported expression {ast.dump(e)[:80]}")

    def body(self, fn):
        stmts = list(fn.body)
        if stmts and isinstance(stmts[0], ast.Expr) and isinstance(getattr(stmts[0], "value", None), ast.Constant):
            stmts = stmts[1:]          # docstring
        lets = []
        result = None
        for s in stmts:
            if isinstance(s, ast.Assign) and len(s.targets) == 1:
                tgt = s.targets[0]
                src = ast.unparse(s.value)
                if isinstance(tgt, ast.Name) and tgt.id == "nb_dim" and src == "self.masks_dim(masks)":
                    continue
                if isinstance(tgt, ast.Tuple) and src == "self.split_abc(outputs, nb_design, nb_dim)" and \
                        [getattr(x, "id", None) for x in tgt.elts] == ["sampling_a", "_", "replication_c"]:
                    continue
                if isinstance(tgt, ast.Name):
                    t, ty = self.expr(s.value)
                    self.env[tgt.id] = ty
                    self.coq[tgt.id] = tgt.id
                    lets.append((tgt.id, t))
                    continue
            if isinstance(s, ast.Return) and ast.unparse(s.value).startswith("self.post_process(") and \
                    isinstance(s.value.args[0], ast.Name) and ast.unparse(s.value.args[1]) == "masks":
                name = s.value.args[0].id
                if self.env.get(name) != "DS":
                    raise TranslationError("returned value is not one scalar per dimension")
                result = name
                continue
            raise TranslationError(f"unsupported statement: {ast.unparse(s)[:80]}")
        if result is None:
            raise TranslationError("no return")
        out = "let '(a, _, c) := split_abc outputs n d in\n"
        for name, t in lets:
            out += f"  let {name} := {t} in\n"
        return out + f"  {result}"


def translate(path):
    tree = ast.parse(pathlib.Path(path).read_text())
    defs = {}
    for node in tree.body:
        if isinstance(node, ast.ClassDef) and node.name in ESTIMATORS:
            calls = [f for f in node.body if isinstance(f, ast.FunctionDef) and f.name == "__call__"]
            if len(calls) != 1:
                raise TranslationError(f"{node.name}: no unique __call__")
            defs[ESTIMATORS[node.name]] = Tr().body(calls[0])
    missing = set(ESTIMATORS.values()) - set(defs)
    if missing:
        raise TranslationError(f"estimator classes not found: {sorted(missing)}")
    return defs


GEN_HEADER = """(* GENERATED on every run by harness/translate_sobol.py from {src} — do not edit *)
From Xpl Require Import Base.Tensor C08.Model.
Open Scope Qc_scope.
"""

EQ_SCRIPT = """
(* the hand-written model the C08 theorems are about IS what the source says now *)
Theorem gen_jansen_is_model : forall sqrt outputs n d, gen_jansen sqrt outputs n d = jansen outputs n d.
Proof. intros. unfold gen_jansen, jansen. destruct (split_abc outputs n d) as [[a b] c]. reflexivity. Qed.
Theorem gen_homma_is_model : forall sqrt outputs n d, gen_homma sqrt outputs n d = homma outputs n d.
Proof. intros. unfold gen_homma, homma. destruct (split_abc outputs n d) as [[a b] c]. reflexivity. Qed.
Theorem gen_janon_is_model : forall sqrt outputs n d, gen_janon sqrt outputs n d = janon outputs n d.
Proof. intros. unfold gen_janon, janon. destruct (split_abc outputs n d) as [[a b] c]. reflexivity. Qed.
Theorem gen_glen_is_model : forall sqrt outputs n d, gen_glen sqrt outputs n d = glen sqrt outputs n d.
Proof. intros. unfold gen_glen, glen. destruct (split_abc outputs n d) as [[a b] c]. reflexivity. Qed.
Theorem gen_saltelli_is_model : forall sqrt outputs n d, gen_saltelli sqrt outputs n d = saltelli outputs n d.
Proof. intros. unfold gen_saltelli, saltelli. destruct (split_abc outputs n d) as [[a b] c]. reflexivity. Qed.
Print Assumptions gen_jansen_is_model.
Print Assumptions gen_homma_is_model.
Print Assumptions gen_janon_is_model.
Print Assumptions gen_glen_is_model.
Print Assumptions gen_saltelli_is_model.
"""


def generate_coq(path):
    defs = translate(path)
    out = GEN_HEADER.format(src=path)
    for name in ("jansen", "homma", "janon", "glen", "saltelli"):
        out += f"\nDefinition gen_{name} (sqrt : Qc -> Qc) (outputs : list Qc) (n d : nat) : list Qc :=\n  {defs[name]}.\n"
    return out + EQ_SCRIPT


if __name__ == "__main__":
    import sys
    print(generate_coq(sys.argv[1]))
