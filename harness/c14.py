"""c14.py — Deletion / Insertion (xplique.metrics) vs coq/C14/Model.v (proved equal to the documented curve).

Every case drives the public API (`Deletion` / `Insertion` constructor, `detailed_evaluate`, `__call__`) from the
working tree and evaluates `detailed_evaluate` / `evaluate` of the Coq model (with the concrete stable argsort
`rank_insertion`) on the same inputs; keys are compared exactly, values exactly when float32 division is exact
(N and #intervals powers of two) and within 1e-5 * (1 + max|score|) otherwise.
"""
import copy
import math
import numpy as np
import core
import families as fam

PROP = "C14"
IMPORTS = "C14.Model"
SHARD = 40
RULE = ("kinds tabular (N,F) / time series (N,T,W) / image (N,H,W,C); explanations without channel axis, with 1 "
        "channel, with C or another number of channels (averaged); Deletion and Insertion; steps in {-1,1,2,3,F,F+4,"
        "random up to F+6}; for 35% of the cases the implementation receives a strictly increasing transformation of the "
        "explanations (cube, affine, arctan, exp; affine only with a channel axis) while the model keeps the original; "
        "max_percentage in {1/4,3/8,1/2,3/4,1} plus guarded non-dyadic {0.3,0.7,0.9}; constant "
        "baselines and plain-function baselines (x/2, 1/4-x, roll over the batch axis, constant array); F-quad score "
        "with cross terms offered as NumPy callable or tf.Module; real-valued targets; batch sizes biased to "
        "{1,2,N-1,N,N+1,None}; explanations have pairwise distinct (channel-mean) values per sample so the ranking is "
        "unique; distinct = different canonical JSON; non-trivial = >= 2 inference batches or a remainder batch or "
        "collapsing duplicate steps (S > max_nb) or several channels")
ASSUMPTIONS = [
    "score is applied row-wise (no cross-sample coupling)",
    "argsort returns a permutation sorted by decreasing value; explanations fed here have pairwise distinct values per "
    "sample (ties are the only freedom of argsort and are not exercised)",
    "np.linspace(0, m, S+1, dtype=int32) equals floor(j*m/S); cases where float64 rounding inside np.linspace breaks this "
    "(e.g. m=30, S=22, j=11 gives 14) and cases where float64 F*pct rounds across an integer are skipped and counted",
    "float32 evaluation of F-quad on dyadic inputs with small integer weights is exact; float32 division by N or by the "
    "number of intervals is exact only for powers of two, otherwise tolerance 1e-5 * (1 + max|score|)",
    "a function baseline is a user function: its value on the inputs is an input of the model",
]

PRELUDE = r"""
Definition c14_tol : Qc := q 1 100000.
Definition sq_score (ks : list qclass) (x t : list Qc) : Qc := dot (map (fun v => (v * v)%Qc) (fquad_out ks x)) t.
Definition c14_scale (v : list Qc) : Qc := (fold_left (fun a x => Qcmax a (Qcabs x)) v (q 0 1) + q 1 1)%Qc.
Definition c14_cmpl (exact : bool) (a b : list Qc) : bool :=
  if exact then qlist_eqb a b else qlist_close c14_tol (c14_scale a) a b.
Definition c14_check (exv exa : bool) (d : list (nat * Qc)) (a : Qc) (keys : list nat) (vals : list Qc)
  (auc : option Qc) : bool :=
  list_eqb Nat.eqb (map fst d) keys && c14_cmpl exv (map snd d) vals &&
  match auc with None => true | Some x => c14_cmpl exa [a] [x] end.
"""

# strictly increasing transformations applied to the explanations handed to the IMPLEMENTATION only (the Coq model gets
# the untransformed ones): by C14_ranking_only the result must not move.  Values stay pairwise distinct in float32.
TRANSFORMS = {
    "cube": lambda e: e * e * e,
    "affine": lambda e: np.float32(3.0) * e + np.float32(1.0),
    "arctan": lambda e: np.arctan(e),
    "expm": lambda e: np.exp(e / np.float32(4.0)),
    # double-precision explanations whose distinct values are closer than the float32 resolution (scores with a large
    # common offset): the ranking is still unique, a cast to float32 before the argsort would create ties
    "f64_tiny": lambda e: 1.0 + 1e-9 * e.astype(np.float64),
}

BASE_FUNS = {
    "half": lambda x: x * np.float32(0.5),
    "neg": lambda x: np.float32(0.25) - x,
    "roll": lambda x: np.roll(x, 1, axis=0),
    "carr": lambda x: np.full_like(x, 0.75),
    # "persist": the function hands out ONE pre-computed array that outlives the calls (run_impl builds the closure and
    # lets an Insertion and a first call use it before the call that is compared); values as below
    "persist": lambda x: x * np.float32(0.5) + np.float32(0.125),
}


# ----------------------------------------------------------------------------- geometry helpers
def n_feat(case):
    sh = case["shape"]
    return int(np.prod(sh[:-1])) if case["kind"] == "img" else int(np.prod(sh))


def n_chan(case):
    return case["shape"][-1] if case["kind"] == "img" else 1


def exact_max_nb(case):
    return math.floor(core.frac(case["pct"]) * n_feat(case))


def exact_steps(case):
    m = exact_max_nb(case)
    S = m if case["steps"] == -1 else case["steps"]
    return m, S, [(j * m) // S if S else 0 for j in range(S + 1)]


def guard(case):
    """None when the exact-arithmetic reading of floor / linspace is what float64 computes; else a reason"""
    F = n_feat(case)
    m = exact_max_nb(case)
    if int(np.floor(F * case["pct"])) != m:
        return "float64 F*pct rounds across an integer"
    _, S, ex = exact_steps(case)
    if list(np.linspace(0, m, S + 1, dtype=np.int32)) != ex:
        return "float64 rounding inside np.linspace"
    return None


def is_pow2(n):
    return n >= 1 and (n & (n - 1)) == 0


# ----------------------------------------------------------------------------- generators
def gen_expl(rng, F, ec):
    """per-sample explanation (flat, row-major (F, ec) or (F,)) with pairwise distinct channel means"""
    sums = rng.sample(range(-3 * F - 3, 3 * F + 4), F)
    if ec is None:
        return [s / 8 for s in sums]
    out = []
    for s in sums:
        vals = [rng.randint(-16, 16) / 8 for _ in range(ec - 1)]
        vals.append(s / 8 - sum(vals))
        out.extend(vals)
    return out


def gen_case(rng, tier):
    big = tier == "thorough"
    kind = rng.choice(["tab", "ts", "img", "img"])
    if kind == "tab":
        shape = [rng.randint(1, 30 if big else 24)]
        ec = None
    elif kind == "ts":
        shape = [rng.randint(1, 6), rng.randint(1, 5)]
        ec = rng.choice([None, None, None, None, 1, 2])
    else:
        shape = [rng.randint(1, 5), rng.randint(1, 5), rng.choice([1, 2, 3])]
        ec = rng.choice([None, None, 1, shape[2], shape[2], rng.choice([2, 3, 4])])
    case = dict(kind=kind, shape=shape, echan=ec)
    F = n_feat(case)
    dim = int(np.prod(shape))
    n = rng.choice([1, 2, 2, 3, 4, 4, 5, 6] + ([7, 8] if big else []))
    ncls = rng.randint(1, 3)
    case["mode"] = rng.choice(["deletion", "insertion"])
    case["pct"] = rng.choice([0.25, 0.5, 1.0, 1.0, 0.375, 0.75, 0.3, 0.7, 0.9] if rng.random() < 0.8 else [1.0])
    case["steps"] = rng.choice([-1, -1, 1, 2, 3, F, F + 4, rng.randint(1, F + 6)])
    if case["steps"] == -1 and exact_max_nb(case) == 0:
        case["pct"] = 1.0
    if rng.random() < 0.6:
        case["baseline"] = dict(const=rng.choice([0.0, 0.0, 0.5, -1.0, 1.25]))
    else:
        case["baseline"] = dict(fun=rng.choice(sorted(BASE_FUNS)))
    case["model"] = rng.choice(["numpy", "numpy", "tfmodule"])
    bss = [1, 2, 3, max(1, n - 1), n, n + 1, rng.randint(1, n + 2), None, None]   # None: works for every model kind since fix 0d30c5f
    case["bs"] = rng.choice(bss)
    # which score the metric must use (C02: metrics explain operator(model, x, targets)): default, a task name, a Tasks
    # member, or a custom callable; the named operators are TF functions, so a NumPy callable only gets default / custom
    if case["model"] == "tfmodule":
        case["operator"] = rng.choice(["none", "none", "classification", "regression", "CLASSIFICATION", "custom_sq"])
    else:
        case["operator"] = rng.choice(["none", "none", "none", "custom_sq"])
    case["params"] = fam.gen_fquad(rng, ncls, dim)
    case["xs"] = [fam.dyadic(rng, dim) for _ in range(n)]
    case["ts"] = fam.gen_targets(rng, n, ncls)
    case["es"] = [gen_expl(rng, F, ec) for _ in range(n)]
    # monotone transformation of the explanations (no channel axis: the code ranks channel MEANS, which only an affine
    # map preserves — with a channel axis only the affine one is used)
    r = rng.random()
    case["transform"] = None if r < 0.65 else (rng.choice(sorted(TRANSFORMS)) if ec is None else rng.choice(["affine", "f64_tiny"]))
    if rng.random() < 0.12:
        # ties: explanations with many exactly equal scores (block-constant or ReLU-ed maps).  WHICH of the tied features
        # goes first is the sort's business; that exactly k features are in the baseline state at step k is not: the score
        # is made symmetric in the features (equal weights, constant inputs), so every tie-break gives the same curve
        case["ties"] = True
        case["transform"] = None
        for p in case["params"]:
            wv = rng.choice([1, 2, -1])
            p["W"], p["V"], p["X"] = [wv] * dim, [0] * dim, []
        case["xs"] = [[rng.choice([0.5, 1.0, 1.5, -1.0])] * dim for _ in range(n)]
        if "fun" in case["baseline"] and case["baseline"]["fun"] == "roll":
            case["baseline"] = dict(const=0.25)
        vals = rng.choice([[0.0, 1.0], [0.0, 0.5, 1.0], [0.25]])
        case["es"] = [[rng.choice(vals) for _ in range(F * (ec or 1))] for _ in range(n)]
    return case


def fixed_cases():
    """deterministic edge cases named by the property (always part of the run)"""
    rng = core.make_rng("C14-fixed")
    out = []
    for kind, shape, ec in [("tab", [6], None), ("ts", [3, 2], None), ("img", [2, 3, 2], None), ("img", [2, 3, 2], 2),
                            ("img", [2, 2, 3], 1)]:
        for mode in ("deletion", "insertion"):
            base = dict(kind=kind, shape=shape, echan=ec, mode=mode)
            F = n_feat(base)
            dim = int(np.prod(shape))
            for steps, pct, bs, bl in [(-1, 1.0, 2, dict(const=0.0)), (1, 0.5, 1, dict(const=0.5)),
                                       (3, 1.0, 3, dict(fun="roll")), (F, 0.25, 2, dict(fun="half")),
                                       (F + 4, 1.0, 4, dict(const=-1.0))]:
                c = dict(base, steps=steps, pct=pct, bs=bs, baseline=bl, model="numpy")
                if steps == -1 and exact_max_nb(c) == 0:
                    continue
                c["params"] = fam.gen_fquad(rng, 2, dim)
                c["xs"] = [fam.dyadic(rng, dim) for _ in range(4)]
                c["ts"] = fam.gen_targets(rng, 4, 2)
                c["es"] = [gen_expl(rng, F, ec) for _ in range(4)]
                out.append(c)
    # the documented float64 artefact of np.linspace: 30 features, steps=22 -> step 11 is 14, not floor(11*30/22)=15
    # (guarded: skipped and counted)
    c = dict(kind="tab", shape=[30], echan=None, mode="deletion", steps=22, pct=1.0, bs=2, baseline=dict(const=0.0),
             model="numpy", params=fam.gen_fquad(rng, 1, 30), xs=[fam.dyadic(rng, 30) for _ in range(2)],
             ts=fam.gen_targets(rng, 2, 1), es=[gen_expl(rng, 30, None) for _ in range(2)])
    out.append(c)
    for c in out:
        c["transform"] = None
    return out


def generate(rng, tier):
    n = 110 if tier == "quick" else 1500
    return fixed_cases() + [gen_case(rng, tier) for _ in range(n)]


def n_batches(case):
    n = len(case["xs"])
    bs = case["bs"] or n
    return -(-n // bs), n % bs


def nontrivial(case):
    nb, rem = n_batches(case)
    m, S, _ = exact_steps(case)
    return nb >= 2 or (rem != 0 and len(case["xs"]) > 1) or S > m or n_chan(case) > 1


def distribution(cases):
    def bclass(c):
        n = len(c["xs"])
        return "None" if c["bs"] is None else "lt" if c["bs"] < n else "eq" if c["bs"] == n else "gt"

    def sclass(c):
        m, S, _ = exact_steps(c)
        return ("-1:" if c["steps"] == -1 else "") + ("S<m" if S < m else "S=m" if S == m else "S>m")
    return dict(kind=core.hist(c["kind"] for c in cases), mode=core.hist(c["mode"] for c in cases),
                echan=core.hist(c["echan"] for c in cases), channels=core.hist(n_chan(c) for c in cases),
                features=core.hist(n_feat(c) for c in cases), n_inputs=core.hist(len(c["xs"]) for c in cases),
                steps_class=core.hist(sclass(c) for c in cases), pct=core.hist(c["pct"] for c in cases),
                max_nb=core.hist(exact_max_nb(c) for c in cases),
                baseline=core.hist(next(iter(c["baseline"].items()))[1] for c in cases),
                batch_class=core.hist(bclass(c) for c in cases), remainder_batch=core.hist(n_batches(c)[1] != 0 for c in cases),
                model=core.hist(c["model"] for c in cases), transform=core.hist(c.get("transform") for c in cases),
                guarded=core.hist(guard(c) for c in cases))


# ----------------------------------------------------------------------------- implementation driver
def arrays(case):
    n = len(case["xs"])
    xs = np.array(case["xs"], dtype=np.float32).reshape([n] + case["shape"])
    ts = np.array(case["ts"], dtype=np.float32)
    sh = case["shape"]
    fshape = sh[:-1] if case["kind"] == "img" else sh
    eshape = fshape if case["echan"] is None else fshape + [case["echan"]]
    es = np.array(case["es"], dtype=np.float32).reshape([n] + eshape)
    return xs, ts, es


def impl_explanations(case, es):
    tr = case.get("transform")
    if tr is None:
        return es
    out = np.asarray(TRANSFORMS[tr](es), dtype=np.float64 if tr == "f64_tiny" else np.float32)
    flat = out.reshape(len(out), -1) if case["echan"] is None else out.mean(-1).reshape(len(out), -1)
    for row in flat:
        if len(set(row.tolist())) != len(row):
            raise core.HarnessError("transformed explanations are not pairwise distinct")
    return out


def baseline_values(case, xs):
    b = case["baseline"]
    if "const" in b:
        return np.ones_like(xs) * np.float32(b["const"])
    return np.asarray(BASE_FUNS[b["fun"]](xs), dtype=np.float32)


def run_impl(case):
    from xplique.metrics import Deletion, Insertion
    xs, ts, es = arrays(case)
    if case["model"] == "numpy":
        model = fam.FQuadNumpy(case["params"])
    else:
        model = fam.fquad_tf_module(case["params"], case["shape"])
    b = case["baseline"]
    baseline = b["const"] if "const" in b else BASE_FUNS[b["fun"]]
    persistent = None
    if b.get("fun") == "persist":
        persistent = np.asarray(BASE_FUNS["persist"](xs), dtype=np.float32)
        pristine = persistent.tobytes()
        baseline = lambda inputs: persistent                      # noqa: E731
    cls = Deletion if case["mode"] == "deletion" else Insertion
    op = case.get("operator", "none")
    if op == "none":
        operator = None
    elif op in ("classification", "regression"):
        operator = op
    elif op == "CLASSIFICATION":
        from xplique.commons import Tasks
        operator = Tasks.CLASSIFICATION
    else:
        import tensorflow as tf
        operator = lambda model, inputs, targets: tf.reduce_sum(tf.cast(model(inputs), tf.float32) ** 2 * targets, axis=-1)
        if case["model"] == "numpy":
            inner = model
            model = lambda x: tf.constant(inner(np.asarray(x)), tf.float32)   # the custom operator calls model(tensor)
    metric = cls(model, xs, ts, batch_size=case["bs"], baseline_mode=baseline, steps=case["steps"],
                 max_percentage_perturbed=case["pct"], operator=operator)
    es = impl_explanations(case, es)
    if persistent is not None:
        # history: an Insertion sharing the callable ran before, and the object under test was already called once
        Insertion(model, xs, ts, batch_size=case["bs"], baseline_mode=baseline, steps=case["steps"],
                  max_percentage_perturbed=case["pct"], operator=operator).detailed_evaluate(es)
        metric.detailed_evaluate(es)
        if persistent.tobytes() != pristine:
            raise AssertionError("the array returned by the user's baseline function was modified")
    d = metric.detailed_evaluate(es)
    keys = [int(k) for k in d.keys()]
    vals = [float(v) for v in d.values()]
    res = dict(keys=keys, vals=vals, auc=None)
    if len(keys) >= 2:
        a = float(metric(es))
        if a != a:
            raise AssertionError("metric(explanations) is NaN on a configuration with >= 2 steps")
        res["auc"] = a
    return res


# ----------------------------------------------------------------------------- Coq side
def coq_cfg(case):
    ec = core.copt(None if case["echan"] is None else core.cnat(case["echan"]))
    mode = "Deletion" if case["mode"] == "deletion" else "Insertion"
    return ("{| cF := %s; cC := %s; cEC := %s; cSteps := (%d)%%Z; cPct := %s; cMode := %s |}"
            % (core.cnat(n_feat(case)), core.cnat(n_chan(case)), ec, case["steps"], core.cq(case["pct"]), mode))


def coq_bmode(case):
    b = case["baseline"]
    if "const" in b:
        return f"(BConst {core.cq(b['const'])})"
    xs, _, _ = arrays(case)
    bl = baseline_values(case, xs)
    return f"(BFun (fun _ => {core.cqlist2([r.reshape(-1).tolist() for r in bl])}))"


def model_args(case):
    bs = core.copt(None if case["bs"] is None else core.cnat(case["bs"]))
    score = "sq_score" if case.get("operator") == "custom_sq" else "fquad"
    return (f"({score} {fam.coq_fquad(case['params'])}) rank_insertion {coq_cfg(case)} {bs} {coq_bmode(case)} "
            f"{core.cqlist2(case['xs'])} {core.cqlist2(case['ts'])} {core.cqlist2(case['es'])}")


def coq_term(case, res):
    if guard(case) is not None:
        return None
    n = len(case["xs"])
    exv = is_pow2(n) and case.get("operator") != "custom_sq"      # squares of the scores are not exact in float32
    exa = exv and is_pow2(max(1, len(res["keys"]) - 1))
    auc = core.copt(None if res["auc"] is None else core.cq(res["auc"]))
    a = model_args(case)
    return (f"c14_check {core.cbool(exv)} {core.cbool(exa)} (detailed_evaluate {a}) (evaluate {a}) "
            f"{core.cnatlist(res['keys'])} {core.cqlist(res['vals'])} {auc}")


def dump_term(case, res):
    a = model_args(case)
    return f"(map (fun p => (fst p, qdump (snd p))) (detailed_evaluate {a}), qdump (evaluate {a}))"


# ----------------------------------------------------------------------------- independent reference (replays)
def reference(case):
    """the documented curve in exact rational arithmetic, straight from the property text"""
    Fr = core.Fraction
    F, C = n_feat(case), n_chan(case)
    xs, ts, es = arrays(case)
    bl = baseline_values(case, xs)
    n = len(case["xs"])
    m, S, steps = exact_steps(case)

    def score(x, t):
        out = Fr(0)
        for k, tc in zip(case["params"], t):
            s = Fr(k["b"]) + sum(Fr(w) * v for w, v in zip(k["W"], x)) + sum(Fr(w) * v * v for w, v in zip(k["V"], x))
            s += sum(Fr(c) * x[i] * x[j] for i, j, c in k["X"])
            out += (s * s if case.get("operator") == "custom_sq" else s) * tc
        return out
    curve = {}
    for k in dict.fromkeys(steps):
        tot = Fr(0)
        for i in range(n):
            e = [core.frac(v) for v in es[i].reshape(-1).tolist()]
            if case["echan"] is not None:
                ec = case["echan"]
                e = [sum(e[f * ec:(f + 1) * ec]) / ec for f in range(F)]
            order = sorted(range(F), key=lambda f: -e[f])
            top = set(order[:k])
            x = core.flat(xs[i])
            b = core.flat(bl[i])
            if case["mode"] == "deletion":
                z = [b[p] if p // C in top else x[p] for p in range(F * C)]
            else:
                z = [x[p] if p // C in top else b[p] for p in range(F * C)]
            tot += score(z, [core.frac(v) for v in ts[i].tolist()])
        curve[k] = tot / n
    v = list(curve.values())
    auc = None if len(v) < 2 else sum((a + b) / 2 for a, b in zip(v[:-1], v[1:])) / (len(v) - 1)
    return curve, auc


def explain_failure(case, res, model):
    if res is None:
        return "implementation raised on a valid configuration"
    curve, auc = reference(case)
    ref_keys = list(curve.keys())
    out = dict(reference_steps=ref_keys, implementation_steps=res["keys"],
               reference_curve=[core.fstr(v) for v in curve.values()],
               implementation_curve=[core.fstr(v) for v in res["vals"]],
               reference_auc=None if auc is None else core.fstr(auc),
               implementation_auc=None if res["auc"] is None else core.fstr(res["auc"]))
    if ref_keys != res["keys"]:
        out["clause"] = "steps evenly spaced: step_j = floor(j * floor(pct*features) / steps), duplicates collapse"
    else:
        tol = 1e-5 * (1 + max(abs(float(v)) for v in curve.values()))
        bad = [k for k, a, b in zip(ref_keys, curve.values(), res["vals"]) if abs(float(a) - b) > tol]
        if bad:
            out["clause"] = ("at step k the metric reports the mean score after the k highest-ranked features were "
                             "moved (all channels together); differs at steps %s" % bad[:8])
        else:
            out["clause"] = "metric = trapezoidal mean of the curve"
    return out


# ----------------------------------------------------------------------------- shrinking
def shrink(case):
    n = len(case["xs"])
    if n > 1:
        for i in range(n):
            c = copy.deepcopy(case)
            for k in ("xs", "ts", "es"):
                del c[k][i]
            if c["bs"] is not None:
                c["bs"] = max(1, min(c["bs"], n))
            yield c
    if len(case["params"]) > 1:
        for i in range(len(case["params"])):
            c = copy.deepcopy(case)
            del c["params"][i]
            for t in c["ts"]:
                del t[i]
            yield c
    if any(k["X"] for k in case["params"]):
        c = copy.deepcopy(case)
        for k in c["params"]:
            k["X"] = []
        yield c
    if any(any(k["V"]) for k in case["params"]):
        c = copy.deepcopy(case)
        for k in c["params"]:
            k["V"] = [0] * len(k["V"])
        yield c
    if "fun" in case["baseline"]:
        c = copy.deepcopy(case)
        c["baseline"] = dict(const=0.0)
        yield c
    if case.get("transform") is not None:
        c = copy.deepcopy(case)
        c["transform"] = None
        yield c
    if case["pct"] != 1.0:
        c = copy.deepcopy(case)
        c["pct"] = 1.0
        yield c
    if case["steps"] not in (-1, 1):
        for s in (-1, 1):
            c = copy.deepcopy(case)
            c["steps"] = s
            yield c
    if case["bs"] is not None and case["bs"] != len(case["xs"]):
        c = copy.deepcopy(case)
        c["bs"] = len(case["xs"])
        yield c
