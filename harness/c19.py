"""c19.py — feature-visualisation objectives vs coq/C19/Model.v.

A case is a small Python *program* over variables bound to Objective objects (leaves, +, -, scalar *, with
re-use and re-binding of variables), then every variable is compiled.  Observables compared with the model:
  * the multipliers of every variable's object after the whole program (operators must not modify operands);
  * for every compiled variable: the sub-objective ids by position, the combinations (names) in order, and
    the loss vector on random model outputs against sum_j m_j * subloss_j (sub-losses obtained from the
    implementation itself by compiling each position alone with multiplier 1);
plus a second stream for the image parametrisations (range / shape).
"""
import itertools
import numpy as np
import core

PROP = "C19"
IMPORTS = "C19.Model"
SHARD = 60
RULE = ("random programs of 2-4 leaf objectives (layer / channel / neuron / direction, 1-3 targets each, multipliers in "
        "+-{1/2,1,2,3}) followed by 2-7 operator statements (+, -, c*a, a*c; operands re-used, variables re-bound, "
        "same expression rebuilt), every variable compiled and evaluated on random dyadic outputs; second stream: "
        "to_valid_rgb / to_valid_grayscale / fft_to_rgb on random images, sizes odd and even, several ranges; "
        "non-trivial = program re-uses an operand after it took part in '-' or '*', or has >=2 sub-objectives with multipliers != 1")
ASSUMPTIONS = ["sub-losses loss_i are whatever the implementation's own sub-objective function returns (measured by compiling the position alone)",
               "float32 summation of at most 8 terms: tolerance 2e-5 * (1 + sum |m_j l_j|)"]

LAYERS = {"c1": (4, 4, 4), "d1": (8,), "d2": (4,)}


def build_model():
    import tensorflow as tf
    inp = tf.keras.Input((5, 5, 1))
    x = tf.keras.layers.Conv2D(4, 2, name="c1")(inp)
    x = tf.keras.layers.Flatten()(x)
    x = tf.keras.layers.Dense(8, name="d1")(x)
    x = tf.keras.layers.Dense(4, name="d2")(x)
    return tf.keras.Model(inp, x)


_model = None


def model():
    global _model
    if _model is None:
        _model = build_model()
    return _model


COEFS = [0.5, -0.5, 1.0, -1.0, 2.0, -2.0, 3.0, -3.0, 2, -1, 3]


def gen_leaf(rng, lid):
    kind = rng.choice(["layer", "channel", "neuron", "neuron", "direction"])
    mult = rng.choice([1.0, 1.0, 0.5, 2.0, -1.0, 3.0])
    if kind == "layer":
        return dict(kind=kind, layer=rng.choice(list(LAYERS)), reducer=rng.choice(["magnitude", "mean"]), mult=mult, n=1)
    if kind == "channel":
        n = rng.randint(1, 3)
        return dict(kind=kind, layer="c1", ids=rng.sample(range(4), n), mult=mult, n=n)
    if kind == "neuron":
        layer = rng.choice(list(LAYERS))
        size = int(np.prod(LAYERS[layer]))
        n = rng.randint(1, 3)
        return dict(kind=kind, layer=layer, ids=rng.sample(range(size), n), mult=mult, n=n)
    layer = rng.choice(["d1", "d2"])
    n = rng.randint(1, 2)
    vecs = [[rng.randint(-4, 4) / 2 or 1.0 for _ in range(LAYERS[layer][0])] for _ in range(n)]
    return dict(kind=kind, layer=layer, vecs=vecs, mult=mult, n=n)


def gen_case(rng, tier):
    if rng.random() < 0.2:
        return gen_param_case(rng, tier)
    nleaf = rng.randint(2, 4)
    leaves = [gen_leaf(rng, i) for i in range(nleaf)]
    # keep the number of combinations small
    while int(np.prod([l["n"] for l in leaves])) > 12:
        leaves[rng.randrange(nleaf)]["n"] = 1
        for l in leaves:
            if "ids" in l:
                l["ids"] = l["ids"][:l["n"]]
            if "vecs" in l:
                l["vecs"] = l["vecs"][:l["n"]]
    prog = [["leaf", i, i] for i in range(nleaf)]
    nvar = nleaf
    bound = list(range(nleaf))
    nops = rng.randint(2, 7 if tier == "quick" else 10)
    size = {i: 1 for i in range(nleaf)}        # number of sub-objectives (bounded to keep products small)
    for _ in range(nops):
        op = rng.choice(["add", "sub", "sub", "mul", "rmul", "repeat"])
        if op == "repeat" and len(prog) > nleaf:
            st = list(rng.choice(prog[nleaf:]))
            st[1] = nvar
            op = st[0]
        elif op in ("add", "sub"):
            a, b = rng.choice(bound), rng.choice(bound)
            st = [op, nvar, a, b]
        else:
            op = "mul" if op == "repeat" else op
            st = [op, nvar, rng.choice(bound), rng.choice(COEFS)]
        if st[0] in ("add", "sub"):
            newsize = size[st[2]] + size[st[3]]
        else:
            newsize = size[st[2]]
        if newsize > 5:
            continue
        dst = nvar if rng.random() < 0.75 else rng.choice(bound)     # sometimes re-bind an existing variable
        st[1] = dst
        size[dst] = newsize
        prog.append(st)
        if dst == nvar:
            bound.append(nvar)
            nvar += 1
    return dict(stream="objective", leaves=leaves, prog=prog, seed=rng.randrange(1 << 30), eager_compile=rng.random() < 0.5)


def gen_param_case(rng, tier):
    kind = rng.choice(["rgb", "gray", "gray", "fft"])
    S = rng.randint(2, 9) if kind == "fft" else rng.randint(2, 6)
    lo, hi = rng.choice([(0, 1), (-1, 1), (0, 255), (-2.5, 0.5), (3, 3.5)])
    return dict(stream="param", kind=kind, S=S, n=rng.randint(1, 3), C=rng.choice([1, 3]) if kind == "fft" else (3 if kind == "rgb" else 1),
                lo=lo, hi=hi, normalizer=rng.choice(["clip", "clip", "sigmoid", "tanh"]), seed=rng.randrange(1 << 30))


def generate(rng, tier):
    n = 90 if tier == "quick" else 900
    return [gen_case(rng, tier) for _ in range(n)]


def nontrivial(case):
    if case["stream"] != "objective":
        return case["S"] >= 2
    used = set()
    for st in case["prog"]:
        if st[0] in ("sub", "mul", "rmul"):
            used.add(st[3] if st[0] == "sub" else st[2])
        elif st[0] == "add" and (st[2] in used or st[3] in used):
            return True
        if st[0] in ("sub", "mul", "rmul", "add") and any(o in used for o in st[2:4] if isinstance(o, int)) and st[0] != "leaf":
            if len([s for s in case["prog"] if s[0] != "leaf"]) >= 2:
                return True
    return False


def distribution(cases):
    obj = [c for c in cases if c["stream"] == "objective"]
    return dict(stream=core.hist(c["stream"] for c in cases),
                leaf_kinds=core.hist(l["kind"] for c in obj for l in c["leaves"]),
                ops=core.hist(st[0] for c in obj for st in c["prog"]),
                program_length=core.hist(len(c["prog"]) for c in obj),
                param_kind=core.hist(c.get("kind") for c in cases if c["stream"] == "param"))


# ----------------------------------------------------------------------------- implementation side
def make_leaf(leaf, lid):
    from xplique.features_visualizations import Objective
    m = model()
    names = [f"L{lid}t{t}" for t in range(leaf["n"])]
    if leaf["kind"] == "layer":
        return Objective.layer(m, leaf["layer"], reducer=leaf["reducer"], multiplier=leaf["mult"], name=names)
    if leaf["kind"] == "channel":
        return Objective.channel(m, leaf["layer"], list(leaf["ids"]), multiplier=leaf["mult"], names=names)
    if leaf["kind"] == "neuron":
        return Objective.neuron(m, leaf["layer"], list(leaf["ids"]), multiplier=leaf["mult"], names=names)
    import tensorflow as tf
    vecs = [tf.constant(v, tf.float32) for v in leaf["vecs"]]
    return Objective.direction(m, leaf["layer"], vecs, multiplier=leaf["mult"], names=names)


def parse_name(s):
    out = []
    for part in s.split(" & "):
        lid, t = part[1:].split("t")
        out.append([int(lid), int(t)])
    return out


def run_objective(case):
    import tensorflow as tf
    from xplique.features_visualizations import Objective
    env = {}
    for st in case["prog"]:
        if st[0] == "leaf":
            env[st[1]] = make_leaf(case["leaves"][st[2]], st[2])
        elif st[0] == "add":
            env[st[1]] = env[st[2]] + env[st[3]]
        elif st[0] == "sub":
            env[st[1]] = env[st[2]] - env[st[3]]
        elif st[0] == "mul":
            env[st[1]] = env[st[2]] * st[3]
        elif st[0] == "rmul":
            env[st[1]] = st[3] * env[st[2]]
        if case.get("eager_compile"):
            # history: every object is compiled (as optimize() / maco() would) as soon as it exists, BEFORE it is used as an
            # operand; compile is an observation — the model's compiled loss is a function of the object alone
            env[st[1]].compile()
    rs = np.random.RandomState(case["seed"] % (1 << 31))
    res = dict(vars={})
    for v in sorted(env):
        obj = env[v]
        mults = [float(x) for x in obj.multipliers]
        _, fn, names, input_shape = obj.compile()
        ncomb = int(input_shape[0])
        combos = [parse_name(str(s)) for s in names]
        ids = [c[0] for c in combos[0]]
        # random dyadic outputs, one tensor per leaf id (positions sharing a leaf share its output, as in the real model)
        outs_by_leaf = {}
        outs = []
        for j, lid in enumerate(ids):
            if lid not in outs_by_leaf:
                shape = LAYERS[case["leaves"][lid]["layer"]]
                outs_by_leaf[lid] = (rs.randint(-8, 9, size=(ncomb,) + shape) / 4.0).astype(np.float32)
            outs.append(tf.constant(outs_by_leaf[lid]))
        loss = np.asarray(fn(outs), dtype=np.float64)
        loss = np.broadcast_to(loss, (ncomb,)).tolist()
        # sub-losses per position and row, from the implementation's own sub-objective function
        sub = []
        for j, lid in enumerate(ids):
            masks_j = [obj.masks[j][combos[r][j][1]] for r in range(ncomb)]
            single = Objective(obj.model, [obj.layers[j]], [masks_j], [obj.funcs[j]], [1.0], [[f"r{r}" for r in range(ncomb)]])
            _, f1, _, _ = single.compile()
            l = np.asarray(f1([outs[j]]), dtype=np.float64)
            sub.append(np.broadcast_to(l, (ncomb,)).tolist())
        res["vars"][str(v)] = dict(mults=mults, ids=ids, combos=[[t for _, t in c] for c in combos],
                                   combo_ids_consistent=all([i for i, _ in c] == ids for c in combos),
                                   ncomb=ncomb, input_shape=list(input_shape), loss=loss, sub=sub)
    return res


def run_param(case):
    import tensorflow as tf
    from xplique.features_visualizations import preconditioning as pc
    rs = np.random.RandomState(case["seed"] % (1 << 31))
    S, n, C = case["S"], case["n"], case["C"]
    if case["kind"] == "fft":
        shape = (n, S, S, C)
        buf = pc.fft_image(shape, std=1.0)
        img = pc.fft_to_rgb(shape, buf, pc.get_fft_scale(S, S))
        return dict(shape=list(img.shape), buffer_cols=int(buf.shape[-1]))
    x = (rs.randint(-16, 17, size=(n, S, S, C)) / 4.0).astype(np.float32)
    norm = case["normalizer"]
    normf = (lambda t: tf.tanh(t)) if norm == "tanh" else norm
    fn = pc.to_valid_rgb if case["kind"] == "rgb" else pc.to_valid_grayscale
    y = np.asarray(fn(tf.constant(x), normf, (case["lo"], case["hi"])))
    # what the rescaling receives: recompute the normaliser output with the same TF ops
    t = tf.constant(x)
    if case["kind"] == "rgb":
        t = pc.recorrelate_colors(t)
    if norm == "sigmoid":
        t = tf.nn.sigmoid(t)
    elif norm == "clip":
        t = tf.clip_by_value(t, case["lo"], case["hi"])
    else:
        t = tf.tanh(t)
    t = np.asarray(t)
    return dict(shape=list(y.shape), pre=[[float(v) for v in im.reshape(-1)] for im in t],
                out=[[float(v) for v in im.reshape(-1)] for im in y])


def run_impl(case):
    return run_objective(case) if case["stream"] == "objective" else run_param(case)


# ----------------------------------------------------------------------------- Coq side
def coq_prog(case):
    out = []
    for st in case["prog"]:
        if st[0] == "leaf":
            out.append(f"SLeaf {st[1]} {st[2]} {core.cq(case['leaves'][st[2]]['mult'])}")
        elif st[0] == "add":
            out.append(f"SAdd {st[1]} {st[2]} {st[3]}")
        elif st[0] == "sub":
            out.append(f"SSub {st[1]} {st[2]} {st[3]}")
        else:
            out.append(f"SMul {st[1]} {st[2]} {core.cq(st[3])}")
    return core.cl(out)


PRELUDE = """
Definition nat_list_eqb := list_eqb Nat.eqb.
Definition check_var (p : list stmt) (nt : nat -> nat) (v : nat) (mults_impl : list Qc) (ids : list nat)
    (combos_impl : list (list nat)) (sub : list (list Qc)) (loss : list Qc) (tol : Qc) : bool :=
  match deref (run p) v with
  | None => false
  | Some o =>
      qlist_eqb (mults o) mults_impl && nat_list_eqb (subs o) ids &&
      list_eqb nat_list_eqb (combos o nt) combos_impl &&
      (let Lr := fun j r => nthq (nth j sub []) r in
       let model := compiled_losses Lr o (length loss) in
       let scale := map (fun r => (Qcx.q 1 1 + qsum (map (fun jm => Qcabs (snd jm * Lr (fst jm) r))
                                   (combine (seq 0 (length (mults o))) (mults o))))%Qc) (seq 0 (length loss)) in
       Nat.eqb (length model) (length loss) &&
       forallb (fun t => qclose tol (snd (fst t)) (fst (fst t)) (snd t)) (combine (combine model scale) loss))
  end.
Definition nt_of (l : list nat) (id : nat) : nat := nth id l 0.
Definition in_range (lo hi tol z : Qc) : bool := Qcleb (lo - tol)%Qc z && Qcleb z (hi + tol)%Qc.
Definition check_rescale (lo hi tol : Qc) (pre out : list Qc) : bool :=
  let m := rescale lo hi pre in
  qlist_close tol (Qcx.q 1 1 + Qcabs lo + Qcabs hi)%Qc m out && forallb (in_range lo hi tol) out.
"""

TOL = "(Qcx.q 1 50000)"


def coq_term(case, res):
    if case["stream"] == "param":
        if case["kind"] == "fft":
            S = case["S"]
            ok_shape = res["shape"] == [case["n"], S, S, case["C"]]
            return f"(Nat.eqb (fft_cols {S}) {res['buffer_cols']} && Nat.leb {S} (irfft_width {S}) && {core.cbool(ok_shape)})"
        if res["shape"] != [case["n"], case["S"], case["S"], case["C"]]:
            return "false"
        terms = []
        for pre, out in zip(res["pre"], res["out"]):
            if max(pre) - min(pre) < 1e-3:
                continue            # constant image after the normaliser: the property excludes it (division by 0)
            terms.append(f"check_rescale {core.cq(case['lo'])} {core.cq(case['hi'])} {TOL} {core.cqlist(pre)} {core.cqlist(out)}")
        if not terms:
            return None
        return "(" + " && ".join(terms) + ")"
    nt = core.cnatlist([l["n"] for l in case["leaves"]])
    p = coq_prog(case)
    terms = []
    for v, r in res["vars"].items():
        if not r["combo_ids_consistent"]:
            return "false"
        terms.append(f"check_var prog (nt_of {nt}) {v} {core.cqlist(r['mults'])} {core.cnatlist(r['ids'])} "
                     f"{core.cl([core.cnatlist(c) for c in r['combos']])} {core.cqlist2(r['sub'])} {core.cqlist(r['loss'])} {TOL}")
    return f"(let prog := {p} in " + " && ".join(terms) + ")"


def dump_term(case, res):
    if case["stream"] == "param":
        if case["kind"] == "fft":
            return f"(fft_cols {case['S']}, irfft_width {case['S']})"
        return f"map (fun pre => map qdump (rescale {core.cq(case['lo'])} {core.cq(case['hi'])} pre)) {core.cqlist2(res['pre'])}"
    vs = core.cnatlist(sorted(int(v) for v in res["vars"]))
    return (f"map (fun v => match deref (run {coq_prog(case)}) v with Some o => (subs o, map qdump (mults o)) "
            f"| None => ([], []) end) {vs}")


def explain_failure(case, res, model):
    if case["stream"] == "param" or model is None:
        return "image parametrisation outside the requested range / wrong shape, or implementation raised"
    out = []
    for (v, r), m in zip(sorted(res["vars"].items(), key=lambda kv: int(kv[0])), model):
        ids, mults = m
        if list(ids) != r["ids"] or [core.frac(x) for x in mults] != [core.frac(x) for x in r["mults"]]:
            out.append(dict(var=int(v), model_ids=ids, model_multipliers=mults, impl_ids=r["ids"], impl_multipliers=r["mults"]))
        else:
            exp = [sum(core.frac(mm) * core.frac(s[k]) for mm, s in zip(mults, r["sub"])) for k in range(r["ncomb"])]
            if any(abs(float(e) - l) > 1e-4 * (1 + abs(float(e))) for e, l in zip(exp, r["loss"])):
                out.append(dict(var=int(v), multipliers=mults, expected_loss=[float(e) for e in exp], impl_loss=r["loss"]))
    return dict(clause="compiled loss = sum_i c_i loss_i; operators leave operands unchanged", differences=out[:5])


def shrink(case):
    import copy
    if case["stream"] != "objective":
        return
    nleaf = len(case["leaves"])
    ops = case["prog"][nleaf:]
    for i in range(len(ops) - 1, -1, -1):
        dst = ops[i][1]
        later = ops[i + 1:]
        if any(dst in st[2:4] for st in later if True):
            continue
        c = copy.deepcopy(case)
        del c["prog"][nleaf + i]
        yield c
    for l in range(nleaf):
        if case["leaves"][l]["n"] > 1:
            c = copy.deepcopy(case)
            c["leaves"][l]["n"] = 1
            for k in ("ids", "vecs"):
                if k in c["leaves"][l]:
                    c["leaves"][l][k] = c["leaves"][l][k][:1]
            yield c
