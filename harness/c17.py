"""c17.py — NaiveCounterFactuals / LabelAwareCounterFactuals / KLEORSimMiss / KLEORGlobalSim vs coq/C17/Model.v;
tie-tolerant comparison done in Coq (C17/Check.v).  Generators and drivers shared with c16.py."""
import copy
import numpy as np
import core
import c16

PROP = "C17"
IMPORTS = "C17.Check"
SHARD = 12
TOL = c16.TOL
RULE = ("C16 datasets (N in 1..14, duplicated points, ties, all containers / batch sizes / distances / projections) with "
        "target vectors (one-hot or soft with tied maxima) over 2..4 classes, skewed so that classes are empty, tiny or "
        "hold every case; queries of every class (also absent ones); label-aware requests for empty / own / other "
        "classes; k in 1..N (more than the admissible cases: unfilled slots); the four methods; random case_returns "
        "incl. nuns / nuns_indices / nuns_labels / dist_to_nuns; distinct = different canonical JSON; non-trivial = "
        "several batches or remainder batch or k > batch, or unfilled slots, or tied distances")
ASSUMPTIONS = c16.ASSUMPTIONS + [
    "tf.argmax returns the first maximiser",
    "KLEORGlobalSim with a root-form / cosine distance: a same-class case at EXACTLY the NUN's distance from the query makes the "
    "strict comparison d(q,sf) < d(q,nun) depend on float32 rounding of two equal numbers computed on different code paths; such "
    "cases are skipped and counted (skipped_under_guard)",
    "distances to the +inf vector left by dataset_gather when there is no unlike neighbour are +inf",
    "when several unlike neighbours are equally near, the ranking is checked against the NUN the implementation "
    "reports (nuns_indices), which must be one of them; when it is not reported the stable choice (tf.argsort is stable) is used"]

METHODS = ["naive", "label", "simmiss", "globalsim"]
CF_RETURNS = ["examples", "distances", "labels", "include_inputs", "indices"]
KL_RETURNS = CF_RETURNS + ["nuns", "nuns_indices", "dist_to_nuns", "nuns_labels"]


def gen_targets(rng, n, ncls, soft_p):
    """skewed class assignment: some classes empty or tiny"""
    mode = rng.choice(["skew", "skew", "uniform", "uniform", "uniform", "two", "two", "single"])
    if mode == "single":
        w = [0] * ncls
        w[rng.randrange(ncls)] = 1
    elif mode == "two":
        w = [0] * ncls
        a, b = rng.sample(range(ncls), 2)
        w[a], w[b] = 5, 1
    elif mode == "uniform":
        w = [1] * ncls
    else:
        w = [rng.choice([0, 1, 2, 4]) for _ in range(ncls)]
        while sum(1 for x in w if x) < 2:
            w[rng.randrange(ncls)] = 1
    classes = rng.choices(range(ncls), weights=w, k=n)
    return [target_vec(rng, c, ncls, soft_p) for c in classes]


def target_vec(rng, c, ncls, soft_p):
    t = [0.0] * ncls
    t[c] = 1.0
    if rng.random() < soft_p:
        later = [j for j in range(ncls) if j > c]
        if later and rng.random() < 0.6:
            t[c] = 0.5
            t[rng.choice(later)] = 0.5          # tied maxima: argmax takes the first
        else:
            t = [0.25 if j != c else 0.5 for j in range(ncls)]
    return t


def gen_returns(rng, method, has_labels):
    pool = KL_RETURNS if method in ("simmiss", "globalsim") else CF_RETURNS
    pool = [x for x in pool if has_labels or x not in ("labels", "nuns_labels")]
    r = rng.random()
    if r < 0.1 and has_labels:
        return "all"
    if r < 0.45:
        return list(pool)
    sub = [x for x in pool if rng.random() < 0.55]
    if not any(x in sub for x in ("examples", "distances", "labels", "indices")):
        sub.append(rng.choice(["examples", "distances", "indices"]))
    return sub


def gen_case(rng, tier):
    case = c16.gen_case(rng, tier)
    if case["dist"] in ("p9", "p12"):
        # high Minkowski orders are C16's business (tolerances on d^p grow with p; KLEOR compares distances with each other)
        case["dist"] = "p3"
    n = case["n"]
    method = rng.choice(METHODS)
    ncls = rng.randint(2, 4)
    soft_p = rng.choice([0, 0, 0.3])
    case["method"] = method
    case["ncls"] = ncls
    case["targets"] = gen_targets(rng, n, ncls, soft_p)
    nq = len(case["qs"])
    present = sorted({argmax(t) for t in case["targets"]})

    def pick_class():
        return rng.choice(present) if rng.random() < 0.7 else rng.randrange(ncls)
    case["qtargets"] = [target_vec(rng, pick_class(), ncls, soft_p) for _ in range(nq)]
    if method == "label":
        case["cf"] = [target_vec(rng, pick_class(), ncls, 0) for _ in range(nq)]
    if case["proj"]["wk"] == "target":
        pd = len(case["proj"]["W"][0])
        case["proj"]["W"] = [[rng.choice([0, 0.5, 1, 2]) for _ in range(pd)] for _ in range(ncls)]
    if case["container"].startswith("ds") or case["container"] == "dl":
        case["columns"] = rng.choice([1, 1, 2, 3]) if case["labels"] is not None else 1
    case["returns"] = gen_returns(rng, method, case["labels"] is not None)
    if rng.random() < 0.3:
        case["k"] = rng.randint(1, n)
    if case["proj"]["wk"] != "target" and rng.random() < 0.25:
        # integer one-hot targets for the cases, probabilities (arg-max = the class) for the queries
        case["int_targets"] = True
        case["targets"] = [[1.0 if j == argmax(t) else 0.0 for j in range(ncls)] for t in case["targets"]]
        case["qtargets"] = [[0.5 if j == argmax(t) else 0.5 / max(1, ncls - 1) * 0.5 for j in range(ncls)] for t in case["qtargets"]]
    return case


def generate(rng, tier):
    n = 100 if tier == "quick" else 1200
    cases = [gen_case(rng, tier) for _ in range(n)]
    # always present: label-aware counterfactuals under a projection that depends on the targets (the query must be
    # projected with ITS OWN targets, not with the expected class)
    found = 0
    for _ in range(400):
        if found >= 4:
            break
        c = gen_case(rng, tier)
        if c["method"] == "label" and c["proj"]["wk"] == "target" and not c.get("int_targets") and \
                any(argmax(q) != argmax(f) for q, f in zip(c["qtargets"], c["cf"])):
            cases.append(c)
            found += 1
    for c in cases:
        c["history"] = rng.choice([None, None, "before", "before", "after", "both"])
    return cases


def argmax(t):
    return max(range(len(t)), key=lambda j: (t[j], -j))


def admissible(case, qi):
    """numpy mirror, only for nontrivial / distribution"""
    cq = argmax(case["qtargets"][qi])
    cls = [argmax(t) for t in case["targets"]]
    m = case["method"]
    if m == "naive":
        return [c != cq for c in cls]
    if m == "label":
        ce = argmax(case["cf"][qi])
        return [c == ce for c in cls]
    return [c == cq for c in cls]


def min_admissible(case):
    return min(sum(admissible(case, qi)) for qi in range(len(case["qs"])))


def nontrivial(case):
    return c16.nontrivial(case) or min_admissible(case) < case["k"]


def distribution(cases):
    d = c16.distribution(cases)
    d.pop("returns", None)
    d["method"] = core.hist(c["method"] for c in cases)
    d["unfilled"] = core.hist(("none admissible" if min_admissible(c) == 0 else "fewer than k" if min_admissible(c) < c["k"]
                               else "filled") for c in cases)
    d["no_unlike_neighbour"] = core.hist(any(all(argmax(t) == argmax(tq) for t in c["targets"]) for tq in c["qtargets"])
                                         for c in cases)
    d["soft_targets"] = core.hist(any(max(t) < 1 for t in c["targets"] + c["qtargets"]) for c in cases)
    d["nclasses_present"] = core.hist(len({argmax(t) for t in c["targets"]}) for c in cases)
    return d


# ------------------------------------------------------------------------------------------ implementation driver
def make_distance(case):
    import tensorflow as tf
    if case["dist"] == "callable":
        w = tf.constant(case["dw"], dtype=tf.float32)
        return lambda a, b, m: tf.where(m, tf.reduce_sum(tf.abs(a - b) * w, axis=-1), np.inf)
    return c16.make_distance(case)


def run_impl(case):
    from xplique.example_based import (NaiveCounterFactuals, LabelAwareCounterFactuals, KLEORSimMiss, KLEORGlobalSim)
    cls = dict(naive=NaiveCounterFactuals, label=LabelAwareCounterFactuals, simmiss=KLEORSimMiss,
               globalsim=KLEORGlobalSim)[case["method"]]
    cd, ld, td, bs = c16.make_datasets(case)
    expl = cls(cases_dataset=cd, targets_dataset=td, labels_dataset=ld, k=case["k"], projection=c16.make_projection(case),
               case_returns=case["returns"], batch_size=bs, distance=make_distance(case))
    nq = len(case["qs"])
    Q = np.array(case["qs"], dtype=np.float32).reshape([nq] + case["shape"])
    QT = np.array(case["qtargets"], dtype=np.float32)
    def other_call():
        # another call of the SAME size on the same object: other queries, classes shifted by one (other admissible sets)
        Qo, QTo = (0.5 - np.roll(Q, 1, axis=0)).astype(np.float32), np.roll(QT, 1, axis=1)
        if case["method"] == "label":
            expl.explain(Qo, QTo, np.roll(np.array(case["cf"], dtype=np.float32), 1, axis=1))
        else:
            expl.explain(Qo, QTo)
    if case.get("history") in ("before", "both"):
        other_call()
    if case["method"] == "label":
        out = expl.explain(Q, QT, np.array(case["cf"], dtype=np.float32))
    else:
        out = expl.explain(Q, QT)
    if case.get("history") in ("after", "both"):
        other_call()               # the first result is read only after a later call (results collected in a list)
    out = {k: v for k, v in out.items() if v is not None}
    return c16.collect(case, out, nq, extra=("nuns", "dist_to_nuns", "nuns_labels", "nuns_indices"))


# ------------------------------------------------------------------------------------------ Coq encoding
def expected_keys(case):
    r = case["returns"]
    kle = case["method"] in ("simmiss", "globalsim")
    if r == "all":
        r = (["examples", "distances", "labels", "include_inputs", "nuns", "nuns_indices", "dist_to_nuns", "nuns_labels"]
             if kle else ["examples", "distances", "labels", "include_inputs"])
    if isinstance(r, str):
        r = [r]
    return sorted(x for x in r if x != "include_inputs"), ("include_inputs" in r and "examples" in r)


def shape_ok(case, res):
    want, inc = expected_keys(case)
    if res["keys"] != want:
        return False
    if inc != ("included" in res):
        return False
    if inc and res["included"] != c16.enc([[float(v) for v in q] for q in case["qs"]]):
        return False
    return True


def ckslot(case, res, qi, j):
    int_labels = case["label_kind"] in ("int", "bigint")
    d = core.copt(c16.cext(res["distances"][qi][j])) if "distances" in res else "None"
    dtn = core.copt(c16.cext(res["dist_to_nuns"][qi][j][0])) if "dist_to_nuns" in res else "None"
    ix = core.copt(c16.czidx(res["indices"][qi][j])) if "indices" in res else "None"
    ex = core.copt(c16.cvec_opt(res["examples"][qi][j])) if "examples" in res else "None"
    lb = core.copt(c16.cvec_opt(res["labels"][qi][j], int_labels)) if "labels" in res else "None"
    return "{| ks_dist := %s; ks_dtn := %s; ks_idx := %s; ks_case := %s; ks_label := %s |}" % (d, dtn, ix, ex, lb)


def ckqueries(case, res):
    nq = len(case["qs"])
    fields = [f for f in ("distances", "indices", "examples", "labels", "dist_to_nuns") if f in res]
    if any(len(res[f]) != nq for f in fields + [f for f in ("nuns", "nuns_indices", "nuns_labels") if f in res]):
        return None
    out = []
    for qi in range(nq):
        ks = {len(res[f][qi]) for f in fields}
        if len(ks) != 1:
            return None
        slots = core.cl([ckslot(case, res, qi, j) for j in range(ks.pop())])
        for f in ("nuns", "nuns_indices", "nuns_labels"):
            if f in res and len(res[f][qi]) != 1:
                return None
        nidx = core.copt(c16.czidx([int(v) for v in res["nuns_indices"][qi][0]])) if "nuns_indices" in res else "None"
        ncase = core.copt(c16.cvec_opt(res["nuns"][qi][0])) if "nuns" in res else "None"
        nlab = core.copt(c16.cvec_opt(res["nuns_labels"][qi][0], case["label_kind"] in ("int", "bigint"))) if "nuns_labels" in res else "None"
        out.append("{| kq_slots := %s; kq_nidx := %s; kq_ncase := %s; kq_nlabel := %s |}" % (slots, nidx, ncase, nlab))
    return core.cl(out)


def model_args(case):
    a = c16.common_args(case)
    a["tol"] = TOL
    return a


def coq_term(case, res):
    try:
        return _coq_term(case, res)
    except ValueError:          # a NaN in the implementation's output: never right
        return "false"


def boundary_tie(case):
    """KLEORGlobalSim keeps the same-class cases STRICTLY closer to the query than the NUN.  When a same-class case is at
    exactly the NUN's distance (e.g. it sits on the NUN) and the distance goes through a float32 root / division (euclidean,
    Minkowski, cosine), the two equal distances are computed on different code paths and may differ in the last bit: the
    strict comparison is then decided by rounding noise.  Such cases are skipped (counted under skipped_under_guard)."""
    if case["method"] != "globalsim" or case["dist"] not in ("euclidean", "p2", "p3", "p9", "p12", "cosine"):
        return False
    cls = [argmax(t) for t in case["targets"]]
    for qi in range(len(case["qs"])):
        cq = argmax(case["qtargets"][qi])
        keys = c16.all_keys(case, qi)
        unlike = [k for k, c in zip(keys, cls) if c != cq]
        if unlike and any(k == min(unlike) for k, c in zip(keys, cls) if c == cq):
            return True
    return False


def _coq_term(case, res):
    if not shape_ok(case, res):
        return "false"
    if boundary_tie(case):
        return None
    a = model_args(case)
    m = case["method"]
    if m in ("naive", "label"):
        slots = c16.cslots(case, res)
        if slots is None:
            return "false"
        fts = core.cqlist2(case["cf"]) if m == "label" else a["tqs"]
        kd = "CFLabel" if m == "label" else "CFNaive"
        return ("check_cf {kd} {d} {tol} {sp} {wk} {k} {bs} {cases} {targets} {labels} {qs} {tqs} {fts} {slots}"
                .format(kd=kd, fts=fts, slots=slots, **a))
    qs = ckqueries(case, res)
    if qs is None:
        return "false"
    return ("check_kleor {g} {d} {tol} {sp} {wk} {k} {bs} {cases} {targets} {labels} {qs} {tqs} {res}"
            .format(g=core.cbool(m == "globalsim"), res=qs, **a))


def dump_term(case, res):
    a = model_args(case)
    m = case["method"]
    if m in ("naive", "label"):
        fts = core.cqlist2(case["cf"]) if m == "label" else a["tqs"]
        return ("dump_cf {kd} {d} {sp} {wk} {k} {bs} {cases} {targets} {qs} {tqs} {fts}"
                .format(kd="CFLabel" if m == "label" else "CFNaive", fts=fts, **a))
    return ("dump_kleor {g} {d} {sp} {wk} {k} {bs} {cases} {targets} {qs} {tqs}"
            .format(g=core.cbool(m == "globalsim"), **a))


def explain_failure(case, res, model):
    if res is None:
        return "the implementation raised on a valid configuration (see implementation_error)"
    want, inc = expected_keys(case)
    return dict(clause="every returned finite-distance case satisfies the class constraint of the method, no admissible case "
                       "is closer (KLEOR: closer to the NUN), unfillable slots are +inf / (-1,-1); NUN is a nearest unlike neighbour",
                method=case["method"], requested=want, returned=res["keys"], shape_ok=shape_ok(case, res),
                admissible_per_query=[admissible(case, qi) for qi in range(len(case["qs"]))],
                true_distances_per_query=[c16.all_keys(case, qi) for qi in range(len(case["qs"]))],
                note="model (stable tie-breaking): naive/label: per query [distance, [batch, position]]; KLEOR: per query "
                     "[nun index, nun distance, [distance to input, distance to NUN, index]]; [] = +inf; euclidean / "
                     "Minkowski in root-free form")


def classify_known(case, res, err, known):
    """finding reported to the maintainer of known_findings.json: KLEOR + cosine distance + a query without unlike
    neighbour: the distance to the +inf vector left by dataset_gather is NaN (not +inf); depending on the batch
    layout tf.argsort ranks the NaN before the +inf fills and real cases come back with NaN dist_to_nuns and
    finite distances instead of unfilled slots.  Matched on the configuration only."""
    if (case["method"] in ("simmiss", "globalsim") and case["dist"] == "cosine"
            and any(all(argmax(t) == argmax(tq) for t in case["targets"]) for tq in case["qtargets"])):
        for e in known:
            if e.get("status") == "known" and e.get("match", {}).get("kind") == "kleor_cosine_no_nun":
                return e["id"]
    return None


def shrink(case):
    for c in c16.shrink(case):
        if len(c["qs"]) < len(case["qs"]) and "cf" in c:
            # c16.shrink removed query i: find it
            for i in range(len(case["qs"])):
                if case["qs"][:i] + case["qs"][i + 1:] == c["qs"] and (case["qtargets"][:i] + case["qtargets"][i + 1:] == c["qtargets"]):
                    c["cf"] = case["cf"][:i] + case["cf"][i + 1:]
                    break
        if c["proj"]["kind"] == "none" and case["proj"]["kind"] != "none":
            pass
        yield c
