"""main.py — entry point of every check:  main.py <Cxx> <quick|thorough> [--replay file]

1. rebuild the Coq development (full .vo build, incremental) and re-check Props/<Cxx>.v
   (theorems accepted, Print Assumptions closed, no escape hatch anywhere);
2. correspondence: corpus + generated cases are run through xplique (from /repo's working tree) and
   through the proved model inside Coq; the comparison happens inside Coq;
3. on disagreement: shrink, write a replay, print VIOLATION (or KNOWN-FINDING when listed).
"""
import importlib
import json
import os
import sys
import time
import traceback

sys.path.insert(0, os.path.dirname(os.path.abspath(__file__)))
import core  # noqa: E402


def load_corpus(prop):
    d = core.CORPUS / prop
    out = []
    if d.exists():
        for f in sorted(d.glob("*.json")):
            out.append(json.loads(f.read_text()))
    return out


def run_one(mod, case):
    """returns (res, err)"""
    try:
        return mod.run_impl(case), None
    except core.HarnessError:
        raise
    except Exception as e:  # the implementation could not be driven on a valid configuration
        return None, "".join(traceback.format_exception_only(type(e), e)).strip()[-1500:] + "\n" + traceback.format_exc()[-1500:]


def evaluate(mod, cases, tag):
    """run impl + model on the cases; returns list of dict(case, res, err, ok)"""
    rows = []
    terms, idx = [], []
    timing = {}
    for c in cases:
        t1 = time.time()
        res, err = run_one(mod, c)
        k = str(c.get("stream", c.get("kind", "")))
        timing[k] = timing.get(k, 0.0) + time.time() - t1
        row = dict(case=c, res=res, err=err, ok=None)
        if err is not None:
            row["ok"] = False
        else:
            t = mod.coq_term(c, res)
            if t is None:            # case skipped by the module (guard), counted
                row["ok"] = True
                row["skipped"] = True
            else:
                terms.append(t)
                idx.append(len(rows))
        rows.append(row)
    verdicts = core.coq_eval_bools(f"{mod.PROP}_{tag}", mod.IMPORTS, getattr(mod, "PRELUDE", ""), terms,
                                   shard=getattr(mod, "SHARD", 150))
    for i, v in zip(idx, verdicts):
        rows[i]["ok"] = v
    if os.environ.get("VERIF_TIMING"):
        print("impl seconds by stream/kind:", {k: round(v, 1) for k, v in timing.items()}, flush=True)
    return rows


def still_fails(mod, case, tag):
    rows = evaluate(mod, [case], tag)
    return (not rows[0]["ok"]), rows[0]


def shrink(mod, row, budget=30):
    if not hasattr(mod, "shrink"):
        return row
    cur = row
    tried = 0
    progress = True
    while progress and tried < budget:
        progress = False
        for cand in mod.shrink(cur["case"]):
            tried += 1
            if tried > budget:
                break
            try:
                bad, r = still_fails(mod, cand, "shrink")
            except core.HarnessError:
                continue
            if bad:
                cur = r
                progress = True
                break
    return cur


def describe_failure(mod, row):
    payload = dict(property=mod.PROP, seed=core.seed(), case=row["case"], implementation=row["res"],
                   implementation_error=row["err"])
    if row["err"] is None and hasattr(mod, "dump_term"):
        try:
            txt = core.coq_eval_term(f"{mod.PROP}_dump", mod.IMPORTS, getattr(mod, "PRELUDE", ""),
                                     mod.dump_term(row["case"], row["res"]))
            try:
                payload["model"] = core.dump_fracs(core.parse_dump(txt))
            except Exception:
                payload["model_text"] = txt[:20000]
        except Exception as e:      # noqa: BLE001 — a replay must be written whatever happens to the diagnostics
            payload["model_error"] = str(e)[-2000:]
    if hasattr(mod, "explain_failure"):
        try:
            payload["clause"] = mod.explain_failure(row["case"], row["res"], payload.get("model"))
        except Exception as e:
            payload["clause"] = f"(explain_failure failed: {e})"
    payload["how_to_replay"] = f"./check {mod.PROP} --replay <this file>"
    return payload


def main(argv):
    prop = argv[1]
    tier = "quick"
    replay = None
    args = argv[2:]
    while args:
        a = args.pop(0)
        if a in ("quick", "thorough"):
            tier = a
        elif a == "--replay":
            replay = args.pop(0)
    tier = os.environ.get("VERIF_TIER", tier) if tier == "quick" and "VERIF_TIER" in os.environ else tier
    t0 = time.time()
    mod = importlib.import_module(prop.lower())
    assumptions = list(getattr(mod, "ASSUMPTIONS", []))
    trusted = ["Coq 8.16.1 kernel and vm_compute (no native_compute)",
               "hand-written model coq/%s/Model.v tied to /repo only by this correspondence run" % prop,
               "harness: float->Fraction (as_integer_ratio), Coq literal writer, verdict parser",
               "TensorFlow / NumPy / SciPy / scikit-learn / PyTorch library semantics; float32 rounding covered by exact families or stated tolerance"]

    # ---------------------------------------------------------------- 1. proofs
    ok, log = core.build_proofs()
    props = core.check_props(prop) if ok else dict(obligations=1, discharged=0, ok=False, log=log, theorems=[],
                                                   axioms=[], forbidden=[], assumptions_text="", checker_cmd="make -C coq")
    coverage = dict(obligations=max(props["obligations"], 1), discharged=props["discharged"],
                    checker_cmd=props["checker_cmd"], trusted_base=trusted, theorems=props["theorems"],
                    print_assumptions=props["assumptions_text"], axioms=props["axioms"])
    if not props["ok"]:
        p = core.write_replay(prop, "proof", dict(property=prop, broken="proof obligation / build",
                                                  theorems=props["theorems"], forbidden=props["forbidden"],
                                                  axioms=props["axioms"], log=props["log"]))
        core.violation(prop, p, no_input=True)
        coverage.update(evaluations=0, distinct_nontrivial=0, rule="proof build failed", samples=[])
        core.write_evidence(prop, tier, coverage, time.time() - t0, 1, assumptions)
        return 1

    # ---------------------------------------------------------------- 2. correspondence
    if replay:
        payload = json.loads(open(replay).read())
        cases = [payload["case"]]
        corpus = []
    else:
        corpus = load_corpus(prop)
        rng = core.make_rng(prop)
        cases = corpus + mod.generate(rng, tier)
    rows = evaluate(mod, cases, "main")
    extra_viol = []
    if hasattr(mod, "extra_checks") and not replay:
        extra_viol = mod.extra_checks(tier) or []

    # ---------------------------------------------------------------- 3. verdicts
    failures = [r for r in rows if not r["ok"]]
    known = core.known_findings(prop)
    nviol = 0
    reported_known = set()
    reported = 0
    for r in failures:
        kid = mod.classify_known(r["case"], r["res"], r["err"], known) if hasattr(mod, "classify_known") else None
        if kid is not None:
            if kid not in reported_known:
                reported_known.add(kid)
                what = next(e["what"] for e in known if e["id"] == kid)
                print(f"KNOWN-FINDING: property={prop} {what}", flush=True)
            continue
        nviol += 1
        if reported >= 3:
            continue
        reported += 1
        small = shrink(mod, r) if not replay else r
        payload = describe_failure(mod, small)
        payload["original_case"] = r["case"] if small is not r else None
        p = core.write_replay(prop, str(reported), payload)
        core.violation(prop, p, no_input=False)
    for k, ev in enumerate(extra_viol):
        nviol += 1
        p = core.write_replay(prop, f"x{k + 1}", ev)
        core.violation(prop, p, no_input=bool(ev.get("no_failing_input")))

    # ---------------------------------------------------------------- 4. evidence
    keyf = getattr(mod, "key", lambda c: json.dumps(c, sort_keys=True))
    seen = set()
    distinct_nt = 0
    for r in rows:
        k = keyf(r["case"])
        if k in seen:
            continue
        seen.add(k)
        if mod.nontrivial(r["case"]) and not r.get("skipped"):
            distinct_nt += 1
    coverage.update(
        evaluations=len(rows), distinct=len(seen), distinct_nontrivial=distinct_nt,
        rule=getattr(mod, "RULE", ""), corpus_cases=len(corpus),
        traces_validated_against_impl=sum(1 for r in rows if r["ok"] and not r.get("skipped")),
        skipped_under_guard=sum(1 for r in rows if r.get("skipped")),
        disagreements=len(failures), known_findings_reproduced=sorted(reported_known),
        distribution=mod.distribution([r["case"] for r in rows]) if hasattr(mod, "distribution") else {},
        samples=[dict(case=r["case"], implementation=r["res"]) for r in rows[len(corpus):len(corpus) + 2]],
        extra=getattr(mod, "EXTRA_COVERAGE", {}))
    if not replay:            # a replay of one stored case never replaces the evidence of a full run
        core.write_evidence(prop, tier, coverage, time.time() - t0, nviol, assumptions)
    print(f"{prop} {tier}: {len(rows)} cases, {len(failures)} disagreements, {nviol} violations, "
          f"{props['discharged']}/{props['obligations']} theorems, {time.time() - t0:.0f}s", flush=True)
    return 1 if nviol else 0


if __name__ == "__main__":
    try:
        sys.exit(main(sys.argv))
    except core.HarnessError as e:
        print("HARNESS ERROR:", e, file=sys.stderr)
        sys.exit(2)
