"""c08.py — Sobol / HSIC designs, estimators and explainers vs coq/C08/Model.v.

Five kinds of cases share one stream:
  est        the five SobolEstimator classes called directly on random dyadic output vectors
  design     the four replicated samplers and the four plain samplers (binary or not)
  hsic_est   the three HsicEstimator classes called directly (estimator batch sizes included)
  sobol_expl SobolAttributionMethod end to end (recording NumPy model, explainer.masks public)
  hsic_expl  HsicAttributionMethod end to end
Library calls (QMC draws, sqrt, exp, percentile, cv2.blur, bicubic resize) are made by this file with the
real library and handed to the Coq model as inputs; Coq re-checks what it can about them (roots squared,
exponent matrices, median property).
"""
import copy
import math
import numpy as np
import core
import families as fam

PROP = "C08"
IMPORTS = "C08.Model"
SHARD = 12
RULE = ("est: estimator in {Jansen,Homma,Janon,Glen,Saltelli}, d in 1..6, n in 2..16, dyadic outputs (k/8), some "
        "replicated blocks equal to A (inert dimensions), 2-D and 4-D masks; design: 4 replicated + 4 plain samplers "
        "(binary or not), d in 1..9, n in 1..16; hsic_est: Binary/Sobolev/Rbf estimators, grid 1..3, n in 2..10, "
        "estimator batch sizes {1,2,d-1,d,d+1,None}; sobol_expl / hsic_expl: images up to 6x6x3 with H != W, grid "
        "1..3, the three perturbation functions, forward batch sizes {1,2,3,N-1,N,N+1,256,None}, F-quad scores with cross "
        "terms; distinct = different canonical JSON encoding; non-trivial = more than one dimension and (estimator "
        "cases) at least 3 design points, (explainers) at least two mask batches, a remainder batch or batch_size=None, "
        "(designs) d >= 2")
ASSUMPTIONS = [
    "score is applied row-wise (no cross-sample coupling)",
    "QMC / LHS draws, np.percentile, sqrt, exp, cv2.blur and the final bicubic tf.image.resize are library calls: "
    "their results are inputs of the model; Coq re-checks root*root = radicand (1e-12), exponent matrices (1e-12), "
    "and that the RBF width is a median of the outputs",
    "estimator results are float32 (post_process casts): comparison tolerance 2e-6 relative to 1+|value| for the Sobol "
    "estimators called directly, 2e-5 relative for end-to-end Sobol maps (float32 perturbed inputs), 2e-6 absolute for "
    "HSIC scores (float32 Gram matrices); measured worst errors on the unchanged tree: 4e-8, 1.4e-7, 7e-8",
    "explain() output is compared with tf.image.resize(bicubic) of the low-resolution map returned by the explainer's "
    "estimator on the recorded outputs (staging): max abs difference <= 1e-5 * (1 + max |map|) (the explainer feeds float32 "
    "outputs to the estimator, the recorded ones are float64; measured worst 1.2e-4 on a map of magnitude 1e3)",
    "end-to-end Sobol tolerances are condition-scaled: kappa = max (second moment / variance) over the design blocks "
    "entering a denominator, computed from the recorded outputs; relative tolerance max(2e-5, 1e-6 kappa) for the "
    "low-resolution map, max(1e-5, 5e-7 kappa) (1 + max|map|) for the resize staging; cases with kappa > 1e4 are "
    "skipped and counted (float32 outputs carry 6e-8 relative error; measured 4e-5 at kappa = 400)",
    "LatinHypercube(RS) draws are unseeded inside xplique (qmc.LatinHypercube(dimension), no public seed): a replay of "
    "such a case re-draws the design; the draw is an input of the model, so the verdict does not depend on it",
    "HSIC cases are generated with positive scores (the unchanged tree returns NaN when the median output is 0: "
    "RBF width = median; known finding, not exercised)",
]

PRELUDE = """
Open Scope Qc_scope.
Definition close_rel (tol a b : Qc) : bool := Qcleb (Qcabs (a - b)) (tol * (1 + Qcabs a)).
Definition lclose (tol : Qc) (a b : list Qc) : bool :=
  Nat.eqb (length a) (length b) && forallb (fun p => close_rel tol (fst p) (snd p)) (combine a b).
Definition lclose2 (tol : Qc) (a b : list (list Qc)) : bool :=
  Nat.eqb (length a) (length b) && forallb (fun p => lclose tol (fst p) (snd p)) (combine a b).
Definition in01 (M : list (list Qc)) : bool := forallb (forallb (fun v => Qcleb 0 v && Qcleb v 1)) M.
Definition is01 (M : list (list Qc)) : bool := forallb (forallb (fun v => Qceqb v 0 || Qceqb v 1)) M.
Definition rows_are (n d : nat) (M : list (list Qc)) : bool :=
  Nat.eqb (length M) n && forallb (fun r => Nat.eqb (length r) d) M.
Definition roots_ok (rad roots : list Qc) : bool :=
  Nat.eqb (length rad) (length roots) &&
  forallb (fun p => Qcleb 0 (snd p) && Qcleb (Qcabs (snd p * snd p - fst p)) (q 1 1000000000000 * fst p))
          (combine rad roots).
Definition gram_table (tab : list (list Qc * mat)) (x : list Qc) : mat :=
  match find (fun p => qlist_eqb (fst p) x) tab with Some p => snd p | None => [] end.
Definition exps_ok (model given : mat) : bool := lclose2 (q 1 1000000000000) model given.
Definition pf_table (tab : list (list Qc * perturbation)) (x : list Qc) : perturbation :=
  match find (fun p => qlist_eqb (fst p) x) tab with Some p => snd p | None => Amplitude 0 end.
Definition lof_table (tab : list (list Qc * mat)) (o : list Qc) : mat := gram_table tab o.
(* keyed by closeness: the recorded (float) outputs must agree with the model's exact outputs, else no Gram matrix *)
Definition lof_close (tab : list (list Qc * mat)) (o : list Qc) : mat :=
  match find (fun p => lclose (q 1 100000) o (fst p)) tab with Some p => snd p | None => [] end.
Definition hsic_tabs_ok (half_w : bool) (tab : list (list Qc * (Qc * mat * mat))) : bool :=
  forallb (fun p => let '(w, E, L) := snd p in
                    (if half_w then Qceqb w half else is_median w (fst p)) && exps_ok (rbf_exponents w (fst p)) E) tab.
Definition tab_L (tab : list (list Qc * (Qc * mat * mat))) : list (list Qc * mat) :=
  map (fun p => (fst p, snd (snd p))) tab.
Close Scope Qc_scope.
"""

TOL_EST = "(q 1 500000)"
TOL_EXPL = "(q 1 50000)"
TOL_HSIC = "(q 1 500000)"
TOL_RESIZE = 1e-5

SOBOL_ESTS = ["Jansen", "Homma", "Janon", "Glen", "Saltelli"]
RS_SAMPLERS = ["TFSobolSequenceRS", "ScipySobolSequenceRS", "HaltonSequenceRS", "LatinHypercubeRS"]
PLAIN_SAMPLERS = ["TFSobolSequence", "ScipySobolSequence", "HaltonSequence", "LatinHypercube"]
HSIC_ESTS = ["Binary", "Sobolev", "Rbf"]
PERTS = ["inpainting", "blurring", "amplitude"]


# ----------------------------------------------------------------------------- generators
def dy(rng, lo, hi, den=8):
    return rng.randint(lo * den, hi * den) / den


def nonconstant(rng, n, lo=-4, hi=4):
    while True:
        v = [dy(rng, lo, hi) for _ in range(n)]
        if len(set(v)) > 1:
            return v


def gen_est(rng, tier):
    d = rng.randint(1, 6)
    n = rng.choice([2, 2, 3, 4, 5, 7, 8, 9, 12, 15, 16, rng.randint(2, 16)])
    a = nonconstant(rng, n)
    b = [dy(rng, -4, 4) for _ in range(n)]
    cs = []
    for _ in range(d):
        r = rng.random()
        if r < 0.2:
            cs.append(list(a))                      # inert dimension: f(C_i) = f(A)
        elif r < 0.35:
            c = list(a)
            c[rng.randrange(n)] += rng.choice([-1.5, 0.25, 2.0])
            if len(set(c)) == 1:
                c[0] += 1.0
            cs.append(c)
        else:
            cs.append(nonconstant(rng, n))
    outputs = a + b + [v for c in cs for v in c]
    return dict(kind="est", est=rng.choice(SOBOL_ESTS), n=n, d=d, outputs=outputs,
                masks4=(d in (1, 4) and rng.random() < 0.5))


def gen_design(rng, tier):
    if rng.random() < 0.55:
        return dict(kind="design", rs=True, sampler=rng.choice(RS_SAMPLERS), d=rng.choice([1, 2, 3, 4, 4, 5, 9]),
                    n=rng.choice([1, 2, 3, 4, 5, 8, 16]), binary=False)
    return dict(kind="design", rs=False, sampler=rng.choice(PLAIN_SAMPLERS), d=rng.choice([1, 2, 4, 9]),
                n=rng.choice([1, 2, 3, 4, 7, 8, 16]), binary=rng.random() < 0.6)


def ebs_choice(rng, d):
    return rng.choice([None, None, 1, 2, max(1, d - 1), d, d + 1, rng.randint(1, d + 2)])


def gen_hsic_est(rng, tier):
    g = rng.choice([1, 2, 2, 2, 3])
    d = g * g
    n = rng.randint(2, 8 if g == 3 else 10)
    est = rng.choice(HSIC_ESTS)
    if est == "Binary":
        masks = [[float(rng.randint(0, 1)) for _ in range(d)] for _ in range(n)]
    else:
        masks = [[rng.randint(0, 16) / 16 for _ in range(d)] for _ in range(n)]
    # outputs: dyadic, median non-zero by construction (all values >= 1/8 or all <= -1/8)
    sign = rng.choice([1, 1, -1])
    outputs = [sign * rng.randint(1, 40) / 8 for _ in range(n)]
    case = dict(kind="hsic_est", est=est, g=g, n=n, masks=masks, outputs=outputs, ebs=ebs_choice(rng, d))
    if rng.random() < 0.5:
        # history: the same estimator object and the same masks ARRAY were used before, with other content
        if est == "Binary":
            case["warm_masks"] = [[float(rng.randint(0, 1)) for _ in range(d)] for _ in range(n)]
        else:
            case["warm_masks"] = [[rng.randint(0, 16) / 16 for _ in range(d)] for _ in range(n)]
        case["warm_outputs"] = [rng.randint(1, 40) / 8 for _ in range(n)]
    return case


def gen_image(rng):
    h, w = rng.randint(2, 6), rng.randint(2, 6)
    if h == w and rng.random() < 0.7:
        w = w + 1 if w < 6 else w - 1
    return h, w, rng.choice([1, 1, 3])


def bs_choice(rng, total):
    return rng.choice([1, 2, 3, max(1, total - 1), total, total + 1, 256, None, None, rng.randint(1, total + 1)])


def gen_sobol_expl(rng, tier):
    h, w, c = gen_image(rng)
    g = rng.choice([1, 2, 2, 3])
    n = rng.choice([2, 4, 4, 8] if g < 3 else [2, 4])
    dim = h * w * c
    ncls = rng.randint(1, 2)
    nin = rng.choice([1, 1, 2])
    total = n * (g * g + 2)
    ts = fam.gen_targets(rng, nin, ncls)
    for t in ts:
        if not any(t):
            t[0] = 1.0          # an all-zero target makes every score 0 (zero variance: outside the property)
    return dict(kind="sobol_expl", shape=[h, w, c], g=g, n=n, sampler=rng.choice(RS_SAMPLERS),
                est=rng.choice(SOBOL_ESTS + ["Jansen", "default"]), pert=rng.choice(PERTS),
                params=fam.gen_fquad(rng, ncls, dim), xs=[fam.dyadic(rng, dim) for _ in range(nin)],
                ts=ts, bs=bs_choice(rng, total))


def gen_pos_fquad(rng, ncls, dim):
    """F-quad members with non-negative weights and bias >= 1: positive on non-negative inputs"""
    ks = []
    for _ in range(ncls):
        X = []
        if dim >= 2:
            for _ in range(rng.randint(0, 3)):
                i, j = rng.sample(range(dim), 2)
                X.append([i, j, rng.choice([1, 2])])
        ks.append(dict(b=rng.randint(1, 3), W=[rng.randint(0, 3) for _ in range(dim)],
                       V=[rng.choice([0, 0, 1, 2]) for _ in range(dim)], X=X))
    return ks


def gen_hsic_expl(rng, tier):
    h, w, c = gen_image(rng)
    g = rng.choice([1, 2, 2, 3])
    n = rng.randint(3, 8 if g == 3 else 10)
    dim = h * w * c
    ncls = rng.randint(1, 2)
    nin = rng.choice([1, 1, 2])
    est = rng.choice(["default", "Binary", "Sobolev", "Rbf"])
    binary = True if est in ("default", "Binary") else rng.random() < 0.3
    ts = []
    for _ in range(nin):
        t = [rng.randint(0, 4) / 2 for _ in range(ncls)]
        if not any(t):
            t[0] = 1.0
        ts.append(t)
    sampler = rng.choice(PLAIN_SAMPLERS)
    decoy = rng.choice([s for s in PLAIN_SAMPLERS if s != sampler]) if rng.random() < 0.5 else None
    return dict(kind="hsic_expl", shape=[h, w, c], g=g, n=n, sampler=sampler, binary=binary, decoy=decoy,
                est=est, pert=rng.choice(["inpainting", "inpainting", "blurring"]),
                params=gen_pos_fquad(rng, ncls, dim),
                xs=[[rng.randint(0, 16) / 8 for _ in range(dim)] for _ in range(nin)], ts=ts,
                bs=bs_choice(rng, n), ebs=ebs_choice(rng, g * g))


def generate(rng, tier):
    scale = 1 if tier == "quick" else 10
    plan = [(gen_est, 45), (gen_design, 25), (gen_hsic_est, 18), (gen_sobol_expl, 24), (gen_hsic_expl, 14), (gen_jansen_ill, 40)]
    cases = []
    for f, k in plan:
        cases += [f(rng, tier) for _ in range(k * scale)]
    return cases


def gen_jansen_ill(rng, tier):
    """the default estimator on ill-conditioned outputs: a large offset (mean >> spread), some inert dimensions.
    The property's own clauses are checked on the implementation: non-negative, EXACTLY zero on inert dimensions,
    unchanged by the offset (affine invariance) — the literal formula sum((a - c)^2) is stable, an algebraically equal
    expansion a.a - 2 a.c + c.c is not."""
    d, n = rng.randint(2, 6), rng.choice([8, 16, 32, 64])
    ya = [rng.randint(-64, 64) / 64 for _ in range(n)]
    yb = [rng.randint(-64, 64) / 64 for _ in range(n)]
    inert = [rng.random() < 0.4 for _ in range(d)]
    yc = [list(ya) if inert[i] else [rng.randint(-64, 64) / 64 for _ in range(n)] for i in range(d)]
    # either a large offset (mean >> spread) with an ordinary scale, or a tiny positive scale without offset: both are
    # affine rescalings a*y + b with a > 0 under which the index must not move (a tiny spread on top of a large offset
    # would simply vanish in float32: constant outputs, excluded by the property)
    if rng.random() < 0.6:
        offset, scale = rng.choice([2.0 ** 10, 2.0 ** 14, 2.0 ** 18, 2.0 ** 18, 2.0 ** 22]), rng.choice([1.0, 0.5, 2.0])
    else:
        offset, scale = 0.0, rng.choice([2.0 ** -10, 2.0 ** -12, 2.0 ** -8])
    # (float32 outputs at offset 2^22 would be quantised to multiples of 1/2: double precision only there)
    return dict(kind="jansen_ill", d=d, n=n, ya=ya, yb=yb, yc=yc, inert=inert, offset=offset, scale=scale,
                f32=rng.random() < 0.5 and offset < 2.0 ** 20)


def run_jansen_ill(case):
    from xplique.attributions.global_sensitivity_analysis import JansenEstimator
    d, n = case["d"], case["n"]
    masks = np.zeros((n * (d + 2), d), dtype=np.float32)

    def outs(off, sc):
        o = np.array(case["ya"] + case["yb"] + [v for c in case["yc"] for v in c], dtype=np.float64) * sc + off
        return o.astype(np.float32).astype(np.float64) if case["f32"] else o
    est = JansenEstimator()
    base = np.asarray(est(masks, outs(0.0, 1.0), n), dtype=np.float64).reshape(-1)
    shifted = np.asarray(est(masks, outs(case["offset"], case["scale"]), n), dtype=np.float64).reshape(-1)
    return dict(base=base.tolist(), shifted=shifted.tolist())


def term_jansen_ill(case, res):
    base, sh = np.array(res["base"]), np.array(res["shifted"])
    ok = bool(np.all(sh >= 0.0) and np.all(base >= 0.0))
    for i, inert in enumerate(case["inert"]):
        if inert:
            ok = ok and base[i] == 0.0 and sh[i] == 0.0                    # exactly zero
    # affine invariance; float32 scores lose the low bits of (offset + small), so the tolerance follows the offset
    # float32 outputs: relative precision 2^-24 of |offset| + scale, against a spread of order `scale`
    tol = (1e-9 if not case["f32"] else max(1e-6, (case["offset"] / case["scale"]) * 2.0 ** -21)) * (1.0 + float(np.max(np.abs(base))))
    ok = ok and bool(np.all(np.abs(sh - base) <= tol))
    if not ok:
        return "false"
    outputs = core.cqlist(case["ya"] + case["yb"] + [v for c in case["yc"] for v in c])
    return f"lclose {TOL_EST} (jansen {outputs} {case['n']} {case['d']}) {core.cqlist(res['base'])}"


def nontrivial(case):
    k = case["kind"]
    if k == "jansen_ill":
        return any(case["inert"])
    if k == "est":
        return case["d"] >= 2 and case["n"] >= 3
    if k == "design":
        return case["d"] >= 2 and case["n"] >= 2
    if k == "hsic_est":
        return case["g"] >= 2 and case["n"] >= 3
    total = case["n"] * (case["g"] ** 2 + 2) if k == "sobol_expl" else case["n"]
    return case["g"] >= 2 and (case["bs"] is None or total > case["bs"])


def distribution(cases):
    return dict(kind=core.hist(c["kind"] for c in cases),
                estimator=core.hist(c.get("est") for c in cases if "est" in c),
                sampler=core.hist(c.get("sampler") for c in cases if "sampler" in c),
                perturbation=core.hist(c.get("pert") for c in cases if "pert" in c),
                n=core.hist(c["n"] for c in cases),
                dims=core.hist((c["d"] if "d" in c else c["g"] ** 2) for c in cases),
                estimator_batch=core.hist(str(c.get("ebs")) for c in cases if "ebs" in c))


# ----------------------------------------------------------------------------- implementation drivers
def _gsa():
    import xplique.attributions.global_sensitivity_analysis as gsa
    return gsa


def f2l(a):
    return [float(v) for v in np.asarray(a, dtype=np.float64).reshape(-1)]


def rows(a):
    a = np.asarray(a, dtype=np.float64)
    return [[float(v) for v in r] for r in a.reshape(a.shape[0], -1)]


def glen_roots(outputs, n, d):
    o = np.asarray(outputs, dtype=np.float64)
    a = o[:n]
    return [math.sqrt(float(np.var(a) * np.var(o[2 * n + n * i:2 * n + n * (i + 1)]))) for i in range(d)]


def run_est(case):
    gsa = _gsa()
    n, d = case["n"], case["d"]
    est = getattr(gsa, case["est"] + "Estimator")()
    shape = (n * (d + 2), int(round(d ** 0.5)), int(round(d ** 0.5)), 1) if case["masks4"] else (n * (d + 2), d)
    out = est(np.zeros(shape, np.float32), np.array(case["outputs"], np.float64), n)
    res = dict(values=f2l(out), shape=list(np.asarray(out).shape))
    if case["est"] == "Glen":
        res["roots"] = glen_roots(case["outputs"], n, d)
    return res


def library_draw(name, dims, n):
    """the QMC call made by the sampler, repeated with the same arguments (deterministic sequences only)"""
    import tensorflow as tf
    import scipy.stats
    if name.startswith("TFSobol"):
        return tf.math.sobol_sample(dims, n, dtype=tf.float32).numpy()
    if name.startswith("ScipySobol"):
        return scipy.stats.qmc.Sobol(dims, scramble=False).random(n).astype(np.float32)
    if name.startswith("Halton"):
        return scipy.stats.qmc.Halton(dims, scramble=False).random(n).astype(np.float32)
    return None


def run_design(case):
    gsa = _gsa()
    d, n = case["d"], case["n"]
    if case["rs"]:
        first = getattr(gsa, case["sampler"])()(d, n)
        if isinstance(first, np.ndarray) and first.flags.writeable:
            # history: the caller post-processes the returned array IN PLACE (as the repository's own Ishigami test does);
            # a later request of the same design must still return a fresh [0,1] replicated design
            first *= 2.0 * np.pi
            first -= np.pi
        out = getattr(gsa, case["sampler"])()(d, n)
        out = np.asarray(out)
        draw = library_draw(case["sampler"], 2 * d, n)
        from_design = draw is None
        if from_design:     # random draw (LHS): A and B are read back from the first 2n rows of the design
            draw = np.concatenate([out[:n], out[n:2 * n]], axis=1) if out.shape[0] >= 2 * n else np.zeros((n, 2 * d))
        return dict(design=rows(out), draw=rows(draw), draw_from_design=from_design, dtype=str(out.dtype))
    out = np.asarray(getattr(gsa, case["sampler"])(binary=case["binary"])(d, n))
    draw = library_draw(case["sampler"], d, n)
    from_design = draw is None
    if from_design:
        draw = out
    return dict(design=rows(out), draw=rows(draw), draw_from_design=from_design, dtype=str(out.dtype))


def rbf_tab(y, w):
    """exponent matrix and Gram matrix of rbf(Y, Y^T, w) from exact float inputs, float64"""
    y = np.asarray(y, dtype=np.float64).reshape(-1)
    E = -((y[:, None] - y[None, :]) ** 2) / (2.0 * float(w) ** 2)
    return rows(E), rows(np.exp(E))


def out_width(y):
    return float(np.percentile(np.asarray(y, np.float32), 50.0).astype(np.float32))


def hsic_tables(case, design, outputs_list):
    """library results the model needs: output Gram matrices, and input Gram matrices for the rbf input kernel"""
    res = dict(outs=[])
    for o in outputs_list:
        o32 = [float(np.float32(v)) for v in o]
        w = out_width(o32)
        E, L = rbf_tab(o32, w)
        res["outs"].append(dict(y=o32, w=w, E=E, L=L))
    if case["est"] == "Rbf":
        g = case["g"]
        cols = []
        for p in range(g * g):
            x = [r[p] for r in design]
            E, K = rbf_tab(x, 0.5)
            cols.append(dict(x=x, E=E, K=K))
        res["cols"] = cols
    return res


def make_hsic_estimator(name):
    gsa = _gsa()
    return None if name == "default" else getattr(gsa, name + "Estimator")()


def run_hsic_est(case):
    g, n = case["g"], case["n"]
    est = make_hsic_estimator(case["est"])
    est.set_batch_size(case["ebs"])
    if case.get("warm_masks"):
        masks = np.array(case["warm_masks"], np.float32).reshape(n, g, g, 1)
        est(masks, np.array(case["warm_outputs"], np.float64), n)
        masks[...] = np.array(case["masks"], np.float32).reshape(n, g, g, 1)     # re-drawn in place: same id, same shape
    else:
        masks = np.array(case["masks"], np.float32).reshape(n, g, g, 1)
    out = est(masks, np.array(case["outputs"], np.float64), n)
    res = dict(values=f2l(out), shape=list(np.asarray(out).shape))
    res.update(hsic_tables(case, case["masks"], [case["outputs"]]))
    return res


def perturbation_arg(case):
    return case["pert"]


def baselines(case):
    """x0 of every input for the Baseline perturbations (cv2.blur is a library call)"""
    h, w, c = case["shape"]
    out = []
    for x in case["xs"]:
        if case["pert"] == "blurring":
            import cv2
            x0 = cv2.blur(np.array(x, np.float32).reshape(h, w, c).copy(), (10, 10))
            out.append(f2l(np.asarray(x0, np.float32)))
        else:
            out.append([0.0] * (h * w * c))
    return out


KAPPA_MAX = 1e4


def sobol_kappa(o, n, d, est):
    """condition number of the estimators with respect to rounding of the outputs: (second moment) / (variance) of
       the blocks that enter a denominator (float32 outputs carry 6e-8 relative error each)"""
    o = np.asarray(o, dtype=np.float64)
    a = o[:n]
    ks = [float((a * a).mean() / np.var(a))]
    for i in range(d):
        c = o[2 * n + n * i:2 * n + n * (i + 1)]
        m2 = (a * a + c * c).mean() / 2.0
        pooled = m2 - ((a + c).mean() / 2.0) ** 2
        ks.append(float(m2 / pooled))
        if est == "Glen":
            ks.append(float((c * c).mean() / np.var(c)))
    return max(1.0, max(ks))


def run_expl(case):
    import tensorflow as tf
    gsa = _gsa()
    h, w, c = case["shape"]
    g, n = case["g"], case["n"]
    model = fam.FQuadNumpy(case["params"], record=True)
    plain = fam.FQuadNumpy(case["params"])
    if case["kind"] == "sobol_expl":
        est = None if case["est"] == "default" else getattr(gsa, case["est"] + "Estimator")()
        expl = gsa.SobolAttributionMethod(model, grid_size=g, nb_design=n, sampler=getattr(gsa, case["sampler"])(),
                                          estimator=est, perturbation_function=perturbation_arg(case),
                                          batch_size=case["bs"])
        total = n * (g * g + 2)
    else:
        shared = make_hsic_estimator(case["est"])
        if case.get("decoy") and shared is not None:
            # history: ONE estimator object serves two explainers (same grid, same nb_design, another sampler);
            # the decoy explains first.  Each explainer's map must still be the estimator on ITS OWN masks.
            decoy = gsa.HsicAttributionMethod(plain, grid_size=g, nb_design=n,
                                              sampler=getattr(gsa, case["decoy"])(binary=case["binary"]),
                                              estimator=shared, perturbation_function=perturbation_arg(case),
                                              batch_size=case["bs"], estimator_batch_size=case["ebs"])
            decoy.explain(np.array(case["xs"], np.float32).reshape(len(case["xs"]), h, w, c),
                          np.array(case["ts"], np.float32))
        expl = gsa.HsicAttributionMethod(model, grid_size=g, nb_design=n,
                                         sampler=getattr(gsa, case["sampler"])(binary=case["binary"]),
                                         estimator=shared,
                                         perturbation_function=perturbation_arg(case), batch_size=case["bs"],
                                         estimator_batch_size=case["ebs"])
        total = n
    masks = np.asarray(expl.masks)
    xs = np.array(case["xs"], np.float32).reshape(len(case["xs"]), h, w, c)
    ts = np.array(case["ts"], np.float32)
    out = np.asarray(expl.explain(xs, ts))
    queries = np.array(model.queries, dtype=np.float64)
    if queries.shape[0] != total * len(case["xs"]):
        raise AssertionError(f"{queries.shape[0]} model queries for {len(case['xs'])} inputs, expected {total} each")
    lows, outs, resize_diff, resize_scale = [], [], 0.0, 0.0
    for k in range(len(case["xs"])):
        qk = queries[k * total:(k + 1) * total]
        scores = (plain(qk) * ts[k][None, :].astype(np.float64)).sum(-1)
        low = np.asarray(expl.estimator(expl.masks, scores, n))
        staged = tf.image.resize(low, (h, w), method=tf.image.ResizeMethod.BICUBIC).numpy()
        got = out[k].reshape(h, w, -1)
        if staged.shape != got.shape:
            raise AssertionError(f"explain() returned a map of shape {out[k].shape}, staged shape {staged.shape}")
        diff = np.abs(staged - got)
        resize_diff = max(resize_diff, float("inf") if np.isnan(diff).any() else float(diff.max()))
        resize_scale = max(resize_scale, float(np.abs(staged).max()))
        lows.append(f2l(low))
        outs.append([float(v) for v in scores])
    if case["kind"] == "sobol_expl":
        # guard: the outputs on A (or, for Glen, on some C_i) are all equal (zero variance): the estimator divides
        # by 0; outside the property (Var > 0)
        blocks = [0] + ([2 + i for i in range(g * g)] if case["est"] == "Glen" else [])
        if any(len(set(o[b * n:(b + 1) * n])) == 1 for o in outs for b in blocks):
            return dict(skip="zero variance of the outputs on a design block", outputs=outs)
    kappa = 1.0
    if case["kind"] == "sobol_expl":
        kappa = max(sobol_kappa(o, n, g * g, case["est"]) for o in outs)
        if kappa > KAPPA_MAX:
            # guard: second moment / variance so large that float32 outputs cannot carry the estimator
            return dict(skip=f"ill-conditioned outputs (second moment / variance = {kappa:.3g})", outputs=outs)
    res = dict(masks=rows(masks), masks_shape=list(masks.shape), lows=lows, outputs=outs, out_shape=list(out.shape),
               resize_diff=resize_diff, resize_scale=resize_scale, kappa=kappa, x0=baselines(case))
    if case["kind"] == "sobol_expl" and case["est"] == "Glen":
        res["roots"] = [glen_roots(o, n, g * g) for o in outs]
    if case["kind"] == "hsic_expl":
        c2 = dict(case)
        c2["est"] = "Binary" if case["est"] == "default" else case["est"]
        res.update(hsic_tables(c2, res["masks"], outs))
    return res


def _finite(v, path="result"):
    if isinstance(v, dict):
        for key, w in v.items():
            _finite(w, f"{path}.{key}")
    elif isinstance(v, (list, tuple)):
        for j, w in enumerate(v):
            _finite(w, f"{path}[{j}]")
    elif isinstance(v, float) and (v != v or v in (float("inf"), float("-inf"))):
        raise AssertionError(f"non-finite value {v} at {path} on a non-degenerate configuration")


def run_impl(case):
    k = case["kind"]
    if k == "est":
        res = run_est(case)
    elif k == "design":
        res = run_design(case)
    elif k == "hsic_est":
        res = run_hsic_est(case)
    elif k == "jansen_ill":
        res = run_jansen_ill(case)
    else:
        res = run_expl(case)
    _finite(res)
    return res


# ----------------------------------------------------------------------------- Coq terms
def cmat(m):
    return core.cqlist2(m)


def est_fun(name, n, d, outputs_term, roots=None):
    """Coq term of type list Qc: the estimator [name] applied to outputs_term"""
    name = "Jansen" if name == "default" else name
    if name == "Glen":
        return (f"(glen (sqrt_table (combine (glen_radicands {outputs_term} {n} {d}) {core.cqlist(roots)})) "
                f"{outputs_term} {n} {d})")
    return f"({name.lower()} {outputs_term} {n} {d})"


def term_est(case, res):
    n, d = core.cnat(case["n"]), core.cnat(case["d"])
    o = core.cqlist(case["outputs"])
    t = f"lclose {TOL_EST} {est_fun(case['est'], n, d, 'o', res.get('roots'))} {core.cqlist(res['values'])}"
    if case["est"] == "Glen":
        t = f"roots_ok (glen_radicands o {n} {d}) {core.cqlist(res['roots'])} && {t}"
    return f"let o := {o} in {t}"


def term_design(case, res):
    d, n = core.cnat(case["d"]), core.cnat(case["n"])
    des, draw = cmat(res["design"]), cmat(res["draw"])
    if case["rs"]:
        return (f"let des := {des} in qlist2_eqb (replicated_sampler {d} {draw}) des && in01 des && "
                f"rows_are ({n} * ({d} + 2)) {d} des")
    b = core.cbool(case["binary"])
    extra = " && is01 des" if case["binary"] else ""
    return (f"let des := {des} in qlist2_eqb (plain_sampler {b} {draw}) des && in01 des && rows_are {n} {d} des{extra}")


def gramf_term(est, res):
    est = "Binary" if est == "default" else est
    if est == "Binary":
        return "(gram_of k_binary)"
    if est == "Sobolev":
        return "(gram_of k_sobolev)"
    tab = core.cl([f"({core.cqlist(c['x'])}, {cmat(c['K'])})" for c in res["cols"]])
    return f"(gram_table {tab})"


def hsic_checks(est, res):
    """Coq bool: the library tables handed to the model are what the model says they must be"""
    outs = core.cl([f"({core.cqlist(o['y'])}, ({core.cq(o['w'])}, {cmat(o['E'])}, {cmat(o['L'])}))" for o in res["outs"]])
    t = f"hsic_tabs_ok false otab"
    if est == "Rbf":
        cols = core.cl([f"({core.cqlist(c['x'])}, ({core.cq(0.5)}, {cmat(c['E'])}, {cmat(c['K'])}))" for c in res["cols"]])
        t += f" && hsic_tabs_ok true {cols}"
    return outs, t


def ebs_term(case):
    return core.cnat(100000 if case["ebs"] is None else case["ebs"])


def term_hsic_est(case, res):
    g, n = core.cnat(case["g"]), core.cnat(case["n"])
    outs, chk = hsic_checks(case["est"], res)
    return (f"let otab := {outs} in {chk} && "
            f"qlist_close {TOL_HSIC} 1 (hsic_map {gramf_term(case['est'], res)} {ebs_term(case)} {g} {cmat(case['masks'])} "
            f"(lof_table (tab_L otab) {core.cqlist(res['outs'][0]['y'])}) {n}) {core.cqlist(res['values'])}")


def bs_term(case):
    return core.copt(None if case["bs"] is None else core.cnat(case["bs"]))


def pf_term(case, res):
    if case["pert"] == "amplitude":
        return f"(fun _ => Amplitude 1)"
    tab = core.cl([f"({core.cqlist(x)}, Baseline {core.cqlist(x0)})" for x, x0 in zip(case["xs"], res["x0"])])
    return f"(pf_table {tab})"


def term_expl(case, res):
    h, w, c = case["shape"]
    g, n = core.cnat(case["g"]), core.cnat(case["n"])
    geo = f"{g} {core.cnat(h)} {core.cnat(w)} {core.cnat(c)} {bs_term(case)}"
    score = f"(fquad {fam.coq_fquad(case['params'])})"
    masks = cmat(res["masks"])
    xs, ts = cmat(case["xs"]), cmat(case["ts"])
    # float32 maps: the staged and the returned map may differ by a few ulps of the largest value
    # and the explainer feeds float32 outputs to the estimator (recorded ones are float64): error ~ 2.4e-7 * kappa
    kappa = res.get("kappa", 1.0)
    ok_resize = core.cbool(res["resize_diff"] <= max(TOL_RESIZE, 5e-7 * kappa) * (1.0 + res["resize_scale"]))
    tol_expl = f"(q 1 {int(1.0 / max(2e-5, 1e-6 * kappa))})"
    if case["kind"] == "sobol_expl":
        d = f"({g} * {g})"
        # explainer.masks must be a replicated design: A, B (first 2n rows) then the blocks C_i, values in [0,1]
        structure = (f"(let ms := {masks} in rows_are ({n} * ({d} + 2)) {d} ms && in01 ms && "
                     f"qlist2_eqb (replicated_design {d} (firstn {n} ms) (firstn {n} (skipn {n} ms))) ms)")
        if case["est"] == "Glen":
            # one root table per input, keyed by the radicands the model computes from ITS outputs: the harness roots
            # come from the recorded outputs, which are only float-close to the model's; so Glen end to end is
            # evaluated on the recorded outputs (estimator level) and the queries are checked through the other cases
            terms = []
            for o, r, low in zip(res["outputs"], res["roots"], res["lows"]):
                terms.append(f"(let o := {core.cqlist(o)} in roots_ok (glen_radicands o {n} {d}) {core.cqlist(r)} && "
                             f"lclose {TOL_EST} {est_fun('Glen', n, d, 'o', r)} {core.cqlist(low)})")
            return f"{ok_resize} && {structure} && " + " && ".join(terms)
        name = "jansen" if case["est"] == "default" else case["est"].lower()
        return (f"{ok_resize} && {structure} && "
                f"lclose2 {tol_expl} (sobol_explain {score} {name} {pf_term(case, res)} {geo} {n} {masks} {xs} {ts}) "
                f"{cmat(res['lows'])}")
    est = "Binary" if case["est"] == "default" else case["est"]
    outs, chk = hsic_checks(est, res)
    # the model's own outputs are exact rationals; the Gram tables are keyed by the recorded outputs (float32 of the
    # same values) and looked up by closeness (1e-5 relative): a missing key fails closed
    return (f"let otab := {outs} in {ok_resize} && {chk} && "
            f"forallb (fun p => qlist_close {TOL_HSIC} 1 (fst p) (snd p)) (combine "
            f"(hsic_explain {score} {gramf_term(est, res)} (lof_close (tab_L otab)) {pf_term(case, res)} {geo} "
            f"{ebs_term(case)} {n} {masks} {xs} {ts}) {cmat(res['lows'])})")


def coq_term(case, res):
    k = case["kind"]
    if res.get("skip"):
        return None
    if k == "est":
        return term_est(case, res)
    if k == "design":
        return term_design(case, res)
    if k == "hsic_est":
        return term_hsic_est(case, res)
    if k == "jansen_ill":
        return term_jansen_ill(case, res)
    return term_expl(case, res)


def dump_term(case, res):
    k = case["kind"]
    if k == "est":
        n, d = core.cnat(case["n"]), core.cnat(case["d"])
        return f"map qdump (let o := {core.cqlist(case['outputs'])} in {est_fun(case['est'], n, d, 'o', res.get('roots'))})"
    if k == "design":
        d = core.cnat(case["d"])
        if case["rs"]:
            return f"map (map qdump) (replicated_sampler {d} {cmat(res['draw'])})"
        return f"map (map qdump) (plain_sampler {core.cbool(case['binary'])} {cmat(res['draw'])})"
    if k == "hsic_est":
        g, n = core.cnat(case["g"]), core.cnat(case["n"])
        outs, _ = hsic_checks(case["est"], res)
        return (f"map qdump (let otab := {outs} in hsic_map {gramf_term(case['est'], res)} {ebs_term(case)} {g} "
                f"{cmat(case['masks'])} (lof_table (tab_L otab) {core.cqlist(res['outs'][0]['y'])}) {n})")
    if k == "jansen_ill":
        outputs = core.cqlist(case["ya"] + case["yb"] + [v for c in case["yc"] for v in c])
        return f"map qdump (jansen {outputs} {case['n']} {case['d']})"
    h, w, c = case["shape"]
    g, n = core.cnat(case["g"]), core.cnat(case["n"])
    geo = f"{g} {core.cnat(h)} {core.cnat(w)} {core.cnat(c)} {bs_term(case)}"
    score = f"(fquad {fam.coq_fquad(case['params'])})"
    masks = cmat(res["masks"])
    xs, ts = cmat(case["xs"]), cmat(case["ts"])
    if k == "sobol_expl":
        if case["est"] == "Glen":
            o, r = res["outputs"][0], res["roots"][0]
            return f"[map qdump (let o := {core.cqlist(o)} in {est_fun('Glen', n, f'({g} * {g})', 'o', r)})]"
        name = "jansen" if case["est"] == "default" else case["est"].lower()
        return f"map (map qdump) (sobol_explain {score} {name} {pf_term(case, res)} {geo} {n} {masks} {xs} {ts})"
    est = "Binary" if case["est"] == "default" else case["est"]
    outs, _ = hsic_checks(est, res)
    return (f"map (map qdump) (let otab := {outs} in hsic_explain {score} {gramf_term(est, res)} (lof_close (tab_L otab)) "
            f"{pf_term(case, res)} {geo} {ebs_term(case)} {n} {masks} {xs} {ts})")


def explain_failure(case, res, model):
    if res is None:
        return "implementation raised on a valid configuration"
    k = case["kind"]
    info = dict(kind=k)
    impl = res.get("values") or res.get("design") or res.get("lows")
    if k in ("sobol_expl", "hsic_expl"):
        info["explain_vs_resized_estimator_max_abs_diff"] = res["resize_diff"]
        info["clause"] = ("attribution map = estimator(scores of the input perturbed by explainer.masks, design order), "
                          "then bicubic resize")
    elif k == "design":
        info["clause"] = "design = A ++ B ++ C_0 ++ ... ++ C_{d-1}, C_i = A with column i from B; values in [0,1] / binary"
    else:
        info["clause"] = "estimator = its formula on (A, B, C_i) outputs"
    if model is not None:
        diffs = []

        def walk(m, i, path):
            if isinstance(m, list) and isinstance(i, list):
                if len(m) != len(i):
                    diffs.append(dict(at=path, model_len=len(m), impl_len=len(i)))
                for j, (a, b) in enumerate(zip(m, i)):
                    walk(a, b, path + [j])
            else:
                try:
                    fa, fb = core.frac(m), core.frac(i)
                    if abs(fa - fb) > abs(fa) * core.Fraction(1, 100000) + core.Fraction(1, 100000):
                        diffs.append(dict(at=path, model=float(fa), implementation=float(fb)))
                except Exception:
                    diffs.append(dict(at=path, model=str(m), implementation=str(i)))
        walk(model, impl, [])
        info["first_differences"] = diffs[:8]
    return info


def shrink(case):
    k = case["kind"]
    if k in ("sobol_expl", "hsic_expl"):
        if len(case["xs"]) > 1:
            for i in range(len(case["xs"])):
                c = copy.deepcopy(case)
                del c["xs"][i]
                del c["ts"][i]
                yield c
        if case["bs"] is not None:
            c = copy.deepcopy(case)
            c["bs"] = None
            yield c
        if case.get("ebs") is not None:
            c = copy.deepcopy(case)
            c["ebs"] = None
            yield c
        if case["pert"] != "inpainting":
            c = copy.deepcopy(case)
            c["pert"] = "inpainting"
            yield c
        if any(kk["X"] for kk in case["params"]):
            c = copy.deepcopy(case)
            for kk in c["params"]:
                kk["X"] = []
            yield c
    if k == "est" and case["d"] > 1:
        n, d = case["n"], case["d"]
        for i in range(d):
            c = copy.deepcopy(case)
            del c["outputs"][2 * n + n * i:2 * n + n * (i + 1)]
            c["d"] = d - 1
            c["masks4"] = False
            yield c
    if k == "hsic_est" and case["ebs"] is not None:
        c = copy.deepcopy(case)
        c["ebs"] = None
        yield c


# ----------------------------------------------------------------------------- second tie: translator
# The five estimator formulas are re-generated from the source text of /repo on every run and proved equal to the
# hand-written model (harness/translate_sobol.py).  A source construct outside the supported subset only disables this
# second tie (recorded in the evidence); a generated definition that is no longer equal to the model is a broken proof
# obligation: the concrete failing input, if any, is what the correspondence stream above reports.
try:
    EXTRA_COVERAGE
except NameError:
    EXTRA_COVERAGE = {}


def extra_checks(tier):
    import subprocess
    import translate_sobol as ts
    src = core.REPO / "xplique/attributions/global_sensitivity_analysis/sobol_estimators.py"
    info = dict(source=str(src))
    EXTRA_COVERAGE["translator_tie"] = info
    try:
        text = ts.generate_coq(src)
    except (ts.TranslationError, SyntaxError, OSError) as e:
        info.update(status="disabled: construct outside the supported subset", detail=str(e)[:300])
        return []
    d = core.BUILD / "gen"
    d.mkdir(parents=True, exist_ok=True)
    f = d / "C08Gen.v"
    f.write_text(text)
    p = subprocess.run(["coqc"] + core.COQFLAGS + [str(f)], cwd=d, capture_output=True, text=True, timeout=900)
    closed = p.stdout.count("Closed under the global context")
    if p.returncode == 0 and closed == 5:
        info.update(status="ok", obligations=5, discharged=5,
                    theorems=["gen_jansen_is_model", "gen_homma_is_model", "gen_janon_is_model", "gen_glen_is_model",
                              "gen_saltelli_is_model"])
        return []
    info.update(status="generated definitions differ from the model", log=(p.stderr or p.stdout)[-1500:])
    return [dict(property=PROP, broken="translator tie: a formula generated from sobol_estimators.py is no longer equal to "
                 "the model the C08 theorems are about", generated_file=str(f), log=(p.stderr or p.stdout)[-3000:],
                 no_failing_input=True,
                 note="a concrete failing input, when the change alters values, is reported by the correspondence stream of this same run")]
