"""c10.py — DeconvNet / GuidedBackprop / Grad-CAM / Grad-CAM++ vs coq/C10/Model.v.

Streams (case["stream"]):
  bp     DeconvNet / GuidedBackprop on functional Keras models (dense nets and conv nets) mixing fused relu activations
         (string 'relu', tf.nn.relu), Activation('relu') layers, ReLU(max_value, threshold) layers, and layers the
         override must not touch (linear / relu6 activations, LeakyReLU layers, Flatten).  Compared EXACTLY:
         explain(...) vs relu_explainer, explainer.model(x) (the clone) vs clone_forward, model(x) vs forward and the
         plain TensorFlow gradient of the user's model vs backprop (validates the F-net extraction and the true
         ReLU-variant derivatives).  Purity: model(x), get_weights() bytes and the plain gradient of the user's model
         before / after constructing and running the explainer.
  slope  the same with ReLU(negative_slope != 0) layers: validates that the model of override_relu_gradient drops
         negative_slope exactly as the code does (theorem C10_override_forward_negative_slope_refuted).
  cam    GradCAM / GradCAMPP on conv nets, every admissible conv_layer choice (None, name, index >= 1, negative index),
         non-square inputs, real-valued targets, batch sizes; explain(...) vs gradcam / gradcampp where the bicubic
         resize enters as the matrix of the linear map tf.image.resize computes for that pair of sizes (probed on the
         basis with the same call as the code); tolerance 1e-4 * (1 + max |map|).
Convolutions enter the Coq model as the dense matrix of the linear map they compute (probed on the basis with a twin
Keras Conv2D layer carrying the same kernel).
"""
import copy
import json
import numpy as np
import core

PROP = "C10"
IMPORTS = "C10.Model"
PRELUDE = """
Definition opt_close_scaled (tol s : Qc) (m : option (list (list Qc))) (impl : list (list Qc)) : bool :=
  opt_close tol (option_map (map (map (Qcmult s))) m) (map (map (Qcmult s)) impl).
"""
SHARD = 8
TOL = "(q 1 10000)"
RULE = ("bp/slope: dense nets (input 2-5, 1-4 dense layers) and conv nets (input up to 5x5x2, 1-2 Conv2D with kernel 1-2, "
        "stride 1-2, valid/same, then Flatten and 1-2 dense), stand-alone ReLU(max_value in {None,0.5,1,2,4,6}, threshold in "
        "{0,0.5,1,2}) / Activation('relu') / LeakyReLU layers after any layer, fused activations in {linear, 'relu', tf.nn.relu, "
        "'relu6'}, integer weights in [-2,2], inputs on the k/4 grid, real-valued targets, batch sizes in {1,2,3,N,N+1,32,None}; "
        "cam: same conv nets, conv_layer in {None, name, positive index, negative index} over every layer with a 4-D output; "
        "distinct = different canonical JSON; non-trivial = bp: at least one ReLU (fused or layer) is crossed, cam: at least "
        "2 channels or 2 positions in the chosen layer")
ASSUMPTIONS = ["TensorFlow autodiff applies the registered custom gradient of a tf.custom_gradient function and the true gradient of "
               "every other op (validated: plain gradient of the user's model vs backprop with true rules, exact)",
               "keras.layers.ReLU.static_call semantics (relu / relu6 / x*(x>threshold) / clip_by_value / leaky_relu) and their "
               "TensorFlow gradients at the kinks (validated exactly on dyadic inputs hitting the kinks)",
               "float32 evaluation of the generated nets on dyadic inputs is exact (bp, slope streams compare with equality)",
               "tf.image.resize(BICUBIC) is a fixed linear map for a given pair of sizes (its matrix is probed from the same call); "
               "Grad-CAM(++) compared with tolerance 1e-4*(1+max|map|); Grad-CAM++ cases whose denominator 2+G*avg(A) is within 1e-2 "
               "of 0 for some G != 0 are skipped and counted",
               "GradCAMPP.EPSILON enters float32 arithmetic as float32(1e-4)",
               "user's-model purity is decided by the correspondence only (the Coq model is functional)"]
EPS32 = float(np.float32(1e-4))


# ----------------------------------------------------------------------------- generation
def ints(rng, n, lo=-2, hi=2):
    """small integer weights, biased to positive values so that fewer units are dead"""
    pool = list(range(lo, hi + 1)) + [v for v in range(lo, hi + 1) if v > 0]
    return [rng.choice(pool) for _ in range(n)]


def grid(rng, n, den=4, lo=-2, hi=2):
    return [rng.randint(lo * den, hi * den) / den for _ in range(n)]


def gen_relu_cfg(rng, slope=False):
    return dict(k="relu", max=rng.choice([None, None, None, None, 1.0, 2.0, 6.0, 0.5, 4.0]),
                thr=rng.choice([0.0, 0.0, 0.0, 0.0, 0.25, 0.5, 1.0, 2.0]),
                slope=(rng.choice([0.5, 0.25, 1.0, 2.0]) if slope else 0.0))


def gen_standalone(rng, slope=False):
    r = rng.random()
    if r < 0.6 or slope:
        return gen_relu_cfg(rng, slope)
    if r < 0.8:
        return dict(k="act")
    return dict(k="leaky", alpha=rng.choice([0.5, 0.25, 2.0]))


def gen_act(rng):
    return rng.choice(["relu", "relu", "relu", "linear", "linear", "tfrelu", "relu6"])


def conv_out(n, k, s, pad):
    return -(-n // s) if pad == "same" else (n - k) // s + 1


def gen_arch(rng, conv, slope=False, p_standalone=0.4):
    """returns (shape, layers); layer names are their index in model.layers prefixed by the kind"""
    layers = []
    want_slope = slope

    def maybe_standalone():
        nonlocal want_slope
        if want_slope and rng.random() < 0.6:
            layers.append(gen_standalone(rng, True))
            want_slope = False
        elif rng.random() < p_standalone:
            layers.append(gen_standalone(rng))
    if conv:
        h, w, c = rng.randint(2, 5), rng.randint(2, 5), rng.randint(1, 2)
        if rng.random() < 0.7 and h == w:
            w = h + 1 if h < 5 else h - 1
        shape = [h, w, c]
        for _ in range(rng.randint(1, 2)):
            f = rng.randint(1, 3)
            ks = [rng.randint(1, min(2, h)), rng.randint(1, min(2, w))]
            st = list(rng.choice([(1, 1), (1, 1), (1, 1), (2, 1), (1, 2), (2, 2)]))
            pad = rng.choice(["valid", "same"])
            if c == 1 and st[0] == 1 and st[1] > 1 and conv_out(w, ks[1], st[1], pad) == 1:
                # TensorFlow 2.21 CPU defect seen in this sandbox: for 1 input channel, strides (1, s>1) and output
                # width 1, conv2d on a batch differs from conv2d sample by sample (8100 configurations probed, 96 bad,
                # all in this family) -> the model is not row-wise; not generated
                st = [1, 1]
            layers.append(dict(k="conv", filters=f, ks=ks, strides=st, pad=pad,
                               kernel=[[[ints(rng, f) for _ in range(c)] for _ in range(ks[1])] for _ in range(ks[0])],
                               b=ints(rng, f, -1, 1), act=gen_act(rng)))
            h, w, c = conv_out(h, ks[0], st[0], pad), conv_out(w, ks[1], st[1], pad), f
            maybe_standalone()
        layers.append(dict(k="flatten"))
        prev = h * w * c
        ndense = rng.randint(1, 2)
    else:
        prev = rng.randint(2, 5)
        shape = [prev]
        ndense = rng.randint(1, 4)
    for i in range(ndense):
        u = rng.randint(1, 3) if i == ndense - 1 else rng.randint(1, 4)
        last = i == ndense - 1
        layers.append(dict(k="dense", W=[ints(rng, prev) for _ in range(u)], b=ints(rng, u, -1, 1),
                           act="linear" if last and rng.random() < 0.6 else gen_act(rng)))
        prev = u
        if not last or rng.random() < 0.3:
            maybe_standalone()
    if want_slope:
        layers.append(gen_standalone(rng, True))
    for i, s in enumerate(layers):
        s["name"] = {"conv": "c", "dense": "d", "relu": "r", "act": "a", "leaky": "k", "flatten": "f"}[s["k"]] + str(i + 1)
    return shape, layers, prev


def gen_targets(rng, n, ncls):
    out = []
    for _ in range(n):
        if rng.random() < 0.4:
            t = [0.0] * ncls
            t[rng.randrange(ncls)] = 1.0
        else:
            t = grid(rng, ncls, 2)
        out.append(t)
    return out


def gen_bs(rng, n):
    return rng.choice([1, 2, 3, n, n + 1, 32, None, None])


def shapes_of(case):
    """output shape of every entry of model.layers (InputLayer first), computed without Keras"""
    cur = list(case["shape"])
    out = [cur]
    for s in case["layers"]:
        if s["k"] == "conv":
            cur = [conv_out(cur[0], s["ks"][0], s["strides"][0], s["pad"]),
                   conv_out(cur[1], s["ks"][1], s["strides"][1], s["pad"]), s["filters"]]
        elif s["k"] == "dense":
            cur = [len(s["W"])]
        elif s["k"] == "flatten":
            cur = [int(np.prod(cur))]
        out.append(cur)
    return out


def gen_bp(rng, slope=False):
    conv = rng.random() < 0.45
    shape, layers, ncls = gen_arch(rng, conv, slope)
    n = rng.choice([1, 2, 3, 3])
    dim = int(np.prod(shape))
    return dict(stream="slope" if slope else "bp", method=rng.choice(["DeconvNet", "GuidedBackprop"]), shape=shape,
                layers=layers, xs=[grid(rng, dim) for _ in range(n)], ts=gen_targets(rng, n, ncls), bs=gen_bs(rng, n),
                reweight=(not slope and rng.random() < 0.3))


def gen_cam(rng):
    shape, layers, ncls = gen_arch(rng, True, slope=(rng.random() < 0.15), p_standalone=0.35)
    n = rng.choice([1, 2, 3, 3])
    dim = int(np.prod(shape))
    shp = shapes_of(dict(shape=shape, layers=layers))
    cands = [i for i in range(1, len(shp)) if len(shp[i]) == 3]
    total = len(shp)
    r = rng.random()
    if r < 0.3:
        cl = None
    else:
        i = rng.choice(cands)
        cl = layers[i - 1]["name"] if r < 0.55 else i if r < 0.78 else i - total
    case = dict(stream="cam", method=rng.choice(["GradCAM", "GradCAMPP"]), shape=shape, layers=layers, conv_layer=cl,
                output_layer=None, xs=[grid(rng, dim) for _ in range(n)], ts=gen_targets(rng, n, ncls), bs=gen_bs(rng, n))
    # combine with output_layer: the explained model is truncated at layers[-2], the conv layer is still chosen in the
    # USER's model (a negative conv_layer index counts from the end of the full model)
    # small real-valued targets (confident heads, small gradients): the channel weights of Grad-CAM++ must not collapse
    if rng.random() < 0.3:
        k = rng.choice([10, 12, 14, 16, 18, 20, 22, 24])      # down to gradients of 1e-7: g^2 and g^3 are still normal float32 numbers
        case["tscale"] = k
        case["ts"] = [[v * 2.0 ** -k for v in t] for t in case["ts"]]
    if total - 2 > max(cands) and len(shp[total - 2]) == 1 and rng.random() < 0.45:
        case["output_layer"] = rng.choice([-2, layers[total - 3]["name"]])
        case["ts"] = gen_targets(rng, n, shp[total - 2][0])
        if case.get("tscale"):
            case["ts"] = [[v * 2.0 ** -case["tscale"] for v in t] for t in case["ts"]]
    return case


def _with_frozen(rng, cases):
    for c in cases:
        if isinstance(c, dict) and "layers" in c:
            c["frozen"] = rng.choice([None, None, None, "first", "first", "all"])
            if c.get("stream") in ("bp", "slope"):
                c["bp_ol"] = rng.random() < 0.4
    return cases


def generate(rng, tier):
    nb, ns, nc = (70, 5, 60) if tier == "quick" else (700, 60, 600)
    return _with_frozen(rng, [gen_bp(rng) for _ in range(nb)] + [gen_bp(rng, True) for _ in range(ns)] + [gen_cam(rng) for _ in range(nc)])


def explained(case):
    """the case whose net is the model the explainer must explain (truncated at output_layer when given)"""
    if case.get("output_layer") is None:
        return case
    c = dict(case)
    c["layers"] = case["layers"][:-1]
    return c


def chosen_index(case):
    """index into model.layers of the layer Grad-CAM must use (harness-side reading of the documentation)"""
    shp = shapes_of(case)
    cl = case["conv_layer"]
    if cl is None:
        return max(i for i, s in enumerate(case["layers"], start=1) if s["k"] == "conv")
    if isinstance(cl, str):
        return 1 + [s["name"] for s in case["layers"]].index(cl)
    return cl if cl >= 0 else len(shp) + cl


def n_relus(case):
    return sum(1 for s in case["layers"] if s["k"] in ("relu", "act") or s.get("act") in ("relu", "tfrelu"))


def nontrivial(case):
    if case["stream"] in ("bp", "slope"):
        return n_relus(case) >= 1
    s = shapes_of(case)[chosen_index(case)]
    return s[2] >= 2 or s[0] * s[1] >= 2


def distribution(cases):
    bp = [c for c in cases if c["stream"] != "cam"]
    cam = [c for c in cases if c["stream"] == "cam"]

    def bsc(c):
        n = len(c["xs"])
        return "None" if c["bs"] is None else "lt" if c["bs"] < n else "eq" if c["bs"] == n else "gt"
    return dict(stream=core.hist(c["stream"] for c in cases), method=core.hist(c["method"] for c in cases),
                bp_arch=core.hist("conv" if len(c["shape"]) == 3 else "dense" for c in bp),
                bp_depth=core.hist(sum(1 for s in c["layers"] if s["k"] in ("conv", "dense")) for c in bp),
                bp_relu_layers=core.hist(sum(1 for s in c["layers"] if s["k"] == "relu") for c in bp),
                bp_relu_variant=core.hist(("max" if s["max"] is not None else "") + ("thr" if s["thr"] else "") or "std"
                                          for c in bp for s in c["layers"] if s["k"] == "relu"),
                bp_fused=core.hist(s["act"] for c in bp for s in c["layers"] if "act" in s and s["k"] != "act"),
                cam_choice=core.hist("None" if c["conv_layer"] is None else "name" if isinstance(c["conv_layer"], str) else
                                     "neg" if c["conv_layer"] < 0 else "pos" for c in cam),
                cam_layer_kind=core.hist(c["layers"][chosen_index(c) - 1]["k"] for c in cam),
                cam_nonsquare=core.hist(c["shape"][0] != c["shape"][1] for c in cam),
                batch_class=core.hist(bsc(c) for c in cases), n_inputs=core.hist(len(c["xs"]) for c in cases))


# ----------------------------------------------------------------------------- Keras side
def _act(name):
    import tensorflow as tf
    return {"linear": None, "relu": "relu", "tfrelu": tf.nn.relu, "relu6": "relu6"}[name]


def build_keras(case):
    import keras
    L = keras.layers
    inp = keras.Input(tuple(case["shape"]), name="input")
    h = inp
    layers = []
    for s in case["layers"]:
        k = s["k"]
        if k == "dense":
            lay = L.Dense(len(s["W"]), activation=_act(s["act"]), name=s["name"])
        elif k == "conv":
            lay = L.Conv2D(s["filters"], tuple(s["ks"]), strides=tuple(s["strides"]), padding=s["pad"],
                           activation=_act(s["act"]), name=s["name"])
        elif k == "relu":
            lay = L.ReLU(max_value=s["max"], negative_slope=s["slope"], threshold=s["thr"], name=s["name"])
        elif k == "act":
            lay = L.Activation("relu", name=s["name"])
        elif k == "leaky":
            lay = L.LeakyReLU(negative_slope=s["alpha"], name=s["name"])
        else:
            lay = L.Flatten(name=s["name"])
        h = lay(h)
        layers.append(lay)
    model = keras.Model(inp, h)
    for lay, s in zip(layers, case["layers"]):
        if s["k"] == "dense":
            lay.set_weights([np.array(s["W"], np.float32).T, np.array(s["b"], np.float32)])
        elif s["k"] == "conv":
            lay.set_weights([np.array(s["kernel"], np.float32), np.array(s["b"], np.float32)])
    # transfer-learning set-up: frozen layers (their weights are non-trainable variables); the function is the same
    frozen = case.get("frozen")
    if frozen == "all":
        model.trainable = False
    elif frozen == "first":
        for lay, s in zip(layers, case["layers"]):
            if s["k"] in ("dense", "conv"):
                lay.trainable = False
                break
    return model


def plain_gradient(model, xs, ts):
    import tensorflow as tf
    x = tf.constant(xs)
    with tf.GradientTape() as tape:
        tape.watch(x)
        s = tf.reduce_sum(model(x) * tf.constant(ts))
    return tape.gradient(s, x).numpy()


def fingerprint(model, xs, ts):
    return (model(xs).numpy().tobytes(), b"|".join(w.tobytes() for w in model.get_weights()),
            plain_gradient(model, xs, ts).tobytes(),
            tuple(type(l).__name__ for l in model.layers), tuple(id(l) for l in model.layers))


def rows(a, n):
    return [[float(v) for v in r] for r in np.asarray(a).reshape(n, -1)]


def run_impl(case):
    import tensorflow as tf
    import xplique.attributions as xa
    full_model = build_keras(case)
    ol = case.get("output_layer")
    if ol is None:
        model = full_model
    else:
        import keras as _k
        model = _k.Model(full_model.input, full_model.layers[-2].output)     # the model the explainer must explain
    n = len(case["xs"])
    xs = np.array(case["xs"], np.float32).reshape([n] + case["shape"])
    ts = np.array(case["ts"], np.float32)
    before = fingerprint(model, xs, ts)
    res = dict(user_out=rows(model(xs), n), user_grad=rows(plain_gradient(model, xs, ts), n))
    # row-wise assumption on the user's model (hypothesis of the theorems): a batch is evaluated sample by sample
    res["rowwise"] = bool(np.array_equal(np.asarray(model(xs)), np.concatenate([np.asarray(model(xs[i:i + 1])) for i in range(n)])))
    if case["stream"] in ("bp", "slope"):
        # bp_ol: the same explainer requested through output_layer = the model's own last layer (same function; the
        # white-box reconfiguration path hands the explainer a model that SHARES its layers with the user's)
        okw = dict(output_layer=-1) if case.get("bp_ol") else {}
        expl = getattr(xa, case["method"])(model, batch_size=case["bs"], reducer=None, **okw)
        out = np.asarray(expl.explain(xs, ts))
        if list(out.shape) != [n] + case["shape"]:
            raise AssertionError(f"explain returned shape {out.shape}")
        res["maps"] = rows(out, n)
        res["clone_out"] = rows(expl.model(xs), n)
        res["clone_distinct"] = expl.model is not model
        if case.get("reweight"):
            # history: the user changes the weights of the SAME model object (further training), then builds a new explainer
            model.set_weights([2.0 * w for w in model.get_weights()])
            expl2 = getattr(xa, case["method"])(model, batch_size=case["bs"], reducer=None)
            res["maps2"] = rows(np.asarray(expl2.explain(xs, ts)), n)
            res["clone_out2"] = rows(expl2.model(xs), n)
            model.set_weights([0.5 * w for w in model.get_weights()])
    else:
        kw = {} if ol is None else dict(output_layer=ol)
        expl = getattr(xa, case["method"])(full_model, batch_size=case["bs"], conv_layer=case["conv_layer"], **kw)
        out = np.asarray(expl.explain(xs, ts))
        if list(out.shape) != [n] + case["shape"][:2] + [1]:
            raise AssertionError(f"explain returned shape {out.shape}")
        res["maps"] = rows(out, n)
        res["chosen"] = expl.conv_layer.name
        # guard of the Grad-CAM++ division (harness-side, plain TensorFlow on the user's model)
        idx = chosen_index(case)
        import keras
        two = keras.Model(full_model.input, [full_model.layers[idx].output, model.output])
        x = tf.constant(xs)
        with tf.GradientTape() as tape:
            tape.watch(x)
            a, p = two(x)
            s = tf.reduce_sum(p * tf.constant(ts))
        g = tape.gradient(s, a).numpy().astype(np.float64)
        avg = a.numpy().astype(np.float64).mean(axis=(1, 2), keepdims=True)
        d = np.abs(2.0 + g * avg)[g != 0]
        res["pp_margin"] = float(d.min()) if d.size else 2.0
    after = fingerprint(model, xs, ts)
    res["pure"] = [bool(a == b) for a, b in zip(before, after)]
    return res


_conv_cache = {}


def conv_matrix(s, in_shape):
    """(W, b): rows of the linear map computed by the Conv2D layer on row-major flat data, by probing a twin layer"""
    key = json.dumps([s["filters"], s["ks"], s["strides"], s["pad"], s["kernel"], s["b"], in_shape])
    if key not in _conv_cache:
        import keras
        twin = keras.layers.Conv2D(s["filters"], tuple(s["ks"]), strides=tuple(s["strides"]), padding=s["pad"])
        n_in = int(np.prod(in_shape))
        twin.build((None,) + tuple(in_shape))
        twin.set_weights([np.array(s["kernel"], np.float32), np.array(s["b"], np.float32)])
        zero = np.asarray(twin(np.zeros([1] + list(in_shape), np.float32))).reshape(-1)
        basis = np.eye(n_in, dtype=np.float32).reshape([n_in] + list(in_shape))
        outs = np.stack([np.asarray(twin(basis[i:i + 1])).reshape(-1) for i in range(n_in)])   # one sample at a time
        _conv_cache[key] = ((outs - zero[None, :]).T.tolist(), zero.tolist())
    return _conv_cache[key]


_resize_cache = {}


def resize_matrix(hp, wp, h, w):
    key = (hp, wp, h, w)
    if key not in _resize_cache:
        import tensorflow as tf
        n = hp * wp
        e = np.eye(n, dtype=np.float32).reshape(n, hp, wp, 1)
        out = tf.map_fn(fn=lambda g: tf.image.resize(g, (h, w), method=tf.image.ResizeMethod.BICUBIC), elems=tf.constant(e))
        _resize_cache[key] = np.asarray(out).reshape(n, h * w).T.tolist()
    return _resize_cache[key]


# ----------------------------------------------------------------------------- Coq side
def cstr(s):
    return f'"{s}"%string'


def coq_act(a):
    return {"linear": "ALin", "relu": "ARelu", "tfrelu": "ARelu", "relu6": "relu6a"}[a]


def coq_cfg(s):
    mx = "None" if s["max"] is None else f"(Some {core.cq(s['max'])})"
    return f"{{| r_max := {mx}; r_thr := {core.cq(s['thr'])}; r_slope := {core.cq(s['slope'])} |}}"


def coq_net(case):
    shp = shapes_of(case)
    terms = [f"mk {cstr('input')} false {shp[0][-1]} OId"]
    for i, s in enumerate(case["layers"], start=1):
        k = s["k"]
        if k == "dense":
            op = f"(ODense {core.cqlist2(s['W'])} {core.cqlist(s['b'])} {coq_act(s['act'])})"
        elif k == "conv":
            W, b = conv_matrix(s, shp[i - 1])
            op = f"(ODense {core.cqlist2(W)} {core.cqlist(b)} {coq_act(s['act'])})"
        elif k == "relu":
            op = f"(ORelu {coq_cfg(s)})"
        elif k == "act":
            op = "(OAct ARelu)"
        elif k == "leaky":
            op = f"(OAct (leaky {core.cq(s['alpha'])}))"
        else:
            op = "OId"
        terms.append(f"mk {cstr(s['name'])} {core.cbool(k == 'conv')} {shp[i][-1]} {op}")
    return core.cl(terms)


def coq_bs(case):
    return core.copt(None if case["bs"] is None else core.cnat(case["bs"]))


def coq_choice(case):
    cl = case["conv_layer"]
    if case.get("output_layer") is not None:
        # the layer is chosen in the USER's model; in the truncated net it keeps its (non-negative) index
        return f"(Some (ByIndex ({chosen_index(case)})%Z))"
    if cl is None:
        return "None"
    if isinstance(cl, str):
        return f"(Some (ByName {cstr(cl)}))"
    return f"(Some (ByIndex ({cl})%Z))"


def cam_model(case):
    shp = shapes_of(case)
    hp, wp, _ = shp[chosen_index(case)]
    R = core.cqlist2(resize_matrix(hp, wp, case["shape"][0], case["shape"][1]))
    head = "gradcam" if case["method"] == "GradCAM" else f"gradcampp {core.cq(EPS32)}"
    return (f"({head} (matvec {R}) net {coq_choice(case)} {coq_bs(case)} {core.cqlist2(case['xs'])} "
            f"{core.cqlist2(case['ts'])})")


def doubled(case):
    """the same net with every kernel and bias doubled (model.set_weights([2 * w ...]))"""
    c = copy.deepcopy(case)
    for l in c["layers"]:
        if l["k"] == "dense":
            l["W"] = [[2 * v for v in row] for row in l["W"]]
            l["b"] = [2 * v for v in l["b"]]
        elif l["k"] == "conv":
            l["kernel"] = (2 * np.array(l["kernel"])).tolist()
            l["b"] = [2 * v for v in l["b"]]
    return c


def policy(case):
    return "PDeconv" if case["method"] == "DeconvNet" else "PGuided"


def coq_term(case, res, faithful=False):
    if not res["rowwise"]:
        return None           # TensorFlow evaluated the batch differently from its samples: hypothesis not met, counted
    if not all(res["pure"]):
        return "false"
    xs, ts = core.cqlist2(case["xs"]), core.cqlist2(case["ts"])
    common = (f"qlist2_eqb (map (forward net) {xs}) {core.cqlist2(res['user_out'])} && "
              f"qlist2_eqb (batch_gradient net None {xs} {ts}) {core.cqlist2(res['user_grad'])}")
    if case["stream"] == "slope" and not faithful:
        # the PROPERTY: the clone's forward outputs are the user's model's forward outputs
        body = f"qlist2_eqb (map (forward net) {xs}) {core.cqlist2(res['clone_out'])} && {common}"
    elif case["stream"] in ("bp", "slope"):
        if not res["clone_distinct"]:
            return "false"
        body = (f"qlist2_eqb (relu_explainer {policy(case)} net {coq_bs(case)} {xs} {ts}) {core.cqlist2(res['maps'])} && "
                f"qlist2_eqb (map (clone_forward {policy(case)} net) {xs}) {core.cqlist2(res['clone_out'])} && {common}")
        if case.get("reweight") and not faithful:
            if "maps2" not in res:
                return "false"
            c2 = doubled(case)
            body += (f" && (let net := {coq_net(c2)} in "
                     f"qlist2_eqb (relu_explainer {policy(case)} net {coq_bs(case)} {xs} {ts}) {core.cqlist2(res['maps2'])} && "
                     f"qlist2_eqb (map (clone_forward {policy(case)} net) {xs}) {core.cqlist2(res['clone_out2'])})")
    else:
        if case["method"] == "GradCAMPP" and res["pp_margin"] < 1e-2:
            return None
        if case.get("tscale"):
            sc = core.cq(2.0 ** case["tscale"])
            body = f"opt_close_scaled {TOL} {sc} {cam_model(case)} {core.cqlist2(res['maps'])} && {common}"
        else:
            body = f"opt_close {TOL} {cam_model(case)} {core.cqlist2(res['maps'])} && {common}"
    return f"(let net := {coq_net(explained(case))} in {body})%bool"


def classify_known(case, res, err, known):
    """KNOWN-FINDING C10-negative-slope: only for a case containing a ReLU layer with negative_slope != 0 whose
       implementation outputs (explain, clone forward, user forward, user gradient) are exactly what the faithful model of
       override_relu_gradient (which drops negative_slope) predicts"""
    if err is not None or res is None or case.get("stream") != "slope":
        return None
    if not any(e.get("id") == "C10-negative-slope" and e.get("status") == "known" for e in known):
        return None
    if not any(s["k"] == "relu" and s["slope"] != 0 for s in case["layers"]):
        return None
    term = coq_term(case, res, faithful=True)
    if term is None or term == "false":
        return None
    ok = core.coq_eval_bools(f"{PROP}_known", IMPORTS, "", [term])
    return "C10-negative-slope" if ok and ok[0] else None


def dump_term(case, res):
    xs, ts = core.cqlist2(case["xs"]), core.cqlist2(case["ts"])
    if case["stream"] in ("bp", "slope"):
        body = (f"[map (map qdump) (relu_explainer {policy(case)} net {coq_bs(case)} {xs} {ts}); "
                f"map (map qdump) (map (clone_forward {policy(case)} net) {xs}); map (map qdump) (map (forward net) {xs}); "
                f"map (map qdump) (batch_gradient net None {xs} {ts})]")
    else:
        body = (f"[match {cam_model(case)} with Some m => map (map qdump) m | None => [] end; "
                f"map (map qdump) (map (forward net) {xs}); map (map qdump) (batch_gradient net None {xs} {ts})]")
    return f"(let net := {coq_net(explained(case))} in {body})"


def _diffs(model, impl, tol=0.0):
    bad = []
    if len(model) != len(impl):
        return [dict(lengths=[len(model), len(impl)])]
    for n, (mm, im) in enumerate(zip(model, impl)):
        if len(mm) != len(im):
            bad.append(dict(sample=n, lengths=[len(mm), len(im)]))
            continue
        scale = 1 + max([abs(core.frac(a)) for a in mm] + [0])
        for p, (a, b) in enumerate(zip(mm, im)):
            if abs(core.frac(a) - core.frac(b)) > tol * scale:
                bad.append(dict(sample=n, position=p, reference=a, reference_float=float(core.frac(a)), implementation=b))
    return bad


def explain_failure(case, res, model):
    if res is None:
        return "implementation raised on a valid configuration"
    if not all(res["pure"]):
        names = ["model(x)", "get_weights()", "plain gradient of the user's model", "layer types", "layer identities"]
        return dict(clause="the model object supplied by the user is never altered",
                    changed=[n for n, ok in zip(names, res["pure"]) if not ok])
    if model is None:
        return "model could not be dumped"
    out = {}
    if case["stream"] in ("bp", "slope"):
        rule = ("keep positive incoming gradients only at every ReLU" if case["method"] == "DeconvNet" else
                "keep positive gradients at positive relu inputs at every ReLU")
        for name, m, i, cl in [("explain", model[0], res["maps"], rule + "; true gradients elsewhere"),
                               ("clone forward", model[1], res["clone_out"], "forward outputs of the clone = forward outputs of the model"),
                               ("F-net forward (harness extraction)", model[2], res["user_out"], "extraction"),
                               ("F-net true gradient (harness extraction)", model[3], res["user_grad"], "extraction")]:
            d = _diffs(m, i)
            if d:
                out[name] = dict(clause=cl, first_differences=d[:6])
        if not res["clone_distinct"]:
            out["clone"] = "explainer.model is the user's model object"
        if case["stream"] == "slope":
            d = _diffs(model[2], res["clone_out"])
            if d:
                out["clone forward vs user's model forward"] = dict(
                    clause="forward outputs unchanged for every ReLU variant (negative_slope != 0 here)", first_differences=d[:6])
    else:
        for name, m, i, cl, tol in [("explain", model[0], res["maps"], "relu(sum_k w_k A_k) with the documented weights, bicubic resize", 1e-4),
                                    ("F-net forward (harness extraction)", model[1], res["user_out"], "extraction", 0.0),
                                    ("F-net true gradient (harness extraction)", model[2], res["user_grad"], "extraction", 0.0)]:
            d = _diffs(m, i, tol)
            if d:
                out[name] = dict(clause=cl, first_differences=d[:6])
        out["layer_used_by_implementation"] = res.get("chosen")
        out["layer_expected"] = (["input"] + [s["name"] for s in case["layers"]])[chosen_index(case)]
    return out


def shrink(case):
    n = len(case["xs"])
    if n > 1:
        for i in range(n):
            c = copy.deepcopy(case)
            del c["xs"][i]
            del c["ts"][i]
            yield c
    if case["bs"] is not None:
        c = copy.deepcopy(case)
        c["bs"] = None
        yield c
    # drop a stand-alone layer (shapes are unchanged)
    for i, s in enumerate(case["layers"]):
        if s["k"] in ("relu", "act", "leaky"):
            if case["stream"] == "cam" and case["conv_layer"] is not None:
                continue
            c = copy.deepcopy(case)
            del c["layers"][i]
            yield c
    # make a fused activation linear
    for i, s in enumerate(case["layers"]):
        if s.get("act") in ("relu6",):
            c = copy.deepcopy(case)
            c["layers"][i]["act"] = "linear"
            yield c
    # simpler targets
    if any(any(v not in (0.0, 1.0) for v in t) for t in case["ts"]):
        c = copy.deepcopy(case)
        c["ts"] = [[1.0] + [0.0] * (len(t) - 1) for t in c["ts"]]
        yield c
