"""c05.py — spatial alignment of the perturbation-based methods vs coq/C05 (index algebra + exact-zero clauses).

Streams (field "stream" of a case):
  nearest      tf.image.resize(method="nearest") of a (g, g) mask whose entries are the cell numbers, against
               C05.Model.upsample_nearest — the primitive validation of nb_idx (exhaustive g <= 7, H, W <= 13)
  gsa_queries  Sobol / HSIC explainers run on a recording NumPy model: every perturbed input handed to the model
               against C08.Model.perturb (whose mask index is cell_of: rows with H, columns with W), for the three
               perturbation functions, H != W
  occlusion    F-region score: Occlusion.explain against the model of C06 (exact), exact 0.0 where
               C05.Spec.occl_untouched says so, tie-tolerant max inside the region
  sobol        F-region score: low-resolution map (explainer.estimator applied to the recorded outputs): exactly 0.0
               on the cells C05.Spec.inert_cell (Jansen; the four other estimators: 0 up to the rounding of their
               cancelling formula), largest value at an active cell (Jansen: no guard, proved; others: one-sided
               guard); final map: largest value in the pixel blocks of the active cells (margin guard);
               corpus/C05: the inert-cell reproduction that exposed the Homma / Saltelli / Glen normalisations
  hsic         the same without the exact-zero clause (margin guards)
  lime/kshap   custom map_to_interpret_space (grid of segments not dividing H, W): the map is coef o mapping, the
               largest value lies in the region (margin guard); KernelShap on additive scores: segments that do not
               touch the region get 0 up to rounding
  lime_index   recording interpretable model with a chosen coef_ and recording NumPy model: masks and returned map
               against C05.Model.lime_mask / lime_gather (exact)
  rise         F-region score, nb_samples 2000 on tiny images: largest value inside the region (margin guard)
"""
import copy
import numpy as np
import core
import families as fam

PROP = "C05"
IMPORTS = "C05.Spec"
SHARD = 40
RULE = ("nearest: every (g, H, W) with g <= 7, H, W <= 13 (quick: all g, H, W with H != W biased; thorough: all); "
        "region streams: images 2..7 x 2..8 with H != W (85%), C in {1,3}, rectangle at each corner / single row / single "
        "column / single pixel / interior / random, positive integer weights on the rectangle, optional positive cross "
        "term, positive dyadic inputs; Occlusion: patch sizes and strides 1..dim (non-tiling included), batch sizes; "
        "Sobol / HSIC: grid 1..4 (not dividing H or W, larger than H included), the three perturbation functions, four "
        "replicated / plain samplers, five Sobol and three HSIC estimators; Lime / KernelShap: block segmentations "
        "(bh, bw) not dividing (H, W); RISE: nb_samples 2000, grid = (H, W) or smaller; distinct = different canonical "
        "JSON encoding; non-trivial = H != W or the grid / patch / segment size does not divide H or W or the region "
        "touches a border")
ASSUMPTIONS = [
    "score is applied row-wise (no cross-sample coupling)",
    "tf.image.resize(nearest) is validated as a primitive against nb_idx on the (g, H, W) listed; bicubic resize, QMC / "
    "LHS draws, sklearn fits, cv2.blur, RISE's random masks are library behaviour: the exact-zero and max-in-region "
    "predicates are evaluated (inside Coq) on the implementation's output",
    "Occlusion on F-region scores with dyadic inputs is exact in float32 (comparison with the C06 model is equality)",
    "'largest attribution inside the region' for RISE, HSIC, Lime, KernelShap (non-additive), Sobol after the bicubic "
    "resize and Sobol estimators other than Jansen is SUPPORT evidence: checked only when the margin between the best "
    "inside and the best outside value exceeds the stated guard; skipped clauses are counted in coverage.extra",
    "Sobol / HSIC final maps are compared at the resolution of the grid: 'inside' = pixels whose grid cell contains a "
    "region pixel (the bicubic map peaks at the centre of a cell, which need not be a region pixel)",
    "HSIC cases are generated with positive scores (the unchanged tree returns NaN when the median output is 0: "
    "RBF width = median; known finding, not exercised)",
    "exact-zero clause of Sobol: bit-exact 0.0 for Jansen (default); for Homma / Saltelli / Janon / Glen the formula "
    "is 0 in exact arithmetic (C05_sobol_zero_inert) but its float64 evaluation cancels var - mean(a*c) + mu^2: checked "
    "with |value| <= 1e-6 * max(1, max |map|) on the estimator applied to the float64 recorded outputs (as found, "
    "before /repo 469446f / 124b443, these gave 1/n resp. -1/(n-1): corpus/C05, C05_sobol_zero_inert_refuted_orig)",
]
EXTRA_COVERAGE = {"clauses_checked": {}, "clauses_skipped_under_margin_guard": {}}

PRELUDE = """
Open Scope Qc_scope.
Definition zero_onb (P : nat -> bool) (l : list Qc) : bool :=
  forallb (fun i => negb (P i) || Qceqb (nthq l i) 0) (seq 0 (length l)).
Definition small_onb (tol : Qc) (P : nat -> bool) (l : list Qc) : bool :=
  forallb (fun i => negb (P i) || Qcleb (Qcabs (nthq l i)) tol) (seq 0 (length l)).
Definition nat_list_eqb := list_eqb Nat.eqb.
Definition bool_list_eqb := list_eqb Bool.eqb.
Definition bool_list2_eqb := list_eqb bool_list_eqb.
Definition pf_of (name : nat) (x0 : list Qc) : perturbation :=
  match name with O => Baseline x0 | S O => Baseline x0 | _ => Amplitude 1 end.
Definition qlist2_close (tol scale : Qc) (a b : list (list Qc)) : bool :=
  Nat.eqb (length a) (length b) && forallb (fun p => qlist_close tol scale (fst p) (snd p)) (combine a b).
Close Scope Qc_scope.
"""

SOBOL_ESTS = ["Jansen", "Homma", "Janon", "Glen", "Saltelli"]
RS_SAMPLERS = ["TFSobolSequenceRS", "ScipySobolSequenceRS", "HaltonSequenceRS", "LatinHypercubeRS"]
PLAIN_SAMPLERS = ["TFSobolSequence", "ScipySobolSequence", "HaltonSequence", "LatinHypercube"]
HSIC_ESTS = ["Binary", "Sobolev", "Rbf"]
PERTS = ["inpainting", "blurring", "amplitude"]

GUARD_LOW = 0.25      # relative margin required on a sampled low-resolution map before a max clause is checked
GUARD_RISE = 0.04
FLOOR = 1e-3          # absolute floor of the scale used by the margin guards


def note(kind, clause, checked):
    d = EXTRA_COVERAGE["clauses_checked" if checked else "clauses_skipped_under_margin_guard"]
    k = f"{kind}:{clause}"
    d[k] = d.get(k, 0) + 1


# ----------------------------------------------------------------------------- generators
def gen_shape(rng, hmax=7, wmax=8):
    h, w = rng.randint(2, hmax), rng.randint(2, wmax)
    if h == w and rng.random() < 0.85:
        w = w + 1 if w < wmax else w - 1
    return h, w, rng.choice([1, 1, 3])


def gen_rect(rng, h, w):
    kind = rng.choice(["tl", "tr", "bl", "br", "row", "col", "pixel", "interior", "random", "random"])
    rh, rw = rng.randint(1, max(1, h // 2)), rng.randint(1, max(1, w // 2))
    if kind == "tl":
        r0, c0 = 0, 0
    elif kind == "tr":
        r0, c0 = 0, w - rw
    elif kind == "bl":
        r0, c0 = h - rh, 0
    elif kind == "br":
        r0, c0 = h - rh, w - rw
    elif kind == "row":
        rh, rw = 1, w
        r0, c0 = rng.randrange(h), 0
    elif kind == "col":
        rh, rw = h, 1
        r0, c0 = 0, rng.randrange(w)
    elif kind == "pixel":
        rh, rw = 1, 1
        r0, c0 = rng.randrange(h), rng.randrange(w)
    elif kind == "interior" and h >= 3 and w >= 3:
        rh, rw = rng.randint(1, h - 2), rng.randint(1, w - 2)
        r0, c0 = rng.randint(1, h - 1 - rh), rng.randint(1, w - 1 - rw)
    else:
        kind = "random"
        rh, rw = rng.randint(1, h), rng.randint(1, w)
        r0, c0 = rng.randint(0, h - rh), rng.randint(0, w - rw)
    return dict(kind=kind, r0=r0, r1=r0 + rh, c0=c0, c1=c0 + rw)


def region_mask(case):
    h, w, _ = case["shape"]
    r = case["rect"]
    m = np.zeros((h, w), bool)
    m[r["r0"]:r["r1"], r["c0"]:r["c1"]] = True
    return m


def gen_region_model(rng, h, w, c, rect, additive=False, bias=None, xlo=5):
    """F-quad member reading the rectangle only, positive weights; inputs positive dyadics (k/8, k >= xlo inside)"""
    dim = h * w * c
    Wt = [0] * dim
    inside = []
    for i in range(rect["r0"], rect["r1"]):
        for j in range(rect["c0"], rect["c1"]):
            for ch in range(c):
                k = (i * w + j) * c + ch
                Wt[k] = rng.randint(1, 3)
                inside.append(k)
    X = []
    if not additive and len(inside) >= 2 and rng.random() < 0.5:
        a, b = rng.sample(inside, 2)
        X.append([a, b, 1])
    x = [rng.randint(1, 16) / 8 for _ in range(dim)]
    for k in inside:
        x[k] = rng.randint(xlo, 16) / 8
    b = bias if bias is not None else rng.choice([0, 1, 2])
    return [dict(b=b, W=Wt, V=[0] * dim, X=X)], x


def small(rng, d):
    return min(rng.randint(1, d), rng.randint(1, d)) if rng.random() < 0.7 else rng.randint(1, d)


def gen_nearest_all():
    return [dict(stream="nearest", g=g, H=H, W=W) for g in range(1, 8) for H in range(1, 14) for W in range(1, 14)]


def gen_occlusion(rng, tier):
    h, w, c = gen_shape(rng, 6, 7)
    rect = gen_rect(rng, h, w)
    params, x = gen_region_model(rng, h, w, c, rect)
    patch = [small(rng, h), small(rng, w)]
    stride = [small(rng, h), small(rng, w)]
    if rng.random() < 0.25:
        m = min(h, w)
        patch, stride = small(rng, m), small(rng, m)
    case = dict(stream="occlusion", shape=[h, w, c], rect=rect, params=params, x=x, patch=patch, stride=stride,
                v=rng.choice([0.0, 0.0, 0.125, -1.0]))
    case["bs"] = rng.choice([1, 2, 3, None, None, rng.randint(1, 12)])
    return case


def gen_sobol(rng, tier, stream="sobol"):
    h, w, c = gen_shape(rng)
    rect = gen_rect(rng, h, w)
    g = rng.choice([1, 2, 2, 3, 3, 4])
    n = rng.choice([4, 8, 8, 16] if g < 4 else [4, 8])
    pert = rng.choice(PERTS)
    params, x = gen_region_model(rng, h, w, c, rect)
    total = n * (g * g + 2)
    est = rng.choice(["default", "Jansen", "Jansen"] + SOBOL_ESTS)
    if est not in ("default", "Jansen"):
        n = rng.choice([8, 16, 32])
    return dict(stream=stream, shape=[h, w, c], rect=rect, params=params, x=x, g=g, n=n, pert=pert,
                sampler=rng.choice(RS_SAMPLERS), est=est,
                bs=rng.choice([1, 3, max(1, total - 1), total, total + 1, 256, rng.randint(1, total + 1)]))


def gen_hsic(rng, tier):
    h, w, c = gen_shape(rng)
    rect = gen_rect(rng, h, w)
    g = rng.choice([2, 2, 3, 3, 4])
    n = rng.choice([64, 96, 128])
    est = rng.choice(["default", "Binary", "Sobolev", "Rbf"])
    binary = True if est in ("default", "Binary") else rng.random() < 0.3
    params, x = gen_region_model(rng, h, w, c, rect)
    # positive outputs under the three perturbation functions (amplitude multiplies by m - 1/2): median != 0
    params[0]["b"] = int(sum(abs(wk) * xk for wk, xk in zip(params[0]["W"], x))) + 4 + \
        (4 if params[0]["X"] else 0)
    return dict(stream="hsic", shape=[h, w, c], rect=rect, params=params, x=x, g=g, n=n, pert=rng.choice(PERTS),
                sampler=rng.choice(PLAIN_SAMPLERS), binary=binary, est=est, decoy=rng.random() < 0.5,
                bs=rng.choice([1, 7, n - 1, n, n + 1, 256]), ebs=rng.choice([None, None, 1, 2, g * g - 1, g * g, g * g + 1]))


def gen_queries(rng, tier):
    h, w, c = gen_shape(rng, 6, 7)
    g = rng.choice([1, 2, 2, 3, 3, 4])
    kind = rng.choice(["sobol", "sobol", "hsic"])
    n = rng.choice([2, 4]) if kind == "sobol" else rng.randint(3, 8)
    dim = h * w * c
    # powers of two with signs: x * m is exact in float32 for every float32 mask value m
    x = [rng.choice([1, -1]) * 2.0 ** rng.randint(-2, 2) for _ in range(dim)]
    case = dict(stream="gsa_queries", method=kind, shape=[h, w, c], g=g, n=n, x=x, pert=rng.choice(PERTS))
    if kind == "sobol":
        case["sampler"] = rng.choice(RS_SAMPLERS)
        total = n * (g * g + 2)
    else:
        case["sampler"] = rng.choice(PLAIN_SAMPLERS)
        case["binary"] = rng.random() < 0.6
        case["est"] = rng.choice(["default", "Binary"]) if case["binary"] else rng.choice(["Sobolev", "Rbf"])
        total = n
    case["bs"] = rng.choice([1, 2, max(1, total - 1), total, total + 1, 256])
    return case


def gen_segments(rng, h, w):
    bh, bw = small(rng, h), small(rng, w)
    ncols = -(-w // bw)
    nrows = -(-h // bh)
    if nrows * ncols < 3:           # F = 2 is a known finding of KernelShap (C07-kshap-F2); F = 1 is degenerate
        bh, bw = 1, max(1, w // 3)
        ncols = -(-w // bw)
        nrows = h
    mapping = [[(i // bh) * ncols + (j // bw) for j in range(w)] for i in range(h)]
    return bh, bw, mapping


def gen_lime(rng, tier, method=None):
    h, w, c = gen_shape(rng, 6, 7)
    rect = gen_rect(rng, h, w)
    method = method or rng.choice(["lime", "kshap"])
    additive = method == "kshap" and rng.random() < 0.7
    params, x = gen_region_model(rng, h, w, c, rect, additive=additive)
    bh, bw, mapping = gen_segments(rng, h, w)
    return dict(stream=method, shape=[h, w, c], rect=rect, params=params, x=x, block=[bh, bw], mapping=mapping,
                additive=not params[0]["X"], nb_samples=rng.choice([200, 300]), bs=rng.choice([None, 16, 64, 77]),
                tfseed=rng.randrange(10 ** 6))


def gen_lime_index(rng, tier):
    kind = rng.choice(["img", "img", "img", "ts", "tab"])
    if kind == "img":
        h, w, c = gen_shape(rng, 5, 6)
        shape = [h, w, c]
        bh, bw, mapping = gen_segments(rng, h, w)
        if rng.random() < 0.4:      # an arbitrary (non-block) segmentation
            F = rng.randint(2, 6)
            mapping = [[rng.randrange(F) for _ in range(w)] for _ in range(h)]
            mapping[rng.randrange(h)][rng.randrange(w)] = F - 1
    elif kind == "ts":
        h, w = rng.randint(2, 4), rng.randint(2, 5)
        if h == w:
            w += 1
        shape = [h, w]
        F = rng.randint(2, 6)
        mapping = [[rng.randrange(F) for _ in range(w)] for _ in range(h)]
        mapping[0][0] = F - 1
    else:
        w = rng.randint(2, 8)
        shape = [w]
        F = rng.randint(2, 5)
        mapping = [rng.randrange(F) for _ in range(w)]
        mapping[0] = F - 1
    flatmap = list(np.array(mapping).reshape(-1))
    F = int(max(flatmap)) + 1
    coef = rng.sample(range(-20, 21), F) if F <= 41 else list(range(F))
    nb = rng.randint(2, 7)
    return dict(stream="lime_index", kind=kind, shape=shape, mapping=mapping, coef=[float(v) for v in coef],
                nb_samples=nb, bs=rng.choice([None, 1, 2, nb, nb + 1]), method=rng.choice(["lime", "kshap"]),
                tfseed=rng.randrange(10 ** 6), default_ref=rng.random() < 0.5)


def gen_rise(rng, tier):
    h, w = rng.randint(2, 5), rng.randint(2, 6)
    if h == w:
        w += 1
    c = rng.choice([1, 3])
    rect = gen_rect(rng, h, w)
    params, x = gen_region_model(rng, h, w, c, rect, additive=True, xlo=8)
    return dict(stream="rise", shape=[h, w, c], rect=rect, params=params, x=x, nb_samples=2000,
                grid=rng.choice([[h, w], [h, w], max(h, w), [max(2, h - 1), max(2, w - 1)]]), bs=rng.choice([500, 333, None]),
                tfseed=rng.randrange(10 ** 6))


def generate(rng, tier):
    big = tier == "thorough"
    cases = []
    allnn = gen_nearest_all()
    if big:
        cases += allnn
    else:
        rng2 = core.make_rng("C05-nearest")
        nonsq = [c for c in allnn if c["H"] != c["W"]]
        cases += rng2.sample(nonsq, 230) + rng2.sample([c for c in allnn if c["H"] == c["W"]], 20)
    k = 10 if big else 1
    plan = [(gen_queries, 16), (gen_occlusion, 30), (gen_sobol, 30), (gen_hsic, 16), (gen_lime, 20),
            (gen_lime_index, 16), (gen_rise, 8)]
    for f, cnt in plan:
        cases += [f(rng, tier) for _ in range(cnt * k)]
    # always present: HSIC explainers whose (explicit) estimator object is shared with a decoy explainer built on another sampler
    found = 0
    for _ in range(200):
        if found >= 4:
            break
        c = gen_hsic(rng, tier)
        if c["est"] != "default":
            c["decoy"] = True
            cases.append(c)
            found += 1
    return cases


# ----------------------------------------------------------------------------- bookkeeping
def nontrivial(case):
    s = case["stream"]
    if s == "nearest":
        return case["H"] != case["W"] or case["H"] % case["g"] != 0
    if s == "lime_index":
        return len(case["shape"]) >= 2
    h, w = case["shape"][0], case["shape"][1]
    return h != w or any(case.get(k) for k in ("g", "patch", "block"))


def distribution(cases):
    reg = [c for c in cases if "rect" in c]
    return dict(stream=core.hist(c["stream"] for c in cases),
                image=core.hist(f"{c['shape'][0]}x{c['shape'][1]}" for c in reg),
                non_square=core.hist(c["shape"][0] != c["shape"][1] for c in reg),
                channels=core.hist(c["shape"][2] for c in reg),
                region_kind=core.hist(c["rect"]["kind"] for c in reg),
                grid=core.hist(c["g"] for c in cases if "g" in c and c["stream"] != "nearest"),
                grid_divides=core.hist((c["shape"][0] % c["g"] == 0, c["shape"][1] % c["g"] == 0) for c in cases
                                       if "g" in c and c["stream"] != "nearest"),
                perturbation=core.hist(c["pert"] for c in cases if "pert" in c),
                sampler=core.hist(c["sampler"] for c in cases if "sampler" in c),
                estimator=core.hist(c["est"] for c in cases if "est" in c))


# ----------------------------------------------------------------------------- implementation drivers
def _gsa():
    import xplique.attributions.global_sensitivity_analysis as gsa
    return gsa


def f2l(a):
    return [float(v) for v in np.asarray(a, dtype=np.float64).reshape(-1)]


def _image(case):
    h, w, c = case["shape"]
    return np.array(case["x"], np.float32).reshape(1, h, w, c)


def run_nearest(case):
    import tensorflow as tf
    g, H, W = case["g"], case["H"], case["W"]
    m = np.arange(g * g, dtype=np.float32).reshape(1, g, g, 1)
    up = tf.image.resize(m, (H, W), method="nearest").numpy()
    if up.shape != (1, H, W, 1):
        raise AssertionError(f"resize returned shape {up.shape}")
    return dict(up=[int(v) for v in up.reshape(-1)])


def hsic_estimator(name):
    gsa = _gsa()
    return None if name == "default" else getattr(gsa, name + "Estimator")()


def baseline(case):
    h, w, c = case["shape"]
    if case["pert"] == "blurring":
        import cv2
        x0 = cv2.blur(np.array(case["x"], np.float32).reshape(h, w, c).copy(), (10, 10))
        return f2l(np.asarray(x0, np.float32))
    return [0.0] * (h * w * c)


def build_gsa(case, model, method):
    gsa = _gsa()
    g, n = case["g"], case["n"]
    if method == "sobol":
        est = None if case.get("est", "default") == "default" else getattr(gsa, case["est"] + "Estimator")()
        return gsa.SobolAttributionMethod(model, grid_size=g, nb_design=n, sampler=getattr(gsa, case["sampler"])(),
                                          estimator=est, perturbation_function=case["pert"], batch_size=case["bs"])
    shared = hsic_estimator(case.get("est", "default"))
    if case.get("decoy") and shared is not None:
        # history: ONE estimator object serves two explainers of the same grid / nb_design built on different samplers;
        # the other one explains first.  The map of each must still be aligned with what ITS masks hid.
        other = [s for s in PLAIN_SAMPLERS if s != case["sampler"]][(g + n) % (len(PLAIN_SAMPLERS) - 1)]
        decoy = gsa.HsicAttributionMethod(fam.FQuadNumpy(case["params"]), grid_size=g, nb_design=n,
                                          sampler=getattr(gsa, other)(binary=case["binary"]), estimator=shared,
                                          perturbation_function=case["pert"], batch_size=case["bs"],
                                          estimator_batch_size=case.get("ebs"))
        decoy.explain(_image(case), np.ones((1, 1), np.float32))
    return gsa.HsicAttributionMethod(model, grid_size=g, nb_design=n,
                                     sampler=getattr(gsa, case["sampler"])(binary=case["binary"]),
                                     estimator=shared,
                                     perturbation_function=case["pert"], batch_size=case["bs"],
                                     estimator_batch_size=case.get("ebs"))


class Recorder:
    """NumPy callable returning one constant class; records every query"""
    def __init__(self):
        self.queries = []

    def __call__(self, x):
        x = np.asarray(x)
        self.queries.extend(x.reshape(x.shape[0], -1).astype(np.float64).copy())
        return np.ones((x.shape[0], 1), np.float64)


def run_queries(case):
    h, w, c = case["shape"]
    rec = Recorder()
    expl = build_gsa(case, rec, case["method"])
    masks = np.asarray(expl.masks)
    g = case["g"]
    if masks.shape[1:] != (g, g, 1):
        raise AssertionError(f"explainer.masks has shape {masks.shape}")
    try:
        expl.explain(_image(case), np.ones((1, 1), np.float32))
    except Exception:
        if not rec.queries:
            raise
        # a constant model has zero variance: the estimator may fail AFTER the queries were made; they are what we want
    q = np.array(rec.queries)
    if q.shape != (masks.shape[0], h * w * c):
        raise AssertionError(f"{q.shape} recorded queries, expected {(masks.shape[0], h * w * c)}")
    return dict(masks=[f2l(m) for m in masks], queries=[f2l(r) for r in q], x0=baseline(case))


def run_occlusion(case):
    from xplique.attributions import Occlusion
    model = fam.FQuadNumpy(case["params"])
    conv = (lambda a: tuple(a) if isinstance(a, list) else a)
    expl = Occlusion(model, batch_size=case["bs"], patch_size=conv(case["patch"]), patch_stride=conv(case["stride"]),
                     occlusion_value=case["v"])
    out = np.asarray(expl.explain(_image(case), np.ones((1, 1), np.float32)))
    h, w, _ = case["shape"]
    if out.shape[:3] != (1, h, w):
        raise AssertionError(f"explain returned shape {out.shape}")
    return dict(map=f2l(out[0]))


def run_gsa_region(case):
    h, w, c = case["shape"]
    g, n = case["g"], case["n"]
    method = case["stream"]
    model = fam.FQuadNumpy(case["params"], record=True)
    plain = fam.FQuadNumpy(case["params"])
    expl = build_gsa(case, model, method)
    out = np.asarray(expl.explain(_image(case), np.ones((1, 1), np.float32)))
    if out.shape[:3] != (1, h, w):
        raise AssertionError(f"explain returned shape {out.shape}")
    q = np.array(model.queries, dtype=np.float64)
    total = n * (g * g + 2) if method == "sobol" else n
    if q.shape[0] != total:
        raise AssertionError(f"{q.shape[0]} model queries, expected {total}")
    scores = plain(q)[:, 0]
    low = np.asarray(expl.estimator(expl.masks, scores, n))
    if low.shape != (g, g, 1):
        raise AssertionError(f"estimator returned shape {low.shape}")
    res = dict(low=f2l(low), final=f2l(out[0]), outputs=f2l(scores))
    for k in ("low", "final"):
        if not np.all(np.isfinite(res[k])):
            if method == "sobol" and len(set(res["outputs"][:n])) == 1:
                return dict(skip="zero variance of the outputs on A")
            raise AssertionError(f"non-finite {k} map on a non-degenerate configuration (median of outputs "
                                 f"{float(np.median(scores))})")
    return res


def run_lime(case):
    import tensorflow as tf
    from xplique.attributions import Lime, KernelShap
    h, w, c = case["shape"]
    mapping = tf.constant(np.array(case["mapping"]), tf.int32)
    model = fam.FQuadNumpy(case["params"])
    tf.random.set_seed(case["tfseed"])
    cls = Lime if case["stream"] == "lime" else KernelShap
    expl = cls(model, batch_size=case["bs"], map_to_interpret_space=lambda inp: mapping, nb_samples=case["nb_samples"])
    out = np.asarray(expl.explain(_image(case), np.ones((1, 1), np.float32)))
    if out.shape[:3] != (1, h, w):
        raise AssertionError(f"explain returned shape {out.shape}")
    return dict(map=f2l(out[0]))


class RecFit:
    """interpretable model: records X and returns a chosen coef_"""
    def __init__(self, coef):
        self.coef = np.array(coef, np.float64)
        self.X = None

    def fit(self, X, y, sample_weight=None):
        self.X = np.asarray(X).copy()
        self.coef_ = self.coef.copy()
        return self

    def predict(self, X):
        return np.zeros(len(X))


def run_lime_index(case):
    import tensorflow as tf
    from xplique.attributions import Lime, KernelShap
    shape = case["shape"]
    mapping = tf.constant(np.array(case["mapping"]), tf.int32)
    rec = Recorder()
    fit = RecFit(case["coef"])
    tf.random.set_seed(case["tfseed"])
    # ones everywhere, reference 0: the perturbed sample IS the mask (repeated along the channels)
    chan = shape[2] if len(shape) == 3 else 1
    kw = dict(batch_size=case["bs"], map_to_interpret_space=lambda inp: mapping, nb_samples=case["nb_samples"],
              ref_value=np.zeros(chan, np.float32))
    if case.get("default_ref") and (len(shape) != 3 or chan == 1):
        # the documented default reference of single-channel images, time series and tabular data is 0 as well
        kw["ref_value"] = None
    if case["method"] == "lime":
        expl = Lime(rec, interpretable_model=fit, **kw)
    else:
        expl = KernelShap(rec, **kw)
        expl.interpretable_model = fit
    x = np.ones([1] + shape, np.float32)
    out = np.asarray(expl.explain(x, np.ones((1, 1), np.float32)))
    if fit.X is None:
        raise AssertionError("the interpretable model was never fitted")
    q = np.array(rec.queries)
    if q.shape[0] != case["nb_samples"] or fit.X.shape[0] != case["nb_samples"]:
        raise AssertionError(f"{q.shape[0]} queries / {fit.X.shape[0]} samples for nb_samples={case['nb_samples']}")
    if not np.all((q == 0) | (q == 1)):
        raise AssertionError("perturbed samples of an all-ones input with reference 0 are not binary")
    return dict(Z=[[bool(v) for v in r] for r in fit.X], queries=[[bool(v) for v in r] for r in q], map=f2l(out[0]),
                out_shape=list(out.shape))


def run_rise(case):
    import tensorflow as tf
    from xplique.attributions import Rise
    h, w, c = case["shape"]
    model = fam.FQuadNumpy(case["params"])
    tf.random.set_seed(case["tfseed"])
    grid = tuple(case["grid"]) if isinstance(case["grid"], list) else case["grid"]
    expl = Rise(model, batch_size=case["bs"], nb_samples=case["nb_samples"], grid_size=grid)
    out = np.asarray(expl.explain(_image(case), np.ones((1, 1), np.float32)))
    if out.shape[:3] != (1, h, w):
        raise AssertionError(f"explain returned shape {out.shape}")
    return dict(map=f2l(out[0]))


def run_impl(case):
    s = case["stream"]
    if s == "nearest":
        return run_nearest(case)
    if s == "gsa_queries":
        return run_queries(case)
    if s == "occlusion":
        return run_occlusion(case)
    if s in ("sobol", "hsic"):
        return run_gsa_region(case)
    if s in ("lime", "kshap"):
        return run_lime(case)
    if s == "lime_index":
        return run_lime_index(case)
    if s == "rise":
        return run_rise(case)
    raise core.HarnessError(f"unknown stream {s}")


# ----------------------------------------------------------------------------- Coq terms
def cn(n):
    return core.cnat(n)


def rect_term(case):
    w = case["shape"][1]
    r = case["rect"]
    return f"(rect {cn(w)} {cn(r['r0'])} {cn(r['r1'])} {cn(r['c0'])} {cn(r['c1'])})"


def geom_term(case):
    h, w, c = case["shape"]
    p = case["patch"] if isinstance(case["patch"], list) else [case["patch"]] * 2
    s = case["stride"] if isinstance(case["stride"], list) else [case["stride"]] * 2
    return f"(Grid {cn(h)} {cn(w)} {cn(c)} {cn(p[0])} {cn(p[1])} {cn(s[0])} {cn(s[1])})"


def margin(values, inside):
    """(best inside, best outside or None)"""
    v = np.asarray(values, np.float64).reshape(-1)
    ins = np.asarray(inside, bool).reshape(-1)
    return float(v[ins].max()), (float(v[~ins].max()) if (~ins).any() else None)


def nb_idx(g, n, i):
    return min(((2 * i + 1) * g) // (2 * n), g - 1)


def active_cells(case):
    h, w, _ = case["shape"]
    g = case["g"]
    act = np.zeros(g * g, bool)
    reg = region_mask(case)
    for i in range(h):
        for j in range(w):
            if reg[i, j]:
                act[nb_idx(g, h, i) * g + nb_idx(g, w, j)] = True
    return act


def active_pixels(case):
    h, w, _ = case["shape"]
    g = case["g"]
    act = active_cells(case)
    return np.array([[act[nb_idx(g, h, i) * g + nb_idx(g, w, j)] for j in range(w)] for i in range(h)])


def term_nearest(case, res):
    g, H, W = cn(case["g"]), cn(case["H"]), cn(case["W"])
    return (f"nat_list_eqb (concat (upsample_nearest 0%nat {g} {H} {W} (reshape2 {g} {g} (seq 0 ({g} * {g}))))) "
            f"{core.cnatlist(res['up'])}")


def term_queries(case, res):
    h, w, c = case["shape"]
    pf = {"inpainting": 0, "blurring": 1, "amplitude": 2}[case["pert"]]
    x = core.cqlist(case["x"])
    model = (f"(map (perturb (pf_of {cn(pf)} {core.cqlist(res['x0'])}) {cn(case['g'])} {cn(h)} {cn(w)} {cn(c)} {x}) "
             f"{core.cqlist2(res['masks'])})")
    if case["pert"] == "inpainting":
        return f"qlist2_eqb {model} {core.cqlist2(res['queries'])}"
    return f"qlist2_close (q 1 1000000) (q 4 1) {model} {core.cqlist2(res['queries'])}"


def term_occlusion(case, res):
    h, w, c = case["shape"]
    bs = core.copt(None if case["bs"] is None else cn(case["bs"]))
    g = geom_term(case)
    m = core.cqlist(res["map"])
    model = (f"(nth 0%nat (occlusion (fquad {fam.coq_fquad(case['params'])}) {g} {bs} {core.cq(case['v'])} "
             f"[{core.cqlist(case['x'])}] [[q 1 1]]) [])")
    note("occlusion", "model_equality+exact_zero+max_inside", True)
    return (f"let R := {rect_term(case)} in let m := {m} in qlist_eqb {model} m && "
            f"zero_onb (occl_untouched {g} R) m && max_insideb (q 0 1) ({cn(h)} * {cn(w)}) R m")


def term_gsa_region(case, res):
    h, w, c = case["shape"]
    g = case["g"]
    geo = f"{cn(g)} {cn(h)} {cn(w)}"
    R = rect_term(case)
    s = case["stream"]
    act = active_cells(case)
    sobol = s == "sobol"
    jansen = sobol and case["est"] in ("default", "Jansen")
    active = f"(fun i => negb (inert_cell {geo} R i))"
    clauses = [f"Nat.eqb (length low) ({cn(g)} * {cn(g)})", f"Nat.eqb (length final) ({cn(h)} * {cn(w)})"]
    nfixed = len(clauses)
    ins, outs = margin(res["low"], act)
    scale = max(abs(ins), abs(outs or 0.0), 1e-30)
    if jansen:
        # proved: C05_sobol_zero_inert, C05_sobol_inert_minimal (no guard)
        clauses.append(f"zero_onb (inert_cell {geo} R) low")
        clauses.append(f"max_insideb (q 0 1) ({cn(g)} * {cn(g)}) {active} low")
        note(s, "low:exact_zero+max_at_active_cell", True)
    elif sobol:
        # proved in exact arithmetic (C05_sobol_zero_inert); float64 evaluation of var - mean(a*c) + mu^2 etc. rounds
        tol = core.cq(float(np.float32(1e-6 * max(1.0, scale))))
        clauses.append(f"small_onb {tol} (inert_cell {geo} R) low")
        note(s, "low:zero_up_to_rounding", True)
    # values below FLOOR are rounding noise of the float32 pipeline (total-order indices are O(1); a degenerate design,
    # e.g. Halton columns that are copies of each other at small n, gives every cell ~0): nothing to compare
    clear = outs is None or abs(ins - outs) >= GUARD_LOW * max(scale, FLOOR)     # symmetric: a clear defeat is a violation
    support = outs is None or ins - outs >= GUARD_LOW * max(scale, FLOOR)        # one-sided: support evidence only
    if s == "hsic":
        if clear:
            clauses.append(f"max_insideb (q 0 1) ({cn(g)} * {cn(g)}) {active} low")
        note(s, "low:max_at_active_cell", clear)
    elif not jansen:
        # Homma / Saltelli / Janon / Glen are high-variance estimators (an active cell can come out negative while
        # the inert ones are 0): statistical clause, one-sided guard
        if support:
            clauses.append(f"max_insideb (q 0 1) ({cn(g)} * {cn(g)}) {active} low")
        note(s, "low:max_at_active_cell(one-sided guard)", support)
    ok_final = support if (sobol and not jansen) else clear
    if ok_final:
        clauses.append(f"max_insideb (q 0 1) ({cn(h)} * {cn(w)}) (active_block {geo} R) final")
    note(s, "final:max_in_active_blocks", ok_final)
    if len(clauses) == nfixed:
        return None
    return (f"let R := {R} in let low := {core.cqlist(res['low'])} in let final := {core.cqlist(res['final'])} in "
            + " && ".join(clauses))


def term_lime(case, res):
    h, w, c = case["shape"]
    s = case["stream"]
    mapping = core.cnatlist(np.array(case["mapping"]).reshape(-1))
    npos = f"({cn(h)} * {cn(w)})"
    flat = list(np.array(case["mapping"]).reshape(-1))
    F = max(flat) + 1
    first = [flat.index(j) if j in flat else 0 for j in range(F)]
    # the map is constant on segments: it is the gather of the values read at one position per segment
    clauses = [f"qlist_eqb (lime_gather (q 0 1) mp (map (nthq m) {core.cnatlist(first)})) m"]
    note(s, "map_is_gather_of_mapping", True)
    reg = region_mask(case)
    ins, outs = margin(res["map"], reg)
    if s == "kshap" and case["additive"]:
        scale = max(1.0, abs(ins))
        clauses.append(f"small_onb {core.cq(float(np.float32(1e-4 * scale)))} "
                       f"(fun p => inert_segment mp R (nth p mp 0%nat)) m")
        clauses.append(f"max_insideb {core.cq(float(np.float32(1e-4 * scale)))} {npos} R m")
        note(s, "additive:zero_on_inert_segments+max_inside", True)
    else:
        sc = max(abs(ins), abs(outs or 0.0), 1e-30)
        # symmetric guard (a clear defeat is a violation); ties (an outside position sharing its segment with a
        # region position) are exact: same gathered value
        ok = outs is None or abs(ins - outs) >= 0.1 * max(sc, FLOOR) or abs(ins - outs) <= 1e-6 * sc
        if ok:
            clauses.append(f"max_insideb (q 0 1) {npos} R m")
        note(s, "max_inside", ok)
    return (f"let R := {rect_term(case)} in let mp := {mapping} in let m := {core.cqlist(res['map'])} in "
            + " && ".join(clauses))


def cbl(bs):
    return core.cl([core.cbool(b) for b in bs])


def term_lime_index(case, res):
    shape = case["shape"]
    chan = shape[2] if len(shape) == 3 else 1
    mapping = core.cnatlist(np.array(case["mapping"]).reshape(-1))
    Z = core.cl([cbl(z) for z in res["Z"]])
    Q = core.cl([cbl(r) for r in res["queries"]])
    expect_shape = [1] + shape[:2] + [1] if len(shape) == 3 else [1] + shape
    ok_shape = core.cbool(res["out_shape"] == expect_shape)
    return (f"let mp := {mapping} in {ok_shape} && "
            f"bool_list2_eqb (map (fun z => rep {cn(chan)} (lime_mask mp z)) {Z}) {Q} && "
            f"qlist_eqb (lime_gather (q 0 1) mp {core.cqlist(case['coef'])}) {core.cqlist(res['map'])}")


def term_rise(case, res):
    h, w, c = case["shape"]
    ins, outs = margin(res["map"], region_mask(case))
    ok = outs is None or abs(ins - outs) >= GUARD_RISE * max(abs(ins), abs(outs), FLOOR)
    note("rise", "max_inside", ok)
    if not ok:
        return None
    return (f"let R := {rect_term(case)} in let m := {core.cqlist(res['map'])} in "
            f"Nat.eqb (length m) ({cn(h)} * {cn(w)}) && max_insideb (q 0 1) ({cn(h)} * {cn(w)}) R m")


def coq_term(case, res):
    if res.get("skip"):
        return None
    s = case["stream"]
    if s == "nearest":
        return term_nearest(case, res)
    if s == "gsa_queries":
        return term_queries(case, res)
    if s == "occlusion":
        return term_occlusion(case, res)
    if s in ("sobol", "hsic"):
        return term_gsa_region(case, res)
    if s in ("lime", "kshap"):
        return term_lime(case, res)
    if s == "lime_index":
        return term_lime_index(case, res)
    return term_rise(case, res)


def dump_term(case, res):
    s = case["stream"]
    if s == "nearest":
        g, H, W = cn(case["g"]), cn(case["H"]), cn(case["W"])
        return f"concat (upsample_nearest 0%nat {g} {H} {W} (reshape2 {g} {g} (seq 0 ({g} * {g}))))"
    if s == "gsa_queries":
        h, w, c = case["shape"]
        return f"map (cell_of {cn(case['g'])} {cn(h)} {cn(w)}) (seq 0 ({cn(h)} * {cn(w)}))"
    if s == "occlusion":
        h, w, c = case["shape"]
        return f"map (occl_untouched {geom_term(case)} {rect_term(case)}) (seq 0 ({cn(h)} * {cn(w)}))"
    if s in ("sobol", "hsic"):
        h, w, c = case["shape"]
        g = cn(case["g"])
        return f"map (inert_cell {g} {cn(h)} {cn(w)} {rect_term(case)}) (seq 0 ({g} * {g}))"
    if s in ("lime", "kshap"):
        mapping = core.cnatlist(np.array(case["mapping"]).reshape(-1))
        F = int(np.max(case["mapping"])) + 1
        return f"map (inert_segment {mapping} {rect_term(case)}) (seq 0 {cn(F)})"
    if s == "lime_index":
        mapping = core.cnatlist(np.array(case["mapping"]).reshape(-1))
        return f"map qdump (lime_gather (q 0 1) {mapping} {core.cqlist(case['coef'])})"
    h, w, c = case["shape"]
    return f"map {rect_term(case)} (seq 0 ({cn(h)} * {cn(w)}))"


def explain_failure(case, res, model):
    s = case["stream"]
    if res is None:
        return "implementation raised on a valid configuration"
    if s == "nearest":
        return dict(clause="tf.image.resize(nearest) index map = nb_idx (rows with H, columns with W)", model_cells=model,
                    tf_cells=res["up"])
    if s == "gsa_queries":
        return dict(clause="perturbed inputs = perturbation formula with mask entry cell_of g H W pos (rows H, columns W)",
                    cell_of_every_position=model)
    if s == "occlusion":
        return dict(clause="Occlusion = C06 model, exactly 0 where no covering patch meets the region, max inside region",
                    region=region_mask(case).astype(int).tolist(), untouched_positions=model, implementation_map=res["map"])
    if s in ("sobol", "hsic"):
        return dict(clause="low-resolution map: 0 on inert cells (Sobol-Jansen), largest value at an active cell; final map: "
                    "largest value in the blocks of the active cells", region=region_mask(case).astype(int).tolist(),
                    inert_cells=model, low=res.get("low"), final=res.get("final"))
    if s in ("lime", "kshap"):
        return dict(clause="map = coef o mapping, largest value in the region, inert segments ~0 (KernelShap additive)",
                    region=region_mask(case).astype(int).tolist(), inert_segments=model, implementation_map=res["map"])
    if s == "lime_index":
        return dict(clause="masks = z o mapping, returned map = coef o mapping", expected_map=model, implementation_map=res["map"])
    return dict(clause="RISE: largest value inside the region (enough samples)", region=model, implementation_map=res["map"])


def shrink(case):
    s = case["stream"]
    if s in ("occlusion", "sobol", "hsic", "lime", "kshap", "rise"):
        if case["params"][0]["X"]:
            c = copy.deepcopy(case)
            c["params"][0]["X"] = []
            yield c
        if case.get("bs") not in (None, 256):
            c = copy.deepcopy(case)
            c["bs"] = None if s in ("occlusion", "lime", "kshap", "rise") else 256
            yield c
        if case["shape"][2] == 3:
            c = copy.deepcopy(case)
            h, w, _ = case["shape"]
            c["shape"] = [h, w, 1]
            c["x"] = case["x"][0::3]
            c["params"][0]["W"] = case["params"][0]["W"][0::3]
            c["params"][0]["V"] = case["params"][0]["V"][0::3]
            c["params"][0]["X"] = []
            yield c
        if s == "sobol" and case["est"] not in ("default", "Jansen"):
            c = copy.deepcopy(case)
            c["est"] = "Jansen"
            yield c
        if s in ("sobol", "hsic") and case["pert"] != "inpainting":
            c = copy.deepcopy(case)
            c["pert"] = "inpainting"
            yield c
