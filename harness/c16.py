"""c16.py — SimilarExamples (KNN search) vs coq/C16/Model.v; tie-tolerant comparison done in Coq (C16/Check.v)."""
import copy
import numpy as np
import core

PROP = "C16"
IMPORTS = "C16.Check"
SHARD = 12
TOL = "(q 1 100000)"     # relative tolerance on d^p for root-form distances (float32 sqrt/pow: measured < 4e-7)
RULE = ("N in 1..14 points on the k/4 grid with duplicated points and distance ties, feature shapes (d), (h,w), (h,w,c); "
        "k in 1..N; batch sizes {None,1,2,N-1,N,N+1,random}; distances manhattan / chebyshev ('chebyshev','inf',np.inf) / "
        "euclidean / Minkowski 1,2,3 / cosine (rational-norm vectors) / user callable; containers numpy, tf, torch tensors, batched and unbatched "
        "tf.data datasets with 1-3 columns or separate label/target datasets; projections none / weight tensor (np, tf) / "
        "target-dependent weight callable / space projection (plain callable or Projection, mappable or not) / both; "
        "random case_returns subsets incl. 'all' and single strings; distinct = different canonical JSON; non-trivial = "
        "several batches or a remainder batch or k larger than a batch, or tied distances")
ASSUMPTIONS = ["queries are independent rows (the search is vectorised over queries)",
               "tf.argsort returns a sorting permutation (any tie-breaking is accepted by the comparison)",
               "manhattan / chebyshev / callable distances of dyadic data are exact in float32 (exact comparison); "
               "euclidean / Minkowski-p are compared in root-free form: |d^p - sum|dx|^p| <= 1e-5 (1 + sum)",
               "cosine distance is exercised on 2-D vectors with rational norms only (|d - model| <= 1e-5)"]

GRID = [k / 4 for k in range(-8, 9)]
SMALL = [-0.5, 0.0, 0.5]


def prod(s):
    p = 1
    for v in s:
        p *= v
    return p


def gen_points(rng, n, dim, tie_heavy):
    vals = SMALL if tie_heavy else GRID
    pts = []
    for _ in range(n):
        if pts and rng.random() < 0.25:
            pts.append(list(rng.choice(pts)))          # duplicated point
        else:
            pts.append([rng.choice(vals) for _ in range(dim)])
    return pts


def gen_proj(rng, shape, ncls):
    """projection description: dict(kind, sp, wk, w / W, how)"""
    dim = prod(shape)
    kind = rng.choice(["none", "none", "wconst", "wconst", "wtarget", "space", "space", "both"])
    p = dict(kind=kind, sp=None, wk="none", how="Projection", mappable=rng.random() < 0.4, wtype=rng.choice(["np", "tf"]))
    if kind in ("space", "both") and len(shape) == 1:
        m = rng.randint(1, 4)
        M = [[rng.choice([-1, 0, 0, 1, 1, 2]) for _ in range(dim)] for _ in range(m)]
        c = [rng.choice([0, 0, 0, 0.5, -0.5]) for _ in range(m)]
        p["sp"] = dict(M=M, c=c)
        dim = m
        if kind == "space":
            p["how"] = rng.choice(["callable", "Projection"])
    elif kind in ("space", "both"):
        p["kind"] = kind = "wconst"
    if kind in ("wconst", "both"):
        p["wk"] = "const"
        p["w"] = [rng.choice([0, 0.5, 1, 1, 2, -1]) for _ in range(dim)]
    if kind == "wtarget":
        p["wk"] = "target"
        p["W"] = [[rng.choice([0, 0.5, 1, 2]) for _ in range(dim)] for _ in range(ncls)]
    return p


DISTS = ["manhattan", "manhattan", "euclidean", "euclidean", "chebyshev", "inf", "npinf", "p1", "p2", "p3", "p9", "p12", "callable",
         "cosine"]
# 2-D vectors on the k/4 grid whose Euclidean norm is rational (cosine distance is then rational); collinear
# pairs give exact ties
PYTH = [[0.75, 1.0], [1.0, 0.75], [-0.75, 1.0], [0.75, -1.0], [1.0, 0.0], [0.0, 1.0], [0.0, -2.0], [2.0, 0.0],
        [1.25, 3.0], [3.0, 1.25], [1.5, 2.0], [-1.5, -2.0], [2.0, 3.75], [-1.0, 0.75], [3.0, -1.25], [-2.0, -1.5]]


def make_cosine(rng, case):
    """cosine needs rational norms: 2-D Pythagorean vectors, no projection (or a uniform positive scaling)"""
    n = case["n"]
    case["shape"] = [2]
    case["cases"] = [list(rng.choice(PYTH)) for _ in range(n)]
    case["qs"] = [list(rng.choice(PYTH)) for _ in case["qs"]]
    if rng.random() < 0.5:
        case["proj"] = dict(kind="none", sp=None, wk="none", how="Projection", mappable=False, wtype="np")
    else:
        # low-magnitude projected vectors (gradient-like: norms around 1e-4 .. 1e-5) included
        w = rng.choice([0.5, 2.0, 1.0, 2.0 ** -14, 2.0 ** -17, 2.0 ** -17])
        case["proj"] = dict(kind="wconst", sp=None, wk="const", w=[w, w], how="Projection", mappable=rng.random() < 0.4,
                            wtype=rng.choice(["np", "tf"]))


RETURNS = ["examples", "distances", "labels", "include_inputs", "indices"]


def gen_returns(rng, has_labels):
    r = rng.random()
    if r < 0.12 and has_labels:
        return "all"
    if r < 0.2:
        return rng.choice(["examples", "distances"] + (["labels"] if has_labels else []))
    if r < 0.5:
        sub = [x for x in RETURNS if (x != "labels" or has_labels)]
        return sub
    sub = [x for x in RETURNS if rng.random() < 0.55 and (x != "labels" or has_labels)]
    if not any(x in sub for x in ("examples", "distances", "labels", "indices")):
        sub.append(rng.choice(["examples", "distances", "indices"]))
    return sub


def gen_bs(rng, n, container):
    opts = [1, 2, max(1, n - 1), n, n + 1, rng.randint(1, n + 1), rng.randint(1, n + 1)]
    if container in ("np", "tf", "torch"):
        opts += [None, None]
    b = rng.choice(opts)
    if container in ("ds_unbatched", "dl") and b > n:
        # finding (reported): an UNBATCHED tf.data.Dataset with batch_size > N is rejected by harmonize_datasets /
        # sanitize_dataset ("The batch size should match between datasets"): the first batch has N < batch_size rows
        b = n
    return b


def gen_case(rng, tier, with_classes=False):
    n = rng.choice([1, 2, 3, 4, 5, 6, 7, 8, 9, 10, 11, 12, 13, 14, 5, 7, 9, 11])
    shape = rng.choice([[1], [2], [3], [4], [3], [2, 2], [2, 3], [2, 2, 2], [1, 2, 1]])
    dim = prod(shape)
    tie_heavy = rng.random() < 0.4
    ncls = rng.randint(2, 3)
    cases = gen_points(rng, n, dim, tie_heavy)
    nq = rng.randint(1, 3)
    qs = [list(rng.choice(cases)) if rng.random() < 0.4 else
          [rng.choice(SMALL if tie_heavy else GRID) for _ in range(dim)] for _ in range(nq)]
    # "dl" (torch DataLoader) is implemented in make_datasets but not generated: with torch 2.14 every DataLoader
    # crashes in convert_torch_to_tf.split_and_convert_column_dataloader ((None,) + torch.Size -> TypeError); reported
    container = rng.choice(["np", "np", "tf", "torch", "ds_batched", "ds_batched", "ds_unbatched"])
    proj = gen_proj(rng, shape, ncls)
    label_kind = rng.choice(["none", "int", "int", "vec", "bigint"])
    if container == "torch" and rng.random() < 0.5:
        label_kind = "bigint"             # every container branch must keep wide integer labels intact
    labels = None
    if label_kind == "int":
        labels = [[float(rng.randint(0, 4))] for _ in range(n)]
    elif label_kind == "bigint":
        # record ids / hashes: int64 labels that float32 cannot hold (2^24 + odd numbers)
        labels = [[float(2 ** 24 + 1 + 2 * rng.randint(0, 40))] for _ in range(n)]
    elif label_kind == "vec":
        labels = [[rng.choice(GRID) for _ in range(2)] for _ in range(n)]
    need_t = proj["wk"] == "target"
    give_t = need_t or rng.random() < 0.3
    targets = qtargets = None
    if give_t:
        def onehot(c):
            return [1.0 if j == c else 0.0 for j in range(ncls)]
        targets = [onehot(rng.randrange(ncls)) for _ in range(n)]
        qtargets = [onehot(rng.randrange(ncls)) for _ in range(nq)]
    columns = 1
    if container.startswith("ds") or container == "dl":
        # how labels / targets travel: extra columns of the cases dataset or separate datasets
        if targets is not None and labels is not None and rng.random() < 0.6:
            columns = 3
        elif labels is not None and rng.random() < 0.6:
            columns = 2
    case = dict(n=n, shape=shape, cases=cases, qs=qs, k=rng.randint(1, n), container=container,
                bs=gen_bs(rng, n, container), dist=rng.choice(DISTS), proj=proj, label_kind=label_kind,
                labels=labels, targets=targets, qtargets=qtargets, columns=columns,
                returns=gen_returns(rng, labels is not None), ncls=ncls)
    if case["dist"] == "callable":
        pd = proj["sp"] and len(proj["sp"]["M"]) or dim
        case["dw"] = [rng.choice([0.5, 1, 1, 2]) for _ in range(pd)]
        case["dcall_axis"] = rng.choice([-1, 1])
    if case["dist"] == "cosine":
        make_cosine(rng, case)
    return case


def generate(rng, tier):
    n = 90 if tier == "quick" else 1200
    cases = [gen_case(rng, tier) for _ in range(n)]
    # always present: cosine distance between LOW-MAGNITUDE projected vectors (norm products far below 1e-8)
    found = 0
    for _ in range(400):
        if found >= 3:
            break
        c = gen_case(rng, tier)
        if c["dist"] == "cosine" and c["n"] >= 4:
            w = 2.0 ** -17
            c["proj"] = dict(kind="wconst", sp=None, wk="const", w=[w, w], how="Projection", mappable=False, wtype="np")
            cases.append(c)
            found += 1
    for c in cases:
        # a quarter of the cases re-use the object with another k (set through the public setter)
        if c["n"] >= 2 and rng.random() < 0.25:
            c["k2"] = rng.choice([k for k in range(1, c["n"] + 1) if k != c["k"]])
        c["hold"] = rng.random() < 0.3
    return cases


# ------------------------------------------------------------------------------------------ helpers
def eff_bs(case):
    return case["n"] if case["bs"] is None else min(case["bs"], case["n"])


def np_proj(case, x, t):
    """numpy mirror of proj_fam (only used for nontrivial / explain_failure; the verdict comes from Coq)"""
    p = case["proj"]
    y = np.asarray(x, dtype=np.float64).reshape(-1)
    if p["sp"]:
        z = np.array(p["sp"]["M"], dtype=np.float64) @ y
        y = z + np.array(p["sp"]["c"]) * z * z
    if p["wk"] == "const":
        y = y * np.array(p["w"])
    elif p["wk"] == "target":
        y = y * (np.array(t) @ np.array(p["W"]))
    return y


def np_dist(case, a, b):
    d = np.abs(a - b)
    k = case["dist"]
    if k in ("manhattan", "p1"):
        return d.sum()
    if k in ("chebyshev", "inf", "npinf"):
        return d.max()
    if k in ("euclidean", "p2"):
        return (d * d).sum()
    if k in ("p3", "p9", "p12"):
        return (d ** int(k[1:])).sum()
    if k == "cosine":
        return round(1 - float(a @ b) / float(np.sqrt(a @ a) * np.sqrt(b @ b)), 9)
    return (d * np.array(case["dw"])).sum()


def all_keys(case, qi):
    tq = case["qtargets"][qi] if case["qtargets"] else None
    pq = np_proj(case, case["qs"][qi], tq)
    return [float(np_dist(case, pq, np_proj(case, c, case["targets"][i] if case["targets"] else None)))
            for i, c in enumerate(case["cases"])]


def nontrivial(case):
    b = eff_bs(case)
    n = case["n"]
    ties = any(len(set(all_keys(case, qi))) < n for qi in range(len(case["qs"])))
    return n > b or case["k"] > b or ties


def distribution(cases):
    return dict(n=core.hist(c["n"] for c in cases), k_class=core.hist(("k=N" if c["k"] == c["n"] else "k=1" if c["k"] == 1 else "mid") for c in cases),
                container=core.hist(c["container"] for c in cases), columns=core.hist(c["columns"] for c in cases),
                batch_class=core.hist(("None" if c["bs"] is None else "1" if c["bs"] == 1 else "gtN" if c["bs"] > c["n"] else
                                       "eqN" if c["bs"] == c["n"] else "divides" if c["n"] % c["bs"] == 0 else "remainder") for c in cases),
                dist=core.hist(c["dist"] for c in cases), proj=core.hist(c["proj"]["kind"] + "/" + c["proj"]["how"] for c in cases),
                shape=core.hist(len(c["shape"]) for c in cases), labels=core.hist(c["label_kind"] for c in cases),
                returns=core.hist(c["returns"] if isinstance(c["returns"], str) else "+".join(x[:3] for x in c["returns"]) for c in cases),
                ties=core.hist(any(len(set(all_keys(c, qi))) < c["n"] for qi in range(len(c["qs"]))) for c in cases))


# ------------------------------------------------------------------------------------------ implementation driver
def make_distance(case):
    import tensorflow as tf
    k = case["dist"]
    if k == "npinf":
        return np.inf
    if k in ("p1", "p2", "p3", "p9", "p12"):
        return int(k[1:])
    if k == "callable":
        w = tf.constant(case["dw"], dtype=tf.float32)
        if case.get("dcall_axis") == 1:
            # written for the documented calling convention — one query (1, F) against one batch of cases (m, F) —
            # naming the feature axis explicitly
            return lambda a, b: tf.reduce_sum(tf.abs(a - b) * w, axis=1)
        return lambda a, b: tf.reduce_sum(tf.abs(a - b) * w, axis=-1)
    return k


def make_projection(case):
    import tensorflow as tf
    from xplique.example_based.projections import Projection
    p = case["proj"]
    if p["kind"] == "none":
        return None
    space = None
    out_shape = case["shape"]
    if p["sp"]:
        M = tf.constant(p["sp"]["M"], dtype=tf.float32)
        c = tf.constant(p["sp"]["c"], dtype=tf.float32)
        out_shape = [len(p["sp"]["M"])]

        def space(x):
            z = tf.matmul(tf.cast(x, tf.float32), M, transpose_b=True)
            return z + c * z * z
    if p["how"] == "callable":
        return space
    gw = None
    if p["wk"] == "const":
        w = np.array(p["w"], dtype=np.float32).reshape(out_shape)
        gw = w if p["wtype"] == "np" else tf.constant(w)
    elif p["wk"] == "target":
        W = tf.constant(p["W"], dtype=tf.float32)

        def gw(inputs, targets):
            return tf.reshape(tf.matmul(tf.cast(targets, tf.float32), W), tf.shape(inputs))
    return Projection(get_weights=gw, space_projection=space, mappable=bool(p["mappable"]))


def make_datasets(case, with_targets=None):
    """returns (cases_dataset, labels_dataset, targets_dataset, batch_size) as the constructor wants them"""
    import tensorflow as tf
    n = case["n"]
    X = np.array(case["cases"], dtype=np.float32).reshape([n] + case["shape"])
    L = None
    if case["labels"] is not None:
        L = np.array(case["labels"], dtype=np.float32)
        if case["label_kind"] == "bigint":
            L = np.array(case["labels"], dtype=np.float64).reshape(-1).astype(np.int64)
            if case["container"] == "ds_unbatched" and case["columns"] == 1:
                L = L.reshape(-1, 1)              # same layout restriction as for the small integer labels below
        if case["label_kind"] == "int":
            L = L.reshape(-1).astype(np.int32)
            if case["container"] == "ds_unbatched" and case["columns"] == 1:
                # finding (reported): a separate UNBATCHED labels dataset of scalars crashes is_batched()
                # (IndexError on spec.shape[0]); scalar labels are therefore given shape (1,) in that layout
                L = L.reshape(-1, 1)
    T = np.array(case["targets"], dtype=np.float32) if case["targets"] is not None else None
    if T is not None and case.get("int_targets"):
        T = T.astype(np.int32)                 # one-hot targets stored as integers (queries may still carry probabilities)
    cont = case["container"]
    bs = case["bs"]
    if cont == "np":
        return X, L, T, bs
    if cont == "tf":
        cv = (lambda a: None if a is None else tf.constant(a))
        return cv(X), cv(L), cv(T), bs
    if cont == "torch":
        import torch
        cv = (lambda a: None if a is None else torch.tensor(a))
        return cv(X), cv(L), cv(T), bs
    cols = case["columns"]
    if cont == "dl":
        import torch
        from torch.utils.data import DataLoader, TensorDataset
        tens = torch.tensor
        if cols == 3:
            ds, L, T = TensorDataset(tens(X), tens(L), tens(T)), None, None
        elif cols == 2:
            ds, L = TensorDataset(tens(X), tens(L)), None
        else:
            ds = TensorDataset(tens(X))
        mkl = (lambda a: None if a is None else DataLoader(TensorDataset(tens(a)), batch_size=bs, shuffle=False))
        return DataLoader(ds, batch_size=bs, shuffle=False), mkl(L), mkl(T), None
    if cols == 3:
        ds = tf.data.Dataset.from_tensor_slices((X, L, T))
        L = T = None
    elif cols == 2:
        ds = tf.data.Dataset.from_tensor_slices((X, L))
        L = None
    else:
        ds = tf.data.Dataset.from_tensor_slices(X)
    mk = (lambda a: None if a is None else tf.data.Dataset.from_tensor_slices(a))
    L, T = mk(L), mk(T)
    if cont == "ds_batched":
        bt = (lambda d: None if d is None else d.batch(bs))
        return bt(ds), bt(L), bt(T), None
    return ds, L, T, bs


def tolist(a):
    return None if a is None else np.asarray(a).astype(np.float64).tolist()


def enc_float(v):
    v = float(v)
    return "inf" if v == float("inf") else "-inf" if v == float("-inf") else "nan" if v != v else v


def enc(a):
    if isinstance(a, list):
        return [enc(x) for x in a]
    return enc_float(a)


def collect(case, out, nq, extra=()):
    """normalise the explain() dictionary to JSON-able lists (inf -> 'inf')"""
    res = dict(keys=sorted(out.keys()))
    k = case["k"]
    if "distances" in out:
        res["distances"] = enc(tolist(out["distances"]))
    if "indices" in out:
        res["indices"] = np.asarray(out["indices"]).astype(int).tolist()
    if "examples" in out:
        ex = np.asarray(out["examples"]).astype(np.float64)
        ex = ex.reshape(ex.shape[0], ex.shape[1], -1)
        if ex.shape[1] == k + 1:
            res["included"] = enc(ex[:, 0].tolist())
            ex = ex[:, 1:]
        res["examples"] = enc(ex.tolist())
    if "labels" in out:
        lb = np.asarray(out["labels"]).astype(np.float64)
        res["labels"] = enc(lb.reshape(lb.shape[0], lb.shape[1], -1).tolist())
    for name in extra:
        if name in out:
            a = np.asarray(out[name]).astype(np.float64)
            res[name] = enc(a.reshape(a.shape[0], a.shape[1], -1).tolist())
    return res


def run_impl(case):
    from xplique.example_based import SimilarExamples
    cd, ld, td, bs = make_datasets(case)
    ret = case["returns"]
    se = SimilarExamples(cd, labels_dataset=ld, targets_dataset=td, k=case["k"], projection=make_projection(case),
                         case_returns=ret, batch_size=bs, distance=make_distance(case))
    nq = len(case["qs"])
    Q = np.array(case["qs"], dtype=np.float32).reshape([nq] + case["shape"])
    QT = np.array(case["qtargets"], dtype=np.float32) if case["qtargets"] is not None else None
    out = se.explain(Q, QT)
    if case.get("hold"):
        # history: the first result is kept by the caller (results collected in a list) and read only AFTER another
        # explain call of the same size on the same object
        se.explain((0.5 - np.roll(Q, 1, axis=0)).astype(np.float32), None if QT is None else np.roll(QT, 1, axis=0))
    res = collect(case, out, nq)
    if case.get("k2"):
        # "for every k": k changed through the public setter on the SAME object, then explain again
        se.k = int(case["k2"])
        res["second"] = collect(dict(case, k=case["k2"]), se.explain(Q, QT), nq)
    return res


# ------------------------------------------------------------------------------------------ Coq encoding
def cext(v):
    return "Inf" if v == "inf" else f"(Fin {core.cq(v)})"


def czidx(ix):
    return f"(({int(ix[0])})%Z, ({int(ix[1])})%Z)"


def is_fill_vec(v):
    return all(x == "inf" for x in v)


def cvec_opt(v, int_fill=False):
    """dataset_gather leaves +inf (floats) or -1 (ints) where nothing was gathered"""
    if is_fill_vec(v) or (int_fill and all(x == -1.0 for x in v)):
        return "None"
    if any(isinstance(x, str) for x in v):
        raise core.HarnessError(f"non-finite value inside a gathered element: {v}")
    return f"(Some {core.cqlist(v)})"


def cslot(res, qi, j, int_labels):
    d = core.copt(cext(res["distances"][qi][j])) if "distances" in res else "None"
    ix = core.copt(czidx(res["indices"][qi][j])) if "indices" in res else "None"
    ex = core.copt(cvec_opt(res["examples"][qi][j])) if "examples" in res else "None"
    lb = core.copt(cvec_opt(res["labels"][qi][j], int_labels)) if "labels" in res else "None"
    return "{| s_dist := %s; s_idx := %s; s_case := %s; s_label := %s |}" % (d, ix, ex, lb)


def cslots(case, res):
    nq = len(case["qs"])
    lens = [len(res[f]) for f in ("distances", "indices", "examples", "labels") if f in res]
    if any(x != nq for x in lens):
        return None
    out = []
    for qi in range(nq):
        ks = [len(res[f][qi]) for f in ("distances", "indices", "examples", "labels") if f in res]
        if len(set(ks)) != 1:
            return None
        out.append(core.cl([cslot(res, qi, j, case["label_kind"] in ("int", "bigint")) for j in range(ks[0])]))
    return core.cl(out)


def cdist(case):
    k = case["dist"]
    if k == "manhattan":
        return "DManhattan"
    if k in ("chebyshev", "inf", "npinf"):
        return "DChebyshev"
    if k == "euclidean":
        return "DEuclid"
    if k in ("p1", "p2", "p3", "p9", "p12"):
        return f"(DPow {k[1:]})"
    if k == "cosine":
        return "DCosine"
    return f"(DCustom {core.cqlist(case['dw'])})"


def cproj(case):
    p = case["proj"]
    sp = "None" if not p["sp"] else f"(Some ({core.cqlist2(p['sp']['M'])}, {core.cqlist(p['sp']['c'])}))"
    wk = "WNone" if p["wk"] == "none" else f"(WConst {core.cqlist(p['w'])})" if p["wk"] == "const" else f"(WTarget {core.cqlist2(p['W'])})"
    return sp, wk


def ctargets(ts, n):
    return core.cqlist2(ts) if ts is not None else core.cl(["[]"] * n)


def common_args(case):
    sp, wk = cproj(case)
    bs = core.copt(None if case["bs"] is None else core.cnat(case["bs"]))
    labels = core.cqlist2(case["labels"]) if case["labels"] is not None else "[]"
    return dict(d=cdist(case), sp=sp, wk=wk, k=core.cnat(case["k"]), bs=bs, cases=core.cqlist2(case["cases"]),
                targets=ctargets(case["targets"], case["n"]), labels=labels, qs=core.cqlist2(case["qs"]),
                tqs=ctargets(case["qtargets"], len(case["qs"])))


def expected_keys(case):
    r = case["returns"]
    if r == "all":
        r = ["examples", "distances", "labels", "include_inputs"]
    if isinstance(r, str):
        r = [r]
    return sorted(x for x in r if x != "include_inputs"), ("include_inputs" in r and "examples" in r)


def shape_ok(case, res):
    """the dictionary has exactly the requested entries and include_inputs prepends the query"""
    want, inc = expected_keys(case)
    if res["keys"] != want:
        return False
    if inc != ("included" in res):
        return False
    if inc and res["included"] != enc([[float(v) for v in q] for q in case["qs"]]):
        return False
    return True


def coq_term(case, res):
    try:
        return _coq_term(case, res)
    except ValueError:          # a NaN in the implementation's output: never right
        return "false"


def _coq_term(case, res):
    a = common_args(case)
    slots = cslots(case, res)
    if slots is None or not shape_ok(case, res):
        return "false"
    term = ("check_similar {d} {tol} {sp} {wk} {k} {bs} {cases} {targets} {labels} {qs} {tqs} {slots}"
            .format(tol=TOL, slots=slots, **a))
    if case.get("k2"):
        c2 = dict(case, k=case["k2"], k2=None)
        if "second" not in res:
            return "false"
        t2 = _coq_term(c2, res["second"])
        return f"({term} && {t2})"
    return term


def dump_term(case, res):
    a = common_args(case)
    return "dump_similar {d} {sp} {wk} {k} {bs} {cases} {targets} {qs} {tqs}".format(**a)


def explain_failure(case, res, model):
    if res is None:
        return "the implementation raised on a valid configuration (see implementation_error)"
    want, inc = expected_keys(case)
    info = dict(clause="returned slots = k nearest cases (sorted distances equal the model's, every index valid with its true "
                       "distance, examples / labels are the original cases at the indices)",
                requested=want, returned=res["keys"], include_inputs_ok=shape_ok(case, res),
                true_keys_per_query=[sorted(all_keys(case, qi)) for qi in range(len(case["qs"]))],
                note="model = per query list of [distance (root-free form for euclidean / Minkowski), [batch, position]]")
    return info


def shrink(case):
    n = case["n"]
    if len(case["qs"]) > 1:
        for i in range(len(case["qs"])):
            c = copy.deepcopy(case)
            del c["qs"][i]
            if c["qtargets"]:
                del c["qtargets"][i]
            yield c
    if n > 1:
        for i in range(n):
            c = copy.deepcopy(case)
            del c["cases"][i]
            for f in ("labels", "targets"):
                if c[f]:
                    del c[f][i]
            c["n"] = n - 1
            c["k"] = min(c["k"], n - 1)
            if c["container"] in ("ds_unbatched", "dl") and c["bs"] is not None:
                c["bs"] = min(c["bs"], n - 1)
            yield c
    if case["k"] > 1:
        c = copy.deepcopy(case)
        c["k"] -= 1
        yield c
    if case["proj"]["kind"] != "none":
        c = copy.deepcopy(case)
        c["proj"] = dict(kind="none", sp=None, wk="none", how="Projection", mappable=False, wtype="np")
        if c["dist"] == "callable":
            c["dw"] = [1] * prod(c["shape"])
        yield c
    if case["container"] != "np":
        c = copy.deepcopy(case)
        c["container"] = "np"
        c["columns"] = 1
        yield c
    if case["bs"] is not None and case["container"] == "np":
        c = copy.deepcopy(case)
        c["bs"] = None
        yield c
