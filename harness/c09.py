"""c09.py — RISE vs coq/C09/Model.v (proved equal to the reference weighted average for every batch size).

The upsampled masks are random (uniform grid draw, bilinear resize, random crop: library code); they are INPUTS of
the model.  They are observed through a recording NumPy-callable model: every query is
masked = m*x + (1-m)*v, so m = (masked - v)/(x - v) (inputs are generated with |x - v| >= 1/2 everywhere).

Two classes of cases:
  exact   v = 0 and every input entry is +-2^k: masked = fl(m*x) = m*x exactly, so the float32 mask is recovered
          exactly and the model's queries must EQUAL the recorded ones (tolQ = 0); the map is compared with the
          float32-rounding tolerance tolA only (this is the class that sees epsilon-sized effects);
  approx  v != 0: masks are recovered to ~1e-7, the map is compared with the additional condition-scaled
          tolerance tolB * (sum_k S_k + nb) / (D_p + eps) and the queries with tolQ.
"""
import copy
import math
import numpy as np
import core
import families as fam

PROP = "C09"
IMPORTS = "C09.Model"
SHARD = 8
TOL_A = 5e-6      # float32 rounding of s_k*m_k, the sums and the division, relative to sum_k S_k m_k(p) / (D_p + eps)
TOL_B = 5e-6      # accuracy of recovered masks (approx class only), relative to (sum_k S_k + nb) / (D_p + eps)
TOL_Q = 2e-6      # recorded query vs model query (approx class only), relative to 1 + |x_j| + |v|
MASK_RANGE_TOL = 1e-6
RULE = ("random input kind (tabular / time series / image up to 6x7x3, H != W), grid scalar or tuple (1..7, also larger "
        "than the input), nb_samples 1..12, preservation probability in {0.1..1.0}, mask value 0 (exact class) or "
        "non-zero (approx class), F-quad score with cross terms, real-valued targets, batch sizes biased to "
        "{1,2,nb-1,nb,nb+1,divisor+-1,None}, graph and eager execution; distinct = different canonical JSON encoding; "
        "non-trivial = at least two mask batches (nb > bs) or a remainder batch")
ASSUMPTIONS = [
    "score is applied row-wise (no cross-sample coupling)",
    "the upsampled masks are inputs of the model: recovered from the recorded queries as (masked - v)/(x - v); "
    "their range [0,1] and spatial shape are checked on every run, their distribution is not (library RNG / resize / crop)",
    "comparison under tolerance: |model - impl| <= (tolA*sum_k S_k|m_k(p)| + tolB*(sum_k S_k + nb)) / (D_p + eps), "
    f"tolA={TOL_A}, tolB={TOL_B} (0 when the masks are recovered exactly), S_k = sum_c |s_c(masked_k) t_c|",
    "EPSILON is the rational 1/10000 in the model (float32(1e-4) in the code: relative difference 2e-8 of epsilon)",
    "graph-mode cases: tf.random.set_seed(case seed) is called before explain, but the op seeds of an already traced "
    "tf.function are those of its first trace, so a replay of a graph-mode case re-draws the masks; eager cases replay exactly",
]
EXTRA_COVERAGE = {}
_stats = {}          # preservation probability -> [sum of mask entries, number of entries, effective independent cells]
_err = dict(exact_max_ratio=0.0, approx_max_ratio=0.0, query_max=0.0, chan_spread_max=0.0)


# ----------------------------------------------------------------------------------------------- generation
POW2 = [0.5, 1.0, 2.0, 4.0, -0.5, -1.0, -2.0, -4.0]


def gen_x(rng, dim, v, exact):
    if exact:
        return [rng.choice(POW2) for _ in range(dim)]
    out = []
    for _ in range(dim):
        s = rng.choice([-1, 1])
        out.append(v + s * (1 + rng.randint(0, 16) / 8))     # |x - v| in [1, 3], dyadic
    return out


def gen_case(rng, tier, idx):
    big = tier == "thorough"
    kind = rng.choice(["tab", "ts", "img", "img", "img"])
    if kind == "tab":
        shape = [rng.randint(1, 8)]
        grid = rng.choice([7, 3, [2, 2]])                      # ignored for tabular data
    elif kind == "ts":
        shape = [rng.randint(1, 6), rng.randint(1, 5)]
        g = rng.choice([1, 2, 3, 4, 7, rng.randint(1, 8)])
        grid = g if rng.random() < 0.5 else [g, shape[1]]
    else:
        h, w = rng.randint(1, 6), rng.randint(1, 7)
        if rng.random() < 0.8 and h == w:
            w = w % 7 + 1
        shape = [h, w, rng.choice([1, 2, 3])]
        if rng.random() < 0.5:
            grid = rng.choice([1, 2, 3, 4, 7, rng.randint(1, 9)])
        else:
            grid = [rng.randint(1, 7), rng.randint(1, 7)]
    dim = int(np.prod(shape))
    nb = rng.choice([1, 2, 3, 4, 5, 6, 7, 8, 9, 10, 12] if not big else list(range(1, 15)))
    p = rng.choice([0.1, 0.25, 0.5, 0.5, 0.75, 0.9, 1.0])
    exact = rng.random() < 0.5
    v = 0.0 if exact else rng.choice([0.5, -1.0, 0.25, 2.0, -0.5, 1.5])
    n = rng.randint(1, 3)
    ncls = rng.randint(1, 2)
    divs = [d for d in range(1, nb + 1) if nb % d == 0]
    d = rng.choice(divs)
    bs = rng.choice([1, 2, 3, max(1, nb - 1), nb, nb + 1, None, None, d + 1, max(1, d - 1), rng.randint(1, nb + 2)])
    case = dict(kind=kind, shape=shape, grid=grid, nb=nb, p=p, v=v, bs=bs, eager=rng.random() < 0.4,
                tfseed=rng.randint(0, 2 ** 31 - 1), params=fam.gen_fquad(rng, ncls, dim),
                xs=[gen_x(rng, dim, v, exact) for _ in range(n)], ts=fam.gen_targets(rng, n, ncls))
    return case


def generate(rng, tier):
    n = 120 if tier == "quick" else 1200
    cases = [gen_case(rng, tier, i) for i in range(n)]
    for c in cases:
        # a NumPy model that drops the batch axis for a single sample (np.squeeze at its end): supported by the
        # callable branch; matters when a mask batch holds exactly one mask
        c["squeeze_single"] = rng.random() < 0.35
        if not c["eager"] and rng.random() < 0.3:
            c["warm_v"] = rng.choice([w for w in (0.0, 2.0, -1.0, 0.5) if w != c["v"]])
    return cases


def nontrivial(case):
    bs = case["bs"] or case["nb"]
    return case["nb"] > bs


def distribution(cases):
    def bclass(c):
        if c["bs"] is None:
            return "None"
        if c["bs"] > c["nb"]:
            return "gt"
        if c["bs"] == c["nb"]:
            return "eq"
        return "lt-divides" if c["nb"] % c["bs"] == 0 else "lt-remainder"
    return dict(kind=core.hist(c["kind"] for c in cases), nb=core.hist(c["nb"] for c in cases),
                batch_class=core.hist(bclass(c) for c in cases), p=core.hist(c["p"] for c in cases),
                mask_value=core.hist(c["v"] for c in cases), n_inputs=core.hist(len(c["xs"]) for c in cases),
                scalar_grid=core.hist(not isinstance(c["grid"], list) for c in cases),
                eager=core.hist(c["eager"] for c in cases),
                non_square_images=sum(1 for c in cases if c["kind"] == "img" and c["shape"][0] != c["shape"][1]))


# ----------------------------------------------------------------------------------------------- implementation
def spatial(case):
    sh = case["shape"]
    return (sh[0], 1) if case["kind"] == "tab" else (sh[0] * sh[1], 1) if case["kind"] == "ts" else (sh[0] * sh[1], sh[2])


def run_impl(case):
    import tensorflow as tf
    from xplique.attributions import Rise
    model = fam.FQuadNumpy(case["params"], record=True, squeeze_single=bool(case.get("squeeze_single")))
    grid = tuple(case["grid"]) if isinstance(case["grid"], list) else case["grid"]
    n, nb = len(case["xs"]), case["nb"]
    xs = np.array(case["xs"], dtype=np.float32).reshape([n] + case["shape"])
    ts = np.array(case["ts"], dtype=np.float32)
    tf.config.run_functions_eagerly(bool(case["eager"]))
    try:
        tf.random.set_seed(case["tfseed"])
        expl = Rise(model, batch_size=case["bs"], nb_samples=nb, grid_size=grid,
                    preservation_probability=case["p"], mask_value=case.get("warm_v", case["v"]))
        if case.get("warm_v") is not None:
            # re-use: a first call with another mask_value (result discarded), then the public attribute is changed and the
            # same object explains the same shapes again (graph mode: a value frozen at trace time would survive)
            expl.explain(xs, ts)
            model.queries.clear()
            expl.mask_value = case["v"]
            tf.random.set_seed(case["tfseed"])
        out = np.asarray(expl.explain(xs, ts))
    finally:
        tf.config.run_functions_eagerly(False)
    npos, c = spatial(case)
    problems = []
    if out.shape[0] != n or int(np.prod(out.shape[1:])) != npos:
        problems.append(f"explain returned shape {list(out.shape)} for {n} inputs with {npos} mask positions")
    if not np.all(np.isfinite(out)):
        problems.append("non-finite value in the returned maps")
    q = np.array(model.queries, dtype=np.float64)
    res = dict(shape=list(out.shape), maps=[[float(v) if np.isfinite(v) else repr(float(v)) for v in m.reshape(-1)] for m in out],
               n_queries=int(q.shape[0]), problems=problems)
    if q.shape[0] != n * nb or (q.size and q.shape[1] != npos * c):
        problems.append(f"{q.shape[0]} queries of size {q.shape[1:]} recorded, expected {n}*{nb} of size {npos * c}")
        return res
    # ---- recover the masks: (masked - v) / (x - v), channel with the largest |x - v|, rounded to float32
    v = case["v"]
    xf = np.array(case["xs"], dtype=np.float64).reshape(n, npos, c)
    q = q.reshape(n, nb, npos, c)
    masks, exact_all = [], True
    for i in range(n):
        ch = np.argmax(np.abs(xf[i] - v), axis=1)                       # (npos,)
        m_all = (q[i] - v) / (xf[i][None] - v)                          # (nb, npos, c)
        m = np.take_along_axis(m_all, ch[None, :, None], axis=2)[:, :, 0]
        spread = float(np.abs(m_all - m[:, :, None]).max()) if m.size else 0.0
        _err["chan_spread_max"] = max(_err["chan_spread_max"], spread)
        if spread > 1e-5:
            problems.append(f"input {i}: channels of a pixel do not share one mask value (spread {spread:.3g})")
        m32 = m.astype(np.float32).astype(np.float64)
        if not np.array_equal(m32, m):
            exact_all = False
        if m.size and (m.min() < -MASK_RANGE_TOL or m.max() > 1 + MASK_RANGE_TOL):
            problems.append(f"input {i}: recovered mask values in [{m.min():.9g}, {m.max():.9g}], outside [0,1]")
        if case["p"] >= 1.0 and m.size and np.abs(m - 1.0).max() > MASK_RANGE_TOL:
            # deterministic, not statistical: uniform draws lie in [0,1), so with p = 1 every grid cell is kept
            problems.append(f"input {i}: preservation probability 1.0 but a mask value is {m.min():.9g}")
        masks.append(m32)
    exact = exact_all and v == 0.0 and all(abs(e) in (0.5, 1.0, 2.0, 4.0) for x in case["xs"] for e in x)
    res.update(masks=[[[float(e) for e in mk] for mk in mi] for mi in masks],
               queries=[[[float(e) for e in qq.reshape(-1)] for qq in q[i]] for i in range(n)], exact=bool(exact))
    # ---- statistical support only: empirical mean of the masks per preservation probability
    if not problems:
        mean1 = float(np.mean(masks[0]))                                 # masks of the first input (one crop each)
        if case["kind"] == "tab":
            cells = npos
        elif case["kind"] == "ts":
            cells = (grid[0] if isinstance(grid, tuple) else grid) * case["shape"][1]
        else:
            cells = grid[0] * grid[1] if isinstance(grid, tuple) else grid * grid
        st = _stats.setdefault(case["p"], [0.0, 0, 0.0])
        st[0] += mean1 * nb
        st[1] += nb
        st[2] += nb * max(1.0, cells / 4.0)       # crude count of independent cells seen by a crop
        _publish_stats()
    return res


def _publish_stats():
    rows = {}
    for p, (s, cnt, neff) in sorted(_stats.items()):
        mean = s / cnt
        sigma = math.sqrt(max(p * (1 - p), 1e-12) / neff)
        rows[str(p)] = dict(masks=cnt, empirical_mean=round(mean, 4), six_sigma_band=round(6 * sigma, 4),
                            inside_band=bool(abs(mean - p) <= 6 * sigma + 1e-9))
    EXTRA_COVERAGE["preservation_probability_support_only"] = dict(
        note="empirical mean of the recovered masks per requested probability; statistical clause, never a verdict "
             "(bilinear upsampling of a Bernoulli(p) grid has mean p; band uses a crude count of independent cells)",
        per_probability=rows)
    EXTRA_COVERAGE["upsampled_size_formula"] = _UPS


def _upsampled_support():
    rng_ = [(H, h) for H in range(1, 300) for h in range(1, 65)]
    less = [(H, h) for H, h in rng_ if int(H * (1.0 + 1.0 / h)) != H + H // h]
    ok = all(int(H * (1.0 + 1.0 / h)) == H + H // h - 1 and H % h == 0 for H, h in less)
    return dict(note="int(H*(1.0+1.0/h)) (Python floats, as in _apply_masks) against the exact H + H//h of the Coq "
                     "[upsampled], 1<=H<300, 1<=h<=64: equal, or one less (float rounding) only where h divides H, "
                     "so the size is always >= H and the crop exists",
                one_less=len(less), examples=less[:6], all_one_less_have_h_dividing_H=bool(ok),
                always_at_least_H=all(int(H * (1.0 + 1.0 / h)) >= H for H, h in rng_))


_UPS = _upsampled_support()


# ----------------------------------------------------------------------------------------------- Coq side
def coq_kind(case):
    sh = case["shape"]
    if case["kind"] == "tab":
        return f"(Tab {sh[0]})"
    if case["kind"] == "ts":
        return f"(TS {sh[0]} {sh[1]})"
    return f"(Img {sh[0]} {sh[1]} {sh[2]})"


def cq3(xsss):
    return core.cl([core.cqlist2(xss) for xss in xsss])


def common_lets(case, res):
    bs = core.copt(None if case["bs"] is None else core.cnat(case["bs"]))
    return (f"let ks := {fam.coq_fquad(case['params'])} in let k := {coq_kind(case)} in let bs := {bs} in "
            f"let nb := {core.cnat(case['nb'])} in let v := {core.cq(case['v'])} in "
            f"let xs := {core.cqlist2(case['xs'])} in let ts := {core.cqlist2(case['ts'])} in "
            f"let mss := {cq3(res['masks'])} in ")


def tolerances(res):
    return (TOL_A, 0.0, 0.0) if res["exact"] else (TOL_A, TOL_B, TOL_Q)


def coq_term(case, res):
    if res["problems"]:
        return "false"
    ta, tb, tq = tolerances(res)
    maps = [[float(v) for v in m] for m in res["maps"]]
    return ("(" + common_lets(case, res) +
            f"rise_close (fquad ks) (fmag ks) {core.cq(ta)} {core.cq(tb)} k bs nb v xs ts mss {core.cqlist2(maps)} && "
            f"queries_close {core.cq(tq)} k bs nb v xs mss {cq3(res['queries'])})")


def dump_term(case, res):
    if res.get("masks") is None:
        return "(@nil (list (Z * positive)), @nil (list (Z * positive)))"
    ta, tb, _ = tolerances(res)
    return ("(" + common_lets(case, res) +
            "(map (map qdump) (rise (fquad ks) k bs nb v xs ts mss), "
            f"map (fun xtm => map qdump (rise_tols (fmag ks) {core.cq(ta)} {core.cq(tb)} k v (fst (fst xtm)) "
            "(snd (fst xtm)) (snd xtm))) (combine (combine xs ts) mss)))")


def explain_failure(case, res, model):
    if res is None:
        return "implementation raised on a valid configuration"
    if res["problems"]:
        return dict(clause="exactly nb_samples queries per input of the form m*x + (1-m)*v, masks in [0,1] with the "
                           "input's spatial shape, one mask value per pixel; finite maps of the input's spatial shape",
                    problems=res["problems"])
    if model is None:
        return "model dump unavailable"
    mmaps, tols = model
    bad = []
    for n, (mm, im, tl) in enumerate(zip(mmaps, res["maps"], tols)):
        for pos, (a, b, t) in enumerate(zip(mm, im, tl)):
            d = abs(core.frac(a) - core.frac(float(b)))
            if d > core.frac(t):
                bad.append(dict(input=n, position=pos, reference=float(core.frac(a)), implementation=float(b),
                                difference=float(d), allowed=float(core.frac(t))))
    out = dict(clause="map[p] = sum_k score(masked_k) m_k[p] / (sum_k m_k[p] + 1e-4) over the nb_samples masks applied",
               recovery="exact" if res["exact"] else "approximate", first_differences=bad[:6])
    if not bad:
        out["note"] = ("maps agree: the recorded queries differ from m*x + (1-m)*v built from the recovered masks "
                       "(number of queries per input, or a channel not sharing the pixel's mask value)")
    return out


def shrink(case):
    if len(case["xs"]) > 1:
        for i in range(len(case["xs"])):
            c = copy.deepcopy(case)
            del c["xs"][i]
            del c["ts"][i]
            yield c
    if len(case["params"]) > 1:
        for i in range(len(case["params"])):
            c = copy.deepcopy(case)
            del c["params"][i]
            for t in c["ts"]:
                del t[i]
            yield c
    if any(k["X"] for k in case["params"]):
        c = copy.deepcopy(case)
        for k in c["params"]:
            k["X"] = []
        yield c
    if case["nb"] > 1:
        for nb in sorted({case["nb"] // 2, case["nb"] - 1}):
            if nb >= 1:
                c = copy.deepcopy(case)
                c["nb"] = nb
                yield c
    if case["bs"] is not None:
        c = copy.deepcopy(case)
        c["bs"] = None
        yield c
    if not case["eager"]:
        c = copy.deepcopy(case)
        c["eager"] = True
        yield c
