"""c11.py — wrapping a model changes no result: TorchWrapper, NumPy callables, predict_proba objects.

Streams (case["stream"]):
  torch     a torch module inside TorchWrapper: wrapper(x) and every gradient-only white-box method (Saliency,
            GradientInput, IntegratedGradients, SmoothGrad / SquareGrad / VarGrad at noise 0; reducer=None) against
            (a) the Coq model of the wrapper (coq/C11/Model.v: np.moveaxis as index arithmetic around the F-quad family)
            and (b) the same method computed natively with torch forward / torch.autograd on the module (own transposes).
            kinds: tab (nn.Linear + explicit quadratic ops on (n,d)), img_last (explicit F-quad ops on NHWC, no
            conversion), img_first (F-quad written in NCHW order; conversion requested or auto-detected through a Conv2d
            sub-module), conv (real nn.Conv2d -> Flatten -> nn.Linear on x and on x*x, auto-detected; its F-quad
            parameters are read off the module natively by probing the basis), convrelu (Conv2d -> ReLU -> Linear; native
            reference only)
  ctor      TorchWrapper(module, is_channel_first=None|True|False).channel_first on random module trees against
            init_channel_first (conversion iff a Conv2d is present, or as requested)
  callable  get_inference_function(model)[1] (= operator_batching(predictions_one_hot_callable)) on NumPy callables and
            predict_proba objects returning 2-D predictions, 1-D predictions of a single-output model, or squeezed
            predictions, for every batch size, against one_hot_callable / batch_one_hot_callable
  same      one F-quad function offered as functional Keras model, tf.Module, NumPy callable, predict_proba object
            (2-D and, for one output, 1-D predictions) and TorchWrapper (channel-last and channel-first with permuted
            parameters) to Occlusion (also against the proved C06 model), Rise, Lime, KernelShap, Sobol, HSIC, Deletion,
            Insertion, MuFidelity; tf / NumPy / Python seeded identically before every run; results must agree
"""
import copy
import numpy as np
import core
import families as fam

PROP = "C11"
IMPORTS = "C11.Model C06.Model"
SHARD = 25
RULE = ("torch: kinds tab / img_last / img_first / conv / convrelu, H != W in most image cases, C in {1,3,4,2}, conversion "
        "requested or auto-detected, 6 gradient methods, batch sizes {1,2,3,N,None,...}; ctor: random module trees x "
        "{None,True,False}; callable: {callable,predict_proba} x {2d,1d,squeeze} x N in 1..5 x batch sizes incl. 1 and "
        "remainder 1; same: 9 methods/metrics x up to 7 wrappings; distinct = different canonical JSON; non-trivial = "
        "torch: image with H != W or C > 1 and conversion on, or more than one batch; ctor: Conv2d nested or request "
        "overrides detection; callable: 1-D / squeezed predictions or a batch of one sample; same: >= 3 wrappings")
ASSUMPTIONS = [
    "torch.autograd differentiates the module correctly (validated: native torch gradient = closed-form F-quad gradient in Coq)",
    "float32 evaluation of F-quad / integer-weight conv nets on dyadic inputs is exact (comparisons are exact equality); "
    "Rise / Sobol / HSIC across wrappings use tolerance 1e-5*(1+max|value|) because float64 NumPy and float32 TF/torch "
    "evaluations of the same polynomial on non-dyadic masked inputs round differently (measured <= 1.4e-7 relative)",
    "random draws of Rise / Lime / KernelShap / MuFidelity are made identical across wrappings by "
    "tf.keras.utils.set_random_seed before each run (eager mode when a TorchWrapper takes part, else graph mode); Sobol / "
    "HSIC designs are deterministic samplers",
    "the model of operator_batching is the current code (tf.convert_to_tensor in the batch_size=None branch); on the code as "
    "found Deletion / Insertion built on a NumPy callable or predict_proba object with batch_size=None raised AttributeError "
    "(C11_metric_callable_bs_none_refuted): such a run is a disagreement, reported as KNOWN-FINDING only if "
    "known_findings.json lists it with status known",
    "TorchWrapper needs eager execution (np.moveaxis on the input): torch cases run with run_functions_eagerly(True), "
    "the previous setting is restored after each case",
]
EXTRA_COVERAGE = {"run_functions_eagerly_side_effect": {"constructions": 0, "flag_before_true": 0, "flag_after_true": 0,
                                                       "note": "TorchWrapper.__init__ calls tf.config.run_functions_eagerly(True) "
                                                               "process-wide; the harness restores the previous value"}}

GRAD_METHODS = ["Saliency", "GradientInput", "IntegratedGradients", "SmoothGrad", "SquareGrad", "VarGrad"]
SAME_METHODS = ["Occlusion", "Occlusion", "Rise", "Lime", "KernelShap", "Sobol", "Hsic", "Deletion", "Insertion", "MuFidelity"]
STAT_METHODS = ("SmoothGrad", "SquareGrad", "VarGrad")
SEED = 11


# ----------------------------------------------------------------------------- generation
def gen_shape(rng, cs=(1, 3, 4, 2)):
    if rng.random() < 0.12:
        c = rng.choice([2, 3, 4])          # cube-shaped inputs: the NCHW and NHWC shapes coincide
        return [c, c, c]
    while True:
        h, w = rng.randint(1, 4), rng.randint(1, 4)
        if h != w or rng.random() < 0.15:
            return [h, w, rng.choice(cs)]


def gen_method(rng, n):
    m = rng.choice(GRAD_METHODS)
    d = dict(method=m)
    work = n
    if m == "IntegratedGradients":
        d["steps"] = rng.choice([2, 3, 5, 9])
        d["baseline"] = rng.choice([0.0, 0.0, 0.5, -1.0])
        work = n * d["steps"]
    elif m in ("SmoothGrad", "SquareGrad", "VarGrad"):
        d["nb"] = rng.choice([2, 3, 4])
        work = n * d["nb"]
    d["bs"] = rng.choice([1, 2, 3, n, work, work + 1, max(1, work - 1), None, None])
    return d


def gen_conv(rng, shape, relu):
    h, w, c = shape
    kh, kw = rng.randint(1, h), rng.randint(1, w)
    sh, sw = rng.randint(1, 2), rng.randint(1, 2)
    K = rng.randint(1, 2)
    oh, ow = (h - kh) // sh + 1, (w - kw) // sw + 1
    ncls = rng.randint(1, 3)

    def conv():
        return dict(w=[[[[rng.randint(-2, 2) for _ in range(kw)] for _ in range(kh)] for _ in range(c)] for _ in range(K)],
                    b=[rng.randint(-1, 1) for _ in range(K)])

    def lin(bias):
        return dict(w=[[rng.randint(-2, 2) for _ in range(K * oh * ow)] for _ in range(ncls)],
                    b=[rng.randint(-2, 2) if bias else 0 for _ in range(ncls)])
    net = dict(K=K, kernel=[kh, kw], stride=[sh, sw], ncls=ncls, convA=conv(), linA=lin(True))
    if not relu:
        net["convB"] = conv()
        net["convB"]["b"] = [0] * K
        net["linB"] = lin(False)
    return net


def gen_torch(rng, tier):
    kind = rng.choice(["tab", "img_last", "img_last", "img_first", "img_first", "conv", "conv", "convrelu"])
    n = rng.randint(1, 3)
    case = dict(stream="torch", kind=kind)
    if kind == "tab":
        shape = [rng.randint(1, 7)]
        case["request"] = rng.choice([None, None, False])
        case["dummy_conv"] = False
    else:
        shape = gen_shape(rng)
        if kind == "img_last":
            case["dummy_conv"] = rng.random() < 0.6
            case["request"] = False if case["dummy_conv"] else rng.choice([None, None, False])
        elif kind == "img_first":
            case["dummy_conv"] = rng.random() < 0.5
            case["request"] = rng.choice([None, True]) if case["dummy_conv"] else True
        else:
            case["dummy_conv"] = False
            case["request"] = rng.choice([None, None, True])
    dim = int(np.prod(shape))
    case["shape"] = shape
    if kind in ("conv", "convrelu"):
        case["net"] = gen_conv(rng, shape, kind == "convrelu")
        ncls = case["net"]["ncls"]
    else:
        ncls = rng.randint(1, 3)
        case["params"] = fam.gen_fquad(rng, ncls, dim, quad=(kind != "tab" or rng.random() < 0.6),
                                       cross=(kind != "tab" or rng.random() < 0.6))
    case["xs"] = [fam.dyadic(rng, dim) for _ in range(n)]
    case["ts"] = fam.gen_targets(rng, n, ncls)
    case.update(gen_method(rng, n))
    case["late"] = rng.random() < 0.4
    return case


LAYERS = ["Conv2d", "Conv1d", "Conv3d", "ConvTranspose2d", "Linear", "ReLU", "Flatten", "Identity"]


def gen_tree(rng, depth, p_conv):
    out = []
    for _ in range(rng.randint(0, 3)):
        r = rng.random()
        if depth < 2 and r < 0.3:
            out.append(gen_tree(rng, depth + 1, p_conv))
        elif r < 0.3 + p_conv:
            out.append("Conv2d")
        else:
            out.append(rng.choice(LAYERS[1:]))
    return out


def gen_ctor(rng, tier):
    # explicit requests (True / False) on trees WITH and WITHOUT a Conv2d are what distinguishes "as detected" from "as requested"
    return dict(stream="ctor", tree=gen_tree(rng, 0, rng.choice([0.0, 0.15, 0.3, 0.5])), request=rng.choice([None, None, True, False, False]))


def gen_callable(rng, tier):
    n = rng.choice([1, 1, 2, 3, 4, 5])
    form = rng.choice(["2d", "1d", "1d", "squeeze"])
    K = 1 if form == "1d" else rng.randint(2, 4) if form == "squeeze" else rng.randint(1, 4)
    d = rng.randint(1, 5)
    return dict(stream="callable", api=rng.choice(["callable", "predict_proba"]), form=form, d=d,
                params=fam.gen_fquad(rng, K, d), xs=[fam.dyadic(rng, d) for _ in range(n)], ts=fam.gen_targets(rng, n, K, 0.2),
                bs=rng.choice([None, None, 1, 1, 2, max(1, n - 1), n, n + 1]))


def gen_same(rng, tier):
    method = rng.choice(SAME_METHODS)
    image_only = method in ("Sobol", "Hsic")
    kind = "img" if image_only or rng.random() < 0.65 else "tab"
    if kind == "img":
        # Lime / KernelShap have a default image segmentation only for C in {1, 3} (C12's business, not a wrapping matter)
        shape = [rng.randint(2, 4), rng.randint(2, 5), rng.choice([1, 3] if method in ("Lime", "KernelShap") else [1, 3, 2])]
        if shape[0] == shape[1]:
            shape[1] += 1
    else:
        shape = [rng.randint(2, 7)]
    dim = int(np.prod(shape))
    ncls = rng.choice([1, 1, 2, 3])
    n = rng.randint(1, 3)
    wr = ["keras", "tfmod", "numpy", "pp"]
    if ncls == 1:
        wr += ["numpy1d", "pp1d"]
    if rng.random() < 0.6:
        wr += ["torch"] + (["torch_first"] if kind == "img" else [])
    rng.shuffle(wr)
    if len(wr) > 4 and rng.random() < 0.5:
        wr = wr[:4]
    case = dict(stream="same", method=method, kind=kind, shape=shape, params=fam.gen_fquad(rng, ncls, dim),
                xs=[fam.dyadic(rng, dim) for _ in range(n)], ts=fam.gen_targets(rng, n, ncls), wrappings=wr,
                bs=rng.choice([1, 2, 3, 5, 7, None]))
    if rng.random() < 0.3:
        # a user-supplied operator (callable): every wrapping that is itself callable must be explained through it
        case["op"] = "custom_sq"
        wr = [w for w in wr if w in ("keras", "tfmod", "numpy", "torch", "torch_first")]
        wr += [w for w in ("keras", "numpy") if w not in wr]        # at least one TensorFlow and one NumPy wrapping
        case["wrappings"] = wr
    case["eager"] = bool(any(w.startswith("torch") for w in wr) or rng.random() < 0.25)
    case["late"] = any(w.startswith("torch") for w in wr) and rng.random() < 0.4
    if method == "Occlusion":
        if kind == "tab":
            case["patch"], case["stride"] = rng.randint(1, shape[0]), rng.randint(1, shape[0])
        else:
            case["patch"] = [rng.randint(1, shape[0]), rng.randint(1, shape[1])]
            case["stride"] = [rng.randint(1, shape[0]), rng.randint(1, shape[1])]
    elif method == "Rise":
        case["nb"], case["grid"] = rng.randint(3, 12), rng.randint(2, 3)
    elif method in ("Lime", "KernelShap"):
        case["nb"] = rng.randint(dim + 2, dim + 12)
    elif method in ("Sobol", "Hsic"):
        case["grid"], case["nb"] = 2, rng.choice([4, 8])
    elif method in ("Deletion", "Insertion"):
        case["steps"] = rng.choice([-1, 2, 3, 5])
        case["expl"] = [fam.dyadic(rng, dim) for _ in range(n)]
    else:
        case["grid"], case["nb"] = 2, rng.randint(4, 10)
        case["expl"] = [fam.dyadic(rng, dim) for _ in range(n)]
        if kind == "tab":
            case["grid"] = None
    return case


def generate(rng, tier):
    k = 1 if tier == "quick" else 10
    cases = []
    for _ in range(55 * k):
        c = gen_torch(rng, tier)
        # interleaving: before the explainer under test, an explainer is built on ANOTHER wrapper of the SAME torch module
        # with the opposite channel convention (a decoy): which wrapper an explainer holds must not depend on it
        c["decoy"] = len(c["shape"]) == 3 and rng.random() < 0.5
        cases.append(c)
    # always present: cube-shaped inputs through channel-first modules with a gradient method
    found = 0
    for _ in range(400):
        if found >= 4:
            break
        c = gen_torch(rng, tier)
        if len(c["shape"]) == 3 and len(set(c["shape"])) == 1 and c["shape"][0] >= 2 and c["kind"] in ("img_first", "conv", "convrelu"):
            c["decoy"] = False
            cases.append(c)
            found += 1
    # detection is about Conv2d ONLY: modules whose only convolutions are of another kind, detection left to the wrapper
    for tree in (["Conv1d"], ["Conv3d", "ReLU"], [["Conv1d", "ReLU"], "Flatten", "Linear"], ["ConvTranspose2d"],
                 [["Conv1d"], ["Conv2d"]]):
        cases.append(dict(stream="ctor", tree=tree, request=None))
    for _ in range(40 * k):
        cases.append(gen_ctor(rng, tier))
    for _ in range(35 * k):
        cases.append(gen_callable(rng, tier))
    for _ in range(32 * k):
        cases.append(gen_same(rng, tier))
    return cases


def flat_tree(tree):
    """kinds in the order of module.modules() of the Sequential built from the tree (pre-order, containers included)"""
    out = ["Container"]
    for t in tree:
        out.extend(flat_tree(t) if isinstance(t, list) else [t])
    return out


def nontrivial(case):
    s = case["stream"]
    if s == "torch":
        sh = case["shape"]
        conv_on = case["kind"] in ("img_first", "conv", "convrelu") and (sh[0] != sh[1] or sh[2] > 1)
        return conv_on or (case["bs"] is not None and case["bs"] < len(case["xs"]))
    if s == "ctor":
        has = "Conv2d" in flat_tree(case["tree"])
        nested = any(isinstance(t, list) and "Conv2d" in flat_tree(t) for t in case["tree"])
        return nested or (case["request"] is not None and case["request"] != has)
    if s == "callable":
        return case["form"] != "2d" or len(case["xs"]) == 1 or case["bs"] == 1
    return len(case["wrappings"]) >= 3


def distribution(cases):
    t = [c for c in cases if c["stream"] == "torch"]
    return dict(stream=core.hist(c["stream"] for c in cases),
                torch_kind=core.hist(c["kind"] for c in t), torch_method=core.hist(c["method"] for c in t),
                torch_shape=core.hist("x".join(map(str, c["shape"])) for c in t),
                torch_request=core.hist(c["request"] for c in t),
                callable_form=core.hist(f"{c['form']}/n={len(c['xs'])}/bs={c['bs']}" for c in cases if c["stream"] == "callable"),
                same_method=core.hist(c["method"] for c in cases if c["stream"] == "same"),
                same_wrappings=core.hist(w for c in cases if c["stream"] == "same" for w in c["wrappings"]),
                same_eager=core.hist(c["eager"] for c in cases if c["stream"] == "same"))


# ----------------------------------------------------------------------------- torch modules
def torch_fquad(ks, dummy_conv=False, linear=False):
    """torch module computing the F-quad member on x.reshape(n, -1) (whatever layout it is handed)"""
    import torch

    class Q(torch.nn.Module):
        def __init__(self):
            super().__init__()
            W = torch.tensor([k["W"] for k in ks], dtype=torch.float32)
            b = torch.tensor([k["b"] for k in ks], dtype=torch.float32)
            if linear:
                self.lin = torch.nn.Linear(W.shape[1], W.shape[0])
                with torch.no_grad():
                    self.lin.weight.copy_(W)
                    self.lin.bias.copy_(b)
            else:
                self.register_buffer("W", W)
                self.register_buffer("b", b)
            self.register_buffer("V", torch.tensor([k["V"] for k in ks], dtype=torch.float32))
            if dummy_conv:
                self.unused = torch.nn.Sequential(torch.nn.Identity(), torch.nn.Conv2d(1, 1, 1))

        def forward(self, x):
            xf = x.reshape(x.shape[0], -1)
            out = self.lin(xf) if linear else self.b[None, :] + xf @ self.W.T
            out = out + (xf * xf) @ self.V.T
            cols = []
            for k in ks:
                col = torch.zeros_like(xf[:, 0])
                for i, j, v in k["X"]:
                    col = col + float(v) * xf[:, i] * xf[:, j]
                cols.append(col)
            return out + torch.stack(cols, 1)
    return Q().eval()


def torch_conv(net, shape, relu):
    import torch
    h, w, c = shape

    def conv(spec):
        m = torch.nn.Conv2d(c, net["K"], tuple(net["kernel"]), stride=tuple(net["stride"]))
        with torch.no_grad():
            m.weight.copy_(torch.tensor(spec["w"], dtype=torch.float32))
            m.bias.copy_(torch.tensor(spec["b"], dtype=torch.float32))
        return m

    def lin(spec):
        m = torch.nn.Linear(len(spec["w"][0]), len(spec["w"]))
        with torch.no_grad():
            m.weight.copy_(torch.tensor(spec["w"], dtype=torch.float32))
            m.bias.copy_(torch.tensor(spec["b"], dtype=torch.float32))
        return m

    class Net(torch.nn.Module):
        def __init__(self):
            super().__init__()
            if relu:
                self.a = torch.nn.Sequential(conv(net["convA"]), torch.nn.ReLU(), torch.nn.Flatten(), lin(net["linA"]))
            else:
                self.a = torch.nn.Sequential(conv(net["convA"]), torch.nn.Flatten(), lin(net["linA"]))
                self.b = torch.nn.Sequential(conv(net["convB"]), torch.nn.Flatten(), lin(net["linB"]))

        def forward(self, x):
            return self.a(x) if relu else self.a(x) + self.b(x * x)
    return Net().eval()


def extract_fquad(module, shape):
    """F-quad parameters (layout of the module's own input, NCHW) read off natively: f(0), f(e_i), f(-e_i)"""
    import torch
    h, w, c = shape
    D = h * w * c
    eye = torch.eye(D).reshape(D, c, h, w)
    with torch.no_grad():
        b = module(torch.zeros(1, c, h, w)).numpy().astype(np.float64)[0]
        p, m = module(eye).numpy().astype(np.float64), module(-eye).numpy().astype(np.float64)
    W, V = (p - m) / 2, (p + m) / 2 - b[None, :]
    return [dict(b=float(b[k]), W=[float(v) for v in W[:, k]], V=[float(v) for v in V[:, k]], X=[]) for k in range(len(b))]


def nhwc_to_nchw_params(ks, shape):
    """the same function of the image, written on NCHW-flattened data"""
    h, w, c = shape
    pos = np.arange(h * w * c).reshape(h, w, c).transpose(2, 0, 1).reshape(-1)      # pos[q] = NHWC index at NCHW position q
    inv = np.argsort(pos)
    out = []
    for k in ks:
        out.append(dict(b=k["b"], W=[k["W"][int(p)] for p in pos], V=[k["V"][int(p)] for p in pos],
                        X=[[int(inv[i]), int(inv[j]), v] for i, j, v in k["X"]]))
    return out


def make_wrapper(module, request, late=False):
    """TorchWrapper with the eager side effect observed.  late: the module holds other weights while it is wrapped
    and receives its real ones afterwards (load_state_dict, as after a fine-tuning round): the wrapper must follow."""
    if late:
        import copy
        import torch
        real = copy.deepcopy(module.state_dict())
        with torch.no_grad():
            for p in list(module.parameters()) + list(module.buffers()):
                if p.dtype.is_floating_point:
                    p.mul_(0.5).add_(1.0)
        try:
            return make_wrapper(module, request)
        finally:
            module.load_state_dict(real)
    import tensorflow as tf
    from xplique.wrappers import TorchWrapper
    before = tf.config.functions_run_eagerly()
    tw = TorchWrapper(module, "cpu", is_channel_first=request) if request is not None else TorchWrapper(module, "cpu")
    after = tf.config.functions_run_eagerly()
    e = EXTRA_COVERAGE["run_functions_eagerly_side_effect"]
    e["constructions"] += 1
    e["flag_before_true"] += int(bool(before))
    e["flag_after_true"] += int(bool(after))
    return tw, before, after


def fl(a):
    a = np.asarray(a)
    return [[float(v) for v in r.reshape(-1)] for r in a]


# ----------------------------------------------------------------------------- stream torch
def native_grad(module, x, t, first):
    """gradient of sum(module(x) * t) natively; x in the explainer's layout (n, ...); own transposes"""
    import torch
    xn = np.ascontiguousarray(np.transpose(x, (0, 3, 1, 2))) if first else x
    xt = torch.tensor(xn, dtype=torch.float32, requires_grad=True)
    out = module(xt)
    (out * torch.tensor(t, dtype=torch.float32)).sum().backward()
    g = xt.grad.numpy()
    return np.transpose(g, (0, 2, 3, 1)) if first else g


def native_method(module, case, x, t, first):
    m = case["method"]
    if m == "Saliency":
        return np.abs(native_grad(module, x, t, first))
    if m == "GradientInput":
        return x * native_grad(module, x, t, first)
    if m == "IntegratedGradients":
        S, b = case["steps"], np.float32(case["baseline"])
        al = np.linspace(0.0, 1.0, S).astype(np.float32)
        out = []
        for xi, ti in zip(x, t):
            pts = np.stack([b + a * (xi - b) for a in al]).astype(np.float32)
            g = native_grad(module, pts, np.repeat(ti[None], S, 0), first).astype(np.float64)
            out.append((xi - b) * ((g[:-1] + g[1:]).mean(0) * 0.5))
        return np.stack(out)
    g = native_grad(module, x, t, first).astype(np.float64)
    if m == "SmoothGrad":
        return g
    if m == "SquareGrad":
        return g * g
    return np.zeros_like(g)


def run_torch(case):
    import tensorflow as tf
    import torch
    from xplique import attributions as A
    kind, shape = case["kind"], case["shape"]
    if kind in ("conv", "convrelu"):
        module = torch_conv(case["net"], shape, kind == "convrelu")
    else:
        module = torch_fquad(case["params"], case["dummy_conv"], linear=(kind == "tab"))
    n = len(case["xs"])
    x = np.array(case["xs"], np.float32).reshape([n] + shape)
    t = np.array(case["ts"], np.float32)
    tw, before, after = make_wrapper(module, case["request"], late=bool(case.get("late")))
    try:
        tf.config.run_functions_eagerly(True)          # the wrapper cannot run inside a tf.function
        first = bool(tw.channel_first)
        out = np.asarray(tw(x))
        kw = dict(batch_size=case["bs"], reducer=None) if len(shape) == 3 else dict(batch_size=case["bs"])
        m = case["method"]
        if m == "IntegratedGradients":
            kw.update(steps=case["steps"], baseline_value=case["baseline"])
        elif m in ("SmoothGrad", "SquareGrad", "VarGrad"):
            kw.update(nb_samples=case["nb"], noise=0.0)
        if case.get("decoy"):
            from xplique.wrappers import TorchWrapper
            A.Saliency(TorchWrapper(module, "cpu", is_channel_first=not first))      # constructed only, never called
        attr = np.asarray(getattr(A, m)(tw, **kw).explain(x, t))
    finally:
        tf.config.run_functions_eagerly(before)
    if attr.shape != x.shape:
        raise AssertionError(f"explanation shape {attr.shape} for inputs {x.shape}")
    xn = np.ascontiguousarray(np.transpose(x, (0, 3, 1, 2))) if first else x
    with torch.no_grad():
        out_ref = module(torch.tensor(xn)).numpy()
    res = dict(channel_first=first, eager_before=bool(before), eager_after=bool(after), outputs=fl(out), attr=fl(attr),
               outputs_native=fl(out_ref), attr_native=fl(native_method(module, case, x, t, first)))
    if case["method"] in STAT_METHODS:
        # TF's x**2 and division by nb_samples are not exact in float32: the three statistics are compared within
        # 1e-5 * scale, scale = 1 + max|g| (SmoothGrad) or 1 + max g^2 (SquareGrad, VarGrad) of the native gradient
        g = np.abs(native_grad(module, x, t, first).astype(np.float64))
        res["scale"] = float(1.0 + (g.max() if case["method"] == "SmoothGrad" else (g * g).max()))
    if kind == "conv":
        res["fquad_native"] = extract_fquad(module, shape)
    return res


# ----------------------------------------------------------------------------- stream ctor
def build_tree(tree):
    import torch
    nn = torch.nn
    mk = dict(Conv2d=lambda: nn.Conv2d(1, 1, 1), Conv1d=lambda: nn.Conv1d(1, 1, 1), Conv3d=lambda: nn.Conv3d(1, 1, 1),
              ConvTranspose2d=lambda: nn.ConvTranspose2d(1, 1, 1), Linear=lambda: nn.Linear(1, 1), ReLU=nn.ReLU,
              Flatten=nn.Flatten, Identity=nn.Identity)
    return nn.Sequential(*[build_tree(t) if isinstance(t, list) else mk[t]() for t in tree])


def run_ctor(case):
    module = build_tree(case["tree"]).eval()
    import tensorflow as tf
    tw, before, after = make_wrapper(module, case["request"], late=bool(case.get("late")))
    tf.config.run_functions_eagerly(before)
    names = [type(m).__name__ for m in module.modules()]
    return dict(channel_first=bool(tw.channel_first), modules=["Container" if nm == "Sequential" else nm for nm in names],
                eager_before=bool(before), eager_after=bool(after))


# ----------------------------------------------------------------------------- stream callable
class Shaped:
    """NumPy model returning 2-D, 1-D (single output) or squeezed predictions"""
    def __init__(self, ks, form):
        self.f = fam.FQuadNumpy(ks)
        self.form = form

    def __call__(self, x):
        out = self.f(x)
        if self.form == "1d":
            return out[:, 0]
        if self.form == "squeeze":
            return out[0] if out.shape[0] == 1 else out
        return out


class PredictProba:
    def __init__(self, f):
        self.f = f

    def predict_proba(self, x):
        return self.f(x)


def run_callable(case):
    import tensorflow as tf
    from xplique.commons import get_inference_function
    model = Shaped(case["params"], case["form"])
    if case["api"] == "predict_proba":
        model = PredictProba(model)
    inf, binf = get_inference_function(model, None)
    x = tf.constant(np.array(case["xs"], np.float32))
    t = tf.constant(np.array(case["ts"], np.float32))
    try:
        v = np.asarray(binf(model, x, t, case["bs"]))
    except (ValueError, tf.errors.InvalidArgumentError) as e:
        return dict(error=str(e)[:200])
    return dict(shape=list(v.shape), values=[float(a) for a in v.reshape(-1)])


# ----------------------------------------------------------------------------- stream same
def build_wrapping(name, case):
    ks, shape = case["params"], case["shape"]
    if name == "keras":
        return fam.fquad_keras(ks, shape), None
    if name == "tfmod":
        return fam.fquad_tf_module(ks, shape), None
    if name in ("numpy", "numpy1d"):
        return Shaped(ks, "1d" if name.endswith("1d") else "2d"), None
    if name in ("pp", "pp1d"):
        return PredictProba(Shaped(ks, "1d" if name.endswith("1d") else "2d")), None
    if name == "torch":
        tw, before, _ = make_wrapper(torch_fquad(ks), None, late=bool(case.get("late")))
        return tw, before
    tw, before, _ = make_wrapper(torch_fquad(nhwc_to_nchw_params(ks, shape)), True, late=bool(case.get("late")))
    return tw, before


def custom_sq_operator(model, inputs, targets):
    import tensorflow as tf
    return tf.reduce_sum(tf.cast(model(inputs), tf.float32) ** 2 * targets, axis=-1)


def same_run(model, case, x, t):
    from xplique import attributions as A
    from xplique import metrics as M
    m, bs = case["method"], case["bs"]
    if case.get("op"):
        import functools

        class _WithOp:
            """namespace whose classes are the xplique ones with operator= pre-filled"""
            def __init__(self, ns):
                self.ns = ns

            def __getattr__(self, name):
                return functools.partial(getattr(self.ns, name), operator=custom_sq_operator)
        A, M = _WithOp(A), _WithOp(M)
    conv = (lambda a: tuple(a) if isinstance(a, list) else a)
    if m == "Occlusion":
        return A.Occlusion(model, batch_size=bs, patch_size=conv(case["patch"]), patch_stride=conv(case["stride"])).explain(x, t)
    if m == "Rise":
        return A.Rise(model, batch_size=bs, nb_samples=case["nb"], grid_size=case["grid"]).explain(x, t)
    if m == "Lime":
        return A.Lime(model, batch_size=bs, nb_samples=case["nb"]).explain(x, t)
    if m == "KernelShap":
        return A.KernelShap(model, batch_size=bs or 64, nb_samples=case["nb"]).explain(x, t)
    if m == "Sobol":
        return A.SobolAttributionMethod(model, batch_size=bs or 256, grid_size=case["grid"], nb_design=case["nb"]).explain(x, t)
    if m == "Hsic":
        return A.HsicAttributionMethod(model, batch_size=bs or 256, grid_size=case["grid"], nb_design=case["nb"]).explain(x, t)
    e = np.array(case["expl"], np.float32).reshape(x.shape)
    if m in ("Deletion", "Insertion"):
        return [getattr(M, m)(model, x, t, batch_size=bs, steps=case["steps"]).evaluate(e)]
    kw = dict(grid_size=case["grid"]) if case["grid"] else dict(grid_size=None)
    return [M.MuFidelity(model, x, t, batch_size=bs, nb_samples=case["nb"], subset_percent=0.5, **kw).evaluate(e)]


def run_same(case):
    import tensorflow as tf
    n = len(case["xs"])
    x = np.array(case["xs"], np.float32).reshape([n] + case["shape"])
    t = np.array(case["ts"], np.float32)
    res = dict(results={}, shapes={})
    start = tf.config.functions_run_eagerly()
    try:
        for name in case["wrappings"]:
            model, before = build_wrapping(name, case)
            tf.config.run_functions_eagerly(bool(case["eager"]) or name.startswith("torch"))
            tf.keras.utils.set_random_seed(SEED)
            try:
                out = np.asarray(same_run(model, case, x, t), dtype=np.float64)
            except AttributeError as e:
                if "has no attribute 'numpy'" not in str(e):
                    raise
                res["results"][name] = "AttributeError"     # inputs.numpy() on a NumPy array (see coq_term)
                res["shapes"][name] = None
                continue
            if not np.all(np.isfinite(out)):
                res["results"][name] = None        # NaN (HSIC with a zero median, known limitation): nothing to compare
            else:
                res["results"][name] = [float(v) for v in out.reshape(-1)]
            res["shapes"][name] = list(out.shape)
    finally:
        tf.config.run_functions_eagerly(start)
    return res


def run_impl(case):
    return dict(torch=run_torch, ctor=run_ctor, callable=run_callable, same=run_same)[case["stream"]](case)


# ----------------------------------------------------------------------------- Coq side
PRELUDE = r"""
Open Scope Qc_scope.
Definition c11_G := list (list Qc) -> list (list Qc) -> list (list Qc).
Definition c11_sal (G : c11_G) xs ts := map (map Qcabs) (G xs ts).
Definition c11_gi (G : c11_G) xs ts := map2 vmul xs (G xs ts).
Definition c11_path (m : nat) (b : Qc) (x : list Qc) : list (list Qc) :=
  map (fun k => map (fun xi => b + (qn k / qn (m - 1)) * (xi - b)) x) (seq 0 m).
Definition c11_trapz (m : nat) (gs : list (list Qc)) : list Qc :=
  vscale (/ (two * qn (m - 1))) (vsum (length (hd [] gs)) (map2 vadd (removelast gs) (tl gs))).
Definition c11_ig (m : nat) (b : Qc) (G : c11_G) xs ts :=
  let gs := chunks m (G (flat_map (c11_path m b) xs) (rep m ts)) in
  map2 (fun x g => vmul (map (fun xi => xi - b) x) (c11_trapz m g)) xs gs.
Definition c11_sg (G : c11_G) xs ts := G xs ts.
Definition c11_sq (G : c11_G) xs ts := map (map (fun g => g * g)) (G xs ts).
Definition c11_vg (G : c11_G) xs ts := map (map (fun _ => 0)) (G xs ts).
Definition c11_fq (ks : list qclass) (cf : bool) (tail : list nat) : c11_G :=
  fun xs ts => fq_gradients ks cf (length xs :: tail) xs ts.
Definition c11_oeq (a : option (list Qc)) (b : option (list Qc)) : bool :=
  match a, b with Some x, Some y => qlist_eqb x y | None, None => true | _, _ => false end.
Definition c11_scale (v : list Qc) : Qc := fold_left (fun a x => Qcmax a (Qcabs x)) v (q 0 1) + q 1 1.
Definition c11_close (a b : list Qc) : bool := qlist_close (q 1 100000) (c11_scale a) a b.
Definition c11_close2 (sc : Qc) (a b : list (list Qc)) : bool := list_eqb (qlist_close (q 1 100000) sc) a b.
Definition c11_pred (form : nat) (ks : list qclass) (inputs : list (list Qc)) : pred :=
  match form with
  | 0%nat => Pred2 (map (fquad_out ks) inputs)
  | 1%nat => Pred1 (map (fun x => nthq (fquad_out ks x) 0) inputs)
  | _ => if (length inputs =? 1)%nat then Pred1 (fquad_out ks (hd [] inputs)) else Pred2 (map (fquad_out ks) inputs)
  end.
Close Scope Qc_scope.
"""

KIND = dict(Conv2d="LConv2d", Conv1d="LConv1d", Conv3d="LConv3d", ConvTranspose2d="LConvTranspose2d", Linear="LLinear",
            ReLU="LActivation", Flatten="LFlatten", Identity="LOther", Container="LContainer")


def method_term(case, G):
    m = case["method"]
    if m == "Saliency":
        return f"c11_sal {G}"
    if m == "GradientInput":
        return f"c11_gi {G}"
    if m == "IntegratedGradients":
        return f"c11_ig {core.cnat(case['steps'])} {core.cq(case['baseline'])} {G}"
    return {"SmoothGrad": "c11_sg", "SquareGrad": "c11_sq", "VarGrad": "c11_vg"}[m] + f" {G}"


def torch_model_terms(case, res):
    """(outputs term, attribution term) of the Coq wrapper model, or None for kinds without a Coq family"""
    if case["kind"] == "convrelu":
        return None
    ks = res["fquad_native"] if case["kind"] == "conv" else case["params"]
    cf = core.cbool(res["channel_first"])
    tail = core.cnatlist(case["shape"])
    n = len(case["xs"])
    xs, ts = core.cqlist2(case["xs"]), core.cqlist2(case["ts"])
    ksq = fam.coq_fquad(ks)
    outs = f"fq_outputs {ksq} {cf} ({core.cnat(n)} :: {tail}) (concat {xs})"
    attr = f"{method_term(case, f'(c11_fq {ksq} {cf} {tail})')} {xs} {ts}"
    return outs, attr


def expected_first(case):
    if case["request"] is not None:
        return case["request"]
    return case["kind"] in ("conv", "convrelu") or case["dummy_conv"]


def coq_term(case, res):
    s = case["stream"]
    if s == "torch":
        cmp_ = f"c11_close2 {core.cq(res['scale'])}" if case["method"] in STAT_METHODS else "qlist2_eqb"
        parts = [core.cbool(res["channel_first"] == expected_first(case)),
                 f"qlist2_eqb {core.cqlist2(res['outputs'])} {core.cqlist2(res['outputs_native'])}",
                 f"{cmp_} {core.cqlist2(res['attr_native'])} {core.cqlist2(res['attr'])}"]
        mt = torch_model_terms(case, res)
        if mt is not None:
            parts.append(f"qlist2_eqb ({mt[0]}) {core.cqlist2(res['outputs'])}")
            parts.append(f"{cmp_} ({mt[1]}) {core.cqlist2(res['attr'])}")
        return "(" + " && ".join(parts) + ")"
    if s == "ctor":
        req = core.copt(None if case["request"] is None else core.cbool(case["request"]))
        mods = core.cl([KIND[m] for m in res["modules"]])
        ok_modules = res["modules"] == flat_tree(case["tree"])
        return f"({core.cbool(ok_modules)} && Bool.eqb (init_channel_first {req} {mods}) {core.cbool(res['channel_first'])})"
    if s == "callable":
        form = dict([("2d", 0), ("1d", 1), ("squeeze", 2)])[case["form"]]
        bs = core.copt(None if case["bs"] is None else core.cnat(case["bs"]))
        model = (f"batch_one_hot_callable (c11_pred {core.cnat(form)} {fam.coq_fquad(case['params'])}) {bs} "
                 f"{core.cqlist2(case['xs'])} {core.cqlist2(case['ts'])}")
        if "error" in res:
            return f"c11_oeq ({model}) None"
        if res["shape"] != [len(case["xs"])]:
            return "false"
        return f"c11_oeq ({model}) (Some {core.cqlist(res['values'])})"
    # same
    # model of the container of the inputs (current code: never fails; the code as found failed on inputs.numpy() for
    # callables / predict_proba objects under Deletion / Insertion with batch_size=None)
    pre = []
    names = []
    for w in case["wrappings"]:
        failed = res["results"][w] == "AttributeError"
        if w in ("numpy", "pp", "numpy1d", "pp1d"):
            cont = "metric_container" if case["method"] in ("Deletion", "Insertion") else "explainer_container"
            form = 1 if w.endswith("1d") else 0
            bs = core.copt(None if case["bs"] is None else core.cnat(case["bs"]))
            pre.append(f"Bool.eqb (match batch_one_hot_callable_on {cont} (c11_pred {core.cnat(form)} {fam.coq_fquad(case['params'])}) "
                       f"{bs} {core.cqlist2(case['xs'])} {core.cqlist2(case['ts'])} with None => true | Some _ => false end) "
                       f"{core.cbool(failed)}")
        elif failed:
            return "false"
        if not failed:
            names.append(w)
    if len(names) < 2:
        return "(" + " && ".join(pre or ["true"]) + ")"
    vals = [res["results"][w] for w in names]
    if any(v is None for v in vals):
        if all(v is None for v in vals):
            return None                      # all-NaN for every wrapping (HSIC, zero median): skipped, counted
        return "false"
    if any(res["shapes"][w] != res["shapes"][names[0]] for w in names):
        return "false"
    cmp_ = "c11_close" if case["method"] in ("Rise", "Sobol", "Hsic") else "qlist_eqb"
    ref = core.cqlist(vals[0])
    parts = pre + [f"{cmp_} {ref} {core.cqlist(v)}" for v in vals[1:]]
    if case["method"] == "Occlusion" and not case.get("op"):     # (with a custom operator: wrappings against each other only)
        sh = case["shape"]
        if case["kind"] == "tab":
            g = f"(Tab {sh[0]} {case['patch']} {case['stride']})"
            npos = sh[0]
        else:
            g = f"(Grid {sh[0]} {sh[1]} {sh[2]} {case['patch'][0]} {case['patch'][1]} {case['stride'][0]} {case['stride'][1]})"
            npos = sh[0] * sh[1]
        bs = core.copt(None if case["bs"] is None else core.cnat(case["bs"]))
        model = (f"occlusion (fquad {fam.coq_fquad(case['params'])}) {g} {bs} (Qcx.q 0 1) {core.cqlist2(case['xs'])} "
                 f"{core.cqlist2(case['ts'])}")
        parts.append(f"qlist_eqb (concat ({model})) {ref}")
    return "(" + " && ".join(parts or ["true"]) + ")"


def dump_term(case, res):
    s = case["stream"]
    if s == "torch":
        mt = torch_model_terms(case, res)
        if mt is None:
            return "0%nat"
        return f"(map (map qdump) ({mt[0]}), map (map qdump) ({mt[1]}))"
    if s == "ctor":
        req = core.copt(None if case["request"] is None else core.cbool(case["request"]))
        return f"init_channel_first {req} {core.cl([KIND[m] for m in res['modules']])}"
    if s == "callable":
        form = dict([("2d", 0), ("1d", 1), ("squeeze", 2)])[case["form"]]
        bs = core.copt(None if case["bs"] is None else core.cnat(case["bs"]))
        return (f"option_map (map qdump) (batch_one_hot_callable (c11_pred {core.cnat(form)} {fam.coq_fquad(case['params'])}) {bs} "
                f"{core.cqlist2(case['xs'])} {core.cqlist2(case['ts'])})")
    return "0%nat"


def explain_failure(case, res, model):
    if res is None:
        return "implementation raised on a valid configuration"
    s = case["stream"]
    if s == "torch":
        d = dict(clause="wrapper(x) and the attribution through TorchWrapper equal the module evaluated natively in PyTorch "
                        "(torch forward / torch.autograd) and the Coq wrapper model",
                 channel_first=res["channel_first"], expected_channel_first=expected_first(case),
                 outputs_equal_native=res["outputs"] == res["outputs_native"],
                 attribution_equals_native=res["attr"] == res["attr_native"])
        bad = [(i, j, a, b) for i, (ra, rb) in enumerate(zip(res["attr"], res["attr_native"]))
               for j, (a, b) in enumerate(zip(ra, rb)) if a != b]
        d["first_differences_impl_vs_native"] = [dict(sample=i, position=j, through_wrapper=a, native_torch=b) for i, j, a, b in bad[:6]]
        return d
    if s == "ctor":
        return dict(clause="channel_first = is_channel_first if given, else (a Conv2d occurs in module.modules())",
                    implementation=res["channel_first"], model=model)
    if s == "callable":
        return dict(clause="scores = sum(pred * targets, -1) per sample for 2-D predictions, 1-D predictions of a single-output "
                           "model and squeezed predictions, whatever the batch size", implementation=res, model=model)
    diff = {}
    names = [w for w in case["wrappings"] if isinstance(res["results"][w], list)]
    for w in names[1:]:
        a, b = res["results"][names[0]], res["results"][w]
        if a != b:
            diff[f"{names[0]} vs {w}"] = dict(first=a[:8] if a else a, second=b[:8] if b else b)
    return dict(clause=f"{case['method']} gives the same result for every wrapping of the same function (same seeds); callables "
                       "under Deletion / Insertion with batch_size=None raise AttributeError (known defect, modelled)",
                wrappings_that_differ=diff, raised={w: r for w, r in res["results"].items() if isinstance(r, str)})


def classify_known(case, res, err, known):
    """the AttributeError of metrics on callables with batch_size=None, when known_findings.json lists it as known"""
    if case["stream"] != "same" or case["method"] not in ("Deletion", "Insertion") or case["bs"] is not None or not res:
        return None
    if not any(v == "AttributeError" for v in res["results"].values()):
        return None
    for e in known:
        if e.get("status") == "known" and e.get("match", {}).get("kind") == "metric_callable_batch_size_none":
            return e["id"]
    return None


def shrink(case):
    s = case["stream"]
    if s in ("torch", "callable", "same") and len(case["xs"]) > 1:
        for i in range(len(case["xs"])):
            c = copy.deepcopy(case)
            del c["xs"][i]
            del c["ts"][i]
            if "expl" in c:
                del c["expl"][i]
            yield c
    if s == "same" and len(case["wrappings"]) > 2:
        for i in range(len(case["wrappings"])):
            c = copy.deepcopy(case)
            del c["wrappings"][i]
            yield c
    if s in ("torch", "callable", "same") and case.get("bs") is not None:
        c = copy.deepcopy(case)
        c["bs"] = None
        yield c
    if "params" in case and any(k["X"] for k in case["params"]):
        c = copy.deepcopy(case)
        for k in c["params"]:
            k["X"] = []
        yield c
    if "params" in case and any(any(k["V"]) for k in case["params"]):
        c = copy.deepcopy(case)
        for k in c["params"]:
            k["V"] = [0] * len(k["V"])
        yield c
    if s == "torch" and case["method"] != "Saliency":
        c = copy.deepcopy(case)
        c["method"] = "Saliency"
        yield c
    if s == "ctor":
        for i in range(len(case["tree"])):
            c = copy.deepcopy(case)
            del c["tree"][i]
            yield c
