(* C10/Spec.v — the property's own words as definitions (no clone, no custom-gradient constructors, no
   batching, no flat-tensor reshapes).

   DeconvNet / GuidedBackprop: the relevance R is propagated backwards through the USER'S net, evaluated on
   the user's forward activations:
     - through every ReLU (fused 'relu' activation, Activation('relu') layer, ReLU layer) with input z and
       output a:            DeconvNet  R -> relu R                 (keep positive incoming gradients only)
                            Guided     R -> relu R * [a > 0]       (positive gradients at positive activations)
     - through every other layer / activation: the true local vector-Jacobian product.
   Grad-CAM(++):  cam[pos] = relu (sum_k w_k * A[pos, k]),
                  Grad-CAM    w_k = mean_pos G[pos, k]
                  Grad-CAM++  w_k = mean_pos ( G^2 / (2 G^2 + G^3 * mean_pos' A[pos', k]  (+ eps where this is 0)) * relu G )
                  then the bicubic resize to the input size. *)
From Xpl Require Export C10.Model.
Open Scope Qc_scope.

(* ------------------------------------------------------------------ modified back-propagation *)
(* a ReLU rule: input z of the ReLU, its output a, incoming relevance R *)
Definition relu_rule := Qc -> Qc -> Qc -> Qc.
Definition deconv_rule : relu_rule := fun z a R => relu R.
Definition guided_rule : relu_rule := fun z a R => relu R * b2q (Qcltb 0 a).
(* Springenberg et al. write the gate on the ReLU's input; for a standard ReLU it is the same gate *)
Definition guided_rule_input : relu_rule := fun z a R => relu R * b2q (Qcltb 0 z).

Section Relevance.
Variable ru : relu_rule.

Definition spec_act_bwd (a : act) (z R : Qc) : Qc :=
  match a with
  | ARelu => ru z (relu z) R
  | _ => act_bwd a z R                      (* true local derivative *)
  end.
Definition spec_op_bwd (o : op) (x R : list Qc) : list Qc :=
  match o with
  | ODense W b a => transpose_mul W (map2 (spec_act_bwd a) (affine W b x) R) (length x)
  | OAct a => map2 (spec_act_bwd a) x R
  | ORelu c => map2 (fun z Ri => ru z (relu_fwd c z) Ri) x R
  | _ => op_bwd o x R                       (* true local vector-Jacobian product *)
  end.
Fixpoint spec_relevance (n : net) (x t : list Qc) : list Qc :=
  match n with
  | [] => t
  | l :: r => spec_op_bwd (l_op l) x (spec_relevance r (op_fwd (l_op l) x) t)
  end.
Definition spec_explain (n : net) (xs ts : list (list Qc)) : list (list Qc) := map2 (spec_relevance n) xs ts.
End Relevance.

(* hypotheses on the user's net *)
Definition slopes0 (n : net) : Prop := forall l c, In l n -> l_op l = ORelu c -> r_slope c = 0.
(* "standard ReLU" layers: threshold 0, no negative slope, max_value absent or positive *)
Definition std_relu (c : relu_cfg) : Prop :=
  r_thr c = 0 /\ r_slope c = 0 /\ match r_max c with None => True | Some m => 0 < m end.
Definition std_relus (n : net) : Prop := forall l c, In l n -> l_op l = ORelu c -> std_relu c.

(* layers that are NOT a ReLU in the sense of override_relu_gradient *)
Definition is_relu_op (o : op) : bool :=
  match o with
  | ODense _ _ ARelu => true
  | OAct ARelu => true
  | ORelu _ => true
  | _ => false
  end.

(* ------------------------------------------------------------------ Grad-CAM / Grad-CAM++ *)
Section Cam.
Variable feat : list Qc -> list Qc.                   (* activations of the chosen layer, flat (H', W', K) *)
Variable featgrad : list Qc -> list Qc -> list Qc.    (* gradient of the score with respect to them *)
Variable K : nat.

Definition npos (x : list Qc) : nat := (length (feat x) / K)%nat.
Definition A_at (x : list Qc) (pos k : nat) : Qc := nthq (feat x) (pos * K + k).
Definition G_at (x t : list Qc) (pos k : nat) : Qc := nthq (featgrad x t) (pos * K + k).
Definition mean_pos (x : list Qc) (f : nat -> Qc) : Qc := qsum (map f (seq 0 (npos x))) / qn (npos x).

Definition w_gradcam (x t : list Qc) (k : nat) : Qc := mean_pos x (fun pos => G_at x t pos k).

Definition w_gradcampp (eps : Qc) (x t : list Qc) (k : nat) : Qc :=
  let avgA := mean_pos x (fun pos => A_at x pos k) in
  mean_pos x (fun pos =>
    let g := G_at x t pos k in
    let den := two * (g * g) + (g * g * g) * avgA in
    let den' := if Qceqb den 0 then den + eps else den in
    (g * g) / den' * relu g).

Definition cam_spec (w : list Qc -> list Qc -> nat -> Qc) (x t : list Qc) : list Qc :=
  map (fun pos => relu (qsum (map (fun k => w x t k * A_at x pos k) (seq 0 K)))) (seq 0 (npos x)).

Definition gradcam_spec (resize : list Qc -> list Qc) (w : list Qc -> list Qc -> nat -> Qc)
    (xs ts : list (list Qc)) : list (list Qc) :=
  map2 (fun x t => resize (cam_spec w x t)) xs ts.

(* shapes as the API guarantees them: the chosen layer's output is (H', W', K) with H'W' >= 1, and its
   gradient has the same shape *)
Definition cam_shapes (xs ts : list (list Qc)) : Prop :=
  (1 <= K)%nat /\
  forall x t, In (x, t) (combine xs ts) ->
    length (feat x) = (npos x * K)%nat /\ length (featgrad x t) = length (feat x).
End Cam.

(* the layer choice in words *)
Definition has_filters_at (n : net) (i : nat) : Prop :=
  exists l, nth_error n i = Some l /\ l_filters l = true.
Definition is_last_conv (n : net) (i : nat) : Prop :=
  has_filters_at n i /\ forall j, (i < j)%nat -> ~ has_filters_at n j.
Definition name_at (n : net) (i : nat) (s : string) : Prop :=
  exists l, nth_error n i = Some l /\ l_name l = s.
