(* C10/Proofs.v — Model = Spec for DeconvNet / GuidedBackprop / Grad-CAM / Grad-CAM++ *)
From Xpl Require Import C10.Spec.
From Xpl Require Import C06.Proofs.      (* bs_ok, eff_bs_pos *)
From Coq Require Import Lqa Arith.
Open Scope Qc_scope.

Ltac qcases :=
  unfold relu, clip0, Qcmax, Qcmin, Qcltb, Qcleb, b2q in *;
  repeat match goal with
         | |- context [Qclt_le_dec ?a ?b] => destruct (Qclt_le_dec a b)
         | H : context [Qclt_le_dec ?a ?b] |- _ => destruct (Qclt_le_dec a b)
         end.

Lemma Qceqb_refl x : Qceqb x x = true.
Proof. apply Qceqb_eq; reflexivity. Qed.

(* ------------------------------------------------------------------ 1. forward of the clone *)
Lemma relu_fwd_std x : relu_fwd std_cfg x = relu x.
Proof. unfold relu_fwd, relu_pos, std_cfg; cbn [r_max r_thr r_slope clip0]. rewrite Qceqb_refl. ring. Qed.

Lemma relu_fwd_drop_slope c x : r_slope c = 0 ->
  relu_fwd {| r_max := r_max c; r_thr := r_thr c; r_slope := 0 |} x = relu_fwd c x.
Proof. intro H. unfold relu_fwd, relu_pos; cbn [r_max r_thr r_slope]. rewrite H. reflexivity. Qed.

Lemma override_act_fwd p a x : act_fwd (override_act p a) x = act_fwd a x.
Proof. destruct a; cbn; try reflexivity. apply relu_fwd_std. Qed.

Lemma override_op_fwd p o x : (forall c, o = ORelu c -> r_slope c = 0) ->
  op_fwd (override_op p o) x = op_fwd o x.
Proof.
  intro H. destruct o as [|W b a|a|c|q c]; cbn [override_op op_fwd]; try reflexivity.
  - apply map_ext; intro; apply override_act_fwd.
  - apply map_ext; intro; apply override_act_fwd.
  - apply map_ext; intro; apply relu_fwd_drop_slope. apply H; reflexivity.
Qed.

Lemma slopes0_cons l n : slopes0 (l :: n) -> (forall c, l_op l = ORelu c -> r_slope c = 0) /\ slopes0 n.
Proof. intro H; split; [intros c Hc; apply (H l c); [left; reflexivity | exact Hc]
                        | intros l' c Hl Hc; apply (H l' c); [right; exact Hl | exact Hc]]. Qed.

Theorem override_forward p n x : slopes0 n -> forward (override p n) x = forward n x.
Proof.
  revert x; induction n as [|l n IH]; intros x H; [reflexivity|].
  apply slopes0_cons in H as [Hl Hn]. unfold forward in *. cbn [override map fold_left override_layer l_op].
  rewrite override_op_fwd by exact Hl. apply IH; exact Hn.
Qed.

(* every layer of the clone outputs what the corresponding layer of the user's model outputs *)
Lemma In_firstn {A} k (l : list A) x : In x (firstn k l) -> In x l.
Proof. revert l; induction k as [|k IH]; intros [|y l] H; cbn in *; try contradiction.
  destruct H as [H|H]; [left; exact H | right; apply IH; exact H]. Qed.
Lemma slopes0_firstn k n : slopes0 n -> slopes0 (firstn k n).
Proof. intros H l c Hl; apply H. eapply In_firstn; exact Hl. Qed.
Lemma override_firstn p k n : firstn k (override p n) = override p (firstn k n).
Proof. unfold override. apply firstn_map. Qed.
Corollary override_forward_every_layer p n k x : slopes0 n ->
  forward (firstn k (override p n)) x = forward (firstn k n) x.
Proof. intro H. rewrite override_firstn. apply override_forward. apply slopes0_firstn; exact H. Qed.

(* the finding: a ReLU layer with negative_slope <> 0 changes the forward pass of the clone *)
Open Scope string_scope.
Definition leaky_net : net := [mk "r" false 1 (ORelu {| r_max := None; r_thr := 0; r_slope := q 1 2 |})].
Close Scope string_scope.
Lemma override_forward_negative_slope_refuted :
  exists n x, (forall p, forward (override p n) x <> forward n x) /\ ~ slopes0 n.
Proof.
  exists leaky_net, [q (-2) 1]. split.
  - intro p. vm_compute. discriminate.
  - intro H. specialize (H _ _ (or_introl eq_refl) eq_refl). vm_compute in H. discriminate.
Qed.

(* ------------------------------------------------------------------ 2. the back-propagation rules *)
Lemma bwd_act_rule p (ru : relu_rule) a z g : (forall z a g, policy_grad p z g = ru z a g) ->
  act_bwd (override_act p a) z g = spec_act_bwd ru a z g.
Proof. intro H. destruct a; cbn; try reflexivity. apply H. Qed.

Lemma bwd_op_rule p (ru : relu_rule) o x g : (forall z a g, policy_grad p z g = ru z a g) ->
  op_bwd (override_op p o) x g = spec_op_bwd ru o x g.
Proof.
  intro H. destruct o as [|W b a|a|c|q c]; cbn [override_op op_bwd spec_op_bwd]; try reflexivity.
  - f_equal. apply map2_ext; intros; apply bwd_act_rule; exact H.
  - apply map2_ext; intros; apply bwd_act_rule; exact H.
  - apply map2_ext; intros; apply H.
Qed.

Lemma backprop_override p (ru : relu_rule) n :
  (forall z a g, policy_grad p z g = ru z a g) -> slopes0 n ->
  forall x t, backprop (override p n) x t = spec_relevance ru n x t.
Proof.
  intros Hru. induction n as [|l n IH]; intros Hs x t; [reflexivity|].
  apply slopes0_cons in Hs as [Hl Hn].
  cbn [override map backprop spec_relevance override_layer l_op].
  rewrite override_op_fwd by exact Hl. fold (override p n). rewrite IH by exact Hn.
  apply bwd_op_rule; exact Hru.
Qed.

Lemma batch_gradient_rowwise n bs xs ts : bs_ok bs ->
  batch_gradient n bs xs ts = map2 (backprop n) xs ts.
Proof.
  intro Hb. unfold batch_gradient. rewrite map2_combine. destruct bs as [b|]; [|reflexivity].
  apply map_chunks. exact Hb.
Qed.

Theorem deconv_rule_correct n bs xs ts : slopes0 n -> bs_ok bs ->
  deconvnet n bs xs ts = spec_explain deconv_rule n xs ts.
Proof.
  intros Hs Hb. unfold deconvnet, relu_explainer, spec_explain. rewrite batch_gradient_rowwise by exact Hb.
  apply map2_ext; intros x t. apply backprop_override; [reflexivity | exact Hs].
Qed.

Theorem guided_rule_input_correct n bs xs ts : slopes0 n -> bs_ok bs ->
  guided_backprop n bs xs ts = spec_explain guided_rule_input n xs ts.
Proof.
  intros Hs Hb. unfold guided_backprop, relu_explainer, spec_explain. rewrite batch_gradient_rowwise by exact Hb.
  apply map2_ext; intros x t. apply backprop_override; [reflexivity | exact Hs].
Qed.

(* for a standard ReLU, "input > 0" is "activation > 0" *)
Lemma relu_pos_iff z : Qcltb 0 (relu z) = Qcltb 0 z.
Proof. qcases; try reflexivity; exfalso; qc2q; lra. Qed.

Lemma std_relu_gate c z : std_relu c -> Qcltb 0 (relu_fwd c z) = Qcltb 0 z.
Proof.
  intros (Ht & Hs & Hm). unfold relu_fwd, relu_pos. rewrite Ht, Hs, Qceqb_refl.
  replace (clip0 (r_max c) (relu z) - 0 * relu (0 - z)) with (clip0 (r_max c) (relu z)) by ring.
  destruct (r_max c) as [m|]; [|apply relu_pos_iff].
  qcases; try reflexivity; exfalso; qc2q; lra.
Qed.

Lemma spec_relevance_ext (ru ru' : relu_rule) n :
  (forall z R, ru z (relu z) R = ru' z (relu z) R) ->
  (forall l c, In l n -> l_op l = ORelu c -> forall z R, ru z (relu_fwd c z) R = ru' z (relu_fwd c z) R) ->
  forall x t, spec_relevance ru n x t = spec_relevance ru' n x t.
Proof.
  intros H1. induction n as [|l n IH]; intros H2 x t; [reflexivity|].
  cbn [spec_relevance]. rewrite IH by (intros l' c Hl; apply H2; right; exact Hl).
  generalize (spec_relevance ru' n (op_fwd (l_op l) x) t); intro g.
  assert (Ha : forall a z R, spec_act_bwd ru a z R = spec_act_bwd ru' a z R)
    by (intros a z R; destruct a; cbn; try reflexivity; apply H1).
  destruct (l_op l) as [|W b a|a|c|q c] eqn:E; cbn [spec_op_bwd]; try reflexivity.
  - f_equal. apply map2_ext; intros; apply Ha.
  - apply map2_ext; intros; apply Ha.
  - apply map2_ext; intros. apply (H2 l c); [left; reflexivity | exact E].
Qed.

Theorem guided_rule_correct n bs xs ts : std_relus n -> bs_ok bs ->
  guided_backprop n bs xs ts = spec_explain guided_rule n xs ts.
Proof.
  intros Hstd Hb.
  assert (Hs : slopes0 n) by (intros l c Hl Hc; apply (Hstd l c Hl Hc)).
  rewrite guided_rule_input_correct by assumption. unfold spec_explain.
  apply map2_ext; intros x t. apply spec_relevance_ext.
  - intros z R. unfold guided_rule_input, guided_rule. rewrite relu_pos_iff. reflexivity.
  - intros l c Hl Hc z R. unfold guided_rule_input, guided_rule.
    rewrite (std_relu_gate c z (Hstd l c Hl Hc)). reflexivity.
Qed.

(* observation: with threshold > 0 the code's gate (input > 0) is NOT the activation gate *)
Lemma guided_threshold_gate_differs :
  exists c z R, 0 < r_thr c /\ r_slope c = 0 /\
    policy_grad PGuided z R <> guided_rule z (relu_fwd c z) R.
Proof.
  exists {| r_max := None; r_thr := 1; r_slope := 0 |}, (q 1 2), 1. repeat split.
  vm_compute. discriminate.
Qed.

(* ------------------------------------------------------------------ 3. what the override touches *)
Theorem override_other_layers p l : is_relu_op (l_op l) = false -> override_layer p l = l.
Proof.
  destruct l as [nm f ch o]. unfold override_layer; cbn [l_op l_name l_filters l_chan]. intro H. f_equal.
  destruct o as [|W b a|a|c|q c]; cbn in *; try reflexivity; try discriminate;
    destruct a; cbn in *; try reflexivity; discriminate.
Qed.

Theorem override_touches_relus p l : is_relu_op (l_op l) = true -> l_op (override_layer p l) <> l_op l.
Proof.
  destruct l as [nm f ch o]; cbn [override_layer l_op]. intro H.
  destruct o as [|W b a|a|c|q c]; cbn in *; try discriminate; destruct a; cbn in *; discriminate.
Qed.

Theorem override_keeps_weights p l W b a : l_op l = ODense W b a ->
  l_op (override_layer p l) = ODense W b (override_act p a).
Proof. destruct l as [nm f ch o]; cbn. intros ->. reflexivity. Qed.

Theorem override_keeps_structure p n :
  length (override p n) = length n /\ map l_name (override p n) = map l_name n /\
  map l_filters (override p n) = map l_filters n /\ map l_chan (override p n) = map l_chan n.
Proof. unfold override. rewrite map_length, !map_map. repeat split. Qed.

(* ------------------------------------------------------------------ 4. Grad-CAM / Grad-CAM++ *)
Close Scope Qc_scope. Open Scope nat_scope.

Lemma fold_app_concat {A B} (f : A -> B) cs acc :
  fold_left (fun acc batch => acc ++ map f batch) cs acc = acc ++ concat (map (map f) cs).
Proof. revert acc; induction cs as [|c cs IH]; intro acc; cbn [fold_left map concat].
  - rewrite app_nil_r; reflexivity.
  - rewrite IH, app_assoc; reflexivity. Qed.

Lemma cam_core_rowwise resize weights feat featgrad K bs xs ts : bs_ok bs ->
  cam_core resize weights feat featgrad K bs xs ts
  = map2 (fun x t => resize (cam_one weights feat featgrad K (x, t))) xs ts.
Proof.
  intro Hb. unfold cam_core. destruct xs as [|x0 xs']; [reflexivity|].
  set (xs := x0 :: xs').
  assert (HB : 1 <= eff_bs bs (length xs)) by (apply eff_bs_pos; [exact Hb | discriminate]).
  rewrite fold_app_concat. cbn [app]. rewrite map_chunks by exact HB.
  rewrite map_map, map2_combine. apply map_ext. intros [x t]; reflexivity.
Qed.

Lemma nth_skipn_add {A} k (l : list A) i d : nth i (skipn k l) d = nth (k + i) l d.
Proof. revert l; induction k as [|k IH]; intro l; [reflexivity|]. destruct l as [|y l]; cbn [skipn plus nth].
  - destruct i; reflexivity.
  - apply IH. Qed.

Lemma firstn_as_seq {A} k (l : list A) d : k <= length l -> firstn k l = map (fun i => nth i l d) (seq 0 k).
Proof. revert l; induction k as [|k IH]; intros l H; [reflexivity|].
  destruct l as [|y l]; [cbn [length] in H; lia|]. cbn [firstn seq map nth]. f_equal.
  rewrite <- seq_shift, map_map. apply IH. cbn [length] in H; lia. Qed.

Lemma rows_grid K l n : 1 <= K -> length l = n * K ->
  rows K l = map (fun pos => map (fun k => nthq l (pos * K + k)) (seq 0 K)) (seq 0 n).
Proof.
  intros HK. revert l; induction n as [|n IH]; intros l Hl.
  - destruct l; [reflexivity | cbn [length] in Hl; lia].
  - unfold rows in *. rewrite chunks_cons_step; [| exact HK | intros ->; cbn [length] in Hl; lia].
    cbn [seq map]. f_equal.
    + rewrite (firstn_as_seq K l 0%Qc) by lia. apply map_ext. intro k. reflexivity.
    + rewrite IH by (rewrite skipn_length; lia). rewrite <- seq_shift, map_map. apply map_ext. intro pos.
      apply map_ext. intro k. unfold nthq. rewrite nth_skipn_add. f_equal. lia.
Qed.

Definition grid (n K : nat) (f : nat -> nat -> Qc) : list (list Qc) :=
  map (fun pos => map (f pos) (seq 0 K)) (seq 0 n).

Lemma grid_length n K f : length (grid n K f) = n.
Proof. unfold grid. rewrite map_length, seq_length. reflexivity. Qed.

Lemma nthq_map_seq (g : nat -> Qc) K i : i < K -> nthq (map g (seq 0 K)) i = g i.
Proof. intro H. unfold nthq. apply nth_map_seq. exact H. Qed.

Open Scope Qc_scope.
Lemma chan_sum_grid K n f :
  vsum K (grid n K f) = map (fun k => qsum (map (fun pos => f pos k) (seq 0 n))) (seq 0 K).
Proof.
  assert (Hlen : forall v, In v (grid n K f) -> length v = K).
  { intros v Hv. unfold grid in Hv. apply in_map_iff in Hv as (pos & <- & _). rewrite map_length, seq_length. reflexivity. }
  apply nthq_ext.
  - rewrite map_length, seq_length. unfold vsum. apply fold_vadd_length; [apply repeat_length | exact Hlen].
  - intros i Hi. assert (HiK : (i < K)%nat).
    { unfold vsum in Hi. rewrite (fold_vadd_length K) in Hi; [exact Hi | apply repeat_length | exact Hlen]. }
    rewrite (nthq_vsum K) by exact Hlen. rewrite nthq_map_seq by exact HiK.
    unfold grid. rewrite map_map. f_equal. apply map_ext. intro pos. apply nthq_map_seq. exact HiK.
Qed.

Lemma chan_mean_grid K n f :
  chan_mean K (grid n K f) = map (fun k => qsum (map (fun pos => f pos k) (seq 0 n)) / qn n) (seq 0 K).
Proof. unfold chan_mean. rewrite chan_sum_grid, grid_length, map_map. reflexivity. Qed.

Lemma apply_weights_grid K n (wf : nat -> Qc) fA :
  apply_weights (map wf (seq 0 K)) (grid n K fA)
  = map (fun pos => relu (qsum (map (fun k => wf k * fA pos k) (seq 0 K)))) (seq 0 n).
Proof.
  unfold apply_weights, grid. rewrite map_map. apply map_ext. intro pos. f_equal.
  unfold dot, vmul. rewrite map2_seq. f_equal. apply map_ext. intro k. ring.
Qed.

Lemma alpha_pp_spec eps g av :
  alpha_pp eps g av =
  (g * g) / (let den := two * (g * g) + (g * g * g) * av in if Qceqb den 0 then den + eps else den) * relu g.
Proof.
  unfold alpha_pp. cbv zeta. destruct (Qceqb (two * (g * g) + g * g * g * av) 0); unfold b2q.
  - replace (two * (g * g) + g * g * g * av + 1 * eps) with (two * (g * g) + g * g * g * av + eps) by ring. reflexivity.
  - replace (two * (g * g) + g * g * g * av + 0 * eps) with (two * (g * g) + g * g * g * av) by ring. reflexivity.
Qed.

Section CamProofs.
Variable resize : list Qc -> list Qc.
Variable feat : list Qc -> list Qc.
Variable featgrad : list Qc -> list Qc -> list Qc.
Variable K : nat.

Lemma cam_one_gc x t : (1 <= K)%nat ->
  length (feat x) = (npos feat K x * K)%nat -> length (featgrad x t) = length (feat x) ->
  cam_one weights_gc feat featgrad K (x, t) = cam_spec feat K (w_gradcam feat featgrad K) x t.
Proof.
  intros HK Hf Hg. unfold cam_one; cbn [fst snd]. cbv zeta.
  rewrite (rows_grid K (feat x) (npos feat K x)) by assumption.
  rewrite (rows_grid K (featgrad x t) (npos feat K x)) by (try assumption; rewrite Hg; exact Hf).
  fold (grid (npos feat K x) K (fun pos k => nthq (feat x) (pos * K + k))).
  fold (grid (npos feat K x) K (fun pos k => nthq (featgrad x t) (pos * K + k))).
  unfold weights_gc. rewrite chan_mean_grid, apply_weights_grid. reflexivity.
Qed.

Lemma cam_one_pp eps x t : (1 <= K)%nat ->
  length (feat x) = (npos feat K x * K)%nat -> length (featgrad x t) = length (feat x) ->
  cam_one (weights_pp eps) feat featgrad K (x, t) = cam_spec feat K (w_gradcampp feat featgrad K eps) x t.
Proof.
  intros HK Hf Hg. unfold cam_one; cbn [fst snd]. cbv zeta.
  rewrite (rows_grid K (feat x) (npos feat K x)) by assumption.
  rewrite (rows_grid K (featgrad x t) (npos feat K x)) by (try assumption; rewrite Hg; exact Hf).
  fold (grid (npos feat K x) K (fun pos k => nthq (feat x) (pos * K + k))).
  fold (grid (npos feat K x) K (fun pos k => nthq (featgrad x t) (pos * K + k))).
  unfold weights_pp. cbv zeta. rewrite chan_mean_grid.
  set (avg := fun k => qsum (map (fun pos => nthq (feat x) (pos * K + k)) (seq 0 (npos feat K x))) / qn (npos feat K x)).
  assert (E : map (fun grow => map2 (alpha_pp eps) grow (map avg (seq 0 K)))
                  (grid (npos feat K x) K (fun pos k => nthq (featgrad x t) (pos * K + k)))
              = grid (npos feat K x) K (fun pos k => alpha_pp eps (nthq (featgrad x t) (pos * K + k)) (avg k))).
  { unfold grid. rewrite map_map. apply map_ext. intro pos. apply map2_seq. }
  change (fun k : nat => qsum (map (fun pos : nat => nthq (feat x) (pos * K + k)) (seq 0 (npos feat K x))) / qn (npos feat K x))
    with avg.
  rewrite E, chan_mean_grid, apply_weights_grid.
  unfold cam_spec. apply map_ext. intro pos. f_equal. f_equal. apply map_ext. intro k. f_equal.
  unfold w_gradcampp, mean_pos, G_at, A_at. cbv zeta. f_equal. f_equal. apply map_ext. intro pos'.
  rewrite alpha_pp_spec. reflexivity.
Qed.

Theorem gradcam_core_correct bs xs ts : bs_ok bs -> cam_shapes feat featgrad K xs ts ->
  cam_core resize weights_gc feat featgrad K bs xs ts
  = gradcam_spec feat K resize (w_gradcam feat featgrad K) xs ts.
Proof.
  intros Hb [HK Hs]. rewrite cam_core_rowwise by exact Hb. unfold gradcam_spec.
  rewrite !map2_combine. apply map_ext_in. intros [x t] Hin. cbn [fst snd]. f_equal.
  destruct (Hs x t Hin) as [Hf Hg]. apply cam_one_gc; assumption.
Qed.

Theorem gradcampp_core_correct eps bs xs ts : bs_ok bs -> cam_shapes feat featgrad K xs ts ->
  cam_core resize (weights_pp eps) feat featgrad K bs xs ts
  = gradcam_spec feat K resize (w_gradcampp feat featgrad K eps) xs ts.
Proof.
  intros Hb [HK Hs]. rewrite cam_core_rowwise by exact Hb. unfold gradcam_spec.
  rewrite !map2_combine. apply map_ext_in. intros [x t] Hin. cbn [fst snd]. f_equal.
  destruct (Hs x t Hin) as [Hf Hg]. apply cam_one_pp; assumption.
Qed.

Theorem cam_batch_invariant weights bs bs' xs ts : bs_ok bs -> bs_ok bs' ->
  cam_core resize weights feat featgrad K bs xs ts = cam_core resize weights feat featgrad K bs' xs ts.
Proof. intros H H'. rewrite !cam_core_rowwise by assumption. reflexivity. Qed.
End CamProofs.

(* ------------------------------------------------------------------ 5. layer choice, net-level statements *)
Close Scope Qc_scope. Open Scope nat_scope.

Lemma first_filters_shift r i : first_filters r (S i) = option_map S (first_filters r i).
Proof. revert i; induction r as [|l r IH]; intro i; cbn [first_filters]; [reflexivity|].
  destruct (l_filters l); [reflexivity | apply IH]. Qed.

Lemma last_conv_snoc m l : last_conv (m ++ [l]) = if l_filters l then Some (length m) else last_conv m.
Proof.
  unfold last_conv. rewrite rev_app_distr. cbn [rev app first_filters]. rewrite app_length. cbn [length].
  destruct (l_filters l); [f_equal; lia|].
  rewrite first_filters_shift. destruct (first_filters (rev m) 0) as [j|]; cbn [option_map]; [f_equal; lia | reflexivity].
Qed.

Lemma has_filters_lt n j : has_filters_at n j -> j < length n.
Proof. intros (l & H & _). apply nth_error_Some. congruence. Qed.

Theorem last_conv_is_last n i : last_conv n = Some i -> is_last_conv n i.
Proof.
  revert i. induction n as [|l m IH] using rev_ind; intros i H; [discriminate|].
  rewrite last_conv_snoc in H. destruct (l_filters l) eqn:Fl.
  - injection H as <-. split.
    + exists l. split; [|exact Fl]. rewrite nth_error_app2 by lia. rewrite Nat.sub_diag. reflexivity.
    + intros j Hj Hf. apply has_filters_lt in Hf. rewrite app_length in Hf. cbn [length] in Hf. lia.
  - destruct (IH i H) as [(l0 & Hn & Hl0) Hlast]. split.
    + exists l0. split; [|exact Hl0]. rewrite nth_error_app1; [exact Hn|]. apply nth_error_Some. congruence.
    + intros j Hj (l1 & Hn1 & Hl1).
      destruct (Nat.lt_ge_cases j (length m)) as [Hlt|Hge].
      * rewrite nth_error_app1 in Hn1 by exact Hlt. apply (Hlast j Hj). exists l1. split; assumption.
      * rewrite nth_error_app2 in Hn1 by exact Hge.
        destruct (j - length m) as [|k] eqn:E; cbn in Hn1.
        -- injection Hn1 as <-. congruence.
        -- destruct k; discriminate.
Qed.

Theorem last_conv_none n : last_conv n = None -> forall j, ~ has_filters_at n j.
Proof.
  induction n as [|l m IH] using rev_ind; intros H j (l1 & Hn1 & Hl1).
  - destruct j; discriminate.
  - rewrite last_conv_snoc in H. destruct (l_filters l) eqn:Fl; [discriminate|].
    destruct (Nat.lt_ge_cases j (length m)) as [Hlt|Hge].
    + rewrite nth_error_app1 in Hn1 by exact Hlt. apply (IH H j). exists l1. split; assumption.
    + rewrite nth_error_app2 in Hn1 by exact Hge.
      destruct (j - length m) as [|k] eqn:E; cbn in Hn1.
      * injection Hn1 as <-. congruence.
      * destruct k; discriminate.
Qed.

Lemma index_of_name_spec s n i0 i : index_of_name s n i0 = Some i ->
  exists k, i = i0 + k /\ name_at n k s /\ forall k', k' < k -> ~ name_at n k' s.
Proof.
  revert i0; induction n as [|l n IH]; intros i0 H; [discriminate|]. cbn [index_of_name] in H.
  destruct (String.eqb (l_name l) s) eqn:E.
  - injection H as <-. exists 0. split; [lia|]. split.
    + exists l. split; [reflexivity | apply String.eqb_eq; exact E].
    + intros k' Hk; lia.
  - destruct (IH _ H) as (k & -> & Hk & Hmin). exists (S k). split; [lia|]. split.
    + destruct Hk as (l0 & Hn & Hl0). exists l0. split; assumption.
    + intros [|k'] Hk' (l0 & Hn & Hl0).
      * cbn in Hn. injection Hn as <-. apply String.eqb_neq in E. contradiction.
      * apply (Hmin k'); [lia|]. exists l0. split; assumption.
Qed.

Theorem find_by_name n s i : find_layer n (ByName s) = Some i ->
  name_at n i s /\ forall j, j < i -> ~ name_at n j s.
Proof. intro H. apply index_of_name_spec in H as (k & -> & H1 & H2). exact (conj H1 H2). Qed.

Theorem find_by_index n z i : find_layer n (ByIndex z) = Some i <->
  ((0 <= z < Z.of_nat (length n))%Z /\ i = Z.to_nat z) \/
  ((- Z.of_nat (length n) <= z < 0)%Z /\ i = Z.to_nat (Z.of_nat (length n) + z)).
Proof.
  unfold find_layer. set (len := Z.of_nat (length n)).
  destruct (Z.ltb_spec z 0) as [Hneg|Hpos];
  [ destruct (Z.leb_spec 0 (len + z)) as [A|A]; destruct (Z.ltb_spec (len + z) len) as [B|B]
  | destruct (Z.leb_spec 0 z) as [A|A]; destruct (Z.ltb_spec z len) as [B|B] ]; cbn [andb];
  (split;
   [ intro H; try discriminate; injection H as <-;
     ((left; split; [lia | reflexivity]) || (right; split; [lia | reflexivity]))
   | intros [[H1 H2]|[H1 H2]]; try (exfalso; lia); subst i; reflexivity ]).
Qed.

Theorem choose_layer_default n : choose_layer n None = last_conv n.
Proof. reflexivity. Qed.

(* the two-headed model: predictions are the model's predictions, A is the chosen layer's output *)
Lemma forward_split n k x : forward n x = forward (skipn k n) (forward (firstn k n) x).
Proof. unfold forward. rewrite <- fold_left_app, firstn_skipn. reflexivity. Qed.

Open Scope Qc_scope.
Theorem gradcam_correct resize n cl bs xs ts i :
  choose_layer n cl = Some i -> bs_ok bs ->
  cam_shapes (net_feat n i) (net_featgrad n i) (layer_chan n i) xs ts ->
  gradcam resize n cl bs xs ts
  = Some (gradcam_spec (net_feat n i) (layer_chan n i) resize
            (w_gradcam (net_feat n i) (net_featgrad n i) (layer_chan n i)) xs ts).
Proof. intros Hc Hb Hs. unfold gradcam, gradcam_gen. rewrite Hc. f_equal. apply gradcam_core_correct; assumption. Qed.

Theorem gradcampp_correct eps resize n cl bs xs ts i :
  choose_layer n cl = Some i -> bs_ok bs ->
  cam_shapes (net_feat n i) (net_featgrad n i) (layer_chan n i) xs ts ->
  gradcampp eps resize n cl bs xs ts
  = Some (gradcam_spec (net_feat n i) (layer_chan n i) resize
            (w_gradcampp (net_feat n i) (net_featgrad n i) (layer_chan n i) eps) xs ts).
Proof. intros Hc Hb Hs. unfold gradcampp, gradcam_gen. rewrite Hc. f_equal. apply gradcampp_core_correct; assumption. Qed.

Theorem gradcam_batch_invariant weights resize n cl bs bs' xs ts : bs_ok bs -> bs_ok bs' ->
  gradcam_gen weights resize n cl bs xs ts = gradcam_gen weights resize n cl bs' xs ts.
Proof. intros H H'. unfold gradcam_gen. destruct (choose_layer n cl); [|reflexivity]. f_equal.
  apply cam_batch_invariant; assumption. Qed.

Theorem relu_explainer_batch_invariant p n bs bs' xs ts : bs_ok bs -> bs_ok bs' ->
  relu_explainer p n bs xs ts = relu_explainer p n bs' xs ts.
Proof. intros H H'. unfold relu_explainer. rewrite !batch_gradient_rowwise by assumption. reflexivity. Qed.

(* the final ReLU: maps are non-negative before the resize *)
Lemma relu_nonneg x : 0 <= relu x.
Proof. qcases; qc2q; lra. Qed.
Theorem cam_spec_nonneg feat K w x t v : In v (cam_spec feat K w x t) -> 0 <= v.
Proof. unfold cam_spec. intro H. apply in_map_iff in H as (pos & <- & _). apply relu_nonneg. Qed.

(* ------------------------------------------------------------------ 6. the dense backward rule is the adjoint *)
Lemma dot_comm a b : dot a b = dot b a.
Proof. unfold dot, vmul. revert b; induction a as [|x a IH]; intros [|y b]; cbn [map2 qsum]; try reflexivity.
  rewrite IH. ring. Qed.
Lemma dot_vadd d a b : length a = length b -> dot d (vadd a b) = dot d a + dot d b.
Proof. unfold dot, vmul, vadd. revert a b; induction d as [|x d IH]; intros [|y a] [|z b] H; cbn [map2 qsum];
    try ring; try discriminate H. rewrite IH by (cbn [length] in H; congruence). ring. Qed.
Lemma dot_vscale d c a : dot d (vscale c a) = c * dot d a.
Proof. unfold dot, vmul, vscale. revert a; induction d as [|x d IH]; intros [|y a]; cbn [map map2 qsum]; try ring.
  rewrite IH. ring. Qed.
Lemma dot_vzero d n : dot d (vzero n) = 0.
Proof. unfold dot, vmul, vzero. revert n; induction d as [|x d IH]; intros [|n]; cbn [repeat map2 qsum]; try reflexivity.
  rewrite IH. ring. Qed.
Lemma dot_fold d vs acc : (forall v, In v vs -> length v = length acc) ->
  dot d (fold_left vadd vs acc) = dot d acc + qsum (map (dot d) vs).
Proof.
  revert acc; induction vs as [|v vs IH]; intros acc H; cbn [fold_left map qsum]; [ring|].
  assert (Hv : length v = length acc) by (apply H; left; reflexivity).
  rewrite IH.
  - rewrite dot_vadd by congruence. ring.
  - intros v' Hv'. rewrite vadd_length, (H v') by (right; exact Hv'). rewrite Hv. apply eq_sym, Nat.min_id.
Qed.
Lemma In_map2 {A B C} (f : A -> B -> C) a b v : In v (map2 f a b) -> exists x y, In x a /\ v = f x y.
Proof. revert b; induction a as [|x a IH]; intros [|y b] H; cbn [map2] in H; try contradiction.
  destruct H as [<-|H]; [exists x, y; split; [left|]; reflexivity|].
  destruct (IH _ H) as (x' & y' & Hx & ->). exists x', y'. split; [right; exact Hx | reflexivity]. Qed.

(* <W d, g> = <d, W^T g> : the vector-Jacobian product used for Dense / Conv2D layers is the adjoint of the layer's
   linear map, i.e. its true gradient *)
Theorem dense_vjp_adjoint W g d : (forall w, In w W -> length w = length d) ->
  dot (map (fun w => dot w d) W) g = dot d (transpose_mul W g (length d)).
Proof.
  intro HW. unfold transpose_mul. rewrite dot_fold.
  - rewrite dot_vzero, map_map2. unfold dot at 1, vmul. rewrite map2_map_l.
    replace (0 + qsum (map2 (fun x y => dot d (vscale y x)) W g)) with (qsum (map2 (fun x y => dot d (vscale y x)) W g)) by ring.
    f_equal. apply map2_ext. intros w gi. rewrite dot_vscale, (dot_comm w d). ring.
  - intros v Hv. apply In_map2 in Hv as (w & gi & Hw & ->). unfold vscale, vzero.
    rewrite map_length, repeat_length. apply HW; exact Hw.
Qed.

(* the affine part of a layer is affine: its increments are the linear map applied to the increment *)
Lemma dot_vadd_r w x d : length x = length d -> dot w (vadd x d) = dot w x + dot w d.
Proof. apply dot_vadd. Qed.
Theorem affine_increment W b x d : length x = length d ->
  vsub (affine W b (vadd x d)) (affine W b x) = map (fun w => dot w d) (firstn (length b) W).
Proof.
  intro H. unfold affine, vsub. revert b; induction W as [|w W IH]; intros [|bi b]; cbn [map2 length firstn map]; try reflexivity.
  rewrite IH. f_equal. rewrite dot_vadd by exact H. ring.
Qed.
