(* C10/Model.v — executable model of
     xplique/commons/model_override.py   (guided_relu_policy, deconv_relu_policy, open_relu_policy,
                                          has_relu_activation, is_relu, override_relu_gradient, find_layer)
     xplique/attributions/deconvnet.py, guided_backpropagation.py   (DeconvNet, GuidedBackprop)
     xplique/attributions/grad_cam.py, grad_cam_pp.py                (GradCAM, GradCAMPP)
   No proofs here.

   Mirrored Python
   ---------------
   def guided_relu_policy(max_value=None, threshold=0.0):
       relu = tf.keras.layers.ReLU(max_value=max_value, threshold=threshold)   # negative_slope NOT passed
       @tf.custom_gradient
       def guided_relu(inputs):
           def grad_func(grads):
               gate_activation = tf.cast(inputs > 0.0, tf.float32)             # gate on the INPUT of the relu
               return tf.nn.relu(grads) * gate_activation
           return relu(inputs), grad_func
   def deconv_relu_policy(...):   grad_func = lambda grads: tf.nn.relu(grads)
   def open_relu_policy(...):     grad_func = lambda grads: grads

   def has_relu_activation(layer):  hasattr(layer, 'activation') and layer.activation in [tf.nn.relu, keras.activations.relu]
   def is_relu(layer):              isinstance(layer, tf.keras.layers.ReLU)

   def override_relu_gradient(model, relu_policy):
       cloned_model = clone_model(model);  cloned_model.set_weights(model.get_weights())
       for layer in cloned_model.layers:
           if has_relu_activation(layer):  layer.activation = relu_policy()          # defaults: None, 0.0
           elif is_relu(layer):            layer.call = relu_policy(layer.max_value, layer.threshold)
       return cloned_model

   DeconvNet / GuidedBackprop:  self.model = override_relu_gradient(self.model, policy)
                                explain = batch_gradient(self.model, inputs, targets, batch_size)
   (batch_gradient: tape.gradient(sum(model(x) * t, -1), x) per batch of dataset.batch(batch_size), or at
    once when batch_size is None)

   GradCAM.__init__:  conv_layer = find_layer(model, conv_layer) if given
                                   else next(l for l in model.layers[::-1] if hasattr(l, 'filters'))
                      self.model = keras.Model(model.input, [conv_layer.output, model.output])
   GradCAM.explain:   batch_size = self.batch_size or len(inputs)
                      for x_batch, y_batch in Dataset(inputs, targets).batch(batch_size):
                          A, G    = _gradient(model, x_batch, y_batch)      # G = d sum(pred * y) / d A
                          weights = _compute_weights(G, A)                   # reduce_mean(G, axis=(1, 2))
                          cams     = relu(reduce_sum(A * weights, -1))       # _apply_weights
                          concat
                      map_fn(resize(cam[..., None], inputs.shape[1:-1], BICUBIC))
   GradCAMPP._compute_weights:
       sq = G ** 2; cube = G ** 3; avg = reduce_mean(A, axis=(1, 2), keepdims)
       den = 2 * sq + cube * avg;  den += cast(den == 0) * EPSILON
       alphas = sq / den * relu(G);  weights = reduce_mean(alphas, axis=(1, 2))

   Keras semantics used (library, validated by the correspondence):
   keras.layers.ReLU.static_call(x, negative_slope, max_value, threshold) and the gradients TensorFlow
   attaches to the ops it is made of (relu, relu6, x * cast(x > threshold), clip_by_value, leaky_relu).

   Data layout: every tensor of one sample is the row-major flat list of its values; Dense AND Conv2D are
   [ODense W b a] with W the matrix (one row per output value) of the linear map the layer computes. *)
From Coq Require Export String.
From Xpl Require Export Base.Tensor Base.Families.
Close Scope string_scope.
Open Scope Qc_scope.

(* ------------------------------------------------------------------ ReLU variants *)
Record relu_cfg := { r_max : option Qc; r_thr : Qc; r_slope : Qc }.
Definition std_cfg : relu_cfg := {| r_max := None; r_thr := 0; r_slope := 0 |}.

Definition relu (x : Qc) : Qc := Qcmax x 0.
(* clip_by_value(y, 0, max_value) when max_value is given *)
Definition clip0 (m : option Qc) (y : Qc) : Qc :=
  match m with None => y | Some m => Qcmin (Qcmax y 0) m end.
(* positive part of ReLU.static_call: threshold = 0 -> relu (relu6 when max_value = 6), else x * (x > threshold) *)
Definition relu_pos (c : relu_cfg) (x : Qc) : Qc :=
  clip0 (r_max c) (if Qceqb (r_thr c) 0 then relu x else if Qcltb (r_thr c) x then x else 0).
(* forward of keras.layers.ReLU(max_value, negative_slope, threshold) *)
Definition relu_fwd (c : relu_cfg) (x : Qc) : Qc :=
  relu_pos c x - r_slope c * relu (r_thr c - x).

(* derivative TensorFlow computes for that layer (true gradient) *)
Definition is_none {A} (o : option A) : bool := match o with None => true | Some _ => false end.
Definition relu_pos_d (c : relu_cfg) (x : Qc) : Qc :=
  if Qceqb (r_thr c) 0 then
    match r_max c with
    | None => b2q (Qcltb 0 x)
    | Some m => if Qceqb m (qz 6) then b2q (Qcltb 0 x && Qcltb x m)        (* relu6: strict at 6 *)
                else b2q (Qcltb 0 x && Qcleb (relu x) m)                    (* relu, then clip (inclusive) *)
    end
  else
    match r_max c with
    | None => b2q (Qcltb (r_thr c) x)
    | Some m => b2q (Qcltb (r_thr c) x && Qcleb x m)
    end.
Definition relu_d (c : relu_cfg) (x : Qc) : Qc :=
  if negb (Qceqb (r_slope c) 0) && is_none (r_max c) && Qceqb (r_thr c) 0
  then (if Qcltb 0 x then 1 else r_slope c)                                 (* leaky_relu *)
  else relu_pos_d c x + r_slope c * b2q (Qcltb x (r_thr c)).

(* ------------------------------------------------------------------ relu policies (custom gradients) *)
Inductive policy := PDeconv | PGuided | POpen.
Definition policy_grad (p : policy) (x g : Qc) : Qc :=
  match p with
  | PDeconv => relu g
  | PGuided => relu g * b2q (Qcltb 0 x)
  | POpen => g
  end.

(* ------------------------------------------------------------------ layers *)
Inductive act :=
| ALin
| ARelu                                 (* tf.nn.relu / keras.activations.relu : has_relu_activation *)
| AOther (f df : Qc -> Qc)              (* any other activation, with the derivative autodiff uses *)
| ACustom (p : policy) (c : relu_cfg).  (* relu_policy(max_value, threshold): produced by override only *)

Definition act_fwd (a : act) (x : Qc) : Qc :=
  match a with ALin => x | ARelu => relu x | AOther f _ => f x | ACustom _ c => relu_fwd c x end.
(* vector-Jacobian product of the element-wise activation at input x *)
Definition act_bwd (a : act) (x g : Qc) : Qc :=
  match a with
  | ALin => g
  | ARelu => b2q (Qcltb 0 x) * g
  | AOther _ df => df x * g
  | ACustom p _ => policy_grad p x g
  end.

Inductive op :=
| OId                                           (* InputLayer, Flatten: identity on row-major data *)
| ODense (W : list (list Qc)) (b : list Qc) (a : act)   (* Dense / Conv2D with fused activation *)
| OAct (a : act)                                (* keras.layers.Activation(a) and other element-wise layers *)
| ORelu (c : relu_cfg)                          (* keras.layers.ReLU *)
| OCall (p : policy) (c : relu_cfg).            (* a ReLU layer whose call was replaced: override only *)

(* a layer of model.layers: name, hasattr(layer, 'filters'), size of the last axis of its output *)
Record layer := { l_name : string; l_filters : bool; l_chan : nat; l_op : op }.
Definition net := list layer.                   (* model.layers, InputLayer included (OId) *)

Definition affine (W : list (list Qc)) (b x : list Qc) : list Qc := map2 (fun w bi => dot w x + bi) W b.
Definition transpose_mul (W : list (list Qc)) (g : list Qc) (n_in : nat) : list Qc :=
  fold_left vadd (map2 (fun w gi => vscale gi w) W g) (vzero n_in).

Definition op_fwd (o : op) (x : list Qc) : list Qc :=
  match o with
  | OId => x
  | ODense W b a => map (act_fwd a) (affine W b x)
  | OAct a => map (act_fwd a) x
  | ORelu c => map (relu_fwd c) x
  | OCall _ c => map (relu_fwd c) x
  end.
(* reverse mode through one layer: x = the layer's input, g = gradient with respect to its output *)
Definition op_bwd (o : op) (x g : list Qc) : list Qc :=
  match o with
  | OId => g
  | ODense W b a => transpose_mul W (map2 (act_bwd a) (affine W b x) g) (length x)
  | OAct a => map2 (act_bwd a) x g
  | ORelu c => map2 (fun xi gi => relu_d c xi * gi) x g
  | OCall p _ => map2 (policy_grad p) x g
  end.

Definition forward (n : net) (x : list Qc) : list Qc := fold_left (fun a l => op_fwd (l_op l) a) n x.
(* gradient of <t, forward n x> with respect to x, every op using its own backward rule *)
Fixpoint backprop (n : net) (x t : list Qc) : list Qc :=
  match n with
  | [] => t
  | l :: r => op_bwd (l_op l) x (backprop r (op_fwd (l_op l) x) t)
  end.

(* ------------------------------------------------------------------ override_relu_gradient *)
Definition override_act (p : policy) (a : act) : act :=
  match a with ARelu => ACustom p std_cfg | _ => a end.              (* layer.activation = relu_policy() *)
Definition override_op (p : policy) (o : op) : op :=
  match o with
  | ODense W b a => ODense W b (override_act p a)                      (* clone + set_weights: same W, b *)
  | OAct a => OAct (override_act p a)
  | ORelu c => OCall p {| r_max := r_max c; r_thr := r_thr c; r_slope := 0 |}   (* relu_policy(max_value, threshold) *)
  | _ => o
  end.
Definition override_layer (p : policy) (l : layer) : layer :=
  {| l_name := l_name l; l_filters := l_filters l; l_chan := l_chan l; l_op := override_op p (l_op l) |}.
Definition override (p : policy) (n : net) : net := map (override_layer p) n.

(* ------------------------------------------------------------------ DeconvNet / GuidedBackprop *)
(* batch_gradient *)
Definition batch_gradient (n : net) (bs : option nat) (xs ts : list (list Qc)) : list (list Qc) :=
  let g := fun xt : list Qc * list Qc => backprop n (fst xt) (snd xt) in
  match bs with
  | None => map g (combine xs ts)
  | Some b => concat (map (map g) (chunks b (combine xs ts)))
  end.
Definition relu_explainer (p : policy) (n : net) (bs : option nat) (xs ts : list (list Qc)) : list (list Qc) :=
  batch_gradient (override p n) bs xs ts.
Definition deconvnet := relu_explainer PDeconv.
Definition guided_backprop := relu_explainer PGuided.
(* what explainer.model (the clone) computes *)
Definition clone_forward (p : policy) (n : net) (x : list Qc) : list Qc := forward (override p n) x.

(* ------------------------------------------------------------------ Grad-CAM / Grad-CAM++ *)
(* find_layer and the default choice; result = index into model.layers *)
Inductive layer_ref := ByIndex (z : Z) | ByName (s : string).
Fixpoint index_of_name (s : string) (n : net) (i : nat) : option nat :=
  match n with [] => None | l :: r => if String.eqb (l_name l) s then Some i else index_of_name s r (S i) end.
Definition find_layer (n : net) (r : layer_ref) : option nat :=
  match r with
  | ByName s => index_of_name s n 0
  | ByIndex z =>
      let len := Z.of_nat (length n) in
      let i := if (z <? 0)%Z then (len + z)%Z else z in
      if ((0 <=? i)%Z && (i <? len)%Z)%bool then Some (Z.to_nat i) else None
  end.
(* next(layer for layer in model.layers[::-1] if hasattr(layer, 'filters')) *)
Fixpoint first_filters (rn : list layer) (i : nat) : option nat :=
  match rn with [] => None | l :: r => if l_filters l then Some i else first_filters r (S i) end.
Definition last_conv (n : net) : option nat :=
  match first_filters (rev n) 0 with Some j => Some (length n - 1 - j)%nat | None => None end.
Definition choose_layer (n : net) (cl : option layer_ref) : option nat :=
  match cl with Some r => find_layer n r | None => last_conv n end.

(* (H'W', K) view of a flat (H', W', K) tensor *)
Definition rows (K : nat) (l : list Qc) : list (list Qc) := chunks K l.
(* reduce_mean(., axis=(1, 2)) of one sample *)
Definition chan_mean (K : nat) (R : list (list Qc)) : list Qc :=
  map (fun s => s / qn (length R)) (vsum K R).

Definition weights_gc (K : nat) (A G : list (list Qc)) : list Qc := chan_mean K G.

Definition alpha_pp (eps : Qc) (g av : Qc) : Qc :=
  let sq := g * g in
  let cube := g * g * g in
  let den := two * sq + cube * av in
  let den' := den + b2q (Qceqb den 0) * eps in
  sq / den' * relu g.
Definition weights_pp (eps : Qc) (K : nat) (A G : list (list Qc)) : list Qc :=
  let avg := chan_mean K A in
  chan_mean K (map (fun grow => map2 (alpha_pp eps) grow avg) G).

(* _apply_weights *)
Definition apply_weights (w : list Qc) (A : list (list Qc)) : list Qc := map (fun arow => relu (dot arow w)) A.

Section GradCAM.
Variable resize : list Qc -> list Qc.      (* tf.image.resize(cam, input size, BICUBIC) on one sample (library) *)
Variable weights : nat -> list (list Qc) -> list (list Qc) -> list Qc.   (* _compute_weights (overridden by GradCAMPP) *)
(* the two-headed model and TF autodiff, row-wise (library): *)
Variable feat : list Qc -> list Qc.                       (* conv_layer.output, flat (H', W', K) *)
Variable featgrad : list Qc -> list Qc -> list Qc.        (* d sum(predictions * t) / d conv_layer.output *)
Variable K : nat.                                         (* number of channels of conv_layer.output *)

Definition cam_one (xt : list Qc * list Qc) : list Qc :=
  let A := rows K (feat (fst xt)) in
  let G := rows K (featgrad (fst xt) (snd xt)) in
  apply_weights (weights K A G) A.

Definition cam_core (bs : option nat) (xs ts : list (list Qc)) : list (list Qc) :=
  let B := eff_bs bs (length xs) in
  let cams := fold_left (fun acc batch => acc ++ map cam_one batch) (chunks B (combine xs ts)) [] in
  map resize cams.
End GradCAM.

(* on an F-net: split at the chosen layer *)
Definition net_feat (n : net) (i : nat) (x : list Qc) : list Qc := forward (firstn (S i) n) x.
Definition net_featgrad (n : net) (i : nat) (x t : list Qc) : list Qc :=
  backprop (skipn (S i) n) (net_feat n i x) t.
Definition layer_chan (n : net) (i : nat) : nat :=
  match nth_error n i with Some l => l_chan l | None => 0%nat end.

Definition gradcam_gen (weights : nat -> list (list Qc) -> list (list Qc) -> list Qc)
    (resize : list Qc -> list Qc) (n : net) (cl : option layer_ref) (bs : option nat)
    (xs ts : list (list Qc)) : option (list (list Qc)) :=
  match choose_layer n cl with
  | Some i => Some (cam_core resize weights (net_feat n i) (net_featgrad n i) (layer_chan n i) bs xs ts)
  | None => None                                             (* StopIteration / ValueError / IndexError *)
  end.
Definition gradcam := gradcam_gen weights_gc.
Definition gradcampp (eps : Qc) := gradcam_gen (weights_pp eps).

(* ------------------------------------------------------------------ helpers for the correspondence *)
(* the resize of one (H', W') -> (H, W) pair as the matrix of the linear map tf.image.resize computes *)
Definition matvec (R : list (list Qc)) (v : list Qc) : list Qc := map (fun r => dot r v) R.
(* LeakyReLU(alpha) as an "other" element-wise layer *)
Definition leaky (a : Qc) : act := AOther (fun x => if Qcltb 0 x then x else a * x) (fun x => if Qcltb 0 x then 1 else a).
(* relu6 activation: NOT recognised by has_relu_activation *)
Definition relu6a : act :=
  AOther (fun x => Qcmin (relu x) (qz 6)) (fun x => b2q (Qcltb 0 x && Qcltb x (qz 6))).
Definition mk (name : string) (filters : bool) (chan : nat) (o : op) : layer :=
  {| l_name := name; l_filters := filters; l_chan := chan; l_op := o |}.
Definition qmaxabs (l : list Qc) : Qc := fold_left (fun m x => Qcmax m (Qcabs x)) l 0.
Definition opt_close (tol : Qc) (m : option (list (list Qc))) (impl : list (list Qc)) : bool :=
  match m with
  | Some ms => Nat.eqb (length ms) (length impl) &&
               forallb (fun p => qlist_close tol (1 + qmaxabs (fst p)) (fst p) (snd p)) (combine ms impl)
  | None => false
  end.
