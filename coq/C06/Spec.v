(* C06/Spec.v — the property's reference definition, no batching, no accumulators:
   map[p] = sum over patches P covering p of score(x) - score(x with P set to v),
   patches anchored at multiples of the stride, fully inside the input. *)
From Xpl Require Export C06.Model.
Close Scope Qc_scope. Open Scope nat_scope.

(* a patch is the set of positions [a, a+p) (x [b, b+q)) *)
Inductive patch := P1 (a : nat) | P2 (a b : nat).

Definition patches (g : geom) : list patch :=
  match g with
  | Tab d p s => map P1 (anchors d p s)
  | Grid h w _ p0 p1 s0 s1 =>
      flat_map (fun a => map (fun b => P2 a b) (anchors w p1 s1)) (anchors h p0 s0)
  end.

(* does the patch cover position number pos (row-major over the masked axes)? *)
Definition covers (g : geom) (P : patch) (pos : nat) : bool :=
  match g, P with
  | Tab d p s, P1 a => inpatch a p pos
  | Grid h w _ p0 p1 _ _, P2 a b => inpatch a p0 (pos / w) && inpatch b p1 (pos mod w)
  | _, _ => false
  end.

Open Scope Qc_scope.

(* x with the patch set to v: flat index k belongs to position k / c (all channels together) *)
Definition occlude (g : geom) (v : Qc) (x : list Qc) (P : patch) : list Qc :=
  map (fun k => if covers g P (k / geom_chan g) then v else nthq x k) (seq 0 (length x)).

Section Spec.
Variable score : list Qc -> list Qc -> Qc.

Definition spec_at (g : geom) (v : Qc) (x t : list Qc) (pos : nat) : Qc :=
  qsum (map (fun P => if covers g P pos then score x t - score (occlude g v x P) t else 0) (patches g)).

Definition spec_map (g : geom) (v : Qc) (x t : list Qc) : list Qc :=
  map (spec_at g v x t) (seq 0 (geom_npos g)).

Definition spec_occlusion (g : geom) (v : Qc) (xs ts : list (list Qc)) : list (list Qc) :=
  map2 (spec_map g v) xs ts.
End Spec.

(* well-formed configuration: sizes as the API requires them *)
Definition geom_ok (g : geom) : Prop :=
  match g with
  | Tab d p s => 1 <= p /\ 1 <= s /\ 1 <= d
  | Grid h w c p0 p1 s0 s1 => 1 <= p0 /\ 1 <= p1 /\ 1 <= s0 /\ 1 <= s1 /\ 1 <= h /\ 1 <= w /\ 1 <= c
  end%nat.
Definition geom_size (g : geom) : nat := (geom_npos g * geom_chan g)%nat.
