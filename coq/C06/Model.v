(* C06/Model.v — executable transcription of xplique/attributions/occlusion.py (no proofs here)

   Occlusion.explain:
     masks       = _get_masks(inputs.shape[1:], patch_size, patch_stride)
     base_scores = batch_inference_function(model, inputs, targets, batch_size)
     for (x, t, base) in zip(inputs, targets, base_scores):
        map = zeros
        for batch_masks in batch_tensor(masks, batch_size):
           occluded = _apply_masks(x, batch_masks, occlusion_value)
           scores   = inference_function(model, occluded, repeat_labels(t, len(batch_masks)))
           map     += _compute_sensitivity(base, scores, batch_masks)
   The model / operator is [score : sample -> target -> Qc], applied row-wise. *)
From Xpl Require Export Base.ListX.
Close Scope Qc_scope. Open Scope nat_scope.

(* ceil(a / s) for s >= 1 *)
Definition cdiv (a s : nat) : nat := (a + s - 1) / s.
(* [x * stride for x in range(0, ceil((d - p + 1) / stride))]  — empty when p > d *)
Definition anchors (d p s : nat) : list nat := map (fun a => a * s) (seq 0 (cdiv (d + 1 - p) s)).
Definition inpatch (a p i : nat) : bool := (a <=? i) && (i <? a + p).

(* tabular: shape (d) *)
Definition mask1 (d p a : nat) : list bool := map (inpatch a p) (seq 0 d).
Definition masks1 (d p s : nat) : list (list bool) := map (mask1 d p) (anchors d p s).

(* time series / images: masks over the first two axes, row-major *)
Definition mask2 (h w p0 p1 xa ya : nat) : list bool :=
  flat_map (fun i => map (fun j => inpatch xa p0 i && inpatch ya p1 j) (seq 0 w)) (seq 0 h).
Definition masks2 (h w p0 p1 s0 s1 : nat) : list (list bool) :=
  flat_map (fun xa => map (fun ya => mask2 h w p0 p1 xa ya) (anchors w p1 s1)) (anchors h p0 s0).

(* input kinds. [Grid h w c]: c = number of channels (time series (T, W): Grid T W 1, no channel axis —
   the flat data are the same) *)
Inductive geom :=
| Tab (d p s : nat)
| Grid (h w c p0 p1 s0 s1 : nat).

Definition geom_masks (g : geom) : list (list bool) :=
  match g with Tab d p s => masks1 d p s | Grid h w _ p0 p1 s0 s1 => masks2 h w p0 p1 s0 s1 end.
Definition geom_chan (g : geom) : nat := match g with Tab _ _ _ => 1 | Grid _ _ c _ _ _ _ => c end.
Definition geom_npos (g : geom) : nat := match g with Tab d _ _ => d | Grid h w _ _ _ _ _ => h * w end.

Open Scope Qc_scope.

(* _apply_masks: x * (not m) + m * v, the mask being repeated along the channel axis *)
Definition apply_mask (c : nat) (v : Qc) (x : list Qc) (m : list bool) : list Qc :=
  map2 (fun xi b => xi * b2q (negb b) + b2q b * v) x (rep c m).

(* _compute_sensitivity: sum over the masks of the batch of (base - score) * mask *)
Definition sensitivity (n : nat) (base : Qc) (scores : list Qc) (ms : list (list bool)) : list Qc :=
  vsum n (map2 (fun s m => vscale (base - s) (map b2q m)) scores ms).

Section Occlusion.
Variable score : list Qc -> list Qc -> Qc.

Definition base_scores (B : nat) (xs ts : list (list Qc)) : list Qc :=
  concat (map (map (fun xt => score (fst xt) (snd xt))) (chunks B (combine xs ts))).

Definition occl_one (g : geom) (B : nat) (v : Qc) (x t : list Qc) (base : Qc) : list Qc :=
  let n := geom_npos g in
  fold_left
    (fun acc bm =>
       let occluded := map (apply_mask (geom_chan g) v x) bm in
       let scores := map (fun o => score o t) occluded in     (* repeat_labels: same target *)
       vadd acc (sensitivity n base scores bm))
    (chunks B (geom_masks g)) (vzero n).

Definition occlusion (g : geom) (bs : option nat) (v : Qc) (xs ts : list (list Qc)) : list (list Qc) :=
  let B := eff_bs bs (length xs) in
  let bases := base_scores B xs ts in
  map (fun xtb => occl_one g B v (fst (fst xtb)) (snd (fst xtb)) (snd xtb))
      (combine (combine xs ts) bases).
End Occlusion.
