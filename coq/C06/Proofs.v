(* C06/Proofs.v — the executable model of Occlusion equals its reference definition *)
From Xpl Require Import Base.Tensor C06.Spec.
From Coq Require Import Arith FinFun.
Close Scope Qc_scope. Open Scope nat_scope.

(* ---------- anchors ---------- *)
Lemma cdiv_lt k m s : 1 <= s -> (k < cdiv m s <-> k * s < m).
Proof.
  intro Hs. unfold cdiv. assert (Hs0 : s <> 0) by lia.
  pose proof (Nat.div_mod (m + s - 1) s Hs0) as E.
  pose proof (Nat.mod_upper_bound (m + s - 1) s Hs0) as U.
  set (qq := (m + s - 1) / s) in *. set (r := (m + s - 1) mod s) in *.
  split; intro H; nia.
Qed.

(* patches are anchored at multiples of the stride and lie fully inside the input *)
Lemma anchors_spec d p s a : 1 <= s -> 1 <= p ->
  (In a (anchors d p s) <-> (exists k, a = k * s) /\ a + p <= d).
Proof.
  intros Hs Hp. unfold anchors. rewrite in_map_iff. split.
  - intros [k [<- Hk]]. apply in_seq in Hk. destruct Hk as [_ Hk]. cbn [plus] in Hk.
    apply cdiv_lt in Hk; [|exact Hs]. split; [exists k; reflexivity | lia].
  - intros [[k ->] Hle]. exists k. split; [reflexivity|]. apply in_seq. split; [lia|].
    cbn [plus]. apply cdiv_lt; [exact Hs | lia].
Qed.

Lemma anchors_nodup d p s : 1 <= s -> NoDup (anchors d p s).
Proof.
  intro Hs. unfold anchors. apply Injective_map_NoDup; [|apply seq_NoDup].
  intros a b H. nia.
Qed.

Lemma anchors_empty d p s : 1 <= s -> d < p -> anchors d p s = [].
Proof. intros Hs H. unfold anchors, cdiv. replace (d + 1 - p) with 0 by lia.
  cbn [plus]. rewrite Nat.div_small by lia. reflexivity. Qed.

(* ---------- masks are the indicator functions of the patches ---------- *)
Definition mask_of (g : geom) (P : patch) : list bool := map (covers g P) (seq 0 (geom_npos g)).

Lemma map_flat_map' {A B C} (f : B -> C) (g : A -> list B) l :
  map f (flat_map g l) = flat_map (fun x => map f (g x)) l.
Proof. induction l as [|x l IH]; cbn [flat_map map]; [reflexivity|]. rewrite map_app, IH. reflexivity. Qed.

Lemma geom_masks_patches g : geom_ok g -> geom_masks g = map (mask_of g) (patches g).
Proof.
  destruct g as [d p s | h w c p0 p1 s0 s1]; intro Hok; cbn [geom_masks patches].
  - unfold masks1. rewrite map_map. reflexivity.
  - unfold masks2. rewrite map_flat_map'. apply flat_map_ext. intro xa.
    rewrite map_map. apply map_ext. intro ya.
    unfold mask2, mask_of. cbn [geom_npos covers].
    apply (grid_flat (fun i j => inpatch xa p0 i && inpatch ya p1 j)).
Qed.

Lemma mask_of_length g P : length (mask_of g P) = geom_npos g.
Proof. unfold mask_of. rewrite map_length, seq_length. reflexivity. Qed.

Open Scope Qc_scope.

Lemma apply_mask_occlude g v x P : length x = geom_size g ->
  apply_mask (geom_chan g) v x (mask_of g P) = occlude g v x P.
Proof.
  intro Hx. unfold apply_mask, occlude.
  rewrite (rep_flat (mask_of g P) (geom_chan g) false), mask_of_length.
  fold (geom_size g). rewrite <- Hx.
  rewrite (list_as_seq x 0) at 1. rewrite map2_seq. apply map_ext_in.
  intros k Hk. apply in_seq in Hk. cbn [plus] in Hk. fold (nthq x k).
  assert (Hc : (geom_chan g <> 0)%nat).
  { intro E. rewrite Hx in Hk. unfold geom_size in Hk. rewrite E in Hk. lia. }
  assert (Hpos : (k / geom_chan g < geom_npos g)%nat).
  { apply Nat.div_lt_upper_bound; [exact Hc|]. rewrite Hx in Hk. unfold geom_size in Hk. lia. }
  unfold mask_of. rewrite nth_map_seq by exact Hpos.
  destruct (covers g P (k / geom_chan g)); cbn [negb b2q]; ring.
Qed.

(* ---------- accumulation over mask batches ---------- *)
Lemma vadd_fold_shift vs acc z : vadd acc (fold_left vadd vs z) = fold_left vadd vs (vadd acc z).
Proof. revert z; induction vs as [|u vs IH]; intro z; cbn [fold_left]; [reflexivity|].
  rewrite IH, vadd_assoc. reflexivity. Qed.

Lemma fold_batches_vsum {A} (G : A -> list Qc) n (cs : list (list A)) acc : length acc = n ->
  (forall m, In m (concat cs) -> length (G m) = n) ->
  fold_left (fun a c => vadd a (vsum n (map G c))) cs acc = fold_left vadd (map G (concat cs)) acc.
Proof.
  revert acc; induction cs as [|c cs IH]; intros acc Ha HG; cbn [fold_left concat]; [reflexivity|].
  rewrite map_app, fold_left_app.
  assert (E : vadd acc (vsum n (map G c)) = fold_left vadd (map G c) acc).
  { unfold vsum. rewrite vadd_fold_shift, (vadd_zero_r n) by exact Ha. reflexivity. }
  rewrite E. apply IH.
  - apply fold_vadd_length; [exact Ha|]. intros u Hu. apply in_map_iff in Hu as [m [<- Hm]].
    apply HG. cbn [concat]. apply in_or_app. left; exact Hm.
  - intros m Hm. apply HG. cbn [concat]. apply in_or_app. right; exact Hm.
Qed.

Lemma fold_left_ext {A B} (f g : A -> B -> A) l a : (forall x y, f x y = g x y) ->
  fold_left f l a = fold_left g l a.
Proof. intro H. revert a; induction l as [|y l IH]; intro a; cbn [fold_left]; [reflexivity|].
  rewrite H. apply IH. Qed.

Section Main.
Variable score : list Qc -> list Qc -> Qc.

(* the per-input loop over mask batches computes the reference map, whatever the batch size *)
Lemma occl_one_correct g B v x t : geom_ok g -> (1 <= B)%nat -> length x = geom_size g ->
  occl_one score g B v x t (score x t) = spec_map score g v x t.
Proof.
  intros Hok HB Hx. unfold occl_one. cbv zeta.
  set (n := geom_npos g).
  set (G := fun m : list bool => vscale (score x t - score (apply_mask (geom_chan g) v x m) t) (map b2q m)).
  rewrite (fold_left_ext _ (fun a c => vadd a (vsum n (map G c)))).
  2:{ intros a bm. unfold sensitivity. rewrite map_map, map2_map_l, map2_same. reflexivity. }
  assert (HG : forall m, In m (geom_masks g) -> length (G m) = n).
  { intros m Hm. rewrite geom_masks_patches in Hm by exact Hok. apply in_map_iff in Hm as [P [<- _]].
    unfold G, vscale. rewrite !map_length. apply mask_of_length. }
  rewrite (fold_batches_vsum G n) by (rewrite ?concat_chunks by exact HB; auto; apply repeat_length).
  rewrite concat_chunks by exact HB. fold (vsum n (map G (geom_masks g))).
  assert (HL : forall u, In u (map G (geom_masks g)) -> length u = n).
  { intros u Hu. apply in_map_iff in Hu as [m [<- Hm]]. auto. }
  apply nthq_ext.
  - unfold vsum. rewrite (fold_vadd_length n); [| apply repeat_length | exact HL].
    unfold spec_map. rewrite map_length, seq_length. reflexivity.
  - intros pos Hpos. unfold vsum in Hpos.
    rewrite (fold_vadd_length n) in Hpos; [| apply repeat_length | exact HL].
    rewrite (nthq_vsum n) by exact HL.
    unfold spec_map. rewrite (nthq_map _ _ 0%nat) by (rewrite seq_length; exact Hpos).
    rewrite seq_nth by exact Hpos. cbn [plus]. unfold spec_at.
    rewrite geom_masks_patches by exact Hok. rewrite !map_map. apply qsum_map_ext.
    intros P _. unfold G. rewrite apply_mask_occlude by exact Hx.
    unfold vscale. rewrite map_map. unfold mask_of. rewrite map_map.
    rewrite (nthq_map _ _ 0%nat) by (rewrite seq_length; exact Hpos).
    rewrite seq_nth by exact Hpos. cbn [plus].
    destruct (covers g P pos); cbn [b2q]; ring.
Qed.

Definition bs_ok (bs : option nat) : Prop := match bs with Some b => (1 <= b)%nat | None => True end.

Lemma eff_bs_pos {A} bs (xs : list A) : bs_ok bs -> xs <> [] -> (1 <= eff_bs bs (length xs))%nat.
Proof. destruct bs; cbn; [auto|]. intros _ H. destruct xs; [congruence | cbn; lia]. Qed.

Lemma base_scores_rowwise B xs ts : (1 <= B)%nat ->
  base_scores score B xs ts = map (fun xt => score (fst xt) (snd xt)) (combine xs ts).
Proof. intro HB. unfold base_scores. apply map_chunks; exact HB. Qed.

Theorem occlusion_correct g bs v xs ts : geom_ok g -> bs_ok bs ->
  (forall x, In x xs -> length x = geom_size g) ->
  occlusion score g bs v xs ts = spec_occlusion score g v xs ts.
Proof.
  intros Hok Hbs Hxs. unfold occlusion, spec_occlusion. cbv zeta.
  destruct xs as [|x0 xs']; [reflexivity|].
  set (xs := x0 :: xs') in *.
  assert (HB : (1 <= eff_bs bs (length xs))%nat) by (apply eff_bs_pos; [exact Hbs | discriminate]).
  rewrite base_scores_rowwise by exact HB.
  generalize (eff_bs bs (length xs)) HB. intros B HB'. clear HB.
  clearbody xs. revert ts. induction xs as [|x xs IH]; intros ts; [reflexivity|].
  destruct ts as [|t ts]; [reflexivity|]. cbn [combine map map2 fst snd]. f_equal.
  - apply occl_one_correct; [exact Hok | exact HB' | apply Hxs; left; reflexivity].
  - apply IH. intros y Hy. apply Hxs. right; exact Hy.
Qed.

(* batch_size only bounds memory *)
Corollary occlusion_batch_invariant g bs bs' v xs ts : geom_ok g -> bs_ok bs -> bs_ok bs' ->
  (forall x, In x xs -> length x = geom_size g) ->
  occlusion score g bs v xs ts = occlusion score g bs' v xs ts.
Proof. intros. rewrite !occlusion_correct by assumption. reflexivity. Qed.

(* a position covered by no patch (border left by a non-tiling stride) receives exactly 0 *)
Lemma spec_uncovered_zero g v x t pos :
  (forall P, In P (patches g) -> covers g P pos = false) -> spec_at score g v x t pos = 0.
Proof.
  intro H. unfold spec_at. rewrite (qsum_map_ext _ (fun _ => 0)); [apply qsum_zero|].
  intros P HP. rewrite (H P HP). reflexivity.
Qed.

(* a score that ignores what every patch covering pos changes gives 0 at pos *)
Lemma spec_ignored_zero g v x t pos :
  (forall P, In P (patches g) -> covers g P pos = true -> score (occlude g v x P) t = score x t) ->
  spec_at score g v x t pos = 0.
Proof.
  intro H. unfold spec_at. rewrite (qsum_map_ext _ (fun _ => 0)); [apply qsum_zero|].
  intros P HP. destruct (covers g P pos) eqn:E; [|reflexivity]. rewrite (H P HP E). ring.
Qed.
End Main.

(* what the patches are: the property's wording *)
Lemma patches_tab d p s P : (1 <= s)%nat -> (1 <= p)%nat ->
  In P (patches (Tab d p s)) <-> exists a, P = P1 a /\ (exists k, a = k * s)%nat /\ (a + p <= d)%nat.
Proof.
  intros Hs Hp. cbn [patches]. rewrite in_map_iff. split.
  - intros [a [<- Ha]]. exists a. split; [reflexivity|]. apply anchors_spec; assumption.
  - intros [a [-> Ha]]. exists a. split; [reflexivity|]. apply anchors_spec; assumption.
Qed.

Lemma patches_grid h w c p0 p1 s0 s1 P : (1 <= s0)%nat -> (1 <= s1)%nat -> (1 <= p0)%nat -> (1 <= p1)%nat ->
  In P (patches (Grid h w c p0 p1 s0 s1)) <->
  exists a b, P = P2 a b /\ ((exists k, a = k * s0) /\ a + p0 <= h)%nat
                         /\ ((exists k, b = k * s1) /\ b + p1 <= w)%nat.
Proof.
  intros Hs0 Hs1 Hp0 Hp1. cbn [patches]. rewrite in_flat_map. split.
  - intros [a [Ha Hb]]. apply in_map_iff in Hb as [b [<- Hb]]. exists a, b.
    split; [reflexivity|]. split; apply anchors_spec; assumption.
  - intros [a [b [-> [Ha Hb]]]]. exists a. split; [apply anchors_spec; assumption|].
    apply in_map_iff. exists b. split; [reflexivity | apply anchors_spec; assumption].
Qed.
