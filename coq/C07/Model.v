(* C07/Model.v — executable transcription of xplique/attributions/lime.py and kernel_shap.py (no proofs here)

   Lime.__init__:
     self.batch_size = self.batch_size or self.nb_samples
   Lime._set_shape_dependant_parameters(inputs):          (state kept on the explainer: set once)
     if self.ref_value is None:
        rank 2 / 3 (tabular, time series) -> zeros(1);  rank 4: C == 3 -> fill(3, 0.5); C == 1 -> zeros(1)
     if self.map_to_interpret_space is None:
        tabular -> range(len(inp)); time series -> reshape(range(T*W), (T, W)); image -> quickshift / felzenszwalb
   Lime.explain(inputs, targets):
     for inp, target in zip(inputs, targets):
        mapping      = self.map_to_interpret_space(inp)
        num_features = reduce_max(mapping) + 1
        interpret_samples = self.pertub_func(num_features, self.nb_samples)          # drawn: INPUT of the model
        perturbed_targets, similarities = [], []
        for int_samples in Dataset.from_tensor_slices(interpret_samples).batch(self.batch_size):
           masks             = tf.gather(int_samples, indices=mapping, axis=1)         # _get_masks
           perturbed_samples = _apply_masks(inp, masks, self.ref_value)
               # pert = inp * masks (masks repeated along the channel axis);
               # pert += (ones - masks) * reshape(ref_value, (1,1,1,C))   [(1,1..) without channels]
           batch_targets     = inference_function(model, perturbed_samples, repeat(target))
           perturbed_targets.append(batch_targets)
           similarities.append(self.similarity_kernel(inp, int_samples, perturbed_samples))
        perturbed_targets = concat(perturbed_targets); similarities = concat(similarities)
        explain_model.fit(interpret_samples, perturbed_targets, sample_weight=similarities)
        explanation = tf.gather(cast(explain_model.coef_), indices=mapping, axis=0)    # _broadcast_explanation
     stack (+ expand_dims(-1) for images)
   _get_exp_kernel_func:
     euclidean: distances = tf.norm(flat(inp) - flat(pert)); exp(-1.0 * distances**2 / kernel_width**2)
     cosine:    distances = 1.0 + keras.losses.cosine_similarity(inp, pert)  (= 1 - cos; keras returns -cos)
                [as found: 1.0 - cosine_similarity(...) = 1 + cos — kept below as cos_arg_orig]
   KernelShap = Lime with LinearRegression(), similarity = ones, and
   _get_probs_nb_selected_feature(F): idx = range(1, F); probs = concat([0.0], (F - 1) / (idx * (F - idx)))
   _kernel_shap_pertub_func(F, n):
     k          = categorical(log [probs], n)                     # drawn
     sel        = one_hot(k, F)
     rand_vals  = normal([n, F]);  idx_sorted = argsort(rand_vals, DESCENDING)       # drawn / library
     thr_idx    = reduce_sum(idx_sorted * sel, axis=1)
     threshold  = reduce_sum(rand_vals * one_hot(thr_idx, F), axis=1)
     samples    = cast(rand_vals > threshold, int32)

   Library calls are arguments: [score] (model + operator, row-wise), [fit] (sklearn estimator),
   [sqrtf] (tf.norm / l2_normalize), the drawn binary samples, random rows, categories and sorting
   permutations, the image segmentation.  The kernels return the ARGUMENT of the final exp. *)
From Xpl Require Export Base.ListX Base.Families.
Close Scope Qc_scope. Open Scope nat_scope.

(* ---------------------------------------------------------------- input kinds *)
(* Tab d: (N, d);  TS t w: (N, t, w);  Img h w c: (N, h, w, c).  Data are flat row-major lists. *)
Inductive kind := Tab (d : nat) | TS (t w : nat) | Img (h w c : nat).
Definition kind_npos (k : kind) : nat := match k with Tab d => d | TS t w => t * w | Img h w _ => h * w end.
Definition kind_chan (k : kind) : nat := match k with Img _ _ c => c | _ => 1 end.
Definition kind_size (k : kind) : nat := kind_npos k * kind_chan k.

Open Scope Qc_scope.

(* _set_shape_dependant_parameters, ref_value part: None = the attribute stays None (unsupported channels) *)
Definition default_ref (k : kind) : option (list Qc) :=
  match k with
  | Tab _ => Some [0]
  | TS _ _ => Some [0]
  | Img _ _ c => if Nat.eqb c 3 then Some [half; half; half] else if Nat.eqb c 1 then Some [0] else None
  end.
(* the attribute is only filled when it is still None: the value of the first call sticks *)
Definition set_ref (cur : option (list Qc)) (k : kind) : option (list Qc) :=
  match cur with Some r => Some r | None => default_ref k end.

(* default map_to_interpret_space; [segment] = skimage quickshift / felzenszwalb (library) *)
Definition default_map (segment : list Qc -> list nat) (k : kind) (x : list Qc) : list nat :=
  match k with
  | Tab d => seq 0 d
  | TS t w => seq 0 (t * w)
  | Img _ _ _ => segment x
  end.
Definition set_map (cur : option (list Qc -> list nat)) (segment : list Qc -> list nat) (k : kind)
  : list Qc -> list nat :=
  match cur with Some f => f | None => default_map segment k end.

(* num_features = reduce_max(mapping) + 1 *)
Definition num_features (mapping : list nat) : nat := S (list_max mapping).

(* _get_masks: tf.gather(int_samples, mapping, axis=1), one row *)
Definition get_mask (mapping : list nat) (z : list bool) : list bool := map (fun j => nth j z false) mapping.

(* _apply_masks, one row: inp * m + (1 - m) * ref, m repeated along the channel axis, ref broadcast over positions *)
Definition apply_mask (c npos : nat) (ref x : list Qc) (m : list bool) : list Qc :=
  let mf := map b2q (rep c m) in
  vadd (vmul x mf) (vmul (map (fun v => 1 - v) mf) (tile npos ref)).

(* ---------------------------------------------------------------- similarity kernels: argument of exp *)
Definition sqdist (x m : list Qc) : Qc := qsum (map2 (fun a b => (a - b) * (a - b)) x m).
(* literal: distances = norm(x - m) through the library square root *)
Definition eucl_arg_lit (sqrtf : Qc -> Qc) (width : Qc) (x m : list Qc) : Qc :=
  let d := sqrtf (sqdist x m) in (- (1)) * (d * d) / (width * width).
(* root-free form used for execution *)
Definition eucl_arg (width : Qc) (x m : list Qc) : Qc := - (sqdist x m) / (width * width).

(* cos(x, m) = <x/|x|, m/|m|>; a zero vector normalises to zero (l2_normalize clamps the squared norm) *)
Definition cosv (sqrtf : Qc -> Qc) (x m : list Qc) : Qc :=
  dot x m / (sqrtf (dot x x) * sqrtf (dot m m)).
Definition cos_arg (sqrtf : Qc -> Qc) (width : Qc) (x m : list Qc) : Qc :=
  let d := 1 - cosv sqrtf x m in (- (1)) * (d * d) / (width * width).
(* the code as found before commit 48db21f: 1.0 - keras cosine_similarity = 1 + cos *)
Definition cos_arg_orig (sqrtf : Qc -> Qc) (width : Qc) (x m : list Qc) : Qc :=
  let d := 1 + cosv sqrtf x m in (- (1)) * (d * d) / (width * width).

(* ---------------------------------------------------------------- Lime.explain *)
Record trace := { tr_queries : list (list Qc);      (* every input handed to the model, in row order *)
                  tr_y : list Qc;                   (* perturbed_targets *)
                  tr_w : list Qc;                   (* arguments of exp of the similarities *)
                  tr_coef : list Qc;                (* coef_ after fit *)
                  tr_expl : list Qc }.              (* broadcast explanation, one value per position *)

Section Lime.
Variable score : list Qc -> list Qc -> Qc.                       (* sample -> target -> score (row-wise) *)
Variable karg : list Qc -> list bool -> list Qc -> Qc.           (* (inp, int_sample, perturbed_sample) -> arg of exp *)
Variable fit : list (list bool) -> list Qc -> list Qc -> list Qc.  (* (X, y, sample_weight args) -> coef_ *)

(* one batch of interpretable samples *)
Definition lime_batch (k : kind) (ref x t : list Qc) (mapping : list nat) (zs : list (list bool))
  : list (list Qc) * (list Qc * list Qc) :=
  let masks := map (get_mask mapping) zs in
  let pert := map (apply_mask (kind_chan k) (kind_npos k) ref x) masks in
  let targets := map (fun p => score p t) pert in
  let sims := map2 (fun z p => karg x z p) zs pert in
  (pert, (targets, sims)).

Definition lime_one (B : nat) (k : kind) (ref x t : list Qc) (mapping : list nat) (Z : list (list bool)) : trace :=
  let parts := map (lime_batch k ref x t mapping) (chunks B Z) in
  let y := concat (map (fun p => fst (snd p)) parts) in
  let w := concat (map (fun p => snd (snd p)) parts) in
  let coef := fit Z y w in
  {| tr_queries := concat (map fst parts); tr_y := y; tr_w := w; tr_coef := coef;
     tr_expl := map (fun j => nthq coef j) mapping |}.

(* explain: one mapping and one drawn sample matrix per input *)
Definition lime (bs : option nat) (nb_samples : nat) (k : kind) (ref : list Qc)
    (xs ts : list (list Qc)) (mappings : list (list nat)) (Zs : list (list (list bool))) : list trace :=
  let B := eff_bs bs nb_samples in
  map (fun a => lime_one B k ref (fst (fst (fst a))) (snd (fst (fst a))) (snd (fst a)) (snd a))
      (combine (combine (combine xs ts) mappings) Zs).

Definition lime_explain bs nb k ref xs ts mappings Zs : list (list Qc) :=
  map tr_expl (lime bs nb k ref xs ts mappings Zs).

(* the constructor / first-call defaults in front of it; None = the call fails (ref_value left to None) *)
Definition lime_api (bs : option nat) (nb_samples : nat) (ref_arg : option (list Qc))
    (map_arg : option (list Qc -> list nat)) (segment : list Qc -> list nat) (k : kind)
    (xs ts : list (list Qc)) (Zs : list (list (list bool))) : option (list trace) :=
  match set_ref ref_arg k with
  | None => None
  | Some ref => Some (lime bs nb_samples k ref xs ts (map (set_map map_arg segment k) xs) Zs)
  end.
End Lime.

(* ---------------------------------------------------------------- KernelShap *)
(* _get_probs_nb_selected_feature: [0.0] ++ (F - 1) / (idx * (F - idx)), idx = 1 .. F-1 (unnormalised) *)
Definition kshap_probs (F : nat) : list Qc :=
  0 :: map (fun i => qn (F - 1) / qn (i * (F - i))) (seq 1 (F - 1)).

Definition one_hot_n (F i : nat) : list nat := map (fun j => if Nat.eqb j i then 1%nat else 0%nat) (seq 0 F).
(* thr_idx = reduce_sum(idx_sorted * one_hot(k, F)) *)
Definition kshap_thr_idx (F k : nat) (perm : list nat) : nat := list_sum (map2 Nat.mul perm (one_hot_n F k)).
(* threshold = reduce_sum(rand_vals * one_hot(thr_idx, F)) *)
Definition kshap_thr (F : nat) (r : list Qc) (i : nat) : Qc := qsum (map2 Qcmult r (map qn (one_hot_n F i))).
(* one row: k = drawn category, r = drawn normal values, perm = argsort(r, DESCENDING) *)
Definition kshap_row (F k : nat) (r : list Qc) (perm : list nat) : list bool :=
  let thr := kshap_thr F r (kshap_thr_idx F k perm) in
  map (fun v => Qcltb thr v) r.
Fixpoint kshap_sample (F : nat) (ks : list nat) (rs : list (list Qc)) (perms : list (list nat)) : list (list bool) :=
  match ks, rs, perms with
  | k :: ks', r :: rs', p :: perms' => kshap_row F k r p :: kshap_sample F ks' rs' perms'
  | _, _, _ => []
  end.

Definition count_true (z : list bool) : nat := length (filter (fun b => b) z).
(* what the property says of every drawn coalition *)
Definition coalition_ok (F : nat) (z : list bool) : bool :=
  Nat.eqb (length z) F && Nat.leb 1 (count_true z) && Nat.leb (count_true z) (F - 1).

(* KernelShap.explain = Lime.explain with similarity ones (= exp 0) and a least-squares fit *)
Definition kshap (score : list Qc -> list Qc -> Qc) (fit : list (list bool) -> list Qc -> list Qc -> list Qc) :=
  lime score (fun _ _ _ => 0) fit.

(* F-additive member used by the correspondence: F-quad without squares and cross terms *)
Definition additive_class (b : Qc) (W : list Qc) : qclass :=
  {| qb := b; qW := W; qV := map (fun _ => 0) W; qX := [] |}.
