(* C07/Proofs.v — Lime: Model = Spec for every batch size; kernels; defaults.
   KernelShap: probabilities, coalition sizes, additive scores are linear in z, least squares is exact, efficiency. *)
From Xpl Require Import Base.Tensor C07.Spec.
From Coq Require Import Arith Lqa Permutation Sorted.
Close Scope Qc_scope. Open Scope nat_scope.

(* ------------------------------------------------------------------ general list facts *)
Lemma flat_map_const {A B} (l' : list B) (s : list A) : flat_map (fun _ => l') s = concat (repeat l' (length s)).
Proof. induction s as [|a s IH]; [reflexivity|]. cbn [flat_map length repeat concat]. rewrite IH. reflexivity. Qed.

(* tf broadcast of a (c)-vector over n positions on flat data: flat index k reads entry k mod c *)
Lemma tile_flat {A} (l : list A) n d :
  tile n l = map (fun k => nth (k mod length l) l d) (seq 0 (n * length l)).
Proof.
  unfold tile. rewrite <- (grid_flat (fun _ j => nth j l d) n (length l)).
  rewrite (flat_map_const (map (fun j => nth j l d) (seq 0 (length l))) (seq 0 n)).
  rewrite seq_length. rewrite <- (list_as_seq l d). reflexivity.
Qed.

Lemma map2_map_same {A B C D} (f : B -> C -> D) (g : A -> B) (h : A -> C) l :
  map2 f (map g l) (map h l) = map (fun a => f (g a) (h a)) l.
Proof. rewrite map2_map_l, map2_map_r, map2_same. reflexivity. Qed.

Lemma get_mask_length mapping z : length (get_mask mapping z) = length mapping.
Proof. apply map_length. Qed.

Lemma get_mask_nth mapping z i : i < length mapping ->
  nth i (get_mask mapping z) false = nth (nth i mapping 0) z false.
Proof.
  intro H. unfold get_mask.
  rewrite (nth_indep _ false ((fun j => nth j z false) 0)) by (rewrite map_length; exact H).
  exact (map_nth (fun j => nth j z false) mapping 0 i).
Qed.

Open Scope Qc_scope.

(* ------------------------------------------------------------------ _get_masks + _apply_masks = masked input *)
Lemma apply_mask_spec k ref x mapping z : lime_ok k ref x mapping ->
  apply_mask (kind_chan k) (kind_npos k) ref x (get_mask mapping z) = spec_masked k ref x mapping z.
Proof.
  intros (Hc & Hr & Hx & Hm). unfold kind_ok in Hc. unfold apply_mask, spec_masked.
  set (c := kind_chan k) in *. set (np := kind_npos k) in *.
  assert (Hsz : kind_size k = (np * c)%nat) by reflexivity.
  rewrite (rep_flat (get_mask mapping z) c false), get_mask_length, Hm.
  rewrite (tile_flat ref np 0), Hr.
  rewrite (list_as_seq x 0) at 1. rewrite Hx, Hsz.
  rewrite !map_map. unfold vadd, vmul.
  rewrite map2_map_same, map2_map_same, map2_map_same.
  apply map_ext_in. intros p Hp. apply in_seq in Hp.
  assert (Hq : (p / c < np)%nat) by (apply Nat.div_lt_upper_bound; lia).
  rewrite get_mask_nth by (rewrite Hm; exact Hq).
  unfold seg_of, ref_at, nthq. fold c.
  destruct (nth (nth (p / c) mapping 0%nat) z false); unfold b2q; ring.
Qed.

Section LimeProofs.
Variable score : list Qc -> list Qc -> Qc.
Variable karg : list Qc -> list bool -> list Qc -> Qc.
Variable fit : list (list bool) -> list Qc -> list Qc -> list Qc.

(* one batch is row-wise *)
Lemma lime_batch_rowwise k ref x t mapping zs : lime_ok k ref x mapping ->
  lime_batch score karg k ref x t mapping zs =
  (map (spec_masked k ref x mapping) zs,
   (map (fun z => score (spec_masked k ref x mapping z) t) zs,
    map (fun z => karg x z (spec_masked k ref x mapping z)) zs)).
Proof.
  intro Hok. unfold lime_batch. cbv zeta.
  rewrite !map_map. rewrite map2_map_r, map2_same.
  f_equal; [|f_equal]; apply map_ext; intro z; rewrite apply_mask_spec by exact Hok; reflexivity.
Qed.

(* Lime on one input, any batch size: exactly the property's computation *)
Theorem lime_one_correct B k ref x t mapping Z : (1 <= B)%nat -> lime_ok k ref x mapping ->
  lime_one score karg fit B k ref x t mapping Z = spec_trace score karg fit k ref x t mapping Z.
Proof.
  intros HB Hok. unfold lime_one, spec_trace. cbv zeta.
  rewrite !map_map.
  assert (Hq : concat (map (fun zs => fst (lime_batch score karg k ref x t mapping zs)) (chunks B Z))
               = spec_queries k ref x mapping Z).
  { apply batched_rowwise; [exact HB|]. intro zs. rewrite lime_batch_rowwise by exact Hok. reflexivity. }
  assert (Hy : concat (map (fun zs => fst (snd (lime_batch score karg k ref x t mapping zs))) (chunks B Z))
               = spec_y score k ref x t mapping Z).
  { apply batched_rowwise; [exact HB|]. intro zs. rewrite lime_batch_rowwise by exact Hok. reflexivity. }
  assert (Hw : concat (map (fun zs => snd (snd (lime_batch score karg k ref x t mapping zs))) (chunks B Z))
               = spec_w karg k ref x mapping Z).
  { apply batched_rowwise; [exact HB|]. intro zs. rewrite lime_batch_rowwise by exact Hok. reflexivity. }
  rewrite Hq, Hy, Hw. reflexivity.
Qed.

Lemma eff_bs_ok bs nb : bs_ok bs nb -> (1 <= eff_bs bs nb)%nat.
Proof. destruct bs; cbn; auto. Qed.

(* the triple handed to fit, for every batch size *)
Theorem lime_fit_arguments bs nb k ref x t mapping Z : bs_ok bs nb -> lime_ok k ref x mapping ->
  let tr := lime_one score karg fit (eff_bs bs nb) k ref x t mapping Z in
  tr_queries tr = map (spec_masked k ref x mapping) Z /\
  tr_y tr = map (fun z => score (spec_masked k ref x mapping z) t) Z /\
  tr_w tr = map (fun z => karg x z (spec_masked k ref x mapping z)) Z /\
  tr_coef tr = fit Z (tr_y tr) (tr_w tr).
Proof.
  intros Hbs Hok. cbv zeta. rewrite lime_one_correct by (auto using eff_bs_ok).
  repeat split; reflexivity.
Qed.

(* explain over a list of inputs (one mapping and one sample matrix each) *)
Theorem lime_correct bs nb k ref xs ts mappings Zs : bs_ok bs nb ->
  (forall x mp, In (x, mp) (combine xs mappings) -> lime_ok k ref x mp) ->
  lime score karg fit bs nb k ref xs ts mappings Zs =
  map (fun a => spec_trace score karg fit k ref (fst (fst (fst a))) (snd (fst (fst a))) (snd (fst a)) (snd a))
      (combine (combine (combine xs ts) mappings) Zs).
Proof.
  intros Hbs Hok. unfold lime. cbv zeta. apply map_ext_in.
  intros [[[x t] mp] Z] Hin. cbn [fst snd].
  apply lime_one_correct; [apply eff_bs_ok; exact Hbs|].
  apply Hok. apply in_combine_l in Hin.
  clear - Hin. revert ts mappings Hin. induction xs as [|x0 xs' IH]; intros ts mappings Hin; [destruct Hin|].
  destruct ts as [|t0 ts]; [destruct Hin|]. destruct mappings as [|m0 ms]; [destruct Hin|].
  cbn [combine] in *. destruct Hin as [E|Hin]; [left; congruence | right; eapply IH; exact Hin].
Qed.

Corollary lime_batch_invariant bs bs' nb k ref xs ts mappings Zs : bs_ok bs nb -> bs_ok bs' nb ->
  (forall x mp, In (x, mp) (combine xs mappings) -> lime_ok k ref x mp) ->
  lime score karg fit bs nb k ref xs ts mappings Zs = lime score karg fit bs' nb k ref xs ts mappings Zs.
Proof. intros. rewrite !lime_correct by assumption. reflexivity. Qed.

(* broadcast: every position receives the coefficient of its segment *)
Theorem lime_broadcast B k ref x t mapping Z :
  let tr := lime_one score karg fit B k ref x t mapping Z in
  tr_expl tr = map (fun j => nthq (tr_coef tr) j) mapping /\
  length (tr_expl tr) = length mapping /\
  (forall p, (p < length mapping)%nat -> nthq (tr_expl tr) p = nthq (tr_coef tr) (nth p mapping 0%nat)) /\
  (forall p p', (p < length mapping)%nat -> (p' < length mapping)%nat -> nth p mapping 0%nat = nth p' mapping 0%nat ->
      nthq (tr_expl tr) p = nthq (tr_expl tr) p').
Proof.
  cbv zeta. unfold lime_one. cbv zeta. cbn [tr_expl tr_coef].
  set (coef := fit Z _ _).
  assert (Hp : forall p, (p < length mapping)%nat ->
             nthq (map (fun j => nthq coef j) mapping) p = nthq coef (nth p mapping 0%nat)).
  { intros p Hp. apply nthq_map. exact Hp. }
  repeat split.
  - apply map_length.
  - exact Hp.
  - intros p p' H1 H2 E. rewrite !Hp by assumption. rewrite E. reflexivity.
Qed.
End LimeProofs.

(* ------------------------------------------------------------------ kernels *)
Theorem lime_kernel_arg_eucl sqrtf width x m : is_sqrt_at sqrtf (sqdist x m) ->
  eucl_arg_lit sqrtf width x m = spec_eucl_arg width x m /\ eucl_arg width x m = spec_eucl_arg width x m.
Proof.
  intro H. unfold eucl_arg_lit, eucl_arg, spec_eucl_arg, is_sqrt_at in *. cbv zeta. rewrite H.
  unfold sqdist, sum_sq_diff. split; [|reflexivity]. unfold Qcdiv. ring.
Qed.

Theorem lime_kernel_arg_cos sqrtf width x m :
  cos_arg sqrtf width x m = spec_cos_arg width (sqrtf (dot x x)) (sqrtf (dot m m)) x m.
Proof. unfold cos_arg, spec_cos_arg, cosv. cbv zeta. unfold Qcdiv. ring. Qed.

(* the code as found used D = 1 + cos: a sample equal to the input got weight exp(-4/width^2) instead of exp(0) *)
Theorem lime_kernel_arg_cos_refuted_orig :
  exists sqrtf width x m, is_sqrt_at sqrtf (dot x x) /\ is_sqrt_at sqrtf (dot m m) /\ m = x /\
    spec_cos_arg width (sqrtf (dot x x)) (sqrtf (dot m m)) x m = 0 /\
    cos_arg_orig sqrtf width x m = - (q 4 1) /\
    cos_arg_orig sqrtf width x m <> spec_cos_arg width (sqrtf (dot x x)) (sqrtf (dot m m)) x m.
Proof.
  exists (fun v => v), 1, [1], [1].
  assert (E1 : spec_cos_arg 1 (dot [1] [1]) (dot [1] [1]) [1] [1] = 0) by (vm_compute; reflexivity).
  assert (E2 : cos_arg_orig (fun v => v) 1 [1] [1] = - (q 4 1)) by (vm_compute; apply Qc_is_canon; reflexivity).
  repeat split; try (vm_compute; apply Qc_is_canon; reflexivity); try exact E1; try exact E2.
  rewrite E1, E2. intro K. discriminate K.
Qed.

(* ------------------------------------------------------------------ defaults *)
Theorem lime_default_ref :
  (forall d, set_ref None (Tab d) = Some [0]) /\
  (forall t w, set_ref None (TS t w) = Some [0]) /\
  (forall h w, set_ref None (Img h w 1) = Some [0]) /\
  (forall h w, set_ref None (Img h w 3) = Some [half; half; half]) /\
  (forall r k, set_ref (Some r) k = Some r) /\
  (forall k r, set_ref None k = Some r -> length r = kind_chan k).
Proof.
  repeat split; try reflexivity.
  intros k r. destruct k as [d|t w|h w c]; cbn; try (intro E; injection E as <-; reflexivity).
  destruct (Nat.eqb c 3) eqn:E3; [apply Nat.eqb_eq in E3; subst; intro E; injection E as <-; reflexivity|].
  destruct (Nat.eqb c 1) eqn:E1; [apply Nat.eqb_eq in E1; subst; intro E; injection E as <-; reflexivity|].
  discriminate.
Qed.

(* default maps are identity maps: every feature is its own segment *)
Theorem lime_default_map segment :
  (forall d x, set_map None segment (Tab d) x = seq 0 d) /\
  (forall t w x, set_map None segment (TS t w) x = seq 0 (t * w)) /\
  (forall f k x, set_map (Some f) segment k x = f x).
Proof. repeat split. Qed.

(* ================================================================== KernelShap *)
Close Scope Qc_scope. Open Scope nat_scope.
Open Scope Qc_scope.

(* ------------------------------------------------------------------ qn *)
Lemma qn_pos n : (1 <= n)%nat -> 0 < qn n.
Proof. intro H. unfold qn. change (Qlt (this 0) (this (Q2Qc (Z.of_nat n # 1)))).
  rewrite (Qc_Q2Qc_q (Z.of_nat n # 1)). unfold Qlt; cbn. lia. Qed.
Lemma qn_neq0 n : (1 <= n)%nat -> qn n <> 0.
Proof. intros H E. pose proof (qn_pos n H) as P. rewrite E in P. exact (Qclt_not_eq _ _ P eq_refl). Qed.
Lemma qn_mult a b : qn (a * b) = qn a * qn b.
Proof. unfold qn. apply Qc_is_canon. rewrite Qc_mult_q, !Qc_Q2Qc_q. unfold Qeq; cbn [Qnum Qden Qmult].
  rewrite Nat2Z.inj_mul. change (Z.pos (1 * 1)) with 1%Z. lia. Qed.

(* ------------------------------------------------------------------ kshap_probs *)
Lemma kshap_probs_length F : (1 <= F)%nat -> length (kshap_probs F) = F.
Proof. intro H. unfold kshap_probs. cbn [length]. rewrite map_length, seq_length. lia. Qed.

Lemma kshap_probs_nth F k : (1 <= k)%nat -> (k <= F - 1)%nat ->
  nthq (kshap_probs F) k = qn (F - 1) / (qn k * qn (F - k)).
Proof.
  intros H1 H2. unfold kshap_probs, nthq. destruct k as [|k']; [lia|]. cbn [nth].
  rewrite (nth_indep _ 0 ((fun i => qn (F - 1) / qn (i * (F - i))) 0%nat)) by (rewrite map_length, seq_length; lia).
  rewrite (map_nth (fun i => qn (F - 1) / qn (i * (F - i))) (seq 1 (F - 1)) 0%nat k').
  rewrite seq_nth by lia. rewrite qn_mult. reflexivity.
Qed.

Lemma Qcmult_pos a b : 0 < a -> 0 < b -> 0 < a * b.
Proof. intros Ha Hb. qc2q. nra. Qed.
Lemma Qcinv_pos a : 0 < a -> 0 < / a.
Proof. intro Ha. qc2q. apply Qinv_lt_0_compat. exact Ha. Qed.
Lemma Qcdiv_pos a b : 0 < a -> 0 < b -> 0 < a / b.
Proof. intros Ha Hb. unfold Qcdiv. apply Qcmult_pos; [exact Ha|]. apply Qcinv_pos. exact Hb. Qed.

Lemma qsum_nonneg l : (forall v, In v l -> 0 <= v) -> 0 <= qsum l.
Proof. induction l as [|a l IH]; intro H; cbn [qsum]; [apply Qcle_refl|].
  assert (Ha : 0 <= a) by (apply H; left; reflexivity).
  assert (Hl : 0 <= qsum l) by (apply IH; intros; apply H; right; assumption).
  qc2q. lra. Qed.

Lemma qsum_pos_elem l v : (forall u, In u l -> 0 <= u) -> In v l -> 0 < v -> 0 < qsum l.
Proof. induction l as [|a l IH]; intros H Hin Hv; [destruct Hin|]. cbn [qsum].
  assert (Ha : 0 <= a) by (apply H; left; reflexivity).
  assert (Hl : 0 <= qsum l) by (apply qsum_nonneg; intros; apply H; right; assumption).
  destruct Hin as [->|Hin].
  - qc2q. lra.
  - assert (0 < qsum l) by (apply IH; auto; intros; apply H; right; assumption). qc2q. lra.
Qed.

Theorem kshap_probs_spec F : (2 <= F)%nat ->
  length (kshap_probs F) = F /\
  nthq (kshap_probs F) 0 = 0 /\
  (forall k, (1 <= k <= F - 1)%nat ->
     nthq (kshap_probs F) k = qn (F - 1) / (qn k * qn (F - k)) /\ 0 < nthq (kshap_probs F) k) /\
  0 < qsum (kshap_probs F) /\
  kshap_P F 0 = 0 /\
  (forall k, (1 <= k <= F - 1)%nat ->
     kshap_P F k = (qn (F - 1) / (qn k * qn (F - k))) / qsum (kshap_probs F) /\ 0 < kshap_P F k) /\
  (forall k, (1 <= k <= F - 1)%nat -> kshap_P F k = kshap_P F (F - k)).
Proof.
  intro HF.
  assert (Hnth : forall k, (1 <= k <= F - 1)%nat ->
     nthq (kshap_probs F) k = qn (F - 1) / (qn k * qn (F - k)) /\ 0 < nthq (kshap_probs F) k).
  { intros k [H1 H2]. rewrite kshap_probs_nth by assumption. split; [reflexivity|].
    apply Qcdiv_pos; [apply qn_pos; lia|]. apply Qcmult_pos; apply qn_pos; lia. }
  assert (Hnn : forall u, In u (kshap_probs F) -> 0 <= u).
  { intros u Hu. unfold kshap_probs in Hu. destruct Hu as [<-|Hu]; [apply Qcle_refl|].
    apply in_map_iff in Hu as (i & <- & Hi). apply in_seq in Hi.
    apply Qclt_le_weak. rewrite qn_mult. apply Qcdiv_pos; [apply qn_pos; lia|].
    apply Qcmult_pos; apply qn_pos; lia. }
  assert (Hs : 0 < qsum (kshap_probs F)).
  { apply (qsum_pos_elem _ (nthq (kshap_probs F) 1)); [exact Hnn| |apply Hnth; lia].
    unfold nthq. apply nth_In. rewrite kshap_probs_length by lia. lia. }
  split; [apply kshap_probs_length; lia|]. split; [reflexivity|]. split; [exact Hnth|]. split; [exact Hs|].
  split; [unfold kshap_P; change (nthq (kshap_probs F) 0) with 0; unfold Qcdiv; ring|].
  split.
  - intros k Hk. unfold kshap_P. destruct (Hnth k Hk) as [E P]. split; [rewrite E; reflexivity|].
    apply Qcdiv_pos; assumption.
  - intros k Hk. unfold kshap_P. f_equal. rewrite !kshap_probs_nth by lia.
    replace (F - (F - k))%nat with k by lia. f_equal. ring.
Qed.

Close Scope Qc_scope. Open Scope nat_scope.

(* ------------------------------------------------------------------ one-hot selections *)
Lemma sel_nat l s k :
  fold_right plus 0 (map2 Nat.mul l (map (fun j => if Nat.eqb j k then 1 else 0) (seq s (length l))))
  = if k <? s then 0 else nth (k - s) l 0.
Proof.
  revert s. induction l as [|a l IH]; intro s.
  - cbn [length seq map map2 fold_right]. destruct (k <? s); [reflexivity | destruct (k - s); reflexivity].
  - cbn [length seq map map2 fold_right]. rewrite IH.
    destruct (Nat.eqb_spec s k) as [->|Es].
    + destruct (Nat.ltb_spec k (S k)); [|lia]. destruct (Nat.ltb_spec k k); [lia|].
      rewrite Nat.sub_diag. cbn [nth]. lia.
    + destruct (Nat.ltb_spec k (S s)), (Nat.ltb_spec k s); try lia.
      replace (k - s) with (S (k - S s)) by lia. cbn [nth]. lia.
Qed.

Lemma thr_idx_nth F k perm : length perm = F -> k < F -> kshap_thr_idx F k perm = nth k perm 0.
Proof.
  intros HL Hk. unfold kshap_thr_idx, one_hot_n, list_sum. rewrite <- HL. rewrite sel_nat.
  destruct (Nat.ltb_spec k 0); [lia|]. rewrite Nat.sub_0_r. reflexivity.
Qed.

Open Scope Qc_scope.

Lemma qn_1 : qn 1 = 1. Proof. apply Qc_is_canon. reflexivity. Qed.
Lemma qn_0 : qn 0 = 0. Proof. apply Qc_is_canon. reflexivity. Qed.

Lemma sel_q (l : list Qc) s k :
  qsum (map2 Qcmult l (map qn (map (fun j => if Nat.eqb j k then 1%nat else 0%nat) (seq s (length l)))))
  = if (k <? s)%nat then 0 else nthq l (k - s).
Proof.
  revert s. induction l as [|a l IH]; intro s.
  - cbn [length seq map map2 qsum]. unfold nthq. destruct (k <? s)%nat; [reflexivity | destruct (k - s)%nat; reflexivity].
  - cbn [length seq map map2 qsum]. rewrite IH. unfold nthq.
    destruct (Nat.eqb_spec s k) as [->|Es].
    + destruct (Nat.ltb_spec k (S k)); [|lia]. destruct (Nat.ltb_spec k k); [lia|].
      rewrite Nat.sub_diag. cbn [nth]. rewrite qn_1. ring.
    + rewrite qn_0. destruct (Nat.ltb_spec k (S s)), (Nat.ltb_spec k s); try lia; try ring.
      replace (k - s)%nat with (S (k - S s)) by lia. cbn [nth]. ring.
Qed.

Lemma thr_nth F r i : length r = F -> (i < F)%nat -> kshap_thr F r i = nthq r i.
Proof.
  intros HL Hi. unfold kshap_thr, one_hot_n. rewrite <- HL. rewrite sel_q.
  destruct (Nat.ltb_spec i 0); [lia|]. rewrite Nat.sub_0_r. reflexivity.
Qed.

(* ------------------------------------------------------------------ counting above a threshold *)
Lemma count_true_map {A} (f : A -> bool) l : count_true (map f l) = length (filter f l).
Proof. unfold count_true. induction l as [|a l IH]; [reflexivity|]. cbn [map filter].
  destruct (f a); cbn [length]; rewrite IH; reflexivity. Qed.

Lemma filter_length_perm {A} (f : A -> bool) l l' : Permutation l l' -> length (filter f l) = length (filter f l').
Proof. induction 1; cbn [filter]; try congruence.
  - destruct (f x); cbn [length]; congruence.
  - destruct (f x), (f y); reflexivity. Qed.

(* in a strictly decreasing list exactly k elements exceed the element of rank k *)
Lemma count_above_sorted s k : StronglySorted (fun a b => b < a) s -> (k < length s)%nat ->
  length (filter (fun v => Qcltb (nthq s k) v) s) = k.
Proof.
  intro Hs. revert k. induction Hs as [|a s Hs IH Hall]; intros k Hk; [cbn [length] in Hk; lia|].
  assert (Hnone : forall thr, a <= thr -> filter (fun v => Qcltb thr v) s = []).
  { intros thr Hthr. clear IH Hs Hk. induction s as [|b s IHs]; [reflexivity|].
    cbn [filter]. inversion Hall as [|? ? Hb Hall']; subst.
    replace (Qcltb thr b) with false; [apply IHs; exact Hall'|].
    symmetry. destruct (Qcltb thr b) eqn:E; [|reflexivity]. apply Qcltb_lt in E.
    exfalso. qc2q. lra. }
  destruct k as [|k'].
  - unfold nthq. cbn [nth filter].
    replace (Qcltb a a) with false.
    + rewrite Hnone by apply Qcle_refl. reflexivity.
    + symmetry. destruct (Qcltb a a) eqn:E; [|reflexivity]. apply Qcltb_lt in E. exfalso. qc2q. lra.
  - cbn [length] in Hk. assert (Hk' : (k' < length s)%nat) by lia.
    unfold nthq. cbn [nth filter]. fold (nthq s k').
    assert (Hin : In (nthq s k') s) by (unfold nthq; apply nth_In; exact Hk').
    rewrite Forall_forall in Hall. pose proof (Hall _ Hin) as Hlt.
    replace (Qcltb (nthq s k') a) with true by (symmetry; apply Qcltb_lt; exact Hlt).
    cbn [length]. f_equal. apply IH. exact Hk'.
Qed.

Lemma sorted_strict s : StronglySorted (fun a b : Qc => b <= a) s -> NoDup s -> StronglySorted (fun a b => b < a) s.
Proof.
  induction 1 as [|a s Hs IH Hall]; intro Hnd; [constructor|].
  inversion Hnd as [|? ? Hnotin Hnd']; subst. constructor; [apply IH; exact Hnd'|].
  rewrite Forall_forall in *. intros b Hb. pose proof (Hall b Hb) as Hle.
  destruct (Qcle_lt_or_eq _ _ Hle) as [Hlt|Heq]; [exact Hlt|]. subst. contradiction.
Qed.

Lemma nthq_map_nat (f : nat -> Qc) l i : (i < length l)%nat -> nthq (map f l) i = f (nth i l 0%nat).
Proof. intro H. apply nthq_map. exact H. Qed.

(* the sampler's construction: for ANY tie-free row, ANY permutation that sorts it in decreasing order and any
   drawn size k in 1..F-1, exactly the k largest values are selected *)
Theorem kshap_row_count F k r perm :
  length r = F -> NoDup r -> Permutation perm (seq 0 F) ->
  StronglySorted (fun a b => b <= a) (map (nthq r) perm) -> (k < F)%nat ->
  count_true (kshap_row F k r perm) = k.
Proof.
  intros HL Hnd Hperm Hsorted Hk.
  assert (HLp : length perm = F) by (rewrite (Permutation_length Hperm); apply seq_length).
  assert (Hidx : (nth k perm 0 < F)%nat).
  { assert (In (nth k perm 0%nat) (seq 0 F)) by (eapply Permutation_in; [exact Hperm | apply nth_In; lia]).
    apply in_seq in H. lia. }
  unfold kshap_row. cbv zeta. rewrite thr_idx_nth by assumption. rewrite thr_nth by assumption.
  rewrite count_true_map.
  set (s := map (nthq r) perm) in *.
  assert (Hsr : Permutation s r).
  { unfold s. rewrite (list_as_seq r 0) at 2. rewrite HL. apply Permutation_map. exact Hperm. }
  assert (Hthr : nthq r (nth k perm 0%nat) = nthq s k) by (unfold s; rewrite nthq_map_nat by lia; reflexivity).
  rewrite Hthr. rewrite <- (filter_length_perm _ _ _ Hsr).
  apply count_above_sorted.
  - apply sorted_strict; [exact Hsorted|]. eapply Permutation_NoDup; [apply Permutation_sym; exact Hsr | exact Hnd].
  - unfold s. rewrite map_length. lia.
Qed.

Theorem kshap_coalition_size F k r perm :
  length r = F -> NoDup r -> Permutation perm (seq 0 F) ->
  StronglySorted (fun a b => b <= a) (map (nthq r) perm) -> (1 <= k <= F - 1)%nat ->
  count_true (kshap_row F k r perm) = k /\ coalition_ok F (kshap_row F k r perm) = true.
Proof.
  intros HL Hnd Hperm Hs Hk.
  assert (Hc : count_true (kshap_row F k r perm) = k) by (apply kshap_row_count; auto; lia).
  split; [exact Hc|]. unfold coalition_ok. rewrite Hc.
  unfold kshap_row at 1. cbv zeta. rewrite map_length, HL, Nat.eqb_refl. cbn [andb].
  apply andb_true_iff. split; apply Nat.leb_le; lia.
Qed.

(* the drawn size has positive probability exactly for 1..F-1 (P(0) = 0): see kshap_probs_spec *)

Close Scope Qc_scope. Open Scope nat_scope.

Lemma nth_le_list_max l i : nth i l 0 <= list_max l.
Proof.
  destruct (Nat.lt_ge_cases i (length l)) as [H|H].
  - pose proof (proj1 (list_max_le l (list_max l)) (Nat.le_refl _)) as Hall.
    rewrite Forall_forall in Hall. apply Hall. apply nth_In. exact H.
  - rewrite nth_overflow by exact H. lia.
Qed.

Lemma seg_lt_F k mapping p : seg_of k mapping p < num_features mapping.
Proof. unfold seg_of, num_features. pose proof (nth_le_list_max mapping (p / kind_chan k)). lia. Qed.

Open Scope Qc_scope.

(* ------------------------------------------------------------------ sums *)
Lemma dot_as_seq a b n : length a = n -> length b = n ->
  dot a b = qsum (map (fun p => nthq a p * nthq b p) (seq 0 n)).
Proof.
  intros Ha Hb. unfold dot, vmul. rewrite (list_as_seq a 0) at 1. rewrite (list_as_seq b 0) at 1.
  rewrite Ha, Hb. rewrite map2_seq. reflexivity.
Qed.

(* sum_{j < F} c_j * [i = j] * v = c_i * v *)
Lemma qsum_select (c : nat -> Qc) i v F : (i < F)%nat ->
  qsum (map (fun j => c j * (if Nat.eqb i j then v else 0)) (seq 0 F)) = c i * v.
Proof.
  intro Hi. 
  assert (G : forall s n, qsum (map (fun j => c j * (if Nat.eqb i j then v else 0)) (seq s n))
                 = if ((s <=? i) && (i <? s + n))%nat then c i * v else 0).
  { intros s n. revert s. induction n as [|n IH]; intro s.
    - cbn [seq map qsum]. destruct (Nat.leb_spec s i), (Nat.ltb_spec i (s + 0)); cbn [andb]; try reflexivity; lia.
    - cbn [seq map qsum]. rewrite IH.
      destruct (Nat.eqb_spec i s) as [->|E].
      + destruct (Nat.leb_spec (S s) s); [lia|]. cbn [andb].
        destruct (Nat.leb_spec s s); [|lia]. destruct (Nat.ltb_spec s (s + S n)); [|lia]. cbn [andb]. ring.
      + destruct (Nat.leb_spec (S s) i), (Nat.ltb_spec i (S s + n)), (Nat.leb_spec s i), (Nat.ltb_spec i (s + S n));
          cbn [andb]; try lia; ring. }
  rewrite G. destruct (Nat.leb_spec 0 i); [|lia]. destruct (Nat.ltb_spec i (0 + F)); [|lia]. reflexivity.
Qed.

(* exchange: sum_j c_j sum_p [seg p = j] g p = sum_p c_(seg p) g p, when every segment index is below F *)
Lemma qsum_by_segment (c : nat -> Qc) (seg : nat -> nat) (g : nat -> Qc) (P : list nat) F :
  (forall p, In p P -> (seg p < F)%nat) ->
  qsum (map (fun j => c j * qsum (map (fun p => if Nat.eqb (seg p) j then g p else 0) P)) (seq 0 F))
  = qsum (map (fun p => c (seg p) * g p) P).
Proof.
  induction P as [|p P IH]; intro H.
  - cbn [map qsum]. rewrite (qsum_map_ext _ (fun _ => 0)) by (intros; ring). apply qsum_zero.
  - cbn [map qsum].
    rewrite (qsum_map_ext _ (fun j => c j * (if Nat.eqb (seg p) j then g p else 0)
                                     + c j * qsum (map (fun p0 => if Nat.eqb (seg p0) j then g p0 else 0) P)))
      by (intros; ring).
    rewrite qsum_map_add. rewrite qsum_select by (apply H; left; reflexivity).
    rewrite IH by (intros; apply H; right; assumption). reflexivity.
Qed.

Lemma spec_masked_nth k ref x mapping z p : (p < kind_size k)%nat ->
  nthq (spec_masked k ref x mapping z) p
  = if nth (seg_of k mapping p) z false then nthq x p else ref_at k ref p.
Proof. intro H. unfold spec_masked, nthq. rewrite nth_map_seq by exact H. reflexivity. Qed.

Lemma spec_masked_length k ref x mapping z : length (spec_masked k ref x mapping z) = kind_size k.
Proof. unfold spec_masked. rewrite map_length, seq_length. reflexivity. Qed.
Lemma ref_input_length k ref : length (ref_input k ref) = kind_size k.
Proof. unfold ref_input. rewrite map_length, seq_length. reflexivity. Qed.
Lemma ref_input_nth k ref p : (p < kind_size k)%nat -> nthq (ref_input k ref) p = ref_at k ref p.
Proof. intro H. unfold ref_input, nthq. rewrite nth_map_seq by exact H. reflexivity. Qed.

Section Additive.
Variable k : kind.
Variable score : list Qc -> list Qc -> Qc.
Variable b : list Qc -> Qc.
Variable wv : list Qc -> list Qc.
Hypothesis Hadd : additive (kind_size k) score b wv.

(* y_z = s(ref) + sum_j z_j Delta_j *)
Theorem kshap_additive_linear ref x t mapping z :
  score (spec_masked k ref x mapping z) t
  = score (ref_input k ref) t
    + qsum (map (fun j => b2q (nth j z false) * delta k ref x (wv t) mapping j) (seq 0 (num_features mapping))).
Proof.
  destruct (Hadd (spec_masked k ref x mapping z) t (spec_masked_length _ _ _ _ _)) as [Hw E1].
  destruct (Hadd (ref_input k ref) t (ref_input_length _ _)) as [_ E2].
  rewrite E1, E2.
  rewrite (dot_as_seq _ _ (kind_size k)) by (auto using spec_masked_length).
  rewrite (dot_as_seq _ _ (kind_size k)) by (auto using ref_input_length).
  unfold delta.
  rewrite (qsum_by_segment (fun j => b2q (nth j z false)) (seg_of k mapping)
             (fun p => nthq (wv t) p * (nthq x p - ref_at k ref p)) (seq 0 (kind_size k)) (num_features mapping))
    by (intros; apply seg_lt_F).
  assert (G : forall n, (n <= kind_size k)%nat ->
     qsum (map (fun p => nthq (wv t) p * nthq (spec_masked k ref x mapping z) p) (seq 0 n))
     = qsum (map (fun p => nthq (wv t) p * nthq (ref_input k ref) p) (seq 0 n))
       + qsum (map (fun p => b2q (nth (seg_of k mapping p) z false) * (nthq (wv t) p * (nthq x p - ref_at k ref p))) (seq 0 n))).
  { induction n as [|n IH]; intro Hn; [cbn; ring|].
    rewrite seq_S, !map_app, !qsum_app. cbn [plus map qsum]. rewrite IH by lia.
    rewrite spec_masked_nth, ref_input_nth by lia.
    destruct (nth (seg_of k mapping n) z false); unfold b2q; ring. }
  rewrite (G (kind_size k)) by lia. ring.
Qed.

(* efficiency: the Shapley values sum to s(x) - s(ref) *)
Theorem kshap_efficiency ref x t mapping : length x = kind_size k ->
  qsum (deltas k ref x (wv t) mapping) = score x t - score (ref_input k ref) t.
Proof.
  intro Hx.
  destruct (Hadd x t Hx) as [Hw E1]. destruct (Hadd (ref_input k ref) t (ref_input_length _ _)) as [_ E2].
  rewrite E1, E2. rewrite (dot_as_seq _ _ (kind_size k)) by auto.
  rewrite (dot_as_seq _ _ (kind_size k)) by (auto using ref_input_length).
  unfold deltas, delta.
  pose proof (qsum_by_segment (fun _ => 1) (seg_of k mapping)
             (fun p => nthq (wv t) p * (nthq x p - ref_at k ref p)) (seq 0 (kind_size k)) (num_features mapping)
             (fun p _ => seg_lt_F k mapping p)) as Q.
  rewrite (qsum_map_ext _ (fun j => 1 * qsum (map (fun p => if Nat.eqb (seg_of k mapping p) j
             then nthq (wv t) p * (nthq x p - ref_at k ref p) else 0) (seq 0 (kind_size k))))) by (intros; ring).
  rewrite Q.
  assert (G : forall n, (n <= kind_size k)%nat ->
     qsum (map (fun p => 1 * (nthq (wv t) p * (nthq x p - ref_at k ref p))) (seq 0 n))
     = qsum (map (fun p => nthq (wv t) p * nthq x p) (seq 0 n))
       - qsum (map (fun p => nthq (wv t) p * nthq (ref_input k ref) p) (seq 0 n))).
  { induction n as [|n IH]; intro Hn; [cbn; ring|].
    rewrite seq_S, !map_app, !qsum_app. cbn [plus map qsum]. rewrite IH by lia.
    rewrite ref_input_nth by lia. ring. }
  rewrite (G (kind_size k)) by lia. ring.
Qed.
End Additive.

Close Scope Qc_scope. Open Scope nat_scope.
Open Scope Qc_scope.

(* ------------------------------------------------------------------ least squares *)
Lemma sq_nonneg (a : Qc) : 0 <= a * a.
Proof. qc2q. generalize (this a). intro d. nra. Qed.

Lemma sq_zero (a : Qc) : a * a = 0 -> a = 0.
Proof. intro H. destruct (Qcmult_integral _ _ H); assumption. Qed.

Lemma qsum_sq_zero {A} (h : A -> Qc) l : qsum (map (fun z => h z * h z) l) <= 0 -> forall z, In z l -> h z = 0.
Proof.
  induction l as [|a l IH]; intros H z Hz; [destruct Hz|]. cbn [map qsum] in H.
  assert (H1 : 0 <= h a * h a) by apply sq_nonneg.
  assert (H2 : 0 <= qsum (map (fun z => h z * h z) l)).
  { clear. induction l as [|b l IH]; cbn [map qsum]; [apply Qcle_refl|].
    pose proof (sq_nonneg (h b)). qc2q. lra. }
  assert (E1 : h a * h a = 0) by (apply Qcle_antisym; [|exact H1]; qc2q; lra).
  assert (E2 : qsum (map (fun z => h z * h z) l) <= 0) by (qc2q; lra).
  destruct Hz as [<-|Hz]; [apply sq_zero; exact E1 | apply IH; assumption].
Qed.

Lemma dot_vsub_r a u v : length u = length v -> dot a (vsub u v) = dot a u - dot a v.
Proof.
  unfold dot, vmul, vsub. revert u v. induction a as [|x a IH]; intros u v H; [cbn; ring|].
  destruct u as [|y u], v as [|w v]; cbn [length] in H; try lia; [cbn; ring|].
  cbn [map2 qsum]. rewrite IH by lia. ring.
Qed.

Lemma vsub_zero u v n : length u = n -> length v = n -> vsub u v = vzero n -> u = v.
Proof.
  unfold vsub, vzero. revert v n. induction u as [|x u IH]; intros v n Hu Hv H.
  - destruct v; [reflexivity|]. cbn [length] in *. lia.
  - destruct v as [|y v]; cbn [length] in *; [lia|]. destruct n as [|n]; [lia|].
    cbn [map2 repeat] in H.
    assert (H0 : x - y = 0) by (apply (f_equal (fun l => nthq l 0)) in H; exact H).
    assert (H1 : map2 Qcminus u v = repeat 0 n) by (apply (f_equal (@tl Qc)) in H; exact H). f_equal.
    + transitivity (x - y + y); [ring | rewrite H0; ring].
    + eapply IH; [| |exact H1]; lia.
Qed.

Lemma vsub_length u v : length (vsub u v) = Nat.min (length u) (length v).
Proof. apply map2_length. Qed.

(* if the targets are exactly affine in the binary samples and [Z 1] has full column rank, every least-squares
   minimiser is the generating (coefficients, intercept) *)
Theorem ols_exact F Z y D c beta b0 :
  length D = F -> y = map (fun z => dot (zq z) D + c) Z ->
  design_injective F Z -> ls_minimiser F Z y beta b0 -> beta = D /\ b0 = c.
Proof.
  intros HD Hy Hinj [Hlen Hmin].
  assert (Hrss : forall be b', rss Z y be b' = qsum (map (fun z => (dot (zq z) D + c - ls_pred be b' z) * (dot (zq z) D + c - ls_pred be b' z)) Z)).
  { intros be b'. unfold rss. rewrite Hy, map2_map_r, map2_same. reflexivity. }
  assert (H0 : rss Z y D c = 0).
  { rewrite Hrss. rewrite (qsum_map_ext _ (fun _ => 0)); [apply qsum_zero|]. intros z _. unfold ls_pred. ring. }
  pose proof (Hmin D c HD) as Hle. rewrite H0, Hrss in Hle.
  pose proof (qsum_sq_zero _ _ Hle) as Hres.
  destruct (Hinj (vsub D beta) (c - b0)) as [Hv Hc].
  - rewrite vsub_length, HD, Hlen. apply Nat.min_id.
  - intros z Hz. rewrite dot_vsub_r by congruence. pose proof (Hres z Hz) as E. unfold ls_pred in E.
    rewrite <- E. ring.
  - split.
    + symmetry. eapply vsub_zero; [exact HD | exact Hlen | exact Hv].
    + transitivity (c - (c - b0)); [ring | rewrite Hc; ring].
Qed.

(* ------------------------------------------------------------------ F = 2: the design can never be injective *)
Lemma coalition2 z : coalition_ok 2 z = true -> z = [true; false] \/ z = [false; true].
Proof.
  unfold coalition_ok, count_true. destruct z as [|a [|b [|c z]]]; cbn; try discriminate.
  destruct a, b; cbn; try discriminate; auto.
Qed.

Theorem kshap_F2_design_singular Z : (forall z, In z Z -> coalition_ok 2 z = true) -> ~ design_injective 2 Z.
Proof.
  intros Hz Hinj. destruct (Hinj [1; 1] (- (1))) as [Hv _]; [reflexivity| |discriminate Hv].
  intros z Hin. destruct (coalition2 z (Hz z Hin)) as [-> | ->]; vm_compute; apply Qc_is_canon; reflexivity.
Qed.

(* ... and least squares does not determine the coefficients: shifting both by 1 (intercept by -1) fits equally *)
Theorem kshap_F2_ols_not_unique Z y beta b0 : (forall z, In z Z -> coalition_ok 2 z = true) ->
  ls_minimiser 2 Z y beta b0 ->
  ls_minimiser 2 Z y (vadd beta [1; 1]) (b0 - 1) /\ vadd beta [1; 1] <> beta.
Proof.
  intros Hz [Hlen Hmin].
  destruct beta as [|b1 [|b2 [|b3 beta]]]; cbn [length] in Hlen; try lia.
  assert (Hp : forall z, In z Z -> ls_pred (vadd [b1; b2] [1; 1]) (b0 - 1) z = ls_pred [b1; b2] b0 z).
  { intros z Hin. destruct (coalition2 z (Hz z Hin)) as [-> | ->]; unfold ls_pred, dot, vmul, zq, vadd; cbn; ring. }
  assert (Hr : rss Z y (vadd [b1; b2] [1; 1]) (b0 - 1) = rss Z y [b1; b2] b0).
  { unfold rss. clear Hmin. revert y. induction Z as [|z Z IH]; intros y; [reflexivity|].
    destruct y as [|yn y]; [reflexivity|]. cbn [map2 qsum].
    rewrite Hp by (left; reflexivity). rewrite IH; [reflexivity| |].
    - intros z' H'. apply Hz. right. exact H'.
    - intros z' H'. apply Hp. right. exact H'. }
  split; [split|].
  - reflexivity.
  - intros be b' Hb. rewrite Hr. apply Hmin. exact Hb.
  - unfold vadd. cbn [map2]. intro E.
    assert (E1 : b1 + 1 = b1) by (apply (f_equal (fun l => nthq l 0)) in E; exact E).
    assert (K : (1 : Qc) = 0) by (transitivity (b1 + 1 - b1); [ring | rewrite E1; ring]). discriminate K.
Qed.

Close Scope Qc_scope. Open Scope nat_scope.
Open Scope Qc_scope.

Lemma zq_nth z j : (j < length z)%nat -> nthq (zq z) j = b2q (nth j z false).
Proof. intro H. unfold zq. apply nthq_map. exact H. Qed.

Lemma deltas_nth k ref x wts mapping j : (j < num_features mapping)%nat ->
  nthq (deltas k ref x wts mapping) j = delta k ref x wts mapping j.
Proof. intro H. unfold deltas, nthq. rewrite nth_map_seq by exact H. reflexivity. Qed.

Lemma deltas_length k ref x wts mapping : length (deltas k ref x wts mapping) = num_features mapping.
Proof. unfold deltas. rewrite map_length, seq_length. reflexivity. Qed.

Lemma in_mapping_lt mapping j : In j mapping -> (j < num_features mapping)%nat.
Proof. intro H. unfold num_features. pose proof (proj1 (list_max_le mapping (list_max mapping)) (Nat.le_refl _)) as Hall.
  rewrite Forall_forall in Hall. specialize (Hall j H). lia. Qed.

(* KernelShap on an additive score: whatever least-squares minimiser the estimator returns, when the drawn design has
   full column rank the result is exactly the Shapley values, broadcast to the segments; for every batch size *)
Theorem kshap_exact score b wv fit bs nb k ref x t mapping Z :
  additive (kind_size k) score b wv -> bs_ok bs nb -> lime_ok k ref x mapping ->
  (forall z, In z Z -> length z = num_features mapping) ->
  design_injective (num_features mapping) Z ->
  (forall y, exists b0, ls_minimiser (num_features mapping) Z y (fit Z y (map (fun _ => 0) Z)) b0) ->
  let tr := lime_one score (fun _ _ _ => 0) fit (eff_bs bs nb) k ref x t mapping Z in
  tr_coef tr = deltas k ref x (wv t) mapping /\
  tr_expl tr = shapley_expl k ref x (wv t) mapping /\
  qsum (tr_coef tr) = score x t - score (ref_input k ref) t.
Proof.
  intros Hadd Hbs Hok Hlen Hinj Hfit. cbv zeta.
  rewrite lime_one_correct by (auto using eff_bs_ok). unfold spec_trace. cbv zeta. cbn [tr_coef tr_expl].
  set (F := num_features mapping) in *.
  set (y := spec_y score k ref x t mapping Z).
  assert (Ew : spec_w (fun _ _ _ => 0) k ref x mapping Z = map (fun _ => 0) Z) by reflexivity.
  rewrite Ew. destruct (Hfit y) as [b0 Hmin].
  assert (Hy : y = map (fun z => dot (zq z) (deltas k ref x (wv t) mapping) + score (ref_input k ref) t) Z).
  { unfold y, spec_y. apply map_ext_in. intros z Hz.
    rewrite (kshap_additive_linear k score b wv Hadd).
    rewrite (dot_as_seq _ _ F) by (unfold zq; rewrite ?map_length, ?deltas_length; auto).
    fold F. rewrite Qcplus_comm. f_equal. apply qsum_map_ext. intros j Hj. apply in_seq in Hj.
    rewrite zq_nth by (rewrite (Hlen z Hz); fold F; lia). rewrite deltas_nth by (fold F; lia). reflexivity. }
  destruct (ols_exact F Z y _ _ _ _ (deltas_length _ _ _ _ _) Hy Hinj Hmin) as [Ecoef _].
  rewrite Ecoef. split; [reflexivity|]. split.
  - unfold shapley_expl. apply map_ext_in. intros j Hj. apply deltas_nth. apply in_mapping_lt. exact Hj.
  - apply (kshap_efficiency k score b wv Hadd). destruct Hok as (_ & _ & Hx & _). exact Hx.
Qed.

(* ------------------------------------------------------------------ the F-quad members used by the check are additive *)
Lemma dot_nil_r a : dot a [] = 0.
Proof. unfold dot, vmul. destruct a; reflexivity. Qed.
Lemma dot_vadd_l a c x : length a = length c -> dot (vadd a c) x = dot a x + dot c x.
Proof. unfold dot, vmul, vadd. revert c x. induction a as [|u a IH]; intros c x H.
  - destruct c; [cbn; ring | cbn [length] in H; lia].
  - destruct c as [|v c]; [cbn [length] in H; lia|]. destruct x as [|w x]; [cbn; ring|].
    cbn [map2 qsum]. cbn [length] in H. rewrite IH by lia. ring. Qed.
Lemma dot_vscale_l s a x : dot (vscale s a) x = s * dot a x.
Proof. unfold dot, vmul, vscale. revert x. induction a as [|u a IH]; intro x; [cbn; ring|].
  destruct x as [|w x]; [cbn; ring|]. cbn [map map2 qsum]. rewrite IH. ring. Qed.
Lemma dot_vzero_l n x : dot (vzero n) x = 0.
Proof. unfold dot, vmul, vzero. revert x. induction n as [|n IH]; intro x; [reflexivity|].
  destruct x as [|w x]; [reflexivity|]. cbn [repeat map2 qsum]. rewrite IH. ring. Qed.
Lemma dot_zeros_l a x : (forall v, In v a -> v = 0) -> dot a x = 0.
Proof. unfold dot, vmul. revert x. induction a as [|u a IH]; intros x H; [reflexivity|].
  destruct x as [|w x]; [reflexivity|]. cbn [map2 qsum]. rewrite IH by (intros; apply H; right; assumption).
  rewrite (H u) by (left; reflexivity). ring. Qed.

Lemma lin_weights_length n ks t : (forall k, In k ks -> length (qW k) = n) -> length (lin_weights n ks t) = n.
Proof. revert t. induction ks as [|k ks IH]; intros t H; [apply repeat_length|].
  destruct t as [|tc t]; [apply repeat_length|]. cbn [lin_weights].
  rewrite vadd_length. unfold vscale. rewrite map_length, (H k) by (left; reflexivity).
  rewrite IH by (intros; apply H; right; assumption). apply Nat.min_id. Qed.

Theorem fquad_additive n ks : (forall k, In k ks -> class_additive n k) ->
  additive n (fquad ks) (lin_bias ks) (lin_weights n ks).
Proof.
  intros H x t Hx. split; [apply lin_weights_length; intros k Hk; apply (H k Hk)|].
  unfold fquad, fquad_out, lin_bias. revert t. induction ks as [|k ks IH]; intro t.
  - cbn [map lin_weights]. rewrite dot_vzero_l. unfold dot, vmul. cbn. ring.
  - destruct t as [|tc t].
    + cbn [lin_weights]. rewrite !dot_nil_r, dot_vzero_l. ring.
    + cbn [map lin_weights].
      destruct (H k (or_introl eq_refl)) as (HW & HX & HV).
      rewrite dot_vadd_l.
      2:{ unfold vscale. rewrite map_length, HW. symmetry. apply lin_weights_length.
          intros k' Hk'. apply (H k'). right. exact Hk'. }
      rewrite dot_vscale_l.
      assert (E : forall (a : Qc) l c m, dot (a :: l) (c :: m) = a * c + dot l m) by (intros; reflexivity).
      rewrite !E. rewrite IH by (intros; apply H; right; assumption).
      unfold class_score. rewrite HX. cbn [map qsum]. rewrite (dot_zeros_l (qV k)) by exact HV. ring.
Qed.

(* ------------------------------------------------------------------ non-vacuity *)
Lemma nonvacuous :
  lime_ok (Img 2 2 3) [half; half; half] (map qn (seq 0 12)) [0; 1; 1; 2]%nat /\ bs_ok (Some 2%nat) 5 /\
  num_features [0; 1; 1; 2]%nat = 3%nat /\
  design_injective 3 [[true; false; false]; [false; true; false]; [false; false; true]; [true; true; false]] /\
  (forall z, In z [[true; false; false]; [false; true; false]; [false; false; true]; [true; true; false]] ->
     coalition_ok 3 z = true) /\
  kshap_row 3 1 [half; two; - (1)] [1; 0; 2]%nat = [false; true; false] /\
  class_additive 2 (additive_class 1 [two; - (1)]).
Proof.
  split; [unfold lime_ok, kind_ok; repeat split; vm_compute; try reflexivity; lia|]. split; [vm_compute; lia|]. split; [reflexivity|]. split.
  - intros v v0 Hl H.
    destruct v as [|a [|b [|c [|d v]]]]; cbn [length] in Hl; try lia.
    pose proof (H [true; false; false] (or_introl eq_refl)) as H1.
    pose proof (H [false; true; false] (or_intror (or_introl eq_refl))) as H2.
    pose proof (H [false; false; true] (or_intror (or_intror (or_introl eq_refl)))) as H3.
    pose proof (H [true; true; false] (or_intror (or_intror (or_intror (or_introl eq_refl))))) as H4.
    unfold dot, vmul, zq in *. cbn [map map2 qsum b2q] in *.
    assert (Ea : a = 0) by (qc2q; lra). assert (Eb : b = 0) by (qc2q; lra).
    assert (Ec : c = 0) by (qc2q; lra). assert (E0 : v0 = 0) by (qc2q; lra).
    subst. split; reflexivity.
  - split; [intros z Hz; cbn in Hz; repeat (destruct Hz as [<-|Hz]; [reflexivity|]); destruct Hz|].
    split; [vm_compute; reflexivity|].
    repeat split. intros v Hv. cbn in Hv. destruct Hv as [<-|[<-|[]]]; reflexivity.
Qed.
