(* C07/Spec.v — the property's own words, no batching, no gather / repeat / tile plumbing:
   * the masked input of a binary sample z: a feature keeps its value when its segment is active in z and takes the
     reference value of its channel otherwise;
   * Lime fits (Z, [score (masked z)]_z, [kernel (x, masked z)]_z) and returns coef o mapping;
   * kernels: exp(-D^2 / width^2), D the Euclidean distance or the cosine distance 1 - cos;
   * KernelShap: coalitions with 1..F-1 active features, P(k) proportional to (F-1)/(k (F-k)); on additive scores the
     result is the Shapley value Delta_j = sum over the features p of segment j of w_p (x_p - ref_p), whose sum is
     score(x) - score(reference). *)
From Xpl Require Export C07.Model.
Close Scope Qc_scope. Open Scope nat_scope.

(* segment of flat feature p (row-major (position, channel)) *)
Definition seg_of (k : kind) (mapping : list nat) (p : nat) : nat := nth (p / kind_chan k) mapping 0.

Open Scope Qc_scope.

Definition ref_at (k : kind) (ref : list Qc) (p : nat) : Qc := nthq ref (p mod kind_chan k).

Definition spec_masked (k : kind) (ref x : list Qc) (mapping : list nat) (z : list bool) : list Qc :=
  map (fun p => if nth (seg_of k mapping p) z false then nthq x p else ref_at k ref p) (seq 0 (kind_size k)).

(* the reference input: every feature replaced *)
Definition ref_input (k : kind) (ref : list Qc) : list Qc := map (ref_at k ref) (seq 0 (kind_size k)).

Section LimeSpec.
Variable score : list Qc -> list Qc -> Qc.
Variable karg : list Qc -> list bool -> list Qc -> Qc.

Definition spec_queries k ref x mapping (Z : list (list bool)) : list (list Qc) :=
  map (spec_masked k ref x mapping) Z.
Definition spec_y k ref x (t : list Qc) mapping (Z : list (list bool)) : list Qc :=
  map (fun z => score (spec_masked k ref x mapping z) t) Z.
Definition spec_w k ref x mapping (Z : list (list bool)) : list Qc :=
  map (fun z => karg x z (spec_masked k ref x mapping z)) Z.
End LimeSpec.

(* kernels in the property's words *)
Definition sum_sq_diff (x m : list Qc) : Qc := qsum (map2 (fun a b => (a - b) * (a - b)) x m).
Definition spec_eucl_arg (width : Qc) (x m : list Qc) : Qc := - (sum_sq_diff x m) / (width * width).
(* nx, nm: the Euclidean norms of x and m *)
Definition spec_cos_arg (width nx nm : Qc) (x m : list Qc) : Qc :=
  - ((1 - dot x m / (nx * nm)) * (1 - dot x m / (nx * nm))) / (width * width).

(* ---------------------------------------------------------------- additive scores and Shapley values *)
(* score(x, t) = b(t) + <wv(t), x> on inputs of n features *)
Definition additive (n : nat) (score : list Qc -> list Qc -> Qc) (b : list Qc -> Qc) (wv : list Qc -> list Qc) : Prop :=
  forall x t, length x = n -> length (wv t) = n /\ score x t = b t + dot (wv t) x.

(* Delta_j = sum_{p in segment j} w_p (x_p - ref_p) *)
Definition delta (k : kind) (ref x wts : list Qc) (mapping : list nat) (j : nat) : Qc :=
  qsum (map (fun p => if Nat.eqb (seg_of k mapping p) j then nthq wts p * (nthq x p - ref_at k ref p) else 0)
            (seq 0 (kind_size k))).
Definition deltas (k : kind) (ref x wts : list Qc) (mapping : list nat) : list Qc :=
  map (delta k ref x wts mapping) (seq 0 (num_features mapping)).
(* the exact Shapley explanation, broadcast to the positions *)
Definition shapley_expl (k : kind) (ref x wts : list Qc) (mapping : list nat) : list Qc :=
  map (delta k ref x wts mapping) mapping.

(* linear part of the F-quad family under the predictions operator: sum_c t_c W_c *)
Fixpoint lin_weights (n : nat) (ks : list qclass) (t : list Qc) : list Qc :=
  match ks, t with
  | k :: ks', tc :: t' => vadd (vscale tc (qW k)) (lin_weights n ks' t')
  | _, _ => vzero n
  end.
Definition lin_bias (ks : list qclass) (t : list Qc) : Qc := dot (map qb ks) t.
Definition class_additive (n : nat) (k : qclass) : Prop :=
  length (qW k) = n /\ qX k = [] /\ forall v, In v (qV k) -> v = 0.

(* ---------------------------------------------------------------- least squares (LinearRegression, unit weights) *)
Definition zq (z : list bool) : list Qc := map b2q z.
Definition ls_pred (beta : list Qc) (b0 : Qc) (z : list bool) : Qc := dot (zq z) beta + b0.
Definition rss (Z : list (list bool)) (y : list Qc) (beta : list Qc) (b0 : Qc) : Qc :=
  qsum (map2 (fun z yn => (yn - ls_pred beta b0 z) * (yn - ls_pred beta b0 z)) Z y).
Definition ls_minimiser (F : nat) (Z : list (list bool)) (y beta : list Qc) (b0 : Qc) : Prop :=
  length beta = F /\ forall beta' b0', length beta' = F -> rss Z y beta b0 <= rss Z y beta' b0'.
(* [Z 1] has full column rank *)
Definition design_injective (F : nat) (Z : list (list bool)) : Prop :=
  forall v v0, length v = F -> (forall z, In z Z -> dot (zq z) v + v0 = 0) -> v = vzero F /\ v0 = 0.

(* normalised coalition-size distribution *)
Definition kshap_P (F k : nat) : Qc := nthq (kshap_probs F) k / qsum (kshap_probs F).

(* ---------------------------------------------------------------- well-formedness (what the API requires) *)
Definition kind_ok (k : kind) : Prop := (1 <= kind_chan k)%nat.
Definition lime_ok (k : kind) (ref x : list Qc) (mapping : list nat) : Prop :=
  kind_ok k /\ length ref = kind_chan k /\ length x = kind_size k /\ length mapping = kind_npos k.
Definition bs_ok (bs : option nat) (nb_samples : nat) : Prop :=
  match bs with Some b => (1 <= b)%nat | None => (1 <= nb_samples)%nat end.

(* the whole Lime computation for one input, in the property's words *)
Definition spec_trace (score : list Qc -> list Qc -> Qc) (karg : list Qc -> list bool -> list Qc -> Qc)
    (fit : list (list bool) -> list Qc -> list Qc -> list Qc)
    (k : kind) (ref x t : list Qc) (mapping : list nat) (Z : list (list bool)) : trace :=
  let y := spec_y score k ref x t mapping Z in
  let w := spec_w karg k ref x mapping Z in
  {| tr_queries := spec_queries k ref x mapping Z; tr_y := y; tr_w := w; tr_coef := fit Z y w;
     tr_expl := map (fun j => nthq (fit Z y w) j) mapping |}.

Definition is_sqrt_at (sqrtf : Qc -> Qc) (v : Qc) : Prop := sqrtf v * sqrtf v = v.
