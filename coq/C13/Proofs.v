(* C13/Proofs.v *)
From Xpl Require Import C13.Model.
From Coq Require Import Arith.
Close Scope Qc_scope. Open Scope nat_scope.

(* ================================================================== (2) lazy fields / accumulators *)
Section LazyProofs.
Variables (K V X O A : Type).
Variable default : K -> nat -> V.
Variable acc0 : A.
Variable compute : list V -> A -> X -> O * A.
Notation call := (call K V X O A default acc0 compute).
Notation after := (after K V X O A default acc0 compute).
Notation fill := (fill K V default).
Notation values := (values K V default).

Lemma fill_length k fs : length (fill k fs) = length fs.
Proof. unfold Model.fill. rewrite map_length, combine_length, seq_length. lia. Qed.

Lemma fill_as_map k fs n : 
  map (fun iv => match snd iv with Some v => Some v | None => Some (default k (fst iv)) end) (combine (seq n (length fs)) fs)
  = map (fun iv => Some (match snd iv with Some v => v | None => default k (fst iv) end)) (combine (seq n (length fs)) fs).
Proof. apply map_ext. intros [i [v|]]; reflexivity. Qed.

(* once filled with the values of kind k, the values read for ANY kind are those of kind k *)
Lemma values_fill_gen k k' fs n :
  map (fun iv => match snd iv with Some v => v | None => default k' (fst iv) end)
      (combine (seq n (length fs))
               (map (fun iv => match snd iv with Some v => Some v | None => Some (default k (fst iv)) end)
                    (combine (seq n (length fs)) fs)))
  = map (fun iv => match snd iv with Some v => v | None => default k (fst iv) end) (combine (seq n (length fs)) fs).
Proof.
  revert n; induction fs as [|f fs IH]; intro n; cbn [length seq combine map]; [reflexivity|].
  f_equal; [destruct f; reflexivity | apply IH].
Qed.

Lemma values_fill k k' fs : values (fill k fs) k' = values fs k.
Proof. unfold Model.values, Model.fill. rewrite map_length, combine_length, seq_length, Nat.min_id.
  apply values_fill_gen. Qed.

Lemma fill_fill_gen k k' fs n :
  map (fun iv => match snd iv with Some v => Some v | None => Some (default k' (fst iv)) end)
      (combine (seq n (length fs))
               (map (fun iv => match snd iv with Some v => Some v | None => Some (default k (fst iv)) end)
                    (combine (seq n (length fs)) fs)))
  = map (fun iv => match snd iv with Some v => Some v | None => Some (default k (fst iv)) end) (combine (seq n (length fs)) fs).
Proof.
  revert n; induction fs as [|f fs IH]; intro n; cbn [length seq combine map]; [reflexivity|].
  f_equal; [destruct f; reflexivity | apply IH].
Qed.
Lemma fill_fill k k' fs : fill k' (fill k fs) = fill k fs.
Proof. unfold Model.fill. rewrite map_length, combine_length, seq_length, Nat.min_id. apply fill_fill_gen. Qed.

Lemma call_fields o kx : fields V A (fst (call o kx)) = fill (fst kx) (fields V A o).
Proof. unfold Model.call. destruct (compute _ _ _). reflexivity. Qed.
Lemma call_out o kx : snd (call o kx) = fst (compute (values (fill (fst kx) (fields V A o)) (fst kx)) acc0 (snd kx)).
Proof. unfold Model.call. destruct (compute _ _ _). reflexivity. Qed.

Lemma after_fields o k h : (forall kx, In kx h -> fst kx = k) ->
  fields V A (after o h) = match h with [] => fields V A o | _ => fill k (fields V A o) end.
Proof.
  revert o; induction h as [|kx h IH]; intros o Hk; [reflexivity|].
  unfold Model.after in *. cbn [fold_left]. rewrite IH by (intros; apply Hk; right; assumption).
  rewrite call_fields. rewrite (Hk kx) by (left; reflexivity).
  destruct h; [reflexivity | apply fill_fill].
Qed.

(* the result of a call does not depend on the earlier calls made on the same object (same input kind) *)
Theorem history_independent o k h x : (forall kx, In kx h -> fst kx = k) ->
  snd (call (after o h) (k, x)) = snd (call o (k, x)).
Proof.
  intro Hk. rewrite !call_out. cbn [fst snd]. rewrite (after_fields o k h Hk).
  destruct h; [reflexivity | rewrite fill_fill; reflexivity].
Qed.

(* deterministic methods are idempotent: calling twice with the same arguments gives the same result *)
Corollary idempotent o k x : snd (call (fst (call o (k, x))) (k, x)) = snd (call o (k, x)).
Proof. apply (history_independent o k [(k, x)]). intros kx [<-|[]]. reflexivity. Qed.
End LazyProofs.

(* if the accumulators were initialised only at construction, the second call would see the first one's *)
Theorem noreset_refuted :
  exists (o : obj nat nat) (x : nat),
    let c := call_noreset unit nat nat nat nat (fun _ _ => 0) (fun _ a x => (a + x, a + x)) in
    snd (c (fst (c o (tt, x))) (tt, x)) <> snd (c o (tt, x)).
Proof. exists {| fields := []; acc := 0 |}, 1. cbn. discriminate. Qed.

(* ================================================================== (1) heap + cache *)
Lemma assoc_in {A} k (l : list (nat * A)) v : assoc k l = Some v -> In (k, v) l.
Proof. induction l as [|[a w] l IH]; cbn; [discriminate|]. destruct (Nat.eqb_spec a k); [intros [= ->]; left; congruence | auto]. Qed.
Lemma assoc_some {A} k (l : list (nat * A)) : In k (map fst l) -> exists v, assoc k l = Some v.
Proof. induction l as [|[a w] l IH]; cbn; [intros []|]. destruct (Nat.eqb_spec a k); [eauto|]. intros [H|H]; [congruence | auto]. Qed.
Lemma assoc_none {A} k (l : list (nat * A)) : ~ In k (map fst l) -> assoc k l = None.
Proof. induction l as [|[a w] l IH]; cbn; [reflexivity|]. intro H. destruct (Nat.eqb_spec a k); [exfalso; apply H; left; assumption | apply IH; tauto]. Qed.
Lemma assoc_in_fst {A} k (l : list (nat * A)) v : assoc k l = Some v -> In k (map fst l).
Proof. intro H. apply assoc_in in H. apply (in_map fst) in H. exact H. Qed.

(* filtering on the key only does not change what a kept key maps to *)
Lemma assoc_filter {A} (f : nat * A -> bool) k (l : list (nat * A)) :
  (forall v w, f (k, v) = f (k, w)) -> (forall v, assoc k l = Some v -> f (k, v) = true) ->
  assoc k (filter f l) = assoc k l.
Proof.
  intros Hkey. induction l as [|[a w] l IH]; intro H; cbn [filter assoc]; [reflexivity|].
  destruct (Nat.eqb_spec a k) as [->|Hne].
  - rewrite (H w) by (cbn; rewrite Nat.eqb_refl; reflexivity). cbn. rewrite Nat.eqb_refl. reflexivity.
  - destruct (f (a, w)); cbn [assoc].
    + destruct (Nat.eqb_spec a k); [congruence|]. apply IH. intros v Hv. apply H. cbn.
      destruct (Nat.eqb_spec a k); [congruence | exact Hv].
    + apply IH. intros v Hv. apply H. cbn. destruct (Nat.eqb_spec a k); [congruence | exact Hv].
Qed.

Lemma mem_in x l : mem x l = true <-> In x l.
Proof. unfold mem. rewrite existsb_exists. split; [intros [y [H E]]; apply Nat.eqb_eq in E; subst; exact H | intro H; exists x; split; [exact H | apply Nat.eqb_refl]]. Qed.

(* unique pids among live tensors: two live tensors with the same id() are the same object *)
Lemma pid_unique (ts : list (uid * pid)) a b p : NoDup (map snd ts) ->
  assoc a ts = Some p -> assoc b ts = Some p -> a = b.
Proof.
  intros N Ha Hb. apply assoc_in in Ha. apply assoc_in in Hb.
  induction ts as [|[u q] ts IH]; [destruct Ha|]. cbn [map snd] in N. inversion N as [|? ? Hnin N']; subst.
  destruct Ha as [Ha|Ha], Hb as [Hb|Hb].
  - congruence.
  - injection Ha as -> ->. exfalso. apply Hnin. apply (in_map snd) in Hb. exact Hb.
  - injection Hb as -> ->. exfalso. apply Hnin. apply (in_map snd) in Ha. exact Ha.
  - auto.
Qed.

Lemma cache_get_in c k m : cache_get c k = Some m -> In (k, m) c.
Proof.
  induction c as [|[k' m'] c IH]; cbn; [discriminate|].
  unfold key_eqb. destruct (Nat.eqb_spec (fst k') (fst k)), (Nat.eqb_spec (snd k') (snd k)); cbn; auto.
  intros [= ->]. left. destruct k', k; cbn in *; congruence.
Qed.

Record Inv (s : state) : Prop := {
  I_pids : NoDup (map snd (tensors s));
  I_tens_lt : forall t, In t (map fst (tensors s)) -> t < next s;
  I_mod_lt : forall m, In m (map fst (models s)) -> m < next s;
  I_mod_tens : forall m k, assoc m (models s) = Some k ->
                 In (fst k) (map fst (tensors s)) /\ In (snd k) (map fst (tensors s));
  I_cache : forall key cm, In (key, cm) (cache s) ->
              exists k, assoc cm (models s) = Some k /\ pid_of s (fst k) = Some (fst key) /\ pid_of s (snd k) = Some (snd key);
  I_expl : forall e m, In (e, m) (explainers s) -> exists k, assoc m (models s) = Some k
}.

Lemma inv_init : Inv init.
Proof. constructor; cbn; try (intros; contradiction); try constructor; intros; discriminate. Qed.

Lemma pid_free_spec s p : pid_free s p = true <-> ~ In p (map snd (tensors s)).
Proof. unfold pid_free. rewrite negb_true_iff. split.
  - intros H K. apply mem_in in K. congruence.
  - intro H. destruct (mem p (map snd (tensors s))) eqn:E; [apply mem_in in E; contradiction | reflexivity]. Qed.

(* ---------- the invariant is preserved by every operation ---------- *)
Lemma NoDup_map_filter {A B} (g : A -> B) (f : A -> bool) l : NoDup (map g l) -> NoDup (map g (filter f l)).
Proof.
  induction l as [|x l IH]; cbn [filter map]; intro N; [constructor|]. inversion N as [|? ? Hn N']; subst.
  destruct (f x); cbn [map]; [constructor; [|auto] | auto].
  intro K. apply Hn. apply in_map_iff in K as [y [E Hy]]. apply filter_In in Hy as [Hy _].
  apply in_map_iff. exists y; auto.
Qed.
Lemma in_map_filter {A B} (g : A -> B) (f : A -> bool) l y : In y (map g (filter f l)) -> In y (map g l).
Proof. intro K. apply in_map_iff in K as [x [E Hx]]. apply filter_In in Hx as [Hx _]. apply in_map_iff. eauto. Qed.

Lemma gc_inv s : Inv s -> Inv (gc s).
Proof.
  intros [Ip Itl Iml Imt Ic Ie].
  set (fm := fun k : uid * kmodel => reachable s (fst k)).
  set (ms := filter fm (models s)).
  set (held := flat_map (fun k : uid * kmodel => [fst (snd k); snd (snd k)]) ms).
  set (ft := fun t : uid * pid => mem (fst t) held).
  assert (Hm : forall m k, assoc m (models s) = Some k -> reachable s m = true -> assoc m ms = Some k).
  { intros m k Hk Hr. unfold ms. rewrite assoc_filter; [exact Hk | intros; reflexivity | intros; exact Hr]. }
  assert (Hms : forall m k, assoc m ms = Some k -> assoc m (models s) = Some k /\ reachable s m = true).
  { intros m k Hk. unfold ms in Hk.
    assert (In (m, k) (filter fm (models s))) by (apply assoc_in; exact Hk).
    apply filter_In in H as [_ Hr]. split; [|exact Hr].
    rewrite assoc_filter in Hk; [exact Hk | intros; reflexivity | intros; exact Hr]. }
  assert (Hheld : forall m k, assoc m ms = Some k -> In (fst k) held /\ In (snd k) held).
  { intros m k Hk. apply assoc_in in Hk. unfold held. split; apply in_flat_map; exists (m, k); cbn; auto. }
  assert (Ht : forall t, In t held -> assoc t (filter ft (tensors s)) = assoc t (tensors s)).
  { intros t Hh. apply assoc_filter; [intros; reflexivity | intros; unfold ft; cbn; apply mem_in; exact Hh]. }
  constructor; cbn [gc tensors models roots cache explainers next]; fold fm ms held ft.
  - apply NoDup_map_filter; exact Ip.
  - intros t K. apply Itl. eapply in_map_filter; exact K.
  - intros m K. apply Iml. eapply in_map_filter; exact K.
  - intros m k Hk. destruct (Hheld m k Hk) as [H1 H2]. destruct (Hms m k Hk) as [Hk' _].
    destruct (Imt m k Hk') as [T1 T2].
    destruct (assoc_some _ _ T1) as [p1 P1]. destruct (assoc_some _ _ T2) as [p2 P2].
    split; eapply assoc_in_fst; rewrite Ht by assumption; eassumption.
  - intros key cm Hin. destruct (Ic key cm Hin) as [k [Hk [P1 P2]]].
    assert (Hr : reachable s cm = true).
    { unfold reachable. apply orb_true_iff; left. apply orb_true_iff; right. apply mem_in.
      apply in_map_iff. exists (key, cm); auto. }
    exists k. split; [apply Hm; assumption|].
    destruct (Hheld cm k (Hm cm k Hk Hr)) as [H1 H2].
    unfold pid_of in *. cbn [tensors]. rewrite !Ht by assumption. auto.
  - intros e m Hin. destruct (Ie e m Hin) as [k Hk]. exists k. apply Hm; [exact Hk|].
    unfold reachable. apply orb_true_iff; right. apply mem_in. apply in_map_iff. exists (e, m); auto.
Qed.

Lemma assoc_cons_ne {A} k a (v : A) l : a <> k -> assoc k ((a, v) :: l) = assoc k l.
Proof. intro H. cbn. destruct (Nat.eqb_spec a k); [congruence | reflexivity]. Qed.

Lemma step_inv s o : Inv s -> Inv (step s o).
Proof.
  intro I. destruct o as [pin pout | m0 | m0 pout | m | e m]; cbn [step].
  - (* NewModel *)
    destruct (pid_free s pin && pid_free s pout && negb (pin =? pout)) eqn:G; [|exact I].
    apply andb_true_iff in G as [G G3]. apply andb_true_iff in G as [G1 G2].
    apply pid_free_spec in G1. apply pid_free_spec in G2. apply negb_true_iff in G3. apply Nat.eqb_neq in G3.
    destruct I as [Ip Itl Iml Imt Ic Ie].
    assert (Fresh_t : forall t, In t (map fst (tensors s)) -> t <> next s /\ t <> S (next s))
      by (intros t K; apply Itl in K; lia).
    constructor; cbn [tensors models roots cache explainers next map fst snd].
    + constructor; [intros [K|K]; [congruence | contradiction] | constructor; assumption].
    + intros t [<-|[<-|K]]; [lia | lia | apply Itl in K; lia].
    + intros m' [<-|K]; [lia | apply Iml in K; lia].
    + intros m' k Hk. cbn [assoc] in Hk. destruct (Nat.eqb_spec (S (S (next s))) m').
      * injection Hk as <-. cbn. auto.
      * destruct (Imt m' k Hk). split; right; right; assumption.
    + intros key cm Hin. destruct (Ic key cm Hin) as [k [Hk [P1 P2]]]. exists k.
      assert (cm <> S (S (next s))) by (apply assoc_in_fst in Hk; apply Iml in Hk; lia).
      split; [rewrite assoc_cons_ne by congruence; exact Hk|].
      unfold pid_of in *. cbn [tensors].
      destruct (Imt cm k Hk) as [T1 T2]. destruct (Fresh_t _ T1), (Fresh_t _ T2).
      rewrite !assoc_cons_ne by congruence. auto.
    + intros e m' Hin. destruct (Ie e m' Hin) as [k Hk]. exists k.
      assert (m' <> S (S (next s))) by (apply assoc_in_fst in Hk; apply Iml in Hk; lia).
      rewrite assoc_cons_ne by congruence. exact Hk.
  - (* ShareIO *)
    unfold find_model. destruct (assoc m0 (models s)) as [k0|] eqn:E; [|exact I].
    destruct I as [Ip Itl Iml Imt Ic Ie].
    constructor; cbn [tensors models roots cache explainers next map fst snd].
    + exact Ip.
    + intros t K. apply Itl in K. lia.
    + intros m' [<-|K]; [lia | apply Iml in K; lia].
    + intros m' k Hk. cbn [assoc] in Hk. destruct (Nat.eqb_spec (next s) m').
      * injection Hk as <-. apply (Imt m0 k0 E).
      * apply (Imt m' k Hk).
    + intros key cm Hin. destruct (Ic key cm Hin) as [k [Hk P]]. exists k.
      assert (cm <> next s) by (apply assoc_in_fst in Hk; apply Iml in Hk; lia).
      split; [rewrite assoc_cons_ne by congruence; exact Hk | exact P].
    + intros e m' Hin. destruct (Ie e m' Hin) as [k Hk]. exists k.
      assert (m' <> next s) by (apply assoc_in_fst in Hk; apply Iml in Hk; lia).
      rewrite assoc_cons_ne by congruence. exact Hk.
  - (* NewOutput *)
    unfold find_model. destruct (assoc m0 (models s)) as [k0|] eqn:E; [|exact I].
    destruct (pid_free s pout) eqn:G; [|exact I]. apply pid_free_spec in G.
    destruct I as [Ip Itl Iml Imt Ic Ie].
    assert (Fresh_t : forall t, In t (map fst (tensors s)) -> t <> next s) by (intros t K; apply Itl in K; lia).
    constructor; cbn [tensors models roots cache explainers next map fst snd].
    + constructor; assumption.
    + intros t [<-|K]; [lia | apply Itl in K; lia].
    + intros m' [<-|K]; [lia | apply Iml in K; lia].
    + intros m' k Hk. cbn [assoc] in Hk. destruct (Nat.eqb_spec (S (next s)) m').
      * injection Hk as <-. cbn [fst snd]. split; [right; apply (Imt m0 k0 E) | left; reflexivity].
      * destruct (Imt m' k Hk). split; right; assumption.
    + intros key cm Hin. destruct (Ic key cm Hin) as [k [Hk [P1 P2]]]. exists k.
      assert (cm <> S (next s)) by (apply assoc_in_fst in Hk; apply Iml in Hk; lia).
      split; [rewrite assoc_cons_ne by congruence; exact Hk|].
      unfold pid_of in *. cbn [tensors].
      destruct (Imt cm k Hk) as [T1 T2]. pose proof (Fresh_t _ T1). pose proof (Fresh_t _ T2).
      rewrite !assoc_cons_ne by congruence. auto.
    + intros e m' Hin. destruct (Ie e m' Hin) as [k Hk]. exists k.
      assert (m' <> S (next s)) by (apply assoc_in_fst in Hk; apply Iml in Hk; lia).
      rewrite assoc_cons_ne by congruence. exact Hk.
  - (* Discard *)
    apply gc_inv. destruct I as [Ip Itl Iml Imt Ic Ie]. constructor; cbn; auto.
  - (* NewExplainer *)
    unfold find_model. destruct (assoc m (models s)) as [k|] eqn:E; [|exact I].
    destruct (pid_of s (fst k)) as [pi|] eqn:P1; [|exact I].
    destruct (pid_of s (snd k)) as [po|] eqn:P2; [|exact I].
    destruct I as [Ip Itl Iml Imt Ic Ie].
    destruct (cache_get (cache s) (pi, po)) as [cm|] eqn:C.
    + constructor; cbn [tensors models roots cache explainers next]; auto.
      intros e' m' [K|K]; [|eauto]. injection K as <- <-.
      apply cache_get_in in C. destruct (Ic _ _ C) as [k' [Hk' _]]. eauto.
    + constructor; cbn [tensors models roots cache explainers next]; auto.
      * intros key cm [K|K]; [|auto]. injection K as <- <-. exists k. auto.
      * intros e' m' [K|K]; [|eauto]. injection K as <- <-. eauto.
Qed.

Lemma run_inv h : Inv (run h).
Proof.
  unfold run. induction h as [|o h IH] using rev_ind; [exact inv_init|].
  rewrite fold_left_app. cbn [fold_left]. apply step_inv. exact IH.
Qed.

(* ---------- the cache never substitutes a different function ---------- *)
Theorem cache_sound_step s e m k : Inv s -> find_model s m = Some k ->
  effective (step s (NewExplainer e m)) e = Some k.
Proof.
  intros I Hk. pose proof I as [Ip Itl Iml Imt Ic Ie].
  unfold find_model in Hk. cbn [step]. unfold find_model. rewrite Hk.
  destruct (Imt m k Hk) as [T1 T2].
  destruct (assoc_some _ _ T1) as [pi P1]. destruct (assoc_some _ _ T2) as [po P2].
  unfold pid_of at 1 2. rewrite P1, P2.
  destruct (cache_get (cache s) (pi, po)) as [cm|] eqn:C.
  - unfold effective, fn_of, find_model. cbn [explainers models assoc]. rewrite Nat.eqb_refl.
    apply cache_get_in in C. destruct (Ic _ _ C) as [k' [Hk' [Q1 Q2]]]. cbn [fst snd] in Q1, Q2.
    rewrite Hk'. f_equal. unfold pid_of in Q1, Q2.
    destruct k as [a b], k' as [a' b']. cbn [fst snd] in *.
    rewrite (pid_unique (tensors s) a' a pi Ip Q1 P1), (pid_unique (tensors s) b' b po Ip Q2 P2). reflexivity.
  - unfold effective, fn_of, find_model. cbn [explainers models assoc]. rewrite Nat.eqb_refl. exact Hk.
Qed.

(* for every history: a new explainer explains the function of the model it was given *)
Theorem cache_sound h e m k : find_model (run h) m = Some k ->
  effective (run (h ++ [NewExplainer e m])) e = Some k.
Proof.
  intro Hk. unfold run. rewrite fold_left_app. cbn [fold_left]. apply cache_sound_step; [apply run_inv | exact Hk].
Qed.

(* ... and keeps explaining it whatever happens later: models created, shared, discarded and collected,
   other explainers created for the same or other models *)
Theorem explainer_stable s o e f : Inv s -> effective s e = Some f ->
  (forall m, o <> NewExplainer e m) -> effective (step s o) e = Some f.
Proof.
  intros I He Hne. pose proof I as [Ip Itl Iml Imt Ic Ie].
  unfold effective in *. destruct (assoc e (explainers s)) as [mh|] eqn:E; [|discriminate].
  unfold fn_of, find_model in *.
  assert (Hlt : mh < next s) by (apply Iml; eapply assoc_in_fst; exact He).
  destruct o as [pin pout | m0 | m0 pout | m | e' m]; cbn [step].
  - destruct (pid_free s pin && pid_free s pout && negb (pin =? pout)); cbn [explainers models]; rewrite E; [|exact He].
    rewrite assoc_cons_ne by lia. exact He.
  - unfold find_model. destruct (assoc m0 (models s)); cbn [explainers models]; rewrite E; [|exact He].
    rewrite assoc_cons_ne by lia. exact He.
  - unfold find_model. destruct (assoc m0 (models s)); [|rewrite E; exact He].
    destruct (pid_free s pout); cbn [explainers models]; rewrite E; [|exact He].
    rewrite assoc_cons_ne by lia. exact He.
  - cbn [gc explainers models roots cache tensors next]. rewrite E.
    rewrite assoc_filter; [exact He | intros; reflexivity|].
    intros v _. cbn [fst]. unfold reachable. cbn [roots cache explainers]. apply orb_true_iff; right.
    apply mem_in. apply in_map_iff. exists (e, mh). split; [reflexivity | apply assoc_in; exact E].
  - unfold find_model. destruct (assoc m (models s)) as [k|]; [|rewrite E; exact He].
    destruct (pid_of s (fst k)); [|rewrite E; exact He]. destruct (pid_of s (snd k)); [|rewrite E; exact He].
    assert (e' <> e) by (intro K; subst; eapply Hne; reflexivity).
    destruct (cache_get (cache s) (p, p0)); cbn [explainers models]; rewrite assoc_cons_ne by assumption; rewrite E; exact He.
Qed.

(* why the strong reference matters: with a cache that does not keep the model alive, a discarded model's
   id() can be reused by a different model, and the stale entry is then returned for it — a history on which a
   weak cache would hand the new explainer a freed object.  (The real cache holds the model, so this history
   cannot reuse the ids: [step] refuses the NewModel, i.e. Python cannot produce it.) *)
Example ids_cannot_be_reused_while_cached :
  let h := [NewModel 10 11; NewExplainer 0 2; Discard 2; NewModel 10 11] in
  map fst (models (run h)) = [2] /\ effective (run (h ++ [NewExplainer 1 2])) 1 = Some (0, 1).
Proof. vm_compute. split; reflexivity. Qed.
