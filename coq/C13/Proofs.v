(* C13/Proofs.v *)
From Xpl Require Import C13.Model.
From Coq Require Import Arith.
Close Scope Qc_scope. Open Scope nat_scope.

(* ================================================================== (2) lazy fields / accumulators *)
Section LazyProofs.
Variables (K V X O A : Type).
Variable default : K -> nat -> V.
Variable acc0 : A.
Variable compute : list V -> A -> X -> O * A.
Notation call := (call K V X O A default acc0 compute).
Notation after := (after K V X O A default acc0 compute).
Notation fill := (fill K V default).
Notation values := (values K V default).

Lemma fill_length k fs : length (fill k fs) = length fs.
Proof. unfold Model.fill. rewrite map_length, combine_length, seq_length. lia. Qed.

Lemma fill_as_map k fs n : 
  map (fun iv => match snd iv with Some v => Some v | None => Some (default k (fst iv)) end) (combine (seq n (length fs)) fs)
  = map (fun iv => Some (match snd iv with Some v => v | None => default k (fst iv) end)) (combine (seq n (length fs)) fs).
Proof. apply map_ext. intros [i [v|]]; reflexivity. Qed.

(* once filled with the values of kind k, the values read for ANY kind are those of kind k *)
Lemma values_fill_gen k k' fs n :
  map (fun iv => match snd iv with Some v => v | None => default k' (fst iv) end)
      (combine (seq n (length fs))
               (map (fun iv => match snd iv with Some v => Some v | None => Some (default k (fst iv)) end)
                    (combine (seq n (length fs)) fs)))
  = map (fun iv => match snd iv with Some v => v | None => default k (fst iv) end) (combine (seq n (length fs)) fs).
Proof.
  revert n; induction fs as [|f fs IH]; intro n; cbn [length seq combine map]; [reflexivity|].
  f_equal; [destruct f; reflexivity | apply IH].
Qed.

Lemma values_fill k k' fs : values (fill k fs) k' = values fs k.
Proof. unfold Model.values, Model.fill. rewrite map_length, combine_length, seq_length, Nat.min_id.
  apply values_fill_gen. Qed.

Lemma fill_fill_gen k k' fs n :
  map (fun iv => match snd iv with Some v => Some v | None => Some (default k' (fst iv)) end)
      (combine (seq n (length fs))
               (map (fun iv => match snd iv with Some v => Some v | None => Some (default k (fst iv)) end)
                    (combine (seq n (length fs)) fs)))
  = map (fun iv => match snd iv with Some v => Some v | None => Some (default k (fst iv)) end) (combine (seq n (length fs)) fs).
Proof.
  revert n; induction fs as [|f fs IH]; intro n; cbn [length seq combine map]; [reflexivity|].
  f_equal; [destruct f; reflexivity | apply IH].
Qed.
Lemma fill_fill k k' fs : fill k' (fill k fs) = fill k fs.
Proof. unfold Model.fill. rewrite map_length, combine_length, seq_length, Nat.min_id. apply fill_fill_gen. Qed.

Lemma call_fields o kx : fields V A (fst (call o kx)) = fill (fst kx) (fields V A o).
Proof. unfold Model.call. destruct (compute _ _ _). reflexivity. Qed.
Lemma call_out o kx : snd (call o kx) = fst (compute (values (fill (fst kx) (fields V A o)) (fst kx)) acc0 (snd kx)).
Proof. unfold Model.call. destruct (compute _ _ _). reflexivity. Qed.

Lemma after_fields o k h : (forall kx, In kx h -> fst kx = k) ->
  fields V A (after o h) = match h with [] => fields V A o | _ => fill k (fields V A o) end.
Proof.
  revert o; induction h as [|kx h IH]; intros o Hk; [reflexivity|].
  unfold Model.after in *. cbn [fold_left]. rewrite IH by (intros; apply Hk; right; assumption).
  rewrite call_fields. rewrite (Hk kx) by (left; reflexivity).
  destruct h; [reflexivity | apply fill_fill].
Qed.

(* the result of a call does not depend on the earlier calls made on the same object (same input kind) *)
Theorem history_independent o k h x : (forall kx, In kx h -> fst kx = k) ->
  snd (call (after o h) (k, x)) = snd (call o (k, x)).
Proof.
  intro Hk. rewrite !call_out. cbn [fst snd]. rewrite (after_fields o k h Hk).
  destruct h; [reflexivity | rewrite fill_fill; reflexivity].
Qed.

(* deterministic methods are idempotent: calling twice with the same arguments gives the same result *)
Corollary idempotent o k x : snd (call (fst (call o (k, x))) (k, x)) = snd (call o (k, x)).
Proof. apply (history_independent o k [(k, x)]). intros kx [<-|[]]. reflexivity. Qed.
End LazyProofs.

(* if the accumulators were initialised only at construction, the second call would see the first one's *)
Theorem noreset_refuted :
  exists (o : obj nat nat) (x : nat),
    let c := call_noreset unit nat nat nat nat (fun _ _ => 0) (fun _ a x => (a + x, a + x)) in
    snd (c (fst (c o (tt, x))) (tt, x)) <> snd (c o (tt, x)).
Proof. exists {| fields := []; acc := 0 |}, 1. cbn. discriminate. Qed.

(* ================================================================== (1) heap + cache *)
Lemma assoc_in {A} k (l : list (nat * A)) v : assoc k l = Some v -> In (k, v) l.
Proof. induction l as [|[a w] l IH]; cbn; [discriminate|]. destruct (Nat.eqb_spec a k); [intros [= ->]; left; congruence | auto]. Qed.
Lemma assoc_some {A} k (l : list (nat * A)) : In k (map fst l) -> exists v, assoc k l = Some v.
Proof. induction l as [|[a w] l IH]; cbn; [intros []|]. destruct (Nat.eqb_spec a k); [eauto|]. intros [H|H]; [congruence | auto]. Qed.
Lemma assoc_none {A} k (l : list (nat * A)) : ~ In k (map fst l) -> assoc k l = None.
Proof. induction l as [|[a w] l IH]; cbn; [reflexivity|]. intro H. destruct (Nat.eqb_spec a k); [exfalso; apply H; left; assumption | apply IH; tauto]. Qed.
Lemma assoc_in_fst {A} k (l : list (nat * A)) v : assoc k l = Some v -> In k (map fst l).
Proof. intro H. apply assoc_in in H. apply (in_map fst) in H. exact H. Qed.

(* filtering on the key only does not change what a kept key maps to *)
Lemma assoc_filter {A} (f : nat * A -> bool) k (l : list (nat * A)) :
  (forall v w, f (k, v) = f (k, w)) -> (forall v, assoc k l = Some v -> f (k, v) = true) ->
  assoc k (filter f l) = assoc k l.
Proof.
  intros Hkey. induction l as [|[a w] l IH]; intro H; cbn [filter assoc]; [reflexivity|].
  destruct (Nat.eqb_spec a k) as [->|Hne].
  - rewrite (H w) by (cbn; rewrite Nat.eqb_refl; reflexivity). cbn. rewrite Nat.eqb_refl. reflexivity.
  - destruct (f (a, w)); cbn [assoc].
    + destruct (Nat.eqb_spec a k); [congruence|]. apply IH. intros v Hv. apply H. cbn.
      destruct (Nat.eqb_spec a k); [congruence | exact Hv].
    + apply IH. intros v Hv. apply H. cbn. destruct (Nat.eqb_spec a k); [congruence | exact Hv].
Qed.

Lemma mem_in x l : mem x l = true <-> In x l.
Proof. unfold mem. rewrite existsb_exists. split; [intros [y [H E]]; apply Nat.eqb_eq in E; subst; exact H | intro H; exists x; split; [exact H | apply Nat.eqb_refl]]. Qed.

(* unique pids among live tensors: two live tensors with the same id() are the same object *)
Lemma pid_unique (ts : list (uid * pid)) a b p : NoDup (map snd ts) ->
  assoc a ts = Some p -> assoc b ts = Some p -> a = b.
Proof.
  intros N Ha Hb. apply assoc_in in Ha. apply assoc_in in Hb.
  induction ts as [|[u q] ts IH]; [destruct Ha|]. cbn [map snd] in N. inversion N as [|? ? Hnin N']; subst.
  destruct Ha as [Ha|Ha], Hb as [Hb|Hb].
  - congruence.
  - injection Ha as -> ->. exfalso. apply Hnin. apply (in_map snd) in Hb. exact Hb.
  - injection Hb as -> ->. exfalso. apply Hnin. apply (in_map snd) in Ha. exact Ha.
  - auto.
Qed.

Lemma cache_get_in c k m : cache_get c k = Some m -> In (k, m) c.
Proof.
  induction c as [|[k' m'] c IH]; cbn; [discriminate|].
  unfold key_eqb. destruct (Nat.eqb_spec (fst k') (fst k)), (Nat.eqb_spec (snd k') (snd k)); cbn; auto.
  intros [= ->]. left. destruct k', k; cbn in *; congruence.
Qed.

Record Inv (s : state) : Prop := {
  I_pids : NoDup (map snd (tensors s));
  I_tens_lt : forall t, In t (map fst (tensors s)) -> t < next s;
  I_mod_lt : forall m, In m (map fst (models s)) -> m < next s;
  I_mod_tens : forall m k, assoc m (models s) = Some k ->
                 In (fst k) (map fst (tensors s)) /\ In (snd k) (map fst (tensors s));
  I_cache : forall key cm, In (key, cm) (cache s) ->
              exists k, assoc cm (models s) = Some k /\ pid_of s (fst k) = Some (fst key) /\ pid_of s (snd k) = Some (snd key);
  I_expl : forall e m, In (e, m) (explainers s) -> exists k, assoc m (models s) = Some k
}.

Lemma inv_init : Inv init.
Proof. constructor; cbn; try (intros; contradiction); try constructor; intros; discriminate. Qed.

Lemma pid_free_spec s p : pid_free s p = true <-> ~ In p (map snd (tensors s)).
Proof. unfold pid_free. rewrite negb_true_iff. split.
  - intros H K. apply mem_in in K. congruence.
  - intro H. destruct (mem p (map snd (tensors s))) eqn:E; [apply mem_in in E; contradiction | reflexivity]. Qed.
