(* C13/Model.v — state that survives between calls.

   (1) The class-level cache of attributions/base.py:
         _cache_models: Dict[Tuple[int, int], tf.keras.Model] = {}
         model_key = (id(model.input), id(model.output))
         if model_key not in _cache_models: _cache_models[model_key] = model
         self.model = _cache_models[model_key]
       A heap model of the Python objects involved: tensor and model OBJECTS have a unique identity (uid);
       what Python's id() returns (pid) is only unique among LIVE objects and may be reused after an object is
       freed.  An object is freed when nothing reaches it; the cache and the explainers keep models alive, a
       model keeps its input and output tensors alive.  The function a functional Keras model computes is
       determined by its (input tensor, output tensor) objects (the graph between them).

   (2) Lazily set attributes and per-call accumulators of explainer / metric objects (Occlusion.patch_size,
       Lime.ref_value / map_to_interpret_space, GradientStatistic online accumulators, ...), as a generic machine:
       a list of optional fields, filled on use with a value determined by the input kind, and accumulators
       reset at the start of every call.
   No proofs here. *)
From Xpl Require Export Base.Tensor.
Close Scope Qc_scope. Open Scope nat_scope.

(* ------------------------------------------------------------------ (1) heap + cache *)
Definition uid := nat.     (* object identity: never reused *)
Definition pid := nat.     (* Python id(): reusable once the object is freed *)

Definition kmodel := (uid * uid)%type.      (* a model object's (input tensor uid, output tensor uid) *)
Record state := {
  tensors : list (uid * pid);               (* live tensor objects *)
  models : list (uid * kmodel);             (* live model objects: uid -> (input tensor, output tensor) *)
  roots : list uid;                         (* models the user's program still references *)
  cache : list ((pid * pid) * uid);         (* BlackBoxExplainer._cache_models : key -> model *)
  explainers : list (nat * uid);            (* explainer name -> the model it holds (self.model) *)
  next : uid                                (* fresh uid supply *)
}.
Definition init : state :=
  {| tensors := []; models := []; roots := []; cache := []; explainers := []; next := 0 |}.

Inductive op :=
| NewModel (pin pout : pid)          (* m = tf.keras.Model(...) on fresh tensors whose id() are pin, pout *)
| ShareIO (m : uid)                  (* m2 = tf.keras.Model(m.input, m.output): new model object, same tensors *)
| NewOutput (m : uid) (pout : pid)   (* m2 = tf.keras.Model(m.input, other_layer.output): same input tensor, another output
                                        tensor (what output_layer= and Grad-CAM build) *)
| Discard (m : uid)                  (* del m; gc.collect() *)
| NewExplainer (e : nat) (m : uid).  (* e = Explainer(m, ...) *)

Fixpoint assoc {A} (k : nat) (l : list (nat * A)) : option A :=
  match l with [] => None | (a, v) :: r => if Nat.eqb a k then Some v else assoc k r end.
Definition pid_of (s : state) (t : uid) : option pid := assoc t (tensors s).
Definition find_model (s : state) (m : uid) : option kmodel := assoc m (models s).
Definition key_eqb (a b : pid * pid) : bool := Nat.eqb (fst a) (fst b) && Nat.eqb (snd a) (snd b).
Fixpoint cache_get (c : list ((pid * pid) * uid)) (k : pid * pid) : option uid :=
  match c with [] => None | (k', m) :: r => if key_eqb k' k then Some m else cache_get r k end.

Definition mem (x : nat) (l : list nat) : bool := existsb (Nat.eqb x) l.
(* garbage collection: keep the models reachable from user roots, the cache or an explainer; then the tensors
   held by a kept model *)
Definition reachable (s : state) (m : uid) : bool :=
  mem m (roots s) || mem m (map snd (cache s)) || mem m (map snd (explainers s)).
Definition gc (s : state) : state :=
  let ms := filter (fun k => reachable s (fst k)) (models s) in
  let held := flat_map (fun k => [fst (snd k); snd (snd k)]) ms in
  {| tensors := filter (fun t => mem (fst t) held) (tensors s); models := ms; roots := roots s;
     cache := cache s; explainers := explainers s; next := next s |}.

Definition pid_free (s : state) (p : pid) : bool := negb (mem p (map snd (tensors s))).

Definition step (s : state) (o : op) : state :=
  match o with
  | NewModel pin pout =>
      if pid_free s pin && pid_free s pout && negb (Nat.eqb pin pout) then
        let t1 := next s in let t2 := S (next s) in let m := S (S (next s)) in
        {| tensors := (t1, pin) :: (t2, pout) :: tensors s;
           models := (m, (t1, t2)) :: models s;
           roots := m :: roots s; cache := cache s; explainers := explainers s; next := S (S (S (next s))) |}
      else s                                     (* impossible in Python: id() of a new object is not a live id *)
  | ShareIO m0 =>
      match find_model s m0 with
      | Some k => let m := next s in
          {| tensors := tensors s; models := (m, k) :: models s;
             roots := m :: roots s; cache := cache s; explainers := explainers s; next := S (next s) |}
      | None => s
      end
  | NewOutput m0 pout =>
      match find_model s m0 with
      | Some k =>
          if pid_free s pout then
            let t2 := next s in let m := S (next s) in
            {| tensors := (t2, pout) :: tensors s; models := (m, (fst k, t2)) :: models s;
               roots := m :: roots s; cache := cache s; explainers := explainers s; next := S (S (next s)) |}
          else s
      | None => s
      end
  | Discard m =>
      gc {| tensors := tensors s; models := models s; roots := filter (fun r => negb (Nat.eqb r m)) (roots s);
            cache := cache s; explainers := explainers s; next := next s |}
  | NewExplainer e m =>
      match find_model s m with
      | Some k =>
          match pid_of s (fst k), pid_of s (snd k) with
          | Some pi, Some po =>
              match cache_get (cache s) (pi, po) with
              | Some cm => {| tensors := tensors s; models := models s; roots := roots s; cache := cache s;
                              explainers := (e, cm) :: explainers s; next := next s |}
              | None => {| tensors := tensors s; models := models s; roots := roots s;
                           cache := ((pi, po), m) :: cache s;
                           explainers := (e, m) :: explainers s; next := next s |}
              end
          | _, _ => s
          end
      | None => s
      end
  end.
Definition run (h : list op) : state := fold_left step h init.

(* the function a model computes, identified by its tensor objects *)
Definition fn_of (s : state) (m : uid) : option (uid * uid) := find_model s m.
(* the function explainer e explains *)
Definition effective (s : state) (e : nat) : option (uid * uid) :=
  match assoc e (explainers s) with Some m => fn_of s m | None => None end.

(* a cache that does NOT keep the model alive (e.g. keyed by id with a weak reference): only used to show why
   the strong reference matters *)
Definition reachable_weak (s : state) (m : uid) : bool := mem m (roots s) || mem m (map snd (explainers s)).

(* ------------------------------------------------------------------ (2) lazy fields and accumulators *)
Section Lazy.
Variables (K V X O A : Type).                 (* input kind, field value, call arguments (+ draws), output, accumulator *)
Variable default : K -> nat -> V.            (* kind-determined value of field number i (patch tuple, ref_value ...) *)
Variable acc0 : A.                           (* accumulators as (re-)initialised at the start of a call *)
Variable compute : list V -> A -> X -> O * A.  (* the call's result from the filled fields, fresh accumulators, args *)

Record obj := { fields : list (option V); acc : A }.
Definition fill (k : K) (fs : list (option V)) : list (option V) :=
  map (fun iv => match snd iv with Some v => Some v | None => Some (default k (fst iv)) end)
      (combine (seq 0 (length fs)) fs).
Definition values (fs : list (option V)) (k : K) : list V :=
  map (fun iv => match snd iv with Some v => v | None => default k (fst iv) end) (combine (seq 0 (length fs)) fs).
(* one explain / evaluate call on inputs of kind k *)
Definition call (o : obj) (kx : K * X) : obj * O :=
  let fs := fill (fst kx) (fields o) in
  let (out, a) := compute (values fs (fst kx)) acc0 (snd kx) in     (* accumulators reset before use *)
  ({| fields := fs; acc := a |}, out).
(* the variant that forgets to reset (accumulators initialised only in __init__) *)
Definition call_noreset (o : obj) (kx : K * X) : obj * O :=
  let fs := fill (fst kx) (fields o) in
  let (out, a) := compute (values fs (fst kx)) (acc o) (snd kx) in
  ({| fields := fs; acc := a |}, out).
Definition after (o : obj) (h : list (K * X)) : obj := fold_left (fun s kx => fst (call s kx)) h o.
End Lazy.
