(* C15/Model.v — executable transcription of xplique/metrics/fidelity.py (MuFidelity) and
   xplique/metrics/stability.py (AverageStability).  No proofs in this file.

   metrics/fidelity.py  MuFidelity.__init__:
        self.batch_size = self.batch_size or (len(self.inputs) * self.nb_samples)
        self.perturbation_batch_size = min(self.batch_size, self.nb_samples)
        self.inputs_batch_size = max(1, self.batch_size // self.perturbation_batch_size)
        self.base_predictions = self.batch_inference_function(self.model, self.inputs, self.targets, self.batch_size)
        self.base_predictions = tf.expand_dims(self.base_predictions, axis=1)
   MuFidelity.evaluate(explanations):
        correlations = []
        for inp, label, phi, base in batch_tensor((inputs, targets, explanations, base_predictions), inputs_batch_size):
            if len(inp.shape) > len(phi.shape): phi = tf.expand_dims(phi, axis=-1)
            phi = tf.expand_dims(phi, axis=1)
            total_perturbed_samples = 0 ; preds, attrs = None, None
            while total_perturbed_samples < self.nb_samples:
                nb_perturbations = min(self.perturbation_batch_size, self.nb_samples - total_perturbed_samples)
                total_perturbed_samples += nb_perturbations
                degraded_inputs, subset_masks = self._perturb_samples(inp, nb_perturbations)
                repeated_label = tf.repeat(label, nb_perturbations, 0)
                perturbed_predictions = self.batch_inference_function(self.model, degraded_inputs, repeated_label, self.batch_size)
                perturbed_predictions = tf.reshape(perturbed_predictions, (inp.shape[0], nb_perturbations))
                pred = base - perturbed_predictions
                preds = pred if preds is None else tf.concat([preds, pred], axis=1)
                attr = tf.reduce_sum(phi * (1.0 - subset_masks), axis=list(range(2, len(subset_masks.shape))))
                attrs = attr if attrs is None else tf.concat([attrs, attr], axis=1)
            for pred, attr in zip(preds, attrs):
                corr_score = spearmanr(pred, attr)[0]
                if np.isnan(corr_score): corr_score = 0.0
                batch_correlations.append(corr_score)
            correlations += batch_correlations
        return float(np.mean(correlations))
   MuFidelity._perturb_samples(inputs, nb_perturbations):
        perturbed_inputs = tf.repeat(inputs[:, tf.newaxis], repeats=nb_perturbations, axis=1)      (n, k, ...)
        subset_masks = <random 0/1 masks (k, ...spatial..., [1]), nearest-resized>                  library RNG / resize
        subset_masks = tf.repeat(subset_masks[tf.newaxis], repeats=perturbed_inputs.shape[0], axis=0)
        baseline = self.baseline_mode(perturbed_inputs) if isfunction(self.baseline_mode) else self.baseline_mode
        perturbed_inputs = perturbed_inputs * subset_masks + (1.0 - subset_masks) * baseline
        perturbed_inputs = tf.reshape(perturbed_inputs, (-1, *self.inputs.shape[1:]))
        return perturbed_inputs, subset_masks

   metrics/stability.py  AverageStability.__init__:
        'l1': lambda x, y: tf.reduce_sum(tf.abs(x - y)) ; 'l2': lambda x, y: tf.sqrt(tf.reduce_sum((x - y)**2.0)) ; callable kept
        self.noisy_masks = tf.random.uniform((nb_samples, *self.inputs.shape[1:]), 0, self.radius)
   AverageStability.evaluate(explainer, base_explanations=None):
        if base_explanations is None: base_explanations = np.array(explainer(self.inputs, self.targets))
        distances = []
        for inp, label, phi in zip(self.inputs, self.targets, base_explanations):
            label = tf.repeat(label[None, :], self.nb_samples, 0)
            neighbors = inp + self.noisy_masks
            phis_neighbors = np.array(explainer(neighbors, label))
            avg_dist = np.mean([self.distance(phi_n, phi) for phi_n in phis_neighbors])
            distances.append(avg_dist)
        return float(np.mean(distances))

   Library behaviour = arguments:
     [score : sample -> target -> Qc]  the explained score of ONE sample (operator applied row-wise);
     the random 0/1 subset masks (after the nearest-neighbour resize) are the field [rm] of each row: for every
        input the list of the nb_samples masks applied to it, in the order they are consumed, one value per
        position (pixel) — the channel axis of size 1 of the code broadcasts, here [rep c];
     scipy.stats.spearmanr = Pearson correlation of the average ranks; the final division by a square root is the
        argument [sqrt] — everything before it is the root-free triple (cov, var_a, var_b);
     the explainer of AverageStability is a batch function [expl : inputs -> targets -> explanations];
     the noisy masks are arguments.  Samples are flat row-major lists. *)
From Xpl Require Export Base.ListX Base.Families.
Close Scope Qc_scope. Open Scope nat_scope.

Definition sample := list Qc.

(* ------------------------------------------------------------------------------------------------
   scipy.stats.rankdata(method='average') and scipy.stats.spearmanr(a, b)[0]
   ------------------------------------------------------------------------------------------------ *)
Definition count_lt (v : list Qc) (x : Qc) : nat := length (filter (fun y => Qcltb y x) v).
Definition count_eq (v : list Qc) (x : Qc) : nat := length (filter (fun y => Qceqb y x) v).

Open Scope Qc_scope.

(* average rank of x in v: tied values share the mean of the ranks they occupy *)
Definition rank (v : list Qc) (x : Qc) : Qc := qn (count_lt v x) + (qn (count_eq v x) + 1) / two.
Definition ranks (v : list Qc) : list Qc := map (rank v) v.

Definition centered (a : list Qc) : list Qc := let m := qmean a in map (fun x => x - m) a.
(* np.corrcoef before the final normalisation: (sum (a-ma)(b-mb), sum (a-ma)^2, sum (b-mb)^2) — the common
   factor 1/(n-1) of the three entries cancels in the correlation and is left out *)
Definition triple := (Qc * Qc * Qc)%type.
Definition t_cov (t : triple) : Qc := fst (fst t).
Definition t_va (t : triple) : Qc := snd (fst t).
Definition t_vb (t : triple) : Qc := snd t.
Definition pearson3 (a b : list Qc) : triple :=
  let ca := centered a in let cb := centered b in (dot ca cb, dot ca ca, dot cb cb).
Definition spearman3 (a b : list Qc) : triple := pearson3 (ranks a) (ranks b).

(* corr_score = spearmanr(...)[0]; if np.isnan(corr_score): corr_score = 0.0
   (SciPy returns nan exactly when one of the two rank vectors is constant, i.e. a variance is 0) *)
Definition corr_nan0 (sqrt : Qc -> Qc) (t : triple) : Qc :=
  if Qceqb (t_va t * t_vb t) 0 then 0 else t_cov t / sqrt (t_va t * t_vb t).

(* ------------------------------------------------------------------------------------------------
   MuFidelity
   ------------------------------------------------------------------------------------------------ *)
(* baseline_mode: a float, or a function applied to the repeated inputs (row-wise: one baseline per input) *)
Inductive bmode := BConst (v : Qc) | BFun (f : sample -> sample).
Definition baseline_of (bm : bmode) (x : sample) : sample :=
  match bm with BConst v => repeat v (length x) | BFun f => f x end.

(* one row of the input batches: input, target, explanation, the nb_samples masks drawn for this input *)
Record row := { rx : sample; rt : sample; rphi : sample; rm : list sample }.
Definition mk_rows (xs ts phis : list sample) (masks : list (list sample)) : list row :=
  map (fun p => {| rx := fst (fst (fst p)); rt := snd (fst (fst p)); rphi := snd (fst p); rm := snd p |})
      (combine (combine (combine xs ts) phis) masks).

Section MuFidelity.
Variable score : sample -> sample -> Qc.
Variable bm : bmode.
(* c = size of the trailing axis of the inputs that shares one mask value (channels; 1 for tabular data and time
   series); cphi = the same for the explanations (1 when they have no channel axis or a channel axis of size 1) *)
Variables c cphi : nat.

(* perturbed_inputs * subset_masks + (1.0 - subset_masks) * baseline *)
Definition degrade (x m : sample) : sample :=
  map2 (fun xb mk => fst xb * mk + (1 - mk) * snd xb) (combine x (baseline_of bm x)) (rep c m).
(* tf.reduce_sum(phi * (1.0 - subset_masks), axis=2..) *)
Definition attr_of (phi m : sample) : Qc := qsum (map2 (fun p mk => p * (1 - mk)) phi (rep cphi m)).

(* batch_inference_function(model, inputs, targets, batch_size) with batch_size an int *)
Definition batched_score (B : nat) (xs ts : list sample) : list Qc :=
  concat (map (map (fun xt => score (fst xt) (snd xt))) (chunks B (combine xs ts))).

(* the while loop over perturbations for one batch [ch] of (row, base prediction);
   [fuel] bounds the number of passes (nb_samples passes always suffice: every pass consumes >= 1).
   preds / attrs = None is the list of empty rows. *)
Fixpoint pert_loop (nb B pb fuel total : nat) (ch : list (row * Qc)) (preds attrs : list (list Qc))
  : list (list Qc) * list (list Qc) :=
  match fuel with
  | O => (preds, attrs)
  | S f =>
      if (total <? nb)%nat then
        let k := Nat.min pb (nb - total) in
        (* the k masks of this pass, per input (the code draws one set per pass and repeats it over the batch;
           here every input carries the masks that were applied to it) *)
        let sub := map (fun rb => firstn k (skipn total (rm (fst rb)))) ch in
        (* (n, k, ...) reshaped to (n*k, ...): input-major *)
        let degraded := concat (map2 (fun rb ms => map (degrade (rx (fst rb))) ms) ch sub) in
        let repeated_label := rep k (map (fun rb => rt (fst rb)) ch) in
        let perturbed_predictions := chunks k (batched_score B degraded repeated_label) in
        let pred := map2 (fun rb ps => map (fun p => snd rb - p) ps) ch perturbed_predictions in
        let attr := map2 (fun rb ms => map (attr_of (rphi (fst rb))) ms) ch sub in
        pert_loop nb B pb f (total + k) ch (map2 (@app Qc) preds pred) (map2 (@app Qc) attrs attr)
      else (preds, attrs)
  end.

Definition mf_B (bs : option nat) (n nb : nat) : nat := eff_bs bs (n * nb).
Definition mf_pb (bs : option nat) (n nb : nat) : nat := Nat.min (mf_B bs n nb) nb.
Definition mf_ib (bs : option nat) (n nb : nat) : nat := Nat.max 1 (mf_B bs n nb / mf_pb bs n nb).

(* per input: the pair (score drops, summed attributions) handed to spearmanr *)
Definition mufid_lists (bs : option nat) (nb : nat) (rows : list row) : list (list Qc * list Qc) :=
  let n := length rows in
  let B := mf_B bs n nb in let pb := mf_pb bs n nb in let ib := mf_ib bs n nb in
  let base := batched_score B (map rx rows) (map rt rows) in
  concat (map (fun ch =>
                 let pa := pert_loop nb B pb nb 0 ch (map (fun _ => []) ch) (map (fun _ => []) ch) in
                 combine (fst pa) (snd pa))
              (chunks ib (combine rows base))).

Definition mufid_triples (bs : option nat) (nb : nat) (rows : list row) : list triple :=
  map (fun pa => spearman3 (fst pa) (snd pa)) (mufid_lists bs nb rows).

Definition mufid (sqrt : Qc -> Qc) (bs : option nat) (nb : nat) (rows : list row) : Qc :=
  qmean (map (corr_nan0 sqrt) (mufid_triples bs nb rows)).
End MuFidelity.

(* ------------------------------------------------------------------------------------------------
   AverageStability
   ------------------------------------------------------------------------------------------------ *)
Definition dist_l1 (a b : sample) : Qc := qsum (map Qcabs (vsub a b)).
Definition sqdist (a b : sample) : Qc := qsum (map (fun d => d * d) (vsub a b)).
Definition dist_l2 (sqrt : Qc -> Qc) (a b : sample) : Qc := sqrt (sqdist a b).

Section Stability.
(* the explainer is called on a whole batch *)
Variable expl : list sample -> list sample -> list sample.
Variable dist : sample -> sample -> Qc.

(* what the explainer is asked for one input: its nb_samples neighbours and the repeated label *)
Definition neighbors (x : sample) (noises : list sample) : list sample := map (vadd x) noises.
Definition stab_labels (t : sample) (noises : list sample) : list sample := repeat t (length noises).

Definition stab_one (x t phi : sample) (noises : list sample) : Qc :=
  let phis_neighbors := expl (neighbors x noises) (stab_labels t noises) in
  qmean (map (fun phi_n => dist phi_n phi) phis_neighbors).

(* base_explanations = None: computed by one call on all the inputs.
   [noises]: for every input the noisy masks added to it (the code adds the same nb_samples masks to every
   input; in float32 the sum is rounded, so the correspondence feeds neighbour - input per input) *)
Definition stability (base : option (list sample)) (xs ts : list sample) (noises : list (list sample)) : Qc :=
  let base_explanations := match base with Some b => b | None => expl xs ts end in
  qmean (map (fun p => stab_one (fst (fst (fst p))) (snd (fst (fst p))) (snd (fst p)) (snd p))
             (combine (combine (combine xs ts) base_explanations) noises)).

(* the same loop observed differently: the batches the explainer is called on, per input *)
Definition stability_queries (xs ts : list sample) (noises : list (list sample))
  : list (list sample * list sample) :=
  map (fun p => (neighbors (fst (fst p)) (snd p), stab_labels (snd (fst p)) (snd p)))
      (combine (combine xs ts) noises).
End Stability.

(* ------------------------------------------------------------------------------------------------
   helpers of the generated case files (comparison only; not used by any theorem statement)
   ------------------------------------------------------------------------------------------------ *)
Close Scope Qc_scope. Open Scope Z_scope.
(* floor(sqrt(x) * 10^9) / 10^9 for x >= 0 (0 for x < 0): within 10^-9 below the real square root, and exact
   when x is the square of a rational *)
Definition sqrt_scale : positive := 1000000000%positive.
Definition qsqrt9 (x : Qc) : Qc :=
  let n := Qnum (this x) in let d := Qden (this x) in
  Q2Qc (Z.sqrt (n * Zpos d * Zpos sqrt_scale * Zpos sqrt_scale) # (d * sqrt_scale)).
Close Scope Z_scope. Open Scope Qc_scope.

Definition qdump3 (t : triple) := (qdump (t_cov t), qdump (t_va t), qdump (t_vb t)).

(* executable explainers / distances used by the stability stream (mirrored in harness/c15.py) *)
Definition dist_linf (a b : sample) : Qc := fold_left Qcmax (map Qcabs (vsub a b)) 0.
Definition dist_signed (a b : sample) : Qc := qsum (vsub a b).
Definition expl_rowwise (e : sample -> sample -> sample) (xs ts : list sample) : list sample := map2 e xs ts.
