(* C15/Proofs.v — MuFidelity / AverageStability: the executable model equals the reference definitions for every
   batch size, and the algebraic consequences the property lists *)
From Xpl Require Import Base.Tensor C15.Spec C15.Aux.
From Xpl Require Import C06.Proofs.     (* bs_ok, eff_bs_pos *)
From Coq Require Import Arith Lqa.
Close Scope Qc_scope. Open Scope nat_scope.

(* =====================================================================================================
   1. batching: for every batch size the model hands spearmanr, per input, the drops and the summed
      attributions of the SAME nb_samples masks, in the same order
   ===================================================================================================== *)
Section Batching.
Variable score : sample -> sample -> Qc.
Variable bm : bmode.
Variables c cphi : nat.

Lemma batched_score_rowwise B xs ts : 1 <= B ->
  batched_score score B xs ts = map (fun xt => score (fst xt) (snd xt)) (combine xs ts).
Proof. intro HB. unfold batched_score. apply map_chunks; exact HB. Qed.

(* what the model computes for one input and one mask *)
Definition mdrop (rb : row * Qc) (m : sample) : Qc := (snd rb - score (degrade bm c (rx (fst rb)) m) (rt (fst rb)))%Qc.
Definition mattr (rb : row * Qc) (m : sample) : Qc := attr_of cphi (rphi (fst rb)) m.

Section Loop.
Variables nb B pb : nat.
Hypothesis HB : 1 <= B.
Hypothesis Hpb : 1 <= pb.
Variable ch : list (row * Qc).
Hypothesis Hn : forall rb, In rb ch -> length (rm (fst rb)) = nb.

Definition win (k total : nat) (rb : row * Qc) : list sample := firstn k (skipn total (rm (fst rb))).
Lemma win_length k total rb : In rb ch -> total + k <= nb -> length (win k total rb) = k.
Proof. intros H1 H2. unfold win. rewrite firstn_length, skipn_length, (Hn rb H1). lia. Qed.

Lemma pass_preds k total : 1 <= k -> total + k <= nb ->
  map2 (fun rb ps => map (fun p => (snd rb - p)%Qc) ps) ch
    (chunks k (batched_score score B
       (concat (map2 (fun rb ms => map (degrade bm c (rx (fst rb))) ms) ch (map (win k total) ch)))
       (rep k (map (fun rb => rt (fst rb)) ch))))
  = map (fun rb => map (mdrop rb) (win k total rb)) ch.
Proof.
  intros Hk1 Hk2. rewrite batched_score_rowwise by exact HB.
  rewrite map2_self_map, <- flat_map_concat_map, rep_map.
  rewrite <- map2_combine.
  rewrite (map2_flat_map (fun x t => score x t)).
  2:{ intros rb Hrb. rewrite map_length, repeat_length. apply win_length; assumption. }
  rewrite (chunks_flat_map_exact _ k) by
    (try exact Hk1; intros rb Hrb; rewrite map2_length, map_length, repeat_length, win_length by assumption; lia).
  rewrite map2_self_map. apply map_ext_in. intros rb Hrb.
  rewrite map2_map_l, map2_repeat_r by (apply win_length; assumption).
  rewrite map_map. reflexivity.
Qed.

Lemma pert_loop_inv fuel total preds attrs : total <= nb -> nb - total <= fuel ->
  preds = map (fun rb => map (mdrop rb) (firstn total (rm (fst rb)))) ch ->
  attrs = map (fun rb => map (mattr rb) (firstn total (rm (fst rb)))) ch ->
  pert_loop score bm c cphi nb B pb fuel total ch preds attrs
  = (map (fun rb => map (mdrop rb) (rm (fst rb))) ch, map (fun rb => map (mattr rb) (rm (fst rb))) ch).
Proof.
  revert total preds attrs; induction fuel as [|f IH]; intros total preds attrs Ht Hf Hp Ha.
  - cbn [pert_loop]. assert (total = nb) by lia. subst total preds attrs. f_equal; apply map_ext_in; intros rb Hrb;
      rewrite firstn_all2 by (rewrite (Hn rb Hrb); lia); reflexivity.
  - cbn [pert_loop]. destruct (total <? nb) eqn:E.
    + apply Nat.ltb_lt in E. cbv zeta. set (k := Nat.min pb (nb - total)).
      assert (Hk1 : 1 <= k) by (unfold k; lia). assert (Hk2 : total + k <= nb) by (unfold k; lia).
      change (map (fun rb : row * Qc => firstn k (skipn total (rm (fst rb)))) ch) with (map (win k total) ch).
      rewrite (pass_preds k total Hk1 Hk2).
      apply IH; [lia | lia | |].
      * subst preds. rewrite map2_map_map. apply map_ext. intro rb. rewrite firstn_add, map_app. reflexivity.
      * subst attrs. rewrite map2_self_map, map2_map_map. apply map_ext. intro rb.
        rewrite firstn_add, map_app. reflexivity.
    + apply Nat.ltb_ge in E. assert (total = nb) by lia. subst total preds attrs. f_equal; apply map_ext_in; intros rb Hrb;
        rewrite firstn_all2 by (rewrite (Hn rb Hrb); lia); reflexivity.
Qed.
End Loop.

Lemma mf_params bs n nb : bs_ok bs -> 1 <= n -> 1 <= nb ->
  1 <= mf_B bs n nb /\ 1 <= mf_pb bs n nb /\ 1 <= mf_ib bs n nb.
Proof.
  intros Hb Hn Hnb. assert (H : 1 <= mf_B bs n nb) by (unfold mf_B; destruct bs; cbn [eff_bs bs_ok] in *; nia).
  unfold mf_pb, mf_ib. repeat split; lia.
Qed.

(* the model's pairs, with the model's own degrade / attr_of (any mask values) *)
Definition model_pair (r : row) : list Qc * list Qc :=
  (map (fun m => (score (rx r) (rt r) - score (degrade bm c (rx r) m) (rt r))%Qc) (rm r),
   map (attr_of cphi (rphi r)) (rm r)).

Theorem mufid_lists_unbatched bs nb rows : bs_ok bs -> 1 <= nb ->
  (forall r, In r rows -> length (rm r) = nb) ->
  mufid_lists score bm c cphi bs nb rows = map model_pair rows.
Proof.
  intros Hb Hnb Hok. unfold mufid_lists. cbv zeta.
  destruct rows as [|r0 rows']; [reflexivity|]. set (rows := r0 :: rows') in *.
  destruct (mf_params bs (length rows) nb Hb ltac:(cbn [rows length]; lia) Hnb) as (HB & Hpb & Hib).
  rewrite batched_score_rowwise by exact HB. rewrite combine_map_map, map_map, combine_map_self. cbn [fst snd].
  rewrite (map_ext_in _ (map (fun rb : row * Qc => model_pair (fst rb)))).
  - rewrite map_chunks by exact Hib. rewrite map_map. reflexivity.
  - intros ch Hch.
    assert (Hin : forall rb, In rb ch -> In (fst rb) rows /\ snd rb = score (rx (fst rb)) (rt (fst rb))).
    { intros rb Hrb. pose proof (in_chunks_in _ _ _ _ Hib Hch Hrb) as H.
      apply in_map_iff in H as [r [<- Hr]]. split; [exact Hr | reflexivity]. }
    rewrite (pert_loop_inv nb _ _ HB Hpb ch) with (total := 0); try lia.
    + cbn [fst snd]. rewrite combine_map_map. apply map_ext_in. intros rb Hrb.
      destruct (Hin rb Hrb) as [_ Hs]. unfold model_pair, mdrop, mattr. rewrite Hs. reflexivity.
    + intros rb Hrb. apply Hok. apply Hin. exact Hrb.
    + apply map_ext. reflexivity.
    + apply map_ext. reflexivity.
Qed.
End Batching.

(* =====================================================================================================
   2. on 0/1 masks the arithmetic x*m + (1-m)*b and phi*(1-m) is "set the subset to the baseline" and
      "sum the attributions of the subset"
   ===================================================================================================== *)
Section Subsets.
Variable score : sample -> sample -> Qc.
Variable bm : bmode.
Variables c cphi : nat.
Open Scope Qc_scope.

Lemma binary_nth m p : binary m -> (p < length m)%nat -> nthq m p = 0 \/ nthq m p = 1.
Proof. intros Hb Hp. apply Hb. unfold nthq. apply nth_In. exact Hp. Qed.

Lemma in_subset_cases m p : binary m -> (p < length m)%nat ->
  (nthq m p = 0 /\ in_subset m p = true) \/ (nthq m p = 1 /\ in_subset m p = false).
Proof. intros Hb Hp. unfold in_subset. destruct (binary_nth m p Hb Hp) as [E|E]; rewrite E; [left | right]; split;
  reflexivity. Qed.

Lemma div_lt_len k cc n : (k < n * cc)%nat -> (k / cc < n)%nat.
Proof. intro H. assert (cc <> 0)%nat by (intro; subst; lia). apply Nat.div_lt_upper_bound; [assumption | lia]. Qed.

Lemma degrade_with_baseline x m : binary m -> length x = (length m * c)%nat ->
  length (baseline_of bm x) = length x -> degrade bm c x m = with_baseline bm c x m.
Proof.
  intros Hb Hx Hbl. unfold degrade, with_baseline.
  rewrite (rep_flat m c 0), <- Hx.
  rewrite (list_as_seq x 0) at 1. rewrite (list_as_seq (baseline_of bm x) 0) at 1. rewrite Hbl.
  rewrite combine_map_map, map2_seq. apply map_ext_in. intros k Hk. apply in_seq in Hk. cbn [plus fst snd] in *.
  fold (nthq x k) (nthq (baseline_of bm x) k) (nthq m (k / c)).
  assert (Hd : (k / c < length m)%nat) by (apply div_lt_len; lia).
  destruct (in_subset_cases m (k / c) Hb Hd) as [[E1 E2]|[E1 E2]]; rewrite E1, E2; ring.
Qed.

Lemma attr_of_attr_sum phi m : binary m -> length phi = (length m * cphi)%nat ->
  attr_of cphi phi m = attr_sum cphi phi m.
Proof.
  intros Hb Hp. unfold attr_of, attr_sum. f_equal.
  rewrite (rep_flat m cphi 0), <- Hp. rewrite (list_as_seq phi 0) at 1. rewrite map2_seq.
  apply map_ext_in. intros k Hk. apply in_seq in Hk. cbn [plus] in *. fold (nthq phi k) (nthq m (k / cphi)).
  assert (Hd : (k / cphi < length m)%nat) by (apply div_lt_len; lia).
  destruct (in_subset_cases m (k / cphi) Hb Hd) as [[E1 E2]|[E1 E2]]; rewrite E1, E2; ring.
Qed.

Lemma model_pair_spec nb r : row_ok bm c cphi nb r -> model_pair score bm c cphi r = spec_pair score bm c cphi r.
Proof.
  intros [_ H]. unfold model_pair, spec_pair, drop. f_equal; apply map_ext_in; intros m Hm;
    destruct (H m Hm) as (Hb & Hx & Hp & Hbl).
  - rewrite degrade_with_baseline by assumption. reflexivity.
  - apply attr_of_attr_sum; assumption.
Qed.

(* mufid_pairs: for every batch size the drop and the summed attribution of the SAME subset are paired, exactly
   nb_samples of them per sample *)
Theorem mufid_pairs bs nb rows : bs_ok bs -> (1 <= nb)%nat -> (forall r, In r rows -> row_ok bm c cphi nb r) ->
  mufid_lists score bm c cphi bs nb rows = spec_pairs score bm c cphi rows.
Proof.
  intros Hb Hnb Hok. rewrite mufid_lists_unbatched by (try assumption; intros r Hr; apply (Hok r Hr)).
  unfold spec_pairs. apply map_ext_in. intros r Hr. apply (model_pair_spec nb). apply Hok, Hr.
Qed.

Corollary mufid_count bs nb rows : bs_ok bs -> (1 <= nb)%nat -> (forall r, In r rows -> length (rm r) = nb) ->
  length (mufid_lists score bm c cphi bs nb rows) = length rows /\
  Forall (fun pa => length (fst pa) = nb /\ length (snd pa) = nb) (mufid_lists score bm c cphi bs nb rows).
Proof.
  intros Hb Hnb Hok. rewrite mufid_lists_unbatched by assumption. split; [apply map_length|].
  apply Forall_forall. intros pa Hpa. apply in_map_iff in Hpa as [r [<- Hr]]. unfold model_pair. cbn [fst snd].
  rewrite !map_length. split; apply Hok, Hr.
Qed.

Corollary mufid_batch_invariant bs bs' nb rows : bs_ok bs -> bs_ok bs' -> (1 <= nb)%nat ->
  (forall r, In r rows -> length (rm r) = nb) ->
  forall sqrt, mufid score bm c cphi sqrt bs nb rows = mufid score bm c cphi sqrt bs' nb rows.
Proof.
  intros Hb Hb' Hnb Hok sqrt. unfold mufid, mufid_triples.
  rewrite !mufid_lists_unbatched by assumption. reflexivity.
Qed.
End Subsets.

(* =====================================================================================================
   3. average ranks: invariance under increasing maps, ranks of the negation
   ===================================================================================================== *)
Section Ranks.
Open Scope Qc_scope.

Lemma Qc_trichotomy (a b : Qc) : a < b \/ a = b \/ b < a.
Proof. destruct (Qclt_le_dec a b) as [H|H]; [left; exact H|]. right.
  destruct (Qcle_lt_or_eq _ _ H) as [H'|H']; [right; exact H' | left; symmetry; exact H']. Qed.

Lemma Qcltb_ext a b a' b' : (a < b <-> a' < b') -> Qcltb a b = Qcltb a' b'.
Proof. intro H. destruct (Qcltb a b) eqn:E1, (Qcltb a' b') eqn:E2; try reflexivity.
  - apply Qcltb_lt, H, Qcltb_lt in E1. congruence.
  - apply Qcltb_lt, H, Qcltb_lt in E2. congruence. Qed.
Lemma Qceqb_ext a b a' b' : (a = b <-> a' = b') -> Qceqb a b = Qceqb a' b'.
Proof. intro H. destruct (Qceqb a b) eqn:E1, (Qceqb a' b') eqn:E2; try reflexivity.
  - apply Qceqb_eq, H, Qceqb_eq in E1. congruence.
  - apply Qceqb_eq, H, Qceqb_eq in E2. congruence. Qed.

Definition increasing (f : Qc -> Qc) : Prop := forall a b, a < b <-> f a < f b.

Lemma increasing_inj f : increasing f -> forall a b, a = b <-> f a = f b.
Proof. intros Hf a b. split; [intros ->; reflexivity|]. intro E.
  destruct (Qc_trichotomy a b) as [H|[H|H]]; [|exact H|]; apply Hf in H; rewrite E in H;
    exfalso; exact (Qclt_not_eq _ _ H eq_refl). Qed.

Lemma count_lt_incr f v x : increasing f -> count_lt (map f v) (f x) = count_lt v x.
Proof. intro Hf. unfold count_lt. induction v as [|y v IH]; [reflexivity|]. cbn [map filter].
  rewrite (Qcltb_ext (f y) (f x) y x) by (symmetry; apply Hf).
  destruct (Qcltb y x); cbn [length]; rewrite IH; reflexivity. Qed.
Lemma count_eq_incr f v x : increasing f -> count_eq (map f v) (f x) = count_eq v x.
Proof. intro Hf. unfold count_eq. induction v as [|y v IH]; [reflexivity|]. cbn [map filter].
  rewrite (Qceqb_ext (f y) (f x) y x) by (symmetry; apply increasing_inj; exact Hf).
  destruct (Qceqb y x); cbn [length]; rewrite IH; reflexivity. Qed.

(* the ranking depends only on the order: any strictly increasing map leaves the average ranks unchanged *)
Theorem ranks_increasing f v : increasing f -> ranks (map f v) = ranks v.
Proof. intro Hf. unfold ranks. rewrite map_map. apply map_ext. intro x. unfold rank.
  rewrite count_lt_incr, count_eq_incr by exact Hf. reflexivity. Qed.

Lemma scale_increasing k : 0 < k -> increasing (Qcmult k).
Proof. intros Hk a b. split; intro H; qc2q; nra. Qed.

Theorem ranks_scale_invariant k v : 0 < k -> ranks (vscale k v) = ranks v.
Proof. intro Hk. apply ranks_increasing, scale_increasing, Hk. Qed.

(* ranks of the negation: rank_i(-v) = n + 1 - rank_i(v) *)
Definition count_gt (v : list Qc) (x : Qc) : nat := length (filter (fun y => Qcltb x y) v).

Lemma count_partition v x : (count_lt v x + count_eq v x + count_gt v x = length v)%nat.
Proof. unfold count_lt, count_eq, count_gt. induction v as [|y v IH]; [reflexivity|]. cbn [filter length].
  destruct (Qc_trichotomy y x) as [H|[H|H]].
  - rewrite (proj2 (Qcltb_lt y x) H).
    assert (E1 : Qceqb y x = false).
    { destruct (Qceqb y x) eqn:E; [|reflexivity]. apply Qceqb_eq in E. subst. exfalso; exact (Qclt_not_eq _ _ H eq_refl). }
    assert (E2 : Qcltb x y = false).
    { destruct (Qcltb x y) eqn:E; [|reflexivity]. apply Qcltb_lt in E. exfalso. exact (Qclt_not_le _ _ H (Qclt_le_weak _ _ E)). }
    rewrite E1, E2. cbn [length]. lia.
  - subst y. rewrite (proj2 (Qceqb_eq x x) eq_refl).
    assert (E : Qcltb x x = false).
    { destruct (Qcltb x x) eqn:E; [|reflexivity]. apply Qcltb_lt in E. exfalso; exact (Qclt_not_eq _ _ E eq_refl). }
    rewrite E. cbn [length]. lia.
  - rewrite (proj2 (Qcltb_lt x y) H).
    assert (E1 : Qceqb y x = false).
    { destruct (Qceqb y x) eqn:E; [|reflexivity]. apply Qceqb_eq in E. subst. exfalso; exact (Qclt_not_eq _ _ H eq_refl). }
    assert (E2 : Qcltb y x = false).
    { destruct (Qcltb y x) eqn:E; [|reflexivity]. apply Qcltb_lt in E. exfalso. exact (Qclt_not_le _ _ H (Qclt_le_weak _ _ E)). }
    rewrite E1, E2. cbn [length]. lia.
Qed.

Lemma count_lt_opp v x : count_lt (map Qcopp v) (- x) = count_gt v x.
Proof. unfold count_lt, count_gt. induction v as [|y v IH]; [reflexivity|]. cbn [map filter].
  rewrite (Qcltb_ext (- y) (- x) x y) by (split; intro H; qc2q; lra).
  destruct (Qcltb x y); cbn [length]; rewrite IH; reflexivity. Qed.
Lemma count_eq_opp v x : count_eq (map Qcopp v) (- x) = count_eq v x.
Proof. unfold count_eq. induction v as [|y v IH]; [reflexivity|]. cbn [map filter].
  rewrite (Qceqb_ext (- y) (- x) y x).
  - destruct (Qceqb y x); cbn [length]; rewrite IH; reflexivity.
  - split; intro H; [|subst; reflexivity]. rewrite <- (Qcopp_involutive y), H. apply Qcopp_involutive. Qed.

Theorem ranks_opp v : ranks (map Qcopp v) = map (fun r => qn (length v) + 1 - r) (ranks v).
Proof. unfold ranks. rewrite !map_map. apply map_ext. intro x. unfold rank.
  rewrite count_lt_opp, count_eq_opp. rewrite <- (count_partition v x), !qn_plus.
  rewrite two_eq. field. intro E. apply (f_equal this) in E. discriminate. Qed.
End Ranks.

(* =====================================================================================================
   4. Pearson triple: self / reflected vectors, Cauchy-Schwarz, the relational correlation
   ===================================================================================================== *)
Section Pearson.
Open Scope Qc_scope.

Lemma qsum_sq_nonneg {A} (f : A -> Qc) l : 0 <= qsum (map (fun x => f x * f x) l).
Proof. induction l as [|x l IH]; cbn [map qsum]; [apply Qcle_refl|].
  generalize dependent (qsum (map (fun x0 => f x0 * f x0) l)). intros S HS. generalize (f x). intro d.
  qc2q. nra. Qed.

Lemma dot_self_as_sum a : dot a a = qsum (map (fun x => x * x) a).
Proof. unfold dot, vmul. rewrite map2_same. reflexivity. Qed.
Lemma dot_self_nonneg a : 0 <= dot a a.
Proof. rewrite dot_self_as_sum. apply (qsum_sq_nonneg (fun x => x)). Qed.

(* --- Cauchy-Schwarz on lists of pairs, by the one-step Lagrange identity --- *)
Definition saa (l : list (Qc * Qc)) := qsum (map (fun p => fst p * fst p) l).
Definition sbb (l : list (Qc * Qc)) := qsum (map (fun p => snd p * snd p) l).
Definition sab (l : list (Qc * Qc)) := qsum (map (fun p => fst p * snd p) l).

Lemma lagrange_step l x y :
  qsum (map (fun p => (fst p * y - snd p * x) * (fst p * y - snd p * x)) l)
  = y * y * saa l - (1 + 1) * x * y * sab l + x * x * sbb l.
Proof. unfold saa, sbb, sab. induction l as [|p l IH]; cbn [map qsum]; [ring | rewrite IH; ring]. Qed.

Lemma cauchy_schwarz_pairs l : sab l * sab l <= saa l * sbb l.
Proof.
  induction l as [|[x y] l IH]; [unfold saa, sbb, sab; cbn; apply Qcle_refl|].
  pose proof (qsum_sq_nonneg (fun p : Qc * Qc => fst p * y - snd p * x) l) as HQ.
  cbv beta in HQ. rewrite lagrange_step in HQ.
  unfold saa, sbb, sab in *. cbn [map qsum fst snd].
  generalize dependent (qsum (map (fun p : Qc * Qc => fst p * fst p) l)). intro A.
  generalize dependent (qsum (map (fun p : Qc * Qc => snd p * snd p) l)). intro B.
  generalize dependent (qsum (map (fun p : Qc * Qc => fst p * snd p) l)). intro C.
  intros IH HQ. qc2q. nra.
Qed.

Lemma combine_fst_sum {B} (f : Qc -> Qc) a (b : list B) : length a = length b ->
  qsum (map (fun p => f (fst p)) (combine a b)) = qsum (map f a).
Proof. revert b; induction a as [|x a IH]; intros [|y b] H; cbn [length] in H; try discriminate; [reflexivity|].
  cbn [combine map qsum fst]. rewrite IH by lia. reflexivity. Qed.
Lemma combine_snd_sum {A} (f : Qc -> Qc) (a : list A) b : length a = length b ->
  qsum (map (fun p => f (snd p)) (combine a b)) = qsum (map f b).
Proof. revert b; induction a as [|x a IH]; intros [|y b] H; cbn [length] in H; try discriminate; [reflexivity|].
  cbn [combine map qsum snd]. rewrite IH by lia. reflexivity. Qed.

Theorem cauchy_schwarz a b : length a = length b -> dot a b * dot a b <= dot a a * dot b b.
Proof.
  intro H. rewrite !dot_self_as_sum. unfold dot, vmul. rewrite map2_combine.
  rewrite <- (combine_fst_sum (fun x => x * x) a b H), <- (combine_snd_sum (fun x => x * x) a b H).
  apply cauchy_schwarz_pairs.
Qed.

Lemma centered_length a : length (centered a) = length a.
Proof. unfold centered. apply map_length. Qed.

(* spearman_bounded: cov^2 <= var_a * var_b, both variances non-negative *)
Theorem pearson3_bounded a b : length a = length b ->
  let t := pearson3 a b in t_cov t * t_cov t <= t_va t * t_vb t /\ 0 <= t_va t /\ 0 <= t_vb t.
Proof. intro H. unfold pearson3, t_cov, t_va, t_vb. cbn [fst snd]. split; [|split; apply dot_self_nonneg].
  apply cauchy_schwarz. rewrite !centered_length. exact H. Qed.

Lemma ranks_length v : length (ranks v) = length v.
Proof. unfold ranks. apply map_length. Qed.

Theorem spearman_bounded a b : length a = length b ->
  let t := spearman3 a b in t_cov t * t_cov t <= t_va t * t_vb t /\ 0 <= t_va t /\ 0 <= t_vb t.
Proof. intro H. apply pearson3_bounded. rewrite !ranks_length. exact H. Qed.

(* --- the relational correlation --- *)
Lemma Qceqb_false x y : x <> y -> Qceqb x y = false.
Proof. intro H. destruct (Qceqb x y) eqn:E; [apply Qceqb_eq in E; contradiction | reflexivity]. Qed.

Lemma corr_of_nan t r : t_va t * t_vb t = 0 -> (corr_of t r <-> r = 0).
Proof. intro H. unfold corr_of. rewrite (proj2 (Qceqb_eq _ _) H). reflexivity. Qed.

Lemma corr_of_unique t r r' : corr_of t r -> corr_of t r' -> r = r'.
Proof.
  unfold corr_of. destruct (Qceqb (t_va t * t_vb t) 0) eqn:E; [congruence|].
  assert (HP : t_va t * t_vb t <> 0) by (intro K; apply Qceqb_eq in K; congruence).
  generalize dependent (t_va t * t_vb t). intros P _ HP. generalize (t_cov t). intro cv.
  intros [H1 H2] [H3 H4].
  assert (Hsq : (r - r') * (r + r') = 0).
  { apply (Qcmult_integral_l) with (x := P); [exact HP|]. (* P * X = 0 -> X = 0 *)
    replace (P * ((r - r') * (r + r'))) with (r * r * P - r' * r' * P) by ring. rewrite H1, H3. ring. }
  destruct (Qcmult_integral _ _ Hsq) as [K|K].
  - apply (f_equal (fun z => z + r')) in K. ring_simplify in K. exact K.
  - (* r = - r' : then r * cv >= 0 and - r * cv >= 0, so r * cv = 0; cv^2 = r^2 P gives r = 0 *)
    assert (Hr : r' = - r) by (apply (f_equal (fun z => z - r)) in K; ring_simplify in K; rewrite K; ring).
    subst r'.
    assert (Hz : r * cv = 0).
    { apply Qcle_antisym; [|exact H2]. replace (r * cv) with (- (- r * cv)) by ring.
      rewrite <- (Qcopp_involutive 0). apply Qcopp_le_compat. exact H4. }
    assert (Hr0 : r = 0).
    { destruct (Qcmult_integral _ _ Hz) as [K0|K0]; [exact K0|]. subst cv.
      assert (H5 : r * r * P = 0) by (rewrite H1; ring).
      destruct (Qcmult_integral _ _ H5) as [K1|K1]; [|contradiction].
      destruct (Qcmult_integral _ _ K1); assumption. }
    subst r. ring.
Qed.

Lemma corr_of_self v r : 0 < v -> corr_of (v, v, v) r -> r = 1.
Proof.
  intros Hv H. apply (corr_of_unique (v, v, v)); [exact H|]. unfold corr_of, t_cov, t_va, t_vb. cbn [fst snd].
  assert (Hvv : v * v <> 0).
  { intro K. destruct (Qcmult_integral _ _ K); subst; exact (Qclt_not_eq _ _ Hv eq_refl). }
  rewrite (Qceqb_false _ _ Hvv). split; [ring|]. rewrite Qcmult_1_l. apply Qclt_le_weak, Hv.
Qed.

Lemma corr_of_anti v r : 0 < v -> corr_of (- v, v, v) r -> r = - (1).
Proof.
  intros Hv H. apply (corr_of_unique (- v, v, v)); [exact H|]. unfold corr_of, t_cov, t_va, t_vb. cbn [fst snd].
  assert (Hvv : v * v <> 0).
  { intro K. destruct (Qcmult_integral _ _ K); subst; exact (Qclt_not_eq _ _ Hv eq_refl). }
  rewrite (Qceqb_false _ _ Hvv). split; [ring|]. replace (- (1) * - v) with v by ring. apply Qclt_le_weak, Hv.
Qed.

Lemma corr_of_bounded t r : t_cov t * t_cov t <= t_va t * t_vb t -> 0 <= t_va t -> 0 <= t_vb t ->
  corr_of t r -> - (1) <= r /\ r <= 1.
Proof.
  unfold corr_of. destruct (Qceqb (t_va t * t_vb t) 0) eqn:E.
  - intros _ _ _ ->. split; qc2q; lra.
  - assert (HP : t_va t * t_vb t <> 0) by (intro K; apply Qceqb_eq in K; congruence).
    intros Hcs Ha Hb [H1 _].
    assert (HP' : 0 < t_va t * t_vb t).
    { assert (H0 : 0 <= t_va t * t_vb t).
      { revert Ha Hb. generalize (t_va t) (t_vb t). intros a b Ha Hb. qc2q. nra. }
      destruct (Qcle_lt_or_eq _ _ H0) as [K|K]; [exact K | symmetry in K; contradiction]. }
    rewrite <- H1 in Hcs. generalize dependent (t_va t * t_vb t). intros P _ _ Hcs _ HP'.
    clear - HP' Hcs.
    assert (Hrr : r * r <= 1).
    { destruct (Qclt_le_dec 1 (r * r)) as [K|K]; [|exact K]. exfalso.
      assert (H2 : 0 < (r * r - 1) * P) by (qc2q; nra).
      qc2q. nra. }
    split; qc2q; nra.
Qed.

(* --- self / reflected vectors --- *)
Lemma pearson3_self a : pearson3 a a = (dot (centered a) (centered a), dot (centered a) (centered a), dot (centered a) (centered a)).
Proof. reflexivity. Qed.

Lemma qsum_reflect K a : qsum (map (fun r => K - r) a) = qn (length a) * K - qsum a.
Proof. induction a as [|x a IH]; cbn [map qsum length]; [rewrite qn_0; ring | rewrite IH, qn_S; ring]. Qed.

Lemma centered_reflect K a : centered (map (fun r => K - r) a) = map Qcopp (centered a).
Proof.
  destruct a as [|x0 a']; [reflexivity|]. set (a := x0 :: a').
  assert (Hn : qn (length a) <> 0) by (apply qn_neq0; cbn [a length]; lia).
  unfold centered. cbv zeta. rewrite !map_map. apply map_ext. intro x.
  unfold qmean. rewrite map_length, qsum_reflect. field. exact Hn.
Qed.

Lemma dot_opp_r a b : dot a (map Qcopp b) = - dot a b.
Proof. unfold dot, vmul. revert b; induction a as [|x a IH]; intros [|y b]; cbn [map map2 qsum]; try ring.
  rewrite IH. ring. Qed.
Lemma dot_opp_both a : dot (map Qcopp a) (map Qcopp a) = dot a a.
Proof. rewrite !dot_self_as_sum, map_map. apply qsum_map_ext. intros; ring. Qed.

Lemma pearson3_reflect K a : let v := dot (centered a) (centered a) in
  pearson3 a (map (fun r => K - r) a) = (- v, v, v).
Proof. cbv zeta. unfold pearson3. cbv zeta. rewrite centered_reflect, dot_opp_r, dot_opp_both. reflexivity. Qed.

Definition rank_var (v : list Qc) : Qc := dot (centered (ranks v)) (centered (ranks v)).

(* spearman_self: rho(v, v) = 1 and rho(v, -v) = -1 whenever it is defined (the ranks are not all equal) *)
Theorem spearman_self v : spearman3 v v = (rank_var v, rank_var v, rank_var v).
Proof. reflexivity. Qed.
Theorem spearman_opp v : spearman3 v (map Qcopp v) = (- rank_var v, rank_var v, rank_var v).
Proof. unfold spearman3. rewrite ranks_opp. apply pearson3_reflect. Qed.

Theorem spearman_self_one v r : 0 < rank_var v -> corr_of (spearman3 v v) r -> r = 1.
Proof. rewrite spearman_self. apply corr_of_self. Qed.
Theorem spearman_opp_minus_one v r : 0 < rank_var v -> corr_of (spearman3 v (map Qcopp v)) r -> r = - (1).
Proof. rewrite spearman_opp. apply corr_of_anti. Qed.

Lemma rank_var_nonneg v : 0 <= rank_var v.
Proof. apply dot_self_nonneg. Qed.

(* constant vectors: all ranks equal, variance 0 *)
Lemma qsum_const {A} (l : list A) R : qsum (map (fun _ => R) l) = qn (length l) * R.
Proof. induction l as [|x l IH]; cbn [map qsum length]; [rewrite qn_0; ring | rewrite IH, qn_S; ring]. Qed.

Lemma rank_var_const v d : (forall x, In x v -> x = d) -> rank_var v = 0.
Proof.
  intro H. unfold rank_var, ranks. rewrite (map_ext_in _ (fun _ => rank v d)) by (intros x Hx; rewrite (H x Hx); reflexivity).
  destruct v as [|x0 v']; [reflexivity|]. set (w := x0 :: v') in *.
  assert (Hn : qn (length w) <> 0) by (apply qn_neq0; cbn [w length]; lia).
  unfold centered. cbv zeta. rewrite map_map. unfold qmean. rewrite map_length, qsum_const.
  rewrite dot_self_as_sum, map_map.
  rewrite (qsum_map_ext _ (fun _ => 0)); [apply qsum_zero|]. intros x _. field. exact Hn.
Qed.
End Pearson.

(* =====================================================================================================
   5. MuFidelity: what the metric measures (consequences)
   ===================================================================================================== *)
Section Consequences.
Variable score : sample -> sample -> Qc.
Variable bm : bmode.
Variable c : nat.
Open Scope Qc_scope.

Definition with_phi (f : sample -> sample) (r : row) : row :=
  {| rx := rx r; rt := rt r; rphi := f (rphi r); rm := rm r |}.

Lemma attr_of_scale cphi k phi m : attr_of cphi (vscale k phi) m = k * attr_of cphi phi m.
Proof. unfold attr_of, vscale. generalize (rep cphi m). intro M. revert M.
  induction phi as [|p phi IH]; intros [|mk M]; cbn [map map2 qsum]; try ring. rewrite IH. ring. Qed.
Lemma attr_of_opp cphi phi m : attr_of cphi (map Qcopp phi) m = - attr_of cphi phi m.
Proof. unfold attr_of. generalize (rep cphi m). intro M. revert M.
  induction phi as [|p phi IH]; intros [|mk M]; cbn [map map2 qsum]; try ring. rewrite IH. ring. Qed.

Lemma model_pair_with_phi cphi f r :
  model_pair score bm c cphi (with_phi f r)
  = (fst (model_pair score bm c cphi r), map (attr_of cphi (f (rphi r))) (rm r)).
Proof. reflexivity. Qed.

Lemma rm_with_phi f r : rm (with_phi f r) = rm r.
Proof. reflexivity. Qed.

(* unchanged by positive rescaling of the explanations: the rank triples are literally the same *)
Theorem mufid_scale_invariant cphi k bs nb rows : 0 < k -> bs_ok bs -> (1 <= nb)%nat ->
  (forall r, In r rows -> length (rm r) = nb) ->
  mufid_triples score bm c cphi bs nb (map (with_phi (vscale k)) rows) = mufid_triples score bm c cphi bs nb rows.
Proof.
  intros Hk Hb Hnb Hok. unfold mufid_triples. rewrite !mufid_lists_unbatched; try assumption.
  2:{ intros r Hr. apply in_map_iff in Hr as [r' [<- Hr']]. rewrite rm_with_phi. apply Hok, Hr'. }
  rewrite !map_map. apply map_ext. intro r. rewrite model_pair_with_phi. cbn [fst snd].
  unfold model_pair at 2. cbn [snd]. unfold spearman3.
  rewrite (map_ext _ (fun m => k * attr_of cphi (rphi r) m)) by (intro; apply attr_of_scale).
  rewrite <- (map_map (attr_of cphi (rphi r)) (Qcmult k)). fold (vscale k (map (attr_of cphi (rphi r)) (rm r))).
  rewrite ranks_scale_invariant by exact Hk. reflexivity.
Qed.

Corollary mufid_value_scale_invariant cphi k sqrt bs nb rows : 0 < k -> bs_ok bs -> (1 <= nb)%nat ->
  (forall r, In r rows -> length (rm r) = nb) ->
  mufid score bm c cphi sqrt bs nb (map (with_phi (vscale k)) rows) = mufid score bm c cphi sqrt bs nb rows.
Proof. intros. unfold mufid. rewrite mufid_scale_invariant by assumption. reflexivity. Qed.

(* ---- additive scores: the drop of a subset IS the sum of its exact attributions ---- *)
Definition additive (w : sample -> sample) (bias : sample -> Qc) : Prop :=
  forall x t, score x t = bias t + dot (w t) x.
(* exact attributions of an additive score with respect to the baseline: w_i (x_i - b_i) *)
Definition exact_phi (w : sample -> sample) (x t : sample) : sample := vmul (w t) (vsub x (baseline_of bm x)).

Lemma additive_core x : forall b w M, length b = length x -> length w = length x -> length M = length x ->
  dot w x - dot w (map2 (fun (xb : Qc * Qc) mk => fst xb * mk + (1 - mk) * snd xb) (combine x b) M)
  = qsum (map2 (fun p mk => p * (1 - mk)) (vmul w (vsub x b)) M).
Proof.
  unfold dot, vmul, vsub. induction x as [|x0 x IH]; intros [|b0 b] [|w0 w] [|m0 M] Hb Hw HM;
    cbn [length] in *; try discriminate; [cbn; ring|].
  cbn [combine map2 qsum fst snd]. rewrite <- (IH b w M) by lia. ring.
Qed.

Lemma additive_drop_is_attr w bias x t m : additive w bias ->
  length x = (length m * c)%nat -> length (w t) = length x -> length (baseline_of bm x) = length x ->
  score x t - score (degrade bm c x m) t = attr_of c (exact_phi w x t) m.
Proof.
  intros Hadd Hx Hw Hb. rewrite !Hadd. unfold degrade, attr_of, exact_phi.
  rewrite <- additive_core by (try assumption; rewrite rep_length; symmetry; exact Hx). ring.
Qed.

Definition exact_row (w : sample -> sample) (nb : nat) (r : row) : Prop :=
  length (rm r) = nb /\ rphi r = exact_phi w (rx r) (rt r) /\ length (w (rt r)) = length (rx r) /\
  length (baseline_of bm (rx r)) = length (rx r) /\ forall m, In m (rm r) -> length (rx r) = (length m * c)%nat.

(* the two vectors handed to spearmanr are EQUAL *)
Lemma additive_pair w bias nb r : additive w bias -> exact_row w nb r ->
  model_pair score bm c c r = (fst (model_pair score bm c c r), fst (model_pair score bm c c r)).
Proof.
  intros Hadd (Hn & Hphi & Hw & Hb & Hm). unfold model_pair. cbn [fst]. f_equal. symmetry.
  apply map_ext_in. intros m Hin. rewrite Hphi. apply (additive_drop_is_attr w bias); auto.
Qed.

Lemma additive_pair_opp w bias nb r : additive w bias -> exact_row w nb r ->
  model_pair score bm c c (with_phi (map Qcopp) r)
  = (fst (model_pair score bm c c r), map Qcopp (fst (model_pair score bm c c r))).
Proof.
  intros Hadd (Hn & Hphi & Hw & Hb & Hm). rewrite model_pair_with_phi. f_equal. unfold model_pair. cbn [fst].
  rewrite map_map. apply map_ext_in. intros m Hin. rewrite attr_of_opp. f_equal. rewrite Hphi. symmetry.
  apply (additive_drop_is_attr w bias); auto.
Qed.

Lemma Forall2_map_l {A B C} (P : B -> C -> Prop) (f : A -> B) l l' :
  Forall2 P (map f l) l' -> Forall2 (fun x y => P (f x) y) l l'.
Proof. revert l'; induction l as [|x l IH]; intros l' H; inversion H; subst; constructor; auto. Qed.
Lemma Forall2_impl_in {A B} (P Q : A -> B -> Prop) l l' :
  (forall x y, In x l -> P x y -> Q x y) -> Forall2 P l l' -> Forall2 Q l l'.
Proof. intros HPQ H. induction H as [|x y l l' H0 H IH]; constructor.
  - apply HPQ; [left; reflexivity | exact H0].
  - apply IH. intros x' y' Hx'. apply HPQ. right; exact Hx'. Qed.

(* the rank variance of the drops of sample r: > 0 iff the correlation is defined *)
Definition drop_var (r : row) : Qc := rank_var (fst (model_pair score bm c c r)).

(* mufid_additive_exact: +1 for the exact attributions of an additive model ... *)
Theorem mufid_additive_exact w bias bs nb rows rs : additive w bias -> bs_ok bs -> (1 <= nb)%nat ->
  (forall r, In r rows -> exact_row w nb r) ->
  Forall2 corr_of (mufid_triples score bm c c bs nb rows) rs ->
  Forall2 (fun r rho => (0 < drop_var r -> rho = 1) /\ (drop_var r = 0 -> rho = 0)) rows rs.
Proof.
  intros Hadd Hb Hnb Hex. unfold mufid_triples.
  rewrite mufid_lists_unbatched by (try assumption; intros r Hr; apply (Hex r Hr)).
  rewrite map_map. intro H. apply Forall2_map_l in H. eapply Forall2_impl_in; [|exact H].
  intros r y Hr H2. cbv beta in H2. rewrite (additive_pair w bias nb r Hadd (Hex r Hr)) in H2. cbn [fst snd] in H2.
  rewrite spearman_self in H2. fold (drop_var r) in H2. split; intro Hv.
  - apply (corr_of_self _ _ Hv H2).
  - apply (corr_of_nan _ y) in H2; [exact H2|]. unfold t_va, t_vb. cbn [fst snd]. rewrite Hv. ring.
Qed.

(* ... and -1 for their negation *)
Theorem mufid_additive_exact_neg w bias bs nb rows rs : additive w bias -> bs_ok bs -> (1 <= nb)%nat ->
  (forall r, In r rows -> exact_row w nb r) ->
  Forall2 corr_of (mufid_triples score bm c c bs nb (map (with_phi (map Qcopp)) rows)) rs ->
  Forall2 (fun r rho => (0 < drop_var r -> rho = - (1)) /\ (drop_var r = 0 -> rho = 0)) rows rs.
Proof.
  intros Hadd Hb Hnb Hex. unfold mufid_triples.
  rewrite mufid_lists_unbatched; try assumption.
  2:{ intros r Hr. apply in_map_iff in Hr as [r' [<- Hr']]. rewrite rm_with_phi. apply (Hex r' Hr'). }
  rewrite !map_map. intro H. apply Forall2_map_l in H. eapply Forall2_impl_in; [|exact H].
  intros r y Hr H2. cbv beta in H2. rewrite (additive_pair_opp w bias nb r Hadd (Hex r Hr)) in H2. cbn [fst snd] in H2.
  rewrite spearman_opp in H2. fold (drop_var r) in H2. split; intro Hv.
  - apply (corr_of_anti _ _ Hv H2).
  - apply (corr_of_nan _ y) in H2; [exact H2|]. unfold t_va, t_vb. cbn [fst snd]. rewrite Hv. ring.
Qed.

(* the value of the metric: mean of the per-sample correlations *)
Lemma qmean_all (l : list Qc) d : l <> [] -> (forall x, In x l -> x = d) -> qmean l = d.
Proof. intros Hl H. unfold qmean. rewrite <- (map_id l). rewrite (map_ext_in _ (fun _ => d)) by exact H.
  rewrite qsum_const, map_length. field. apply qn_neq0. destruct l; [congruence | cbn [length]; lia]. Qed.

Lemma Forall2_all {A} (P : A -> Qc -> Prop) rows rs d : Forall2 P rows rs -> (forall r rho, In r rows -> P r rho -> rho = d) ->
  forall x, In x rs -> x = d.
Proof. induction 1 as [|r rho rows rs H0 H IH]; intros HP x Hx; [destruct Hx|]. destruct Hx as [<-|Hx].
  - apply (HP r rho); [left; reflexivity | exact H0].
  - apply IH; [intros r' rho' Hr'; apply HP; right; exact Hr' | exact Hx]. Qed.

Lemma Forall2_length' {A B} (P : A -> B -> Prop) l l' : Forall2 P l l' -> length l = length l'.
Proof. induction 1; cbn [length]; congruence. Qed.

Corollary mufid_additive_value w bias bs nb rows rs : additive w bias -> bs_ok bs -> (1 <= nb)%nat -> rows <> [] ->
  (forall r, In r rows -> exact_row w nb r) -> (forall r, In r rows -> 0 < drop_var r) ->
  (Forall2 corr_of (mufid_triples score bm c c bs nb rows) rs -> qmean rs = 1) /\
  (Forall2 corr_of (mufid_triples score bm c c bs nb (map (with_phi (map Qcopp)) rows)) rs -> qmean rs = - (1)).
Proof.
  intros Hadd Hb Hnb Hne Hex Hvar. split; intro H.
  - pose proof (mufid_additive_exact w bias bs nb rows rs Hadd Hb Hnb Hex H) as HF.
    apply qmean_all.
    + intro E. subst rs. apply Forall2_length' in HF. destruct rows; [congruence | discriminate].
    + apply (Forall2_all _ rows rs 1 HF). intros r rho Hr [K _]. apply K, Hvar, Hr.
  - pose proof (mufid_additive_exact_neg w bias bs nb rows rs Hadd Hb Hnb Hex H) as HF.
    apply qmean_all.
    + intro E. subst rs. apply Forall2_length' in HF. destruct rows; [congruence | discriminate].
    + apply (Forall2_all _ rows rs (- (1)) HF). intros r rho Hr [K _]. apply K, Hvar, Hr.
Qed.

(* mufid_constant_zero: when the score never varies over the applied subsets the metric is 0 *)
Theorem mufid_constant_zero cphi bs nb rows rs : bs_ok bs -> (1 <= nb)%nat ->
  (forall r, In r rows -> length (rm r) = nb) ->
  (forall r m, In r rows -> In m (rm r) -> score (degrade bm c (rx r) m) (rt r) = score (rx r) (rt r)) ->
  Forall2 corr_of (mufid_triples score bm c cphi bs nb rows) rs ->
  (forall rho, In rho rs -> rho = 0) /\ qmean rs = 0.
Proof.
  intros Hb Hnb Hok Hconst H. unfold mufid_triples in H. rewrite mufid_lists_unbatched in H by assumption.
  rewrite map_map in H. apply Forall2_map_l in H.
  assert (Hall : forall rho, In rho rs -> rho = 0).
  { apply (Forall2_all _ rows rs 0 H). intros r rho Hr Hc. cbv beta in Hc. apply (corr_of_nan _ rho) in Hc; [exact Hc|].
    unfold model_pair, spearman3, pearson3, t_va, t_vb. cbn [fst snd].
    fold (rank_var (map (fun m => score (rx r) (rt r) - score (degrade bm c (rx r) m) (rt r)) (rm r))).
    rewrite (rank_var_const _ 0); [ring|]. intros x Hx. apply in_map_iff in Hx as [m [<- Hm]].
    rewrite (Hconst r m Hr Hm). ring. }
  split; [exact Hall|]. destruct rs as [|rho rs']; [reflexivity|]. apply qmean_all; [discriminate | exact Hall].
Qed.

(* bounded: every per-sample correlation, hence their mean, lies in [-1, 1] *)
Lemma qmean_bounded (l : list Qc) : (forall x, In x l -> - (1) <= x /\ x <= 1) -> - (1) <= qmean l /\ qmean l <= 1.
Proof.
  intro H. destruct l as [|x0 l']; [unfold qmean; cbn; split; discriminate|]. set (l := x0 :: l') in *.
  assert (Hn : 0 < qn (length l)) by (apply qn_pos; cbn [l length]; lia).
  assert (Hs : - qn (length l) <= qsum l /\ qsum l <= qn (length l)).
  { clearbody l. clear Hn. induction l as [|x l IH]; [cbn; rewrite qn_0; split; discriminate|].
    cbn [qsum length]. rewrite qn_S. destruct (H x (or_introl eq_refl)) as [H1 H2].
    destruct IH as [I1 I2]; [intros y Hy; apply H; right; exact Hy|].
    generalize dependent (qsum l). generalize dependent (qn (length l)). intros N S I1 I2. split; qc2q; lra. }
  unfold qmean. generalize dependent (qsum l). generalize dependent (qn (length l)). intros N HN S [H1 H2].
  assert (E : S / N * N = S) by (field; intro K; subst; exact (Qclt_not_eq _ _ HN eq_refl)).
  generalize dependent (S / N). intros m E. subst S. split; qc2q; nra.
Qed.

Theorem mufid_bounded cphi bs nb rows rs : bs_ok bs -> (1 <= nb)%nat ->
  (forall r, In r rows -> length (rm r) = nb) ->
  Forall2 corr_of (mufid_triples score bm c cphi bs nb rows) rs ->
  (forall rho, In rho rs -> - (1) <= rho /\ rho <= 1) /\ - (1) <= qmean rs /\ qmean rs <= 1.
Proof.
  intros Hb Hnb Hok H. unfold mufid_triples in H. rewrite mufid_lists_unbatched in H by assumption.
  rewrite map_map in H. apply Forall2_map_l in H.
  assert (Hall : forall rho, In rho rs -> - (1) <= rho /\ rho <= 1).
  { clear Hb. induction H as [|r rho rows rs H0 H IH]; intros x Hx; [destruct Hx|]. destruct Hx as [<-|Hx].
    - assert (Hl : length (fst (model_pair score bm c cphi r)) = length (snd (model_pair score bm c cphi r)))
        by (unfold model_pair; cbn [fst snd]; rewrite !map_length; reflexivity).
      destruct (spearman_bounded _ _ Hl) as (B1 & B2 & B3). apply (corr_of_bounded _ _ B1 B2 B3 H0).
    - apply IH; [intros r' Hr'; apply Hok; right; exact Hr' | exact Hx]. }
  split; [exact Hall | apply qmean_bounded; exact Hall].
Qed.

(* link with the executable value: when [sqrt] is a square root AT the product of the two variances, the value
   the model computes for a sample is the correlation in the sense of [corr_of] *)
Lemma corr_nan0_is_corr sqrt t : (t_va t * t_vb t <> 0 -> 0 < sqrt (t_va t * t_vb t) /\
                                   sqrt (t_va t * t_vb t) * sqrt (t_va t * t_vb t) = t_va t * t_vb t) ->
  corr_of t (corr_nan0 sqrt t).
Proof.
  intro H. unfold corr_of, corr_nan0. destruct (Qceqb (t_va t * t_vb t) 0) eqn:E; [reflexivity|].
  assert (HP : t_va t * t_vb t <> 0) by (intro K; apply Qceqb_eq in K; congruence).
  destruct (H HP) as [Hpos Hsq]. clear H. set (s := sqrt (t_va t * t_vb t)) in *. clearbody s.
  assert (Hs : s <> 0) by (intro K; subst; exact (Qclt_not_eq _ _ Hpos eq_refl)).
  split.
  - rewrite <- Hsq. field. exact Hs.
  - replace (t_cov t / s * t_cov t) with (t_cov t * t_cov t * / s) by (field; exact Hs).
    assert (Hi : s * / s = 1) by (field; exact Hs).
    generalize dependent (/ s). intros i Hi. generalize (t_cov t). intro cv. clear - Hpos Hi.
    assert (Hi0 : 0 < i).
    { destruct (Qclt_le_dec 0 i) as [K|K]; [exact K|]. exfalso. qc2q. nra. }
    qc2q. nra.
Qed.
End Consequences.

(* =====================================================================================================
   6. AverageStability
   ===================================================================================================== *)
Section StabilityProofs.
Open Scope Qc_scope.

Lemma map2_repeat_r' {A B C} (f : A -> B -> C) t w : map2 f w (repeat t (length w)) = map (fun e => f e t) w.
Proof. apply map2_repeat_r. reflexivity. Qed.

Lemma combine_map_l {A A' B} (g : A -> A') (l : list A) (n : list B) :
  combine (map g l) n = map (fun q => (g (fst q), snd q)) (combine l n).
Proof. revert n; induction l as [|x l IH]; intros [|y n]; cbn [map combine]; try reflexivity. rewrite IH. reflexivity. Qed.

(* for a row-wise explainer the model is the reference definition (base explanations computed or given) *)
Theorem stability_correct (e : sample -> sample -> sample) dist xs ts noises :
  stability (expl_rowwise e) dist None xs ts noises = spec_stability e dist xs ts noises /\
  stability (expl_rowwise e) dist (Some (map2 e xs ts)) xs ts noises = spec_stability e dist xs ts noises.
Proof.
  assert (H : stability (expl_rowwise e) dist None xs ts noises = spec_stability e dist xs ts noises).
  { unfold stability, spec_stability, expl_rowwise. f_equal.
    rewrite (map2_combine e xs ts), combine_map_self, combine_map_l, map_map. apply map_ext.
    intros [[x t] ns]. cbn [fst snd]. unfold stab_one, spec_stab_one, neighbors, stab_labels. f_equal.
    rewrite map2_map_l. rewrite <- (map_length (vadd x) ns) at 1. rewrite map_length.
    rewrite map2_repeat_r', map_map. reflexivity. }
  split; [exact H|]. rewrite <- H. reflexivity.
Qed.

Lemma qmean_nonneg (l : list Qc) : (forall x, In x l -> 0 <= x) -> 0 <= qmean l.
Proof.
  intro H. destruct l as [|x0 l']; [unfold qmean; cbn; discriminate|]. set (l := x0 :: l') in *.
  assert (Hn : 0 < qn (length l)) by (apply qn_pos; cbn [l length]; lia).
  assert (Hs : 0 <= qsum l).
  { clearbody l. clear Hn. induction l as [|x l IH]; [apply Qcle_refl|]. cbn [qsum].
    pose proof (H x (or_introl eq_refl)) as H1.
    assert (I : 0 <= qsum l) by (apply IH; intros y Hy; apply H; right; exact Hy).
    clear IH. generalize dependent (qsum l). intros S I. qc2q. lra. }
  unfold qmean. generalize dependent (qsum l). generalize dependent (qn (length l)). intros N HN S HS.
  assert (E : S / N * N = S) by (field; intro K; subst; exact (Qclt_not_eq _ _ HN eq_refl)).
  generalize dependent (S / N). intros m E. subst S. clear - HN HS.
  destruct (Qclt_le_dec m 0) as [K|K]; [exfalso; qc2q; nra | exact K].
Qed.

(* stability_nonneg: for ANY explainer (batch function), any noises, a non-negative distance gives a
   non-negative score *)
Theorem stability_nonneg expl dist base xs ts noises : (forall a b, 0 <= dist a b) ->
  0 <= stability expl dist base xs ts noises.
Proof.
  intro Hd. unfold stability. apply qmean_nonneg. intros v Hv. apply in_map_iff in Hv as [p [<- _]].
  unfold stab_one. apply qmean_nonneg. intros d Hin. apply in_map_iff in Hin as [phi [<- _]]. apply Hd.
Qed.

Lemma dist_l1_nonneg a b : 0 <= dist_l1 a b.
Proof. unfold dist_l1. induction (vsub a b) as [|d l IH]; [apply Qcle_refl|]. cbn [map qsum].
  pose proof (Qcabs_nonneg d) as H. generalize dependent (Qcabs d). generalize dependent (qsum (map Qcabs l)).
  intros S HS A HA. qc2q. lra. Qed.
Lemma dist_l2_nonneg sqrt a b : (forall x, 0 <= sqrt x) -> 0 <= dist_l2 sqrt a b.
Proof. intro H. apply H. Qed.

Lemma vsub_self a : forall d, In d (vsub a a) -> d = 0.
Proof. unfold vsub. rewrite map2_same. intros d H. apply in_map_iff in H as [x [<- _]]. ring. Qed.
Lemma dist_l1_self a : dist_l1 a a = 0.
Proof. unfold dist_l1. rewrite (qsum_map_ext _ (fun _ => 0)); [apply qsum_zero|].
  intros d Hd. rewrite (vsub_self a d Hd). reflexivity. Qed.
Lemma sqdist_self a : sqdist a a = 0.
Proof. unfold sqdist. rewrite (qsum_map_ext _ (fun _ => 0)); [apply qsum_zero|].
  intros d Hd. rewrite (vsub_self a d Hd). ring. Qed.
Lemma dist_l2_self sqrt a : sqrt 0 = 0 -> dist_l2 sqrt a a = 0.
Proof. intro H. unfold dist_l2. rewrite sqdist_self. exact H. Qed.

Lemma qmean_zero (l : list Qc) : (forall x, In x l -> x = 0) -> qmean l = 0.
Proof. intro H. destruct l as [|x l']; [reflexivity|]. apply qmean_all; [discriminate | exact H]. Qed.

(* stability_constant_zero: an explainer that ignores its input scores 0 (distance with d(a,a) = 0) *)
Theorem stability_constant_zero (e : sample -> sample -> sample) dist xs ts noises :
  (forall x x' t, e x t = e x' t) -> (forall a, dist a a = 0) ->
  stability (expl_rowwise e) dist None xs ts noises = 0.
Proof.
  intros He Hd. rewrite (proj1 (stability_correct e dist xs ts noises)). unfold spec_stability.
  apply qmean_zero. intros v Hv. apply in_map_iff in Hv as [[[x t] ns] [<- _]]. cbn [fst snd].
  unfold spec_stab_one. apply qmean_zero. intros d Hin. apply in_map_iff in Hin as [n [<- _]].
  rewrite (He (vadd x n) x t). apply Hd.
Qed.

(* stability_count: the explainer is asked, for every input, about exactly its nb_samples neighbours x + e_j,
   each with the input's own label — there is no batch size in this loop *)
Theorem stability_count xs ts noises nb : (forall ns, In ns noises -> length ns = nb) ->
  Forall (fun q => length (fst q) = nb /\ length (snd q) = nb) (stability_queries xs ts noises) /\
  stability_queries xs ts noises
  = map (fun p => (map (vadd (fst (fst p))) (snd p), repeat (snd (fst p)) (length (snd p))))
        (combine (combine xs ts) noises).
Proof.
  intro H. split; [|reflexivity]. apply Forall_forall. intros q Hq. unfold stability_queries in Hq.
  apply in_map_iff in Hq as [[[x t] ns] [<- Hin]]. cbn [fst snd]. apply in_combine_r in Hin.
  unfold neighbors, stab_labels. rewrite map_length, repeat_length. split; apply H, Hin.
Qed.

(* what stab_one hands the explainer is the entry of stability_queries *)
Lemma stab_one_queries expl dist x t phi ns :
  stab_one expl dist x t phi ns = qmean (map (fun phi_n => dist phi_n phi) (expl (neighbors x ns) (stab_labels t ns))).
Proof. reflexivity. Qed.
End StabilityProofs.

(* the executable square root used by the correspondence meets the hypotheses of the l2 theorems *)
Lemma Q2Qc_nonneg (z : Q) : (0 <= z)%Q -> (0 <= Q2Qc z)%Qc.
Proof. intro H. unfold Qcle. cbn [this Q2Qc]. rewrite !Qred_correct. exact H. Qed.
Lemma qsqrt9_nonneg x : (0 <= qsqrt9 x)%Qc.
Proof. unfold qsqrt9. apply Q2Qc_nonneg. unfold Qle. cbn [Qnum Qden].
  pose proof (Z.sqrt_nonneg (Qnum (this x) * Z.pos (Qden (this x)) * Z.pos sqrt_scale * Z.pos sqrt_scale)). lia. Qed.
Lemma qsqrt9_zero : qsqrt9 0%Qc = 0%Qc.
Proof. apply Qc_is_canon. vm_compute. reflexivity. Qed.

(* =====================================================================================================
   7. when is the correlation defined: the rank variance is 0 iff all entries are tied
   ===================================================================================================== *)
Section RankVar.
Open Scope Qc_scope.
Lemma sumsq_zero (l : list Qc) : qsum (map (fun x => x * x) l) = 0 -> forall x, In x l -> x = 0.
Proof.
  induction l as [|y l IH]; intros H x Hx; [destruct Hx|]. cbn [map qsum] in H.
  pose proof (qsum_sq_nonneg (fun x => x) l) as HS. cbv beta in HS.
  assert (Hy : y * y = 0 /\ qsum (map (fun x => x * x) l) = 0).
  { generalize dependent (qsum (map (fun x0 => x0 * x0) l)). intros S _ H HS. clear - H HS.
    assert (Hyy : 0 <= y * y) by (clear; generalize y; intro d; qc2q; nra).
    split; apply Qcle_antisym; try assumption; qc2q; lra. }
  destruct Hy as [Hy HS0]. destruct Hx as [<-|Hx].
  - destruct (Qcmult_integral _ _ Hy); assumption.
  - apply IH; assumption.
Qed.

Lemma count_le_mono v x y : x < y -> (count_lt v x + count_eq v x <= count_lt v y)%nat.
Proof.
  intro H. unfold count_lt, count_eq. induction v as [|z v IH]; [cbn; lia|]. cbn [filter].
  assert (F1 : Qcltb z x = true -> z < x) by apply Qcltb_lt.
  assert (F2 : Qceqb z x = true -> z = x) by apply Qceqb_eq.
  assert (F3 : Qcltb z y = false -> y <= z).
  { intro E. apply Qcnot_lt_le. intro K. apply Qcltb_lt in K. congruence. }
  destruct (Qcltb z x), (Qceqb z x), (Qcltb z y); cbn [length]; try lia; exfalso;
    try (specialize (F1 eq_refl)); try (specialize (F2 eq_refl)); try (specialize (F3 eq_refl)); clear IH;
    try subst z; qc2q; lra.
Qed.

Lemma count_eq_pos v x : In x v -> (1 <= count_eq v x)%nat.
Proof. unfold count_eq. induction v as [|z v IH]; intro H; [destruct H|]. destruct H as [->|H]; cbn [filter].
  - rewrite (proj2 (Qceqb_eq x x) eq_refl). cbn [length]. lia.
  - destruct (Qceqb z x); cbn [length]; [lia | apply IH, H]. Qed.

Lemma qn_le a b : (a <= b)%nat -> qn a <= qn b.
Proof. intro H. replace b with (a + (b - a))%nat by lia. rewrite qn_plus.
  assert (K : 0 <= qn (b - a)). { destruct (b - a)%nat; [rewrite qn_0; apply Qcle_refl | apply Qclt_le_weak, qn_pos; lia]. }
  generalize dependent (qn (b - a)). generalize (qn a). intros A B K. qc2q. lra. Qed.

(* distinct values get distinct average ranks *)
Lemma rank_lt v x y : In x v -> In y v -> x < y -> rank v x < rank v y.
Proof.
  intros Hx Hy H. unfold rank.
  pose proof (qn_le _ _ (count_le_mono v x y H)) as H1. rewrite qn_plus in H1.
  pose proof (qn_le _ _ (count_eq_pos v x Hx)) as H2. pose proof (qn_le _ _ (count_eq_pos v y Hy)) as H3.
  change (qn 1) with 1 in *.
  generalize dependent (qn (count_lt v x)). generalize dependent (qn (count_eq v x)).
  generalize dependent (qn (count_lt v y)). generalize dependent (qn (count_eq v y)).
  intros ey H3 ly ex H2 lx H1.
  assert (E : forall z : Qc, z / two = z * half).
  { intro z. unfold Qcdiv. f_equal. }
  rewrite !E. unfold half, q. qc2q. lra.
Qed.

Lemma rank_var_pos v x y : In x v -> In y v -> x <> y -> 0 < rank_var v.
Proof.
  intros Hx Hy Hne.
  destruct (Qcle_lt_or_eq _ _ (rank_var_nonneg v)) as [K|K]; [exact K|]. exfalso.
  unfold rank_var in K. symmetry in K. rewrite dot_self_as_sum in K.
  pose proof (sumsq_zero _ K) as Hz. unfold centered in Hz. cbv zeta in Hz.
  assert (Hr : forall z, In z v -> rank v z = qmean (ranks v)).
  { intros z Hzv. assert (Hin : In (rank v z - qmean (ranks v)) (map (fun x0 => x0 - qmean (ranks v)) (ranks v))).
    { apply in_map_iff. exists (rank v z). split; [reflexivity|]. unfold ranks. apply in_map. exact Hzv. }
    apply Hz in Hin. apply (f_equal (fun u => u + qmean (ranks v))) in Hin. ring_simplify in Hin. exact Hin. }
  assert (Heq : rank v x = rank v y) by (rewrite (Hr x Hx), (Hr y Hy); reflexivity).
  destruct (Qc_trichotomy x y) as [H|[H|H]]; [|contradiction|].
  - pose proof (rank_lt v x y Hx Hy H) as L. rewrite Heq in L. exact (Qclt_not_eq _ _ L eq_refl).
  - pose proof (rank_lt v y x Hy Hx H) as L. rewrite Heq in L. exact (Qclt_not_eq _ _ L eq_refl).
Qed.

(* the drops of a sample are not all tied as soon as two of its subsets change the score differently *)
Lemma drop_var_pos (score : sample -> sample -> Qc) bm c r m m' : In m (rm r) -> In m' (rm r) ->
  score (degrade bm c (rx r) m) (rt r) <> score (degrade bm c (rx r) m') (rt r) -> 0 < drop_var score bm c r.
Proof.
  intros Hm Hm' Hne. unfold drop_var, model_pair. cbn [fst].
  apply (rank_var_pos _ (score (rx r) (rt r) - score (degrade bm c (rx r) m) (rt r))
                        (score (rx r) (rt r) - score (degrade bm c (rx r) m') (rt r))).
  - apply in_map_iff. exists m. split; [reflexivity | exact Hm].
  - apply in_map_iff. exists m'. split; [reflexivity | exact Hm'].
  - intro E. apply Hne. apply (f_equal (fun z => score (rx r) (rt r) - z)) in E. ring_simplify in E. exact E.
Qed.
End RankVar.
