(* C15/Spec.v — the property's own words, no batching, no accumulators, no reshapes.

   MuFidelity: for every sample, over the nb_samples random subsets S it applied (S = positions where the mask is 0):
     drop(S) = score(x) - score(x with S set to the baseline),  attr(S) = sum of the attributions of S;
     the metric is the mean over samples of the Spearman correlation between drop and attr (0 when undefined).
   The correlation itself needs a square root; it is specified relationally: r is the correlation of the triple
   (cov, var_a, var_b) when r^2 var_a var_b = cov^2 and r has the sign of cov (r = 0 by the code's NaN -> 0 rule
   when a variance is 0).  This determines r uniquely and involves no root.

   AverageStability: mean over samples of the mean distance between the explanation of x and the explanations of
   its nb_samples neighbours x + e. *)
From Xpl Require Export C15.Model.
Close Scope Qc_scope. Open Scope nat_scope.
Open Scope Qc_scope.

(* ---- correlation, relationally ---- *)
Definition corr_of (t : triple) (r : Qc) : Prop :=
  if Qceqb (t_va t * t_vb t) 0 then r = 0
  else r * r * (t_va t * t_vb t) = t_cov t * t_cov t /\ 0 <= r * t_cov t.

(* a mask is a 0/1 list: 1 = kept, 0 = in the subset S that is set to the baseline *)
Definition binary (m : sample) : Prop := forall v, In v m -> v = 0 \/ v = 1.
Definition in_subset (m : sample) (p : nat) : bool := Qceqb (nthq m p) 0.

Section MuFidelitySpec.
Variable score : sample -> sample -> Qc.
Variable bm : bmode.
Variables c cphi : nat.

(* x with the subset set to the baseline: flat index k belongs to position k / c (all channels together) *)
Definition with_baseline (x m : sample) : sample :=
  map (fun k => if in_subset m (k / c) then nthq (baseline_of bm x) k else nthq x k) (seq 0 (length x)).
Definition drop (x t m : sample) : Qc := score x t - score (with_baseline x m) t.
(* sum of the attributions of the subset *)
Definition attr_sum (phi m : sample) : Qc :=
  qsum (map (fun k => if in_subset m (k / cphi) then nthq phi k else 0) (seq 0 (length phi))).

(* per sample: the two vectors that are correlated, one entry per applied subset, same subset at the same index *)
Definition spec_pair (r : row) : list Qc * list Qc :=
  (map (drop (rx r) (rt r)) (rm r), map (attr_sum (rphi r)) (rm r)).
Definition spec_pairs (rows : list row) : list (list Qc * list Qc) := map spec_pair rows.
Definition spec_triples (rows : list row) : list triple :=
  map (fun pa => spearman3 (fst pa) (snd pa)) (spec_pairs rows).

(* [v] is the value of the metric: the mean of per-sample correlations [rs] *)
Definition is_mufid (rows : list row) (rs : list Qc) (v : Qc) : Prop :=
  Forall2 corr_of (spec_triples rows) rs /\ v = qmean rs.
End MuFidelitySpec.

(* sizes as the API produces them: every input has npos*c entries, its explanation npos*cphi, each of its nb masks
   npos 0/1 entries, and the baseline has the shape of the input *)
Definition row_ok (bm : bmode) (c cphi nb : nat) (r : row) : Prop :=
  length (rm r) = nb /\
  forall m, In m (rm r) ->
    binary m /\ length (rx r) = (length m * c)%nat /\ length (rphi r) = (length m * cphi)%nat /\
    length (baseline_of bm (rx r)) = length (rx r).

Section StabilitySpec.
Variable e : sample -> sample -> sample.        (* a row-wise explainer *)
Variable dist : sample -> sample -> Qc.
Definition spec_stab_one (x t : sample) (noises : list sample) : Qc :=
  qmean (map (fun n => dist (e (vadd x n) t) (e x t)) noises).
Definition spec_stability (xs ts : list sample) (noises : list (list sample)) : Qc :=
  qmean (map (fun p => spec_stab_one (fst (fst p)) (snd (fst p)) (snd p)) (combine (combine xs ts) noises)).
End StabilitySpec.
