(* C15/Aux.v — general list / Qc lemmas used by C15/Proofs.v.
   The first block is a copy of lemmas of C01/Aux.v (candidates for Base); the rest is new. *)
From Xpl Require Import Base.Tensor.
From Coq Require Import Arith Lqa.
Close Scope Qc_scope. Open Scope nat_scope.

Lemma firstn_add {A} a b (l : list A) : firstn (a + b) l = firstn a l ++ firstn b (skipn a l).
Proof. revert l; induction a as [|a IH]; intro l; [reflexivity|].
  destruct l as [|x l]; cbn [plus firstn skipn app]; [destruct b; reflexivity|]. f_equal. apply IH. Qed.

Lemma flat_map_map {A B C} (f : A -> B) (g : B -> list C) l : flat_map g (map f l) = flat_map (fun x => g (f x)) l.
Proof. induction l as [|x l IH]; cbn [map flat_map]; [reflexivity | rewrite IH; reflexivity]. Qed.

Lemma rep_map {A B} (f : A -> B) k l : rep k (map f l) = flat_map (fun x => repeat (f x) k) l.
Proof. unfold rep. apply flat_map_map. Qed.

Lemma map2_app {A B C} (f : A -> B -> C) a a' b b' : length a = length b ->
  map2 f (a ++ a') (b ++ b') = map2 f a b ++ map2 f a' b'.
Proof. revert b; induction a as [|x a IH]; intros [|y b] H; cbn [length] in H; try discriminate; [reflexivity|].
  cbn [app map2]. f_equal. apply IH. lia. Qed.

Lemma map2_flat_map {A B C D} (f : B -> C -> D) (F : A -> list B) (G : A -> list C) l :
  (forall r, In r l -> length (F r) = length (G r)) ->
  map2 f (flat_map F l) (flat_map G l) = flat_map (fun r => map2 f (F r) (G r)) l.
Proof. induction l as [|r l IH]; intro H; [reflexivity|]. cbn [flat_map].
  rewrite map2_app by (apply H; left; reflexivity). f_equal. apply IH. intros; apply H; right; assumption. Qed.

Lemma map2_repeat_r {A B C} (f : A -> B -> C) t k w : length w = k -> map2 f w (repeat t k) = map (fun e => f e t) w.
Proof. intros <-. induction w as [|y w IH]; [reflexivity|]. cbn [length repeat map2 map]. f_equal. exact IH. Qed.

Lemma flat_map_ext_in {A B} (f g : A -> list B) l : (forall x, In x l -> f x = g x) -> flat_map f l = flat_map g l.
Proof. induction l as [|x l IH]; intro H; [reflexivity|]. cbn [flat_map]. rewrite (H x) by (left; reflexivity).
  f_equal. apply IH. intros; apply H; right; assumption. Qed.

(* tf.reshape of (n*k, ...) rows into (n, k, ...): consecutive groups of k *)
Lemma chunks_flat_map_exact {A B} (F : A -> list B) k l : 1 <= k -> (forall r, In r l -> length (F r) = k) ->
  chunks k (flat_map F l) = map F l.
Proof. intros Hk. induction l as [|r l IH]; intro H; [reflexivity|]. cbn [flat_map map].
  assert (Hr : length (F r) = k) by (apply H; left; reflexivity).
  rewrite chunks_cons_step; [| exact Hk | destruct (F r); cbn [length] in Hr; [lia | discriminate]].
  rewrite firstn_app, skipn_app, Hr, Nat.sub_diag. cbn [firstn skipn]. rewrite app_nil_r.
  rewrite firstn_all2, skipn_all2 by lia. cbn [app]. f_equal. apply IH. intros; apply H; right; assumption. Qed.

Lemma in_chunks_in {A} b (l : list A) c x : 1 <= b -> In c (chunks b l) -> In x c -> In x l.
Proof. intros Hb Hc Hx. rewrite <- (concat_chunks b l Hb). apply in_concat. exists c. split; assumption. Qed.

Lemma map2_map_map {A B C D} (f : B -> C -> D) (g : A -> B) (h : A -> C) l :
  map2 f (map g l) (map h l) = map (fun x => f (g x) (h x)) l.
Proof. rewrite map2_map_l, map2_map_r, map2_same. reflexivity. Qed.

Lemma map2_self_map {A B C} (f : A -> B -> C) (h : A -> B) l : map2 f l (map h l) = map (fun x => f x (h x)) l.
Proof. rewrite map2_map_r, map2_same. reflexivity. Qed.

Lemma combine_map_self {A B} (f : A -> B) l : combine l (map f l) = map (fun x => (x, f x)) l.
Proof. induction l as [|x l IH]; cbn [map combine]; [reflexivity | rewrite IH; reflexivity]. Qed.

Lemma combine_map_map {A B C} (f : A -> B) (g : A -> C) l : combine (map f l) (map g l) = map (fun x => (f x, g x)) l.
Proof. induction l as [|x l IH]; cbn [map combine]; [reflexivity | rewrite IH; reflexivity]. Qed.

Open Scope Qc_scope.

Lemma qn_S n : qn (S n) = qn n + 1.
Proof. unfold qn. apply Qc_is_canon. rewrite Qc_plus_q, !Qc_Q2Qc_q. unfold Qeq; cbn [Qnum Qden Qplus].
  rewrite Nat2Z.inj_succ. change (Z.pos (1 * 1)) with 1%Z. lia. Qed.
Lemma qn_0 : qn 0 = 0.
Proof. apply Qc_is_canon. reflexivity. Qed.
Lemma qn_pos n : (1 <= n)%nat -> 0 < qn n.
Proof. intro H. unfold qn. change (Qlt (this 0) (this (Q2Qc (Z.of_nat n # 1)))).
  rewrite (Qc_Q2Qc_q (Z.of_nat n # 1)). unfold Qlt; cbn. lia. Qed.
Lemma qn_neq0 n : (1 <= n)%nat -> qn n <> 0.
Proof. intros H E. pose proof (qn_pos n H) as P. rewrite E in P. exact (Qclt_not_eq _ _ P eq_refl). Qed.
Lemma qn_plus a b : qn (a + b) = qn a + qn b.
Proof. induction a as [|a IH]; cbn [plus]; [rewrite qn_0; ring | rewrite !qn_S, IH; ring]. Qed.
Lemma two_neq0 : two <> 0.
Proof. intro E. apply (f_equal this) in E. discriminate. Qed.
Lemma two_eq : two = 1 + 1.
Proof. apply Qc_is_canon. reflexivity. Qed.
