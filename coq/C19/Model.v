(* C19/Model.v — executable model of xplique/features_visualizations/objectives.py (Objective) and of the
   range normalisation of preconditioning.py.  No proofs here.

   Python objects are heap cells: re-using a Python variable re-uses the OBJECT, so operator overloads that
   rebind an attribute of an operand are visible through every alias.  Two semantics are given:

   [step]        the code of the current tree (after the repairs recorded in known_findings.json):
       __add__ : Objective(..., multipliers = self.multipliers + term.multipliers, ...)        (fresh object)
       __sub__ : self + Objective(..., multipliers = [-1.0 * m for m in term.multipliers], ...) (fresh objects)
       __mul__ : Objective(..., multipliers = [m * factor for m in self.multipliers], ...)      (fresh object)
       compile : loss = 0.0; for i: loss += funcs[i](outputs[i], masks[i]) * multipliers[i]
   [step_orig]   the code as found (snapshot commit 496a248), kept to state what was wrong:
       __sub__ : term.multipliers = [-1.0 * m ...]; return self + term          (mutates the operand)
       __mul__ : self.multipliers = [m * factor ...]; return self               (mutates and aliases)
       compile : loss += funcs[i](...); loss *= multipliers[i]                  (((l0*m0 + l1)*m1 + ...)
*)
From Xpl Require Export Base.Tensor.
Close Scope Qc_scope. Open Scope nat_scope.

Definition var := nat.
Definition addr := nat.
(* an Objective object: the ids of its sub-objectives (layers / masks / funcs / names travel together and are
   never modified) and its multipliers *)
Record obj := { subs : list nat; mults : list Qc }.

Inductive stmt :=
| SLeaf (dst : var) (id : nat) (m : Qc)     (* dst = Objective.layer/channel/neuron/direction(..., multiplier=m) *)
| SAdd (dst a b : var)                       (* dst = a + b *)
| SSub (dst a b : var)                       (* dst = a - b *)
| SMul (dst a : var) (c : Qc).               (* dst = a * c   (or c * a) *)

Record state := { heap : list obj; env : list (var * addr) }.
Definition init : state := {| heap := []; env := [] |}.

Fixpoint lookup (e : list (var * addr)) (v : var) : option addr :=
  match e with [] => None | (w, a) :: r => if Nat.eqb w v then Some a else lookup r v end.
Definition deref (s : state) (v : var) : option obj :=
  match lookup (env s) v with Some a => nth_error (heap s) a | None => None end.

Definition alloc (s : state) (o : obj) : state * addr :=
  ({| heap := heap s ++ [o]; env := env s |}, length (heap s)).
Definition bind (s : state) (v : var) (a : addr) : state :=
  {| heap := heap s; env := (v, a) :: env s |}.
(* allocate a fresh object and bind the variable to it *)
Definition new (s : state) (dst : var) (o : obj) : state := bind (fst (alloc s o)) dst (snd (alloc s o)).
Fixpoint set_nth {A} (l : list A) (i : nat) (x : A) : list A :=
  match l, i with
  | [], _ => []
  | _ :: r, O => x :: r
  | y :: r, S j => y :: set_nth r j x
  end.

Open Scope Qc_scope.
Definition obj_add (a b : obj) : obj := {| subs := subs a ++ subs b; mults := mults a ++ mults b |}.
Definition obj_neg (b : obj) : obj := {| subs := subs b; mults := map (fun m => (- (1)) * m) (mults b) |}.
Definition obj_scale (c : Qc) (a : obj) : obj := {| subs := subs a; mults := map (fun m => m * c) (mults a) |}.

(* --- current code: every operator builds fresh objects --- *)
Definition step (s : state) (st : stmt) : state :=
  match st with
  | SLeaf dst id m => new s dst {| subs := [id]; mults := [m] |}
  | SAdd dst a b =>
      match deref s a, deref s b with
      | Some oa, Some ob => new s dst (obj_add oa ob)
      | _, _ => s
      end
  | SSub dst a b =>
      match deref s a, deref s b with
      | Some oa, Some ob =>
          (* the negated copy of the right operand is a fresh object, then the sum is another one *)
          new (fst (alloc s (obj_neg ob))) dst (obj_add oa (obj_neg ob))
      | _, _ => s
      end
  | SMul dst a c =>
      match deref s a with
      | Some oa => new s dst (obj_scale c oa)
      | None => s
      end
  end.
Definition run (p : list stmt) : state := fold_left step p init.

(* --- the code as found --- *)
Definition step_orig (s : state) (st : stmt) : state :=
  match st with
  | SLeaf dst id m => new s dst {| subs := [id]; mults := [m] |}
  | SAdd dst a b =>
      match deref s a, deref s b with
      | Some oa, Some ob => new s dst (obj_add oa ob)
      | _, _ => s
      end
  | SSub dst a b =>
      match deref s a, lookup (env s) b, deref s b with
      | Some _, Some ab, Some ob =>
          let s0 := {| heap := set_nth (heap s) ab (obj_neg ob); env := env s |} in   (* term.multipliers = ... *)
          match deref s0 a, deref s0 b with                                            (* a may alias b *)
          | Some oa', Some ob' => new s0 dst (obj_add oa' ob')
          | _, _ => s
          end
      | _, _, _ => s
      end
  | SMul dst a c =>
      match lookup (env s) a, deref s a with
      | Some aa, Some oa =>
          bind {| heap := set_nth (heap s) aa (obj_scale c oa); env := env s |} dst aa  (* return self *)
      | _, _ => s
      end
  end.
Definition run_orig (p : list stmt) : state := fold_left step_orig p init.

(* --- compile: the loss of one combination, given the sub-losses [L id] on some model outputs --- *)
Definition compiled_loss (L : nat -> Qc) (o : obj) : Qc :=
  fold_left (fun loss im => loss + L (fst im) * snd im) (combine (subs o) (mults o)) 0.
Definition compiled_loss_orig (L : nat -> Qc) (o : obj) : Qc :=
  fold_left (fun loss im => (loss + L (fst im)) * snd im) (combine (subs o) (mults o)) 0.

(* --- compile: combinations of the sub-objectives' targets — itertools.product( *lists ) --- *)
Fixpoint cartesian {A} (ls : list (list A)) : list (list A) :=
  match ls with
  | [] => [[]]
  | l :: r => flat_map (fun x => map (cons x) (cartesian r)) l
  end.
(* the combinations of targets, one target index per sub-objective position (last position varies fastest);
   names are the corresponding target names joined by " & ", the optimised inputs are one per combination *)
Definition combos (o : obj) (ntargets : nat -> nat) : list (list nat) :=
  cartesian (map (fun id => seq 0 (ntargets id)) (subs o)).
(* the loss vector over the combinations: [Lr j r] is the sub-loss of the sub-objective at position j of the
   object, for the target that combination r assigns to it, on row r of the model outputs *)
Definition compiled_losses (Lr : nat -> nat -> Qc) (o : obj) (ncomb : nat) : list Qc :=
  map (fun r => fold_left (fun loss jm => loss + Lr (fst jm) r * snd jm)
                          (combine (seq 0 (length (mults o))) (mults o)) 0)
      (seq 0 ncomb).

(* --- preconditioning.to_valid_rgb / to_valid_grayscale after the normaliser:
       x - min; / max(x - min); * (hi - lo); + lo --- *)
Definition list_min (l : list Qc) : Qc := match l with [] => 0 | x :: r => fold_left Qcmin r x end.
Definition list_max (l : list Qc) : Qc := match l with [] => 0 | x :: r => fold_left Qcmax r x end.
Definition rescale (lo hi : Qc) (img : list Qc) : list Qc :=
  let shifted := map (fun x => x - list_min img) img in
  let scaled := map (fun y => y / list_max shifted) shifted in
  map (fun z => z * (hi - lo) + lo) scaled.
Definition clip (lo hi x : Qc) : Qc := Qcmax lo (Qcmin x hi).

(* fft_2d_freq / fft_to_rgb: size of the last axis produced by irfft2d for an image side S *)
Close Scope Qc_scope.
(* np.fft.fftfreq(S)[: S//2 + 1 + (S odd)] : a slice, hence at most S entries *)
Definition fft_cols (S : nat) : nat := Nat.min S (S / 2 + 1 + (if Nat.eqb (S mod 2) 1 then 1 else 0)).
Definition irfft_width (S : nat) : nat := 2 * (fft_cols S - 1).
