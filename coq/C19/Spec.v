(* C19/Spec.v — what an objective expression MEANS: a formal linear combination sum_i c_i O_i of sub-objectives,
   obtained by ordinary algebra; its loss on some outputs is sum_i c_i loss_i. *)
From Xpl Require Export C19.Model.
Open Scope Qc_scope.

Definition lincomb := list (nat * Qc).                      (* [(id, coefficient)] *)
Definition lin (L : nat -> Qc) (t : lincomb) : Qc := qsum (map (fun im => snd im * L (fst im)) t).
Definition lc_neg (t : lincomb) : lincomb := map (fun im => (fst im, - snd im)) t.
Definition lc_scale (c : Qc) (t : lincomb) : lincomb := map (fun im => (fst im, c * snd im)) t.

Fixpoint dlookup (d : list (var * lincomb)) (v : var) : option lincomb :=
  match d with [] => None | (w, t) :: r => if Nat.eqb w v then Some t else dlookup r v end.

Definition dstep (d : list (var * lincomb)) (st : stmt) : list (var * lincomb) :=
  match st with
  | SLeaf dst id m => (dst, [(id, m)]) :: d
  | SAdd dst a b => match dlookup d a, dlookup d b with
                    | Some ta, Some tb => (dst, ta ++ tb) :: d | _, _ => d end
  | SSub dst a b => match dlookup d a, dlookup d b with
                    | Some ta, Some tb => (dst, ta ++ lc_neg tb) :: d | _, _ => d end
  | SMul dst a c => match dlookup d a with Some ta => (dst, lc_scale c ta) :: d | None => d end
  end.
Definition denote (p : list stmt) : list (var * lincomb) := fold_left dstep p [].

(* statement bookkeeping for the purity statements *)
Definition dst_of (st : stmt) : var :=
  match st with SLeaf d _ _ | SAdd d _ _ | SSub d _ _ | SMul d _ _ => d end.
Definition operands (st : stmt) : list var :=
  match st with SLeaf _ _ _ => [] | SAdd _ a b | SSub _ a b => [a; b] | SMul _ a _ => [a] end.
Definition retarget (st : stmt) (d : var) : stmt :=
  match st with
  | SLeaf _ id m => SLeaf d id m | SAdd _ a b => SAdd d a b | SSub _ a b => SSub d a b | SMul _ a c => SMul d a c
  end.
