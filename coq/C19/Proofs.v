(* C19/Proofs.v *)
From Xpl Require Import C19.Spec.
From Coq Require Import Arith Lqa.
Open Scope Qc_scope.

(* ---------- the algebra of formal combinations is ordinary algebra ---------- *)
Lemma lin_app L a b : lin L (a ++ b) = lin L a + lin L b.
Proof. unfold lin. rewrite map_app, qsum_app. reflexivity. Qed.
Lemma lin_neg L t : lin L (lc_neg t) = - lin L t.
Proof. unfold lin, lc_neg. induction t as [|im t IH]; cbn [map qsum fst snd]; [ring | rewrite IH; ring]. Qed.
Lemma lin_scale L c t : lin L (lc_scale c t) = c * lin L t.
Proof. unfold lin, lc_scale. induction t as [|im t IH]; cbn [map qsum fst snd]; [ring | rewrite IH; ring]. Qed.
Lemma lin_leaf L id m : lin L [(id, m)] = m * L id.
Proof. unfold lin. cbn. ring. Qed.

(* ---------- compile: the loop is the weighted sum ---------- *)
Lemma loss_fold L l acc :
  fold_left (fun loss im => loss + L (fst im) * snd im) l acc = acc + lin L l.
Proof. revert acc; induction l as [|im l IH]; intro acc; cbn [fold_left]; [unfold lin; cbn; ring|].
  rewrite IH. unfold lin. cbn [map qsum]. ring. Qed.

Definition terms (o : obj) : lincomb := combine (subs o) (mults o).
Lemma compiled_loss_lin L o : compiled_loss L o = lin L (terms o).
Proof. unfold compiled_loss. rewrite loss_fold. fold (terms o). ring. Qed.

Definition wf (o : obj) : Prop := length (subs o) = length (mults o).
Lemma combine_app' {A B} (a a' : list A) (b b' : list B) : length a = length b ->
  combine (a ++ a') (b ++ b') = combine a b ++ combine a' b'.
Proof. revert b; induction a as [|x a IH]; intros [|y b] H; cbn in *; try lia; auto. f_equal. apply IH. lia. Qed.
Lemma terms_add a b : wf a -> terms (obj_add a b) = terms a ++ terms b.
Proof. intro H. unfold terms, obj_add. cbn [subs mults]. apply combine_app'. exact H. Qed.
Lemma combine_map_r {A B C} (f : B -> C) (a : list A) (b : list B) :
  combine a (map f b) = map (fun p => (fst p, f (snd p))) (combine a b).
Proof. revert b; induction a as [|x a IH]; intros [|y b]; cbn [combine map fst snd]; auto. f_equal. apply IH. Qed.
Lemma terms_neg b : terms (obj_neg b) = lc_neg (terms b).
Proof. unfold terms, obj_neg, lc_neg. cbn [subs mults]. rewrite combine_map_r. apply map_ext.
  intros [i m]. cbn [fst snd]. f_equal; try ring. Qed.
Lemma terms_scale c a : terms (obj_scale c a) = lc_scale c (terms a).
Proof. unfold terms, obj_scale, lc_scale. cbn [subs mults]. rewrite combine_map_r. apply map_ext.
  intros [i m]. cbn [fst snd]. f_equal; try ring. Qed.
Lemma wf_add a b : wf a -> wf b -> wf (obj_add a b).
Proof. unfold wf, obj_add. cbn. rewrite !app_length. lia. Qed.
Lemma wf_neg b : wf b -> wf (obj_neg b).
Proof. unfold wf, obj_neg. cbn. rewrite map_length. auto. Qed.
Lemma wf_scale c a : wf a -> wf (obj_scale c a).
Proof. unfold wf, obj_scale. cbn. rewrite map_length. auto. Qed.

(* ---------- the heap is append-only: operators never modify existing objects ---------- *)
Lemma nth_error_snoc {A} (l : list A) x a o : nth_error l a = Some o -> nth_error (l ++ [x]) a = Some o.
Proof. intro H. rewrite nth_error_app1; [exact H|]. apply nth_error_Some. congruence. Qed.
Lemma nth_error_snoc_new {A} (l : list A) x : nth_error (l ++ [x]) (length l) = Some x.
Proof. rewrite nth_error_app2 by lia. rewrite Nat.sub_diag. reflexivity. Qed.

Lemma step_heap_stable s st a o : nth_error (heap s) a = Some o -> nth_error (heap (step s st)) a = Some o.
Proof.
  intro H. destruct st as [d id m | d x y | d x y | d x c]; cbn [step].
  - cbn. apply nth_error_snoc; exact H.
  - destruct (deref s x), (deref s y); cbn; auto. apply nth_error_snoc; exact H.
  - destruct (deref s x), (deref s y); cbn; auto. apply nth_error_snoc, nth_error_snoc; exact H.
  - destruct (deref s x); cbn; auto. apply nth_error_snoc; exact H.
Qed.

Lemma step_env_other s st v : v <> dst_of st -> lookup (env (step s st)) v = lookup (env s) v.
Proof.
  intro H. destruct st as [d id m | d x y | d x y | d x c]; cbn [step dst_of] in *.
  - cbn. destruct (Nat.eqb_spec d v); [congruence | reflexivity].
  - destruct (deref s x), (deref s y); cbn; auto. destruct (Nat.eqb_spec d v); [congruence | reflexivity].
  - destruct (deref s x), (deref s y); cbn; auto. destruct (Nat.eqb_spec d v); [congruence | reflexivity].
  - destruct (deref s x); cbn; auto. destruct (Nat.eqb_spec d v); [congruence | reflexivity].
Qed.

(* +, -, scalar * do not modify their operands (nor any other live object) *)
Theorem operators_pure s st v o : v <> dst_of st -> deref s v = Some o -> deref (step s st) v = Some o.
Proof.
  intros Hv H. unfold deref in *. rewrite step_env_other by exact Hv.
  destruct (lookup (env s) v) as [a|]; [|discriminate]. apply step_heap_stable; exact H.
Qed.

Lemma run_snoc p st : run (p ++ [st]) = step (run p) st.
Proof. unfold run. rewrite fold_left_app. reflexivity. Qed.

(* the object an operator returns depends only on the objects of its operands *)
Definition result_obj (s : state) (st : stmt) : option obj :=
  match st with
  | SLeaf _ id m => Some {| subs := [id]; mults := [m] |}
  | SAdd _ a b => match deref s a, deref s b with Some oa, Some ob => Some (obj_add oa ob) | _, _ => None end
  | SSub _ a b => match deref s a, deref s b with Some oa, Some ob => Some (obj_add oa (obj_neg ob)) | _, _ => None end
  | SMul _ a c => match deref s a with Some oa => Some (obj_scale c oa) | None => None end
  end.

Lemma deref_bind_alloc s o d : deref (new s d o) d = Some o.
Proof. unfold deref, new, bind, alloc. cbn. rewrite Nat.eqb_refl. apply nth_error_snoc_new. Qed.

Lemma step_result s st o : result_obj s st = Some o -> deref (step s st) (dst_of st) = Some o.
Proof.
  destruct st as [d id m | d x y | d x y | d x c]; cbn [result_obj step dst_of].
  - intros [= <-]. apply (deref_bind_alloc s).
  - destruct (deref s x) as [oa|], (deref s y) as [ob|]; try discriminate. intros [= <-].
    apply (deref_bind_alloc s).
  - destruct (deref s x) as [oa|], (deref s y) as [ob|]; try discriminate. intros [= <-].
    apply (deref_bind_alloc (fst (alloc s (obj_neg ob)))).
  - destruct (deref s x) as [oa|]; try discriminate. intros [= <-]. apply (deref_bind_alloc s).
Qed.

(* building the same expression twice yields the same object (hence the same loss), and the operands are
   still what they were *)
Theorem rebuild_same s st d' o : ~ In (dst_of st) (operands st) -> result_obj s st = Some o ->
  deref (step (step s st) (retarget st d')) d' = Some o /\ deref (step s st) (dst_of st) = Some o.
Proof.
  intros Hn Hr. split; [|apply step_result; exact Hr].
  assert (E : result_obj (step s st) (retarget st d') = Some o).
  { destruct st as [d id m | d x y | d x y | d x c]; cbn [result_obj retarget operands dst_of In] in *.
    - exact Hr.
    - destruct (deref s x) as [oa|] eqn:Ex, (deref s y) as [ob|] eqn:Ey; try discriminate.
      rewrite (operators_pure _ _ x oa), (operators_pure _ _ y ob); cbn [dst_of]; auto; intro K; subst; tauto.
    - destruct (deref s x) as [oa|] eqn:Ex, (deref s y) as [ob|] eqn:Ey; try discriminate.
      rewrite (operators_pure _ _ x oa), (operators_pure _ _ y ob); cbn [dst_of]; auto; intro K; subst; tauto.
    - destruct (deref s x) as [oa|] eqn:Ex; try discriminate.
      rewrite (operators_pure _ _ x oa); cbn [dst_of]; auto; intro K; subst; tauto. }
  replace d' with (dst_of (retarget st d')) at 2 by (destruct st; reflexivity).
  apply step_result. exact E.
Qed.

(* ---------- compile_linear: the compiled loss is the linear combination the expression denotes ---------- *)
Definition Inv (s : state) (d : list (var * lincomb)) : Prop :=
  forall v, match deref s v with
            | Some o => wf o /\ dlookup d v = Some (terms o)
            | None => dlookup d v = None
            end.

Lemma deref_bind_other s d a v : v <> d -> deref (bind s d a) v = deref s v.
Proof. intro H. unfold deref, bind. cbn. destruct (Nat.eqb_spec d v); [congruence | reflexivity]. Qed.
Lemma deref_alloc s o v : (forall a, lookup (env s) v = Some a -> (a < length (heap s))%nat) ->
  deref (fst (alloc s o)) v = deref s v.
Proof. intro H. unfold deref, alloc. cbn. destruct (lookup (env s) v) as [a|] eqn:E; [|reflexivity].
  rewrite nth_error_app1 by (apply H; reflexivity). reflexivity. Qed.

(* addresses in the environment are allocated *)
Definition Bound (s : state) : Prop := forall v a, lookup (env s) v = Some a -> (a < length (heap s))%nat.

Lemma bound_alloc_bind s o d : Bound s -> Bound (new s d o).
Proof. intros H v a. unfold new, bind, alloc. cbn. rewrite app_length. cbn.
  destruct (Nat.eqb_spec d v); [intros [= <-]; lia | intro K; apply H in K; lia]. Qed.
Lemma bound_alloc s o : Bound s -> Bound (fst (alloc s o)).
Proof. intros H v a. unfold alloc. cbn. rewrite app_length. intro K; apply H in K; lia. Qed.

Lemma step_bound s st : Bound s -> Bound (step s st).
Proof.
  intro H. destruct st as [d id m | d x y | d x y | d x c]; cbn [step].
  - apply (bound_alloc_bind s); exact H.
  - destruct (deref s x), (deref s y); auto. apply (bound_alloc_bind s); exact H.
  - destruct (deref s x), (deref s y); auto.
    apply (bound_alloc_bind (fst (alloc s (obj_neg o0)))). apply bound_alloc; exact H.
  - destruct (deref s x); auto. apply (bound_alloc_bind s); exact H.
Qed.

Lemma deref_new s o d v : Bound s ->
  deref (new s d o) v = if Nat.eqb d v then Some o else deref s v.
Proof.
  intro HB. destruct (Nat.eqb_spec d v) as [<-|Hne]; [apply deref_bind_alloc|].
  unfold new. rewrite deref_bind_other by congruence. apply deref_alloc. intros a; apply HB.
Qed.

Lemma dlookup_new d v t w : dlookup ((v, t) :: d) w = if Nat.eqb v w then Some t else dlookup d w.
Proof. reflexivity. Qed.

Lemma step_inv s d st : Bound s -> Inv s d -> Inv (step s st) (dstep d st).
Proof.
  intros HB HI. destruct st as [dd id m | dd x y | dd x y | dd x c]; cbn [step dstep].
  - intro v. rewrite (deref_new s) by exact HB. rewrite dlookup_new.
    destruct (Nat.eqb dd v); [split; reflexivity | apply HI].
  - pose proof (HI x) as Hx. pose proof (HI y) as Hy.
    destruct (deref s x) as [oa|], (deref s y) as [ob|].
    + destruct Hx as [Wa ->], Hy as [Wb ->]. intro v. rewrite (deref_new s) by exact HB. rewrite dlookup_new.
      destruct (Nat.eqb dd v); [split; [apply wf_add; assumption | rewrite terms_add by exact Wa; reflexivity] | apply HI].
    + destruct Hx as [_ ->]. rewrite Hy. exact HI.
    + rewrite Hx. exact HI.
    + rewrite Hx. exact HI.
  - pose proof (HI x) as Hx. pose proof (HI y) as Hy.
    destruct (deref s x) as [oa|], (deref s y) as [ob|].
    + destruct Hx as [Wa ->], Hy as [Wb ->]. intro v.
      rewrite (deref_new (fst (alloc s (obj_neg ob)))) by (apply bound_alloc; exact HB).
      rewrite dlookup_new. destruct (Nat.eqb dd v).
      * split; [apply wf_add; [assumption | apply wf_neg; assumption]|].
        rewrite terms_add by exact Wa. rewrite terms_neg. reflexivity.
      * rewrite deref_alloc by (intro a; apply HB). apply HI.
    + destruct Hx as [_ ->]. rewrite Hy. exact HI.
    + rewrite Hx. exact HI.
    + rewrite Hx. exact HI.
  - pose proof (HI x) as Hx. destruct (deref s x) as [oa|].
    + destruct Hx as [Wa ->]. intro v. rewrite (deref_new s) by exact HB. rewrite dlookup_new.
      destruct (Nat.eqb dd v); [split; [apply wf_scale; assumption | rewrite terms_scale; reflexivity] | apply HI].
    + rewrite Hx. exact HI.
Qed.

Lemma run_inv p : Bound (run p) /\ Inv (run p) (denote p).
Proof.
  induction p as [|st p IH] using rev_ind.
  - split; [intros v a; discriminate | intro v; reflexivity].
  - unfold run, denote in *. rewrite !fold_left_app. cbn [fold_left]. destruct IH as [HB HI].
    split; [apply step_bound; exact HB | apply step_inv; assumption].
Qed.

Theorem compile_linear p v L o : deref (run p) v = Some o ->
  exists t, dlookup (denote p) v = Some t /\ compiled_loss L o = lin L t.
Proof.
  intro H. destruct (run_inv p) as [_ HI]. specialize (HI v). rewrite H in HI. destruct HI as [_ Hd].
  exists (terms o). split; [exact Hd | apply compiled_loss_lin].
Qed.

Theorem compile_defined p v : deref (run p) v = None <-> dlookup (denote p) v = None.
Proof.
  destruct (run_inv p) as [_ HI]. specialize (HI v). destruct (deref (run p) v); split; intro K; try discriminate; auto.
  destruct HI as [_ HI]. congruence.
Qed.

(* ---------- combinations: itertools.product ---------- *)
Close Scope Qc_scope. Open Scope nat_scope.
Fixpoint prod_len {A} (ls : list (list A)) : nat :=
  match ls with [] => 1 | l :: r => length l * prod_len r end.

Lemma cartesian_length {A} (ls : list (list A)) : length (cartesian ls) = prod_len ls.
Proof.
  induction ls as [|l r IH]; [reflexivity|]. cbn [cartesian prod_len].
  rewrite <- IH. generalize (cartesian r). intro C. induction l as [|x l IHl]; [reflexivity|].
  cbn [flat_map length]. rewrite app_length, map_length, IHl. lia.
Qed.

(* combination number i * P + k (P = number of combinations of the rest) = target i of the first
   sub-objective followed by combination k of the rest: last sub-objective varies fastest *)
Theorem cartesian_index {A} (l : list A) (r : list (list A)) (d : A) (i k : nat) :
  i < length l -> k < prod_len r ->
  nth (i * prod_len r + k) (cartesian (l :: r)) [] = nth i l d :: nth k (cartesian r) [].
Proof.
  intros Hi Hk. cbn [cartesian]. set (C := cartesian r). set (P := prod_len r).
  assert (HP : length C = P) by apply cartesian_length.
  rewrite (list_as_seq l d) at 1. rewrite flat_map_concat_map, map_map, <- flat_map_concat_map.
  rewrite (flat_map_ext _ (fun a => map (fun j => nth a l d :: nth j C []) (seq 0 P))).
  2:{ intro a. rewrite (list_as_seq C []) at 1. rewrite map_map, HP. reflexivity. }
  rewrite (grid_flat (fun a j => nth a l d :: nth j C [])).
  rewrite nth_map_seq by nia.
  assert (P <> 0) by lia.
  rewrite Nat.div_add_l, Nat.div_small, Nat.add_0_r by assumption.
  rewrite Nat.add_comm, Nat.mod_add, Nat.mod_small by assumption. reflexivity.
Qed.

Lemma cartesian_each_length {A} (ls : list (list A)) c : In c (cartesian ls) -> length c = length ls.
Proof.
  revert c; induction ls as [|l r IH]; intros c Hc; cbn [cartesian] in Hc.
  - destruct Hc as [<-|[]]. reflexivity.
  - apply in_flat_map in Hc as [x [_ Hc]]. apply in_map_iff in Hc as [c' [<- Hc']]. cbn. f_equal. auto.
Qed.

Open Scope Qc_scope.
(* the loss of each combination is the weighted sum of the sub-losses of ITS targets *)
Theorem compiled_losses_spec Lr o n :
  compiled_losses Lr o n =
  map (fun r => qsum (map (fun jm => snd jm * Lr (fst jm) r) (combine (seq 0 (length (mults o))) (mults o))))
      (seq 0 n).
Proof.
  unfold compiled_losses. apply map_ext. intro r.
  generalize (combine (seq 0 (length (mults o))) (mults o)). intro l.
  assert (G : forall acc, fold_left (fun loss jm => loss + Lr (fst jm) r * snd jm) l acc
              = acc + qsum (map (fun jm => snd jm * Lr (fst jm) r) l)).
  { induction l as [|x l IH]; intro acc; cbn [fold_left map qsum]; [ring | rewrite IH; ring]. }
  rewrite G. ring.
Qed.

Lemma combos_length o nt : length (combos o nt) = fold_right Nat.mul 1%nat (map nt (subs o)).
Proof.
  unfold combos. rewrite cartesian_length. induction (subs o) as [|i l IH]; [reflexivity|].
  cbn [map prod_len fold_right]. rewrite seq_length, IH. reflexivity.
Qed.

(* ---------- the code as found violates the property (kept as a record of the two defects) ---------- *)
Theorem compile_linear_refuted_orig :
  exists L o, compiled_loss_orig L o <> lin L (terms o).
Proof.
  exists (fun _ => 1), {| subs := [0%nat; 1%nat]; mults := [1; q 3 1] |}.
  vm_compute. discriminate.
Qed.

Theorem operators_pure_refuted_orig :
  exists s st v o, v <> dst_of st /\ deref s v = Some o /\ deref (step_orig s st) v <> Some o.
Proof.
  exists (run_orig [SLeaf 0%nat 0%nat 1; SLeaf 1%nat 1%nat 1]), (SSub 2%nat 0%nat 1%nat), 1%nat, {| subs := [1%nat]; mults := [1] |}.
  split; [discriminate|]. split; [reflexivity|]. vm_compute. discriminate.
Qed.

Theorem rebuild_differs_orig :
  deref (run_orig [SLeaf 0%nat 0%nat 1; SLeaf 1%nat 1%nat 1; SSub 2%nat 0%nat 1%nat; SSub 3%nat 0%nat 1%nat]) 3%nat
  <> deref (run_orig [SLeaf 0%nat 0%nat 1; SLeaf 1%nat 1%nat 1; SSub 2%nat 0%nat 1%nat]) 2%nat.
Proof. vm_compute. discriminate. Qed.

(* ---------- image parametrisation: values end up inside the requested range ---------- *)
From Coq Require Import Lqa.

Lemma Qcmin_le_l x y : Qcmin x y <= x.
Proof. unfold Qcmin. destruct (Qclt_le_dec y x) as [H|H]; [apply Qclt_le_weak; exact H | apply Qcle_refl]. Qed.
Lemma Qcmin_le_r x y : Qcmin x y <= y.
Proof. unfold Qcmin. destruct (Qclt_le_dec y x) as [H|H]; [apply Qcle_refl | exact H]. Qed.
Lemma Qcmax_ge_l x y : x <= Qcmax x y.
Proof. unfold Qcmax. destruct (Qclt_le_dec x y) as [H|H]; [apply Qclt_le_weak; exact H | apply Qcle_refl]. Qed.
Lemma Qcmax_ge_r x y : y <= Qcmax x y.
Proof. unfold Qcmax. destruct (Qclt_le_dec x y) as [H|H]; [apply Qcle_refl | exact H]. Qed.
Lemma Qcmin_case x y : Qcmin x y = x \/ Qcmin x y = y.
Proof. unfold Qcmin. destruct (Qclt_le_dec y x); auto. Qed.
Lemma Qcmax_case x y : Qcmax x y = x \/ Qcmax x y = y.
Proof. unfold Qcmax. destruct (Qclt_le_dec x y); auto. Qed.

Lemma fold_min_le l a : fold_left Qcmin l a <= a /\ (forall x, In x l -> fold_left Qcmin l a <= x)
                        /\ (fold_left Qcmin l a = a \/ In (fold_left Qcmin l a) l).
Proof.
  revert a; induction l as [|y l IH]; intro a; cbn [fold_left].
  - split; [apply Qcle_refl|]. split; [intros x []| left; reflexivity].
  - destruct (IH (Qcmin a y)) as [H1 [H2 H3]]. split; [|split].
    + eapply Qcle_trans; [exact H1 | apply Qcmin_le_l].
    + intros x [<-|Hx]; [eapply Qcle_trans; [exact H1 | apply Qcmin_le_r] | apply H2; exact Hx].
    + destruct H3 as [H3|H3]; [|right; right; exact H3].
      rewrite H3. destruct (Qcmin_case a y) as [E|E]; rewrite E; [left; reflexivity | right; left; reflexivity].
Qed.
Lemma fold_max_ge l a : a <= fold_left Qcmax l a /\ (forall x, In x l -> x <= fold_left Qcmax l a)
                        /\ (fold_left Qcmax l a = a \/ In (fold_left Qcmax l a) l).
Proof.
  revert a; induction l as [|y l IH]; intro a; cbn [fold_left].
  - split; [apply Qcle_refl|]. split; [intros x []| left; reflexivity].
  - destruct (IH (Qcmax a y)) as [H1 [H2 H3]]. split; [|split].
    + eapply Qcle_trans; [apply Qcmax_ge_l | exact H1].
    + intros x [<-|Hx]; [eapply Qcle_trans; [apply Qcmax_ge_r | exact H1] | apply H2; exact Hx].
    + destruct H3 as [H3|H3]; [|right; right; exact H3].
      rewrite H3. destruct (Qcmax_case a y) as [E|E]; rewrite E; [left; reflexivity | right; left; reflexivity].
Qed.

Lemma list_min_spec l : l <> [] -> In (list_min l) l /\ forall x, In x l -> list_min l <= x.
Proof.
  destruct l as [|a l]; [congruence|]. intros _. unfold list_min.
  destruct (fold_min_le l a) as [H1 [H2 H3]]. split.
  - destruct H3 as [->|H3]; [left; reflexivity | right; exact H3].
  - intros x [<-|Hx]; [exact H1 | apply H2; exact Hx].
Qed.
Lemma list_max_spec l : l <> [] -> In (list_max l) l /\ forall x, In x l -> x <= list_max l.
Proof.
  destruct l as [|a l]; [congruence|]. intros _. unfold list_max.
  destruct (fold_max_ge l a) as [H1 [H2 H3]]. split.
  - destruct H3 as [->|H3]; [left; reflexivity | right; exact H3].
  - intros x [<-|Hx]; [exact H1 | apply H2; exact Hx].
Qed.

Lemma Qclt_irrefl' (x : Qc) : ~ x < x.
Proof. intro H. apply Qclt_not_eq in H. congruence. Qed.

Lemma unit_interval y m : 0 <= y -> y <= m -> 0 < m -> 0 <= y / m /\ y / m <= 1.
Proof.
  intros H0 H1 Hm. split; qc2q.
  - apply Qle_shift_div_l; [exact Hm | lra].
  - apply Qle_shift_div_r; [exact Hm | lra].
Qed.

Lemma affine_range lo hi u : lo <= hi -> 0 <= u -> u <= 1 -> lo <= u * (hi - lo) + lo /\ u * (hi - lo) + lo <= hi.
Proof. intros. split; qc2q; nra. Qed.

(* every value of the rescaled image lies in [lo, hi]; the minimum is sent to lo and the maximum to hi
   (for an image that is not constant: max - min > 0) *)
Theorem rescale_range lo hi img : lo <= hi ->
  0 < list_max (map (fun x => x - list_min img) img) ->
  (forall z, In z (rescale lo hi img) -> lo <= z /\ z <= hi)
  /\ In lo (rescale lo hi img) /\ In hi (rescale lo hi img).
Proof.
  intros Hlh Hpos. unfold rescale. cbv zeta.
  set (mn := list_min img) in *. set (sh := map (fun x => x - mn) img) in *. set (mx := list_max sh) in *.
  assert (Hne : img <> []) by (intro E; subst img; unfold mx, sh in Hpos; cbn in Hpos; revert Hpos; apply Qclt_irrefl').
  assert (Hsh : sh <> []) by (unfold sh; destruct img; [congruence | discriminate]).
  destruct (list_min_spec img Hne) as [Hmin_in Hmin_le]. fold mn in Hmin_in, Hmin_le.
  destruct (list_max_spec sh Hsh) as [Hmax_in Hmax_ge]. fold mx in Hmax_in, Hmax_ge.
  assert (Hy : forall y, In y sh -> 0 <= y /\ y <= mx).
  { intros y Hy. split; [|apply Hmax_ge; exact Hy]. unfold sh in Hy. apply in_map_iff in Hy as [x [<- Hx]].
    specialize (Hmin_le x Hx). qc2q. lra. }
  split; [|split].
  - intros z Hz. rewrite map_map in Hz. apply in_map_iff in Hz as [y [<- Hy']].
    destruct (Hy y Hy') as [A B]. destruct (unit_interval y mx A B Hpos) as [U0 U1].
    apply affine_range; assumption.
  - rewrite map_map. apply in_map_iff. exists 0. split; [field; intro E; rewrite E in Hpos; revert Hpos; apply Qclt_irrefl'|].
    unfold sh. apply in_map_iff. exists mn. split; [ring | exact Hmin_in].
  - rewrite map_map. apply in_map_iff. exists mx. split; [field; intro E; rewrite E in Hpos; revert Hpos; apply Qclt_irrefl' | exact Hmax_in].
Qed.

Lemma rescale_length lo hi img : length (rescale lo hi img) = length img.
Proof. unfold rescale. rewrite !map_length. reflexivity. Qed.

(* fft_to_rgb can always crop an S x S image out of what irfft2d returns, for odd and even S *)
Close Scope Qc_scope.
Theorem fft_width_enough S : 2 <= S -> S <= irfft_width S.
Proof.
  intro H2. unfold irfft_width, fft_cols. pose proof (Nat.div_mod S 2 ltac:(lia)) as E.
  pose proof (Nat.mod_upper_bound S 2 ltac:(lia)) as U.
  destruct (Nat.eqb_spec (S mod 2) 1); lia.
Qed.
