(* Props/C19.v — property C19: feature-visualisation objectives combine linearly and without side effects.
   Only statements; proofs in C19/Proofs.v. *)
From Xpl Require Import C19.Spec C19.Proofs.
Open Scope Qc_scope.

(* For every program building objectives with leaves, +, - and scalar * (in any order, re-using and
   re-binding variables), and every variable v bound to an objective, the loss compiled from v on any
   model outputs (sub-losses L) is the linear combination that the expression denotes by ordinary algebra. *)
Theorem C19_compile_linear :
  forall (p : list stmt) (v : var) (L : nat -> Qc) (o : obj),
    deref (run p) v = Some o ->
    exists t, dlookup (denote p) v = Some t /\ compiled_loss L o = lin L t.
Proof. exact compile_linear. Qed.
Print Assumptions C19_compile_linear.

(* ... where the denotation obeys ordinary algebra *)
Theorem C19_algebra :
  forall L a b c id m,
    lin L (a ++ b) = lin L a + lin L b /\ lin L (lc_neg b) = - lin L b /\
    lin L (lc_scale c a) = c * lin L a /\ lin L [(id, m)] = m * L id.
Proof. intros; repeat split; [apply lin_app | apply lin_neg | apply lin_scale | apply lin_leaf]. Qed.
Print Assumptions C19_algebra.

(* +, - and scalar * never modify an object that some variable (other than the assigned one) refers to *)
Theorem C19_operators_pure :
  forall s st v o, v <> dst_of st -> deref s v = Some o -> deref (step s st) v = Some o.
Proof. exact operators_pure. Qed.
Print Assumptions C19_operators_pure.

(* building the same expression twice yields the same objective *)
Theorem C19_rebuild_same :
  forall s st d' o, ~ In (dst_of st) (operands st) -> result_obj s st = Some o ->
    deref (step (step s st) (retarget st d')) d' = Some o /\ deref (step s st) (dst_of st) = Some o.
Proof. exact rebuild_same. Qed.
Print Assumptions C19_rebuild_same.

(* the loss vector over the combinations is, row by row, the weighted sum of that row's sub-losses *)
Theorem C19_compiled_losses :
  forall Lr o n, compiled_losses Lr o n =
    map (fun r => qsum (map (fun jm => snd jm * Lr (fst jm) r) (combine (seq 0 (length (mults o))) (mults o))))
        (seq 0 n).
Proof. exact compiled_losses_spec. Qed.
Print Assumptions C19_compiled_losses.

(* the combinations are the Cartesian product of the sub-objectives' targets: as many as the product of the
   numbers of targets, combination i*P + k = target i of the first sub-objective followed by combination k
   of the others (mixed radix, last sub-objective fastest) *)
Theorem C19_product_count :
  forall o nt, length (combos o nt) = fold_right Nat.mul 1%nat (map nt (subs o)).
Proof. exact combos_length. Qed.
Print Assumptions C19_product_count.

Theorem C19_product_index :
  forall (l : list nat) (r : list (list nat)) d i k, (i < length l)%nat -> (k < prod_len r)%nat ->
    nth (i * prod_len r + k) (cartesian (l :: r)) [] = nth i l d :: nth k (cartesian r) [].
Proof. intros; apply cartesian_index; assumption. Qed.
Print Assumptions C19_product_index.

(* image parametrisations: after min-max rescaling every value of a non-constant image is inside the
   requested range, the minimum maps to lo and the maximum to hi *)
Theorem C19_valid_range :
  forall lo hi img, lo <= hi -> 0 < list_max (map (fun x => x - list_min img) img) ->
    (forall z, In z (rescale lo hi img) -> lo <= z /\ z <= hi)
    /\ In lo (rescale lo hi img) /\ In hi (rescale lo hi img).
Proof. exact rescale_range. Qed.
Print Assumptions C19_valid_range.

(* fft parametrisation: the inverse real FFT returns at least S columns for odd and even S >= 2 (S = 1 is rejected by the FFT library itself) *)
Theorem C19_fft_shape : forall S, (2 <= S)%nat -> (S <= irfft_width S)%nat.
Proof. exact fft_width_enough. Qed.
Print Assumptions C19_fft_shape.

(* the code as found (before the two repairs) violated the property *)
Theorem C19_compile_linear_refuted_orig : exists L o, compiled_loss_orig L o <> lin L (terms o).
Proof. exact compile_linear_refuted_orig. Qed.
Print Assumptions C19_compile_linear_refuted_orig.
Theorem C19_operators_pure_refuted_orig :
  exists s st v o, v <> dst_of st /\ deref s v = Some o /\ deref (step_orig s st) v <> Some o.
Proof. exact operators_pure_refuted_orig. Qed.
Print Assumptions C19_operators_pure_refuted_orig.

(* non-vacuity: a - b built twice, then 2*(a - b) + 3*b, compiles to 2a + b *)
Example C19_nonvacuous :
  let p := [SLeaf 0 0 1; SLeaf 1 1 1; SSub 2 0 1; SSub 3 0 1; SMul 4 3 (q 2 1); SMul 5 1 (q 3 1); SAdd 6 4 5]%nat in
  deref (run p) 6%nat = Some {| subs := [0; 1; 1]%nat; mults := [q 2 1; q (-2) 1; q 3 1] |} /\
  deref (run p) 2%nat = deref (run p) 3%nat /\
  (forall a b, compiled_loss (fun i => if Nat.eqb i 0 then a else b)
                 {| subs := [0; 1; 1]%nat; mults := [q 2 1; q (-2) 1; q 3 1] |} = q 2 1 * a + b).
Proof. split; [vm_compute; reflexivity|]. split; [vm_compute; reflexivity|].
  intros a b. unfold compiled_loss. cbn. unfold q. ring_simplify.
  replace (Q2Qc (-2 # 1)) with (- Q2Qc (2#1)) by (apply Qc_is_canon; reflexivity).
  replace (Q2Qc (3 # 1)) with (Q2Qc (2#1) + 1) by (apply Qc_is_canon; reflexivity). ring. Qed.
