(* Props/C16.v — property C16: similar-example search returns exactly the k nearest cases.
   Only statements, each closed by [exact]; proofs live in C16/Proofs.v (order facts: C16/SortX.v, Bridge.v).
   Everything is stated for ANY [argsort] that returns a sorting permutation (any tie-breaking), every batch
   size, every k, every N >= 1, every distance function and every projection. *)
From Xpl Require Import C16.Spec C16.Proofs.
Close Scope Qc_scope. Open Scope nat_scope.

(* the executable (stable) argsort used to run the model satisfies the hypothesis of all theorems *)
Theorem C16_argsort_stable_ok : argsort_ok argsort_stable.
Proof. exact argsort_stable_ok. Qed.
Print Assumptions C16_argsort_stable_ok.

(* the running top-k merge: keeping only the k best of what was seen so far loses nothing *)
Theorem C16_ksm_merge : forall k a b, ksm k (ksm k a ++ b) = ksm k (a ++ b).
Proof. exact ksm_merge. Qed.
Print Assumptions C16_ksm_merge.

(* knn_distances: the distances kept by the batched running top-k (init k fills of +inf; per batch: concat,
   argsort, keep k) are the first k elements of the sorted arrangement of ALL distances and k fills *)
Theorem C16_knn_distances :
  forall (C P : Type) argsort, argsort_ok argsort ->
  forall k (key : C -> ext) (pay : nat -> nat -> C -> P) (fillp : P) B cases, 1 <= B ->
    forall S, Sorted ext_le S -> Permutation S (map key cases ++ repeat Inf k) ->
      map fst (topk argsort k key pay fillp (chunks B cases)) = firstn k S.
Proof. intros C P argsort H k key pay fillp B cases HB S HS HP.
  exact (topk_keys argsort H k key pay fillp B cases HB S (conj HS HP)). Qed.
Print Assumptions C16_knn_distances.

(* knn_indices_valid + knn_minimal: the result is the image of k slots T1; together with the left-out slots T2
   they are exactly k fills and every case once (so every returned entry is a fill or case number i with index
   (i / B, i mod B) and its own distance, and no case is returned twice); every left-out slot is at least as far
   as every returned one *)
Theorem C16_knn_structure :
  forall (C P : Type) argsort, argsort_ok argsort ->
  forall k (key : C -> ext) (pay : nat -> nat -> C -> P) (fillp : P) B, 1 <= B -> forall cases,
  exists T1 T2 : list (@slot C),
    Permutation (T1 ++ T2) (universe k cases)
    /\ topk argsort k key pay fillp (chunks B cases) = map (slot_entry key pay fillp B) T1
    /\ length T1 = k
    /\ (forall a b, In a T1 -> In b T2 -> ext_le (slot_key key pay fillp B a) (slot_key key pay fillp B b)).
Proof. exact @topk_structure. Qed.
Print Assumptions C16_knn_structure.

Theorem C16_knn_no_case_twice :
  forall (C : Type) k (cases : list C) T1 T2,
    Permutation (T1 ++ T2) (universe k cases) -> NoDup (slot_cases T1).
Proof. exact @structure_nodup. Qed.
Print Assumptions C16_knn_no_case_twice.

(* gather_correct: dataset_gather at (i / B, i mod B) returns element i of the un-batched data; the fill index
   gathers nothing *)
Theorem C16_gather_correct :
  forall (A : Type) B (l : list A) i, 1 <= B ->
    dataset_gather (chunks B l) (Z.of_nat (i / B), Z.of_nat (i mod B)) = nth_error l i.
Proof. exact @dataset_gather_correct. Qed.
Print Assumptions C16_gather_correct.

Theorem C16_gather_fill : forall (A : Type) (batches : list (list A)), dataset_gather batches fill_idx = None.
Proof. exact @dataset_gather_fill. Qed.
Print Assumptions C16_gather_fill.

(* SimilarExamples.explain for one query (same_projection: queries and cases go through the same [proj]) *)
Theorem C16_similar_distances :
  forall argsort, argsort_ok argsort ->
  forall dist proj (L : Type) k bs cases targets (labels : list L) q tq,
    bs_ok' bs -> 1 <= length cases -> length targets = length cases ->
    forall S, Sorted ext_le S -> Permutation S (true_keys dist proj cases targets q tq ++ repeat Inf k) ->
      map (@ex_dist L) (similar_one argsort dist proj k bs cases targets labels q tq) = firstn k S.
Proof. intros argsort H dist proj L k bs cases targets labels q tq H1 H2 H3 S HS HP.
  exact (similar_distances argsort H dist proj k bs cases targets labels q tq H1 H2 H3 S (conj HS HP)). Qed.
Print Assumptions C16_similar_distances.

Theorem C16_similar_sorted :
  forall argsort, argsort_ok argsort ->
  forall dist proj (L : Type) k bs cases targets (labels : list L) q tq,
    bs_ok' bs -> 1 <= length cases -> length targets = length cases ->
    Sorted ext_le (map (@ex_dist L) (similar_one argsort dist proj k bs cases targets labels q tq))
    /\ length (similar_one argsort dist proj k bs cases targets labels q tq) = k.
Proof. exact similar_sorted. Qed.
Print Assumptions C16_similar_sorted.

(* k <= N: the k smallest true distances, all finite (no fill is returned) *)
Theorem C16_similar_k_nearest :
  forall argsort, argsort_ok argsort ->
  forall dist proj (L : Type) k bs cases targets (labels : list L) q tq,
    bs_ok' bs -> 1 <= length cases -> length targets = length cases -> k <= length cases ->
    map (@ex_dist L) (similar_one argsort dist proj k bs cases targets labels q tq)
    = firstn k (isort (true_keys dist proj cases targets q tq))
    /\ Forall (fun d => is_fin d = true)
              (map (@ex_dist L) (similar_one argsort dist proj k bs cases targets labels q tq)).
Proof. exact similar_all_finite. Qed.
Print Assumptions C16_similar_k_nearest.

(* every returned example is the ORIGINAL (unprojected) case number i and its label, at index (i / B, i mod B),
   and its distance is the true distance between the projected query and the projected case *)
Theorem C16_similar_examples :
  forall argsort, argsort_ok argsort ->
  forall dist proj (L : Type) k bs cases targets (labels : list L) q tq,
    bs_ok' bs -> 1 <= length cases -> length targets = length cases ->
    forall e, In e (similar_one argsort dist proj k bs cases targets labels q tq) ->
      (ex_dist e = Inf /\ ex_idx e = fill_idx /\ ex_case e = None /\ ex_label e = None)
      \/ exists i c t,
           nth_error cases i = Some c /\ nth_error targets i = Some t
           /\ ex_idx e = (Z.of_nat (i / eff_batch bs (length cases)), Z.of_nat (i mod eff_batch bs (length cases)))
           /\ i mod eff_batch bs (length cases) < eff_batch bs (length cases)
           /\ ex_dist e = Fin (dist (proj q tq) (proj c t))
           /\ ex_case e = Some c /\ ex_label e = nth_error labels i.
Proof. exact similar_examples_spec. Qed.
Print Assumptions C16_similar_examples.

(* no unreturned case is closer than a returned one *)
Theorem C16_similar_minimal :
  forall argsort, argsort_ok argsort ->
  forall dist proj (L : Type) k bs cases targets (labels : list L) q tq,
    bs_ok' bs -> 1 <= length cases -> length targets = length cases ->
    forall i c t, nth_error cases i = Some c -> nth_error targets i = Some t ->
      (exists e, In e (similar_one argsort dist proj k bs cases targets labels q tq)
                 /\ ex_idx e = (Z.of_nat (i / eff_batch bs (length cases)), Z.of_nat (i mod eff_batch bs (length cases))))
      \/ (forall e, In e (similar_one argsort dist proj k bs cases targets labels q tq) ->
                    ext_le (ex_dist e) (Fin (dist (proj q tq) (proj c t)))).
Proof. exact similar_minimal_cases. Qed.
Print Assumptions C16_similar_minimal.

(* the returned distances do not depend on the batch size nor on the tie-breaking *)
Theorem C16_similar_batch_invariant :
  forall argsort argsort' dist proj (L : Type) k bs bs' cases targets (labels : list L) q tq,
    argsort_ok argsort -> argsort_ok argsort' -> bs_ok' bs -> bs_ok' bs' -> 1 <= length cases ->
    length targets = length cases ->
    map (@ex_dist L) (similar_one argsort dist proj k bs cases targets labels q tq)
    = map (@ex_dist L) (similar_one argsort' dist proj k bs' cases targets labels q tq).
Proof. intros; apply similar_batch_invariant; assumption. Qed.
Print Assumptions C16_similar_batch_invariant.

(* non-vacuity: 5 one-dimensional points with a duplicate, batch size 2 (remainder batch), k = 3 > batch size,
   Manhattan distance, query 1/2: the model returns distances 0, 0, 1/2 at indices (0,1), (1,1), (0,0) *)
Example C16_nonvacuous :
  bs_ok' (Some 2) /\
  map (fun e : @example nat => (ex_dist e, ex_idx e, ex_case e, ex_label e))
      (similar_one argsort_stable manhattan (fun x _ => x) 3 (Some 2)
                   [[q 1 1]; [q 1 2]; [q 3 1]; [q 1 2]; [q (-2) 1]] [[]; []; []; []; []] [10; 11; 12; 13; 14]
                   [q 1 2] [])
  = [ (Fin (q 0 1), (0%Z, 1%Z), Some [q 1 2], Some 11);
      (Fin (q 0 1), (1%Z, 1%Z), Some [q 1 2], Some 13);
      (Fin (q 1 2), (0%Z, 0%Z), Some [q 1 1], Some 10) ].
Proof. split; [cbn; lia | vm_compute; reflexivity]. Qed.
