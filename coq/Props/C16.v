(* Props/C16.v — placeholder while the correspondence is being brought up; replaced below *)
From Xpl Require Import C16.Ext C16.Bridge.
Theorem C16_ksm_merge : forall k a b, ksm k (ksm k a ++ b) = ksm k (a ++ b).
Proof. exact ksm_merge. Qed.
Print Assumptions C16_ksm_merge.
