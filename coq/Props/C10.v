(* Props/C10.v — property C10: DeconvNet, GuidedBackprop and Grad-CAM(++) implement their published rules.
   Only statements, each closed by [exact]; proofs live in C10/Proofs.v.

   Vocabulary (C10/Model.v, C10/Spec.v).  A net is model.layers (InputLayer included); a layer is a name, the flag
   hasattr(layer, 'filters'), the size of the last axis of its output, and an op: OId (InputLayer / Flatten), ODense W b a
   (Dense, or Conv2D as the matrix of its linear map, with fused activation a), OAct a (Activation / any element-wise
   layer), ORelu {max_value, threshold, negative_slope} (keras.layers.ReLU).  [override p n] is the model of
   override_relu_gradient (clone, copy the weights, swap fused relu activations / Activation('relu') / ReLU layers by the
   custom-gradient policy p); [relu_explainer p n bs xs ts] is explain of DeconvNet (p = PDeconv) / GuidedBackprop
   (p = PGuided) with batch_size bs.  [spec_explain rule n xs ts] is the published recursion on the USER'S net: through a
   ReLU with input z and output a the relevance R becomes [rule z a R]; through anything else the true local
   vector-Jacobian product.

   override_pure ("the model object supplied by the user is never altered") has no theorem: [override] is a function of
   a functional model, so its argument cannot change; the aliasing question the clause stands for (shared layer objects,
   activations or weights between the clone and the user's model) is decided by the correspondence only, which compares
   model(x), get_weights() bytes, the plain TensorFlow gradient of the user's model and the layer objects before / after
   constructing and running each explainer (harness/c10.py, field "pure"). *)
From Xpl Require Import Base.Tensor C10.Spec C10.Proofs.
From Xpl Require Import C06.Proofs.
Open Scope Qc_scope.

(* Forward outputs of the clone = forward outputs of the user's model, for every max_value / threshold, every policy,
   every input, provided no ReLU layer has a negative slope ... *)
Theorem C10_override_forward :
  forall p n x, slopes0 n -> forward (override p n) x = forward n x.
Proof. exact override_forward. Qed.
Print Assumptions C10_override_forward.

(* ... and the same for the output of every intermediate layer *)
Theorem C10_override_forward_every_layer :
  forall p n k x, slopes0 n -> forward (firstn k (override p n)) x = forward (firstn k n) x.
Proof. exact override_forward_every_layer. Qed.
Print Assumptions C10_override_forward_every_layer.

(* KNOWN FINDING C10-negative-slope: override_relu_gradient rebuilds a ReLU layer from (max_value, threshold) only;
   with negative_slope <> 0 the clone's forward pass differs from the user's model (whatever the policy).
   Witness: Input(1) -> ReLU(negative_slope = 1/2), x = -2 : model -1, clone 0. *)
Theorem C10_override_forward_negative_slope_refuted :
  exists n x, (forall p, forward (override p n) x <> forward n x) /\ ~ slopes0 n.
Proof. exact override_forward_negative_slope_refuted. Qed.
Print Assumptions C10_override_forward_negative_slope_refuted.

(* DeconvNet: every ReLU (fused, Activation layer, ReLU layer with any max_value / threshold) lets through the positive
   incoming gradients only; every other layer uses its true gradient; any batch size. *)
Theorem C10_deconv_rule :
  forall n bs xs ts, slopes0 n -> bs_ok bs ->
    deconvnet n bs xs ts = spec_explain deconv_rule n xs ts.
Proof. exact deconv_rule_correct. Qed.
Print Assumptions C10_deconv_rule.

(* GuidedBackprop, published form: positive gradients at positive activations, for standard ReLUs (threshold 0, no
   negative slope, max_value absent or positive: there "input > 0" is "activation > 0"). *)
Theorem C10_guided_rule :
  forall n bs xs ts, std_relus n -> bs_ok bs ->
    guided_backprop n bs xs ts = spec_explain guided_rule n xs ts.
Proof. exact guided_rule_correct. Qed.
Print Assumptions C10_guided_rule.

(* GuidedBackprop, what the code does for EVERY variant: the gate is on the ReLU's input (> 0), as in Springenberg et
   al.; with threshold t > 0 inputs in (0, t] have activation 0 and still pass positive gradients
   (C10_guided_threshold_gate_differs) — outside the property's "standard ReLU", reported as an observation. *)
Theorem C10_guided_rule_input :
  forall n bs xs ts, slopes0 n -> bs_ok bs ->
    guided_backprop n bs xs ts = spec_explain guided_rule_input n xs ts.
Proof. exact guided_rule_input_correct. Qed.
Print Assumptions C10_guided_rule_input.

Theorem C10_std_relu_gate :
  forall c z, std_relu c -> Qcltb 0 (relu_fwd c z) = Qcltb 0 z.
Proof. exact std_relu_gate. Qed.
Print Assumptions C10_std_relu_gate.

Theorem C10_guided_threshold_gate_differs :
  exists c z R, 0 < r_thr c /\ r_slope c = 0 /\ policy_grad PGuided z R <> guided_rule z (relu_fwd c z) R.
Proof. exact guided_threshold_gate_differs. Qed.
Print Assumptions C10_guided_threshold_gate_differs.

(* all other layers are untouched (same op, hence same forward and same true gradient); exactly the ReLUs are changed;
   kernels and biases are those of the user's model; names / filters / shapes are kept *)
Theorem C10_override_other_layers :
  forall p l, is_relu_op (l_op l) = false -> override_layer p l = l.
Proof. exact override_other_layers. Qed.
Print Assumptions C10_override_other_layers.

Theorem C10_override_touches_relus :
  forall p l, is_relu_op (l_op l) = true -> l_op (override_layer p l) <> l_op l.
Proof. exact override_touches_relus. Qed.
Print Assumptions C10_override_touches_relus.

Theorem C10_override_keeps_weights :
  forall p l W b a, l_op l = ODense W b a -> l_op (override_layer p l) = ODense W b (override_act p a).
Proof. exact override_keeps_weights. Qed.
Print Assumptions C10_override_keeps_weights.

Theorem C10_override_keeps_structure :
  forall p n, length (override p n) = length n /\ map l_name (override p n) = map l_name n /\
              map l_filters (override p n) = map l_filters n /\ map l_chan (override p n) = map l_chan n.
Proof. exact override_keeps_structure. Qed.
Print Assumptions C10_override_keeps_structure.

(* "true gradients": the backward rule of Dense / Conv2D layers (in the model and in the published recursion) is the
   adjoint of the layer's linear map, <W d, g> = <d, W^T g>, and the layer's increments are that linear map *)
Theorem C10_dense_vjp_adjoint :
  forall W g d, (forall w, In w W -> length w = length d) ->
    dot (map (fun w => dot w d) W) g = dot d (transpose_mul W g (length d)).
Proof. exact dense_vjp_adjoint. Qed.
Print Assumptions C10_dense_vjp_adjoint.

Theorem C10_affine_increment :
  forall W b x d, length x = length d ->
    vsub (affine W b (vadd x d)) (affine W b x) = map (fun w => dot w d) (firstn (length b) W).
Proof. exact affine_increment. Qed.
Print Assumptions C10_affine_increment.

Theorem C10_relu_explainer_batch_invariant :
  forall p n bs bs' xs ts, bs_ok bs -> bs_ok bs' -> relu_explainer p n bs xs ts = relu_explainer p n bs' xs ts.
Proof. exact relu_explainer_batch_invariant. Qed.
Print Assumptions C10_relu_explainer_batch_invariant.

(* Grad-CAM, for ANY two-headed model (feat = activations of the chosen layer, featgrad = gradient of the score with
   respect to them, both row-wise; TF autodiff is a parameter), any resize, any batch size: the loop over batches with
   flat (H', W', K) tensors returns, per sample, resize (relu (sum_k w_k A[pos, k])) with w_k = mean over positions of G. *)
Theorem C10_gradcam_correct :
  forall resize feat featgrad K bs xs ts, bs_ok bs -> cam_shapes feat featgrad K xs ts ->
    cam_core resize weights_gc feat featgrad K bs xs ts
    = gradcam_spec feat K resize (w_gradcam feat featgrad K) xs ts.
Proof. exact gradcam_core_correct. Qed.
Print Assumptions C10_gradcam_correct.

(* Grad-CAM++: w_k = mean_pos ( G^2 / (2 G^2 + G^3 * mean_pos' A  (+ eps where that is exactly 0)) * relu G ) *)
Theorem C10_gradcampp_correct :
  forall resize feat featgrad K eps bs xs ts, bs_ok bs -> cam_shapes feat featgrad K xs ts ->
    cam_core resize (weights_pp eps) feat featgrad K bs xs ts
    = gradcam_spec feat K resize (w_gradcampp feat featgrad K eps) xs ts.
Proof. exact gradcampp_core_correct. Qed.
Print Assumptions C10_gradcampp_correct.

(* the same on a net: the chosen layer splits it, A = forward of the first part, G = reverse mode through the rest *)
Theorem C10_gradcam_net :
  forall resize n cl bs xs ts i, choose_layer n cl = Some i -> bs_ok bs ->
    cam_shapes (net_feat n i) (net_featgrad n i) (layer_chan n i) xs ts ->
    gradcam resize n cl bs xs ts
    = Some (gradcam_spec (net_feat n i) (layer_chan n i) resize
              (w_gradcam (net_feat n i) (net_featgrad n i) (layer_chan n i)) xs ts).
Proof. exact gradcam_correct. Qed.
Print Assumptions C10_gradcam_net.

Theorem C10_gradcampp_net :
  forall eps resize n cl bs xs ts i, choose_layer n cl = Some i -> bs_ok bs ->
    cam_shapes (net_feat n i) (net_featgrad n i) (layer_chan n i) xs ts ->
    gradcampp eps resize n cl bs xs ts
    = Some (gradcam_spec (net_feat n i) (layer_chan n i) resize
              (w_gradcampp (net_feat n i) (net_featgrad n i) (layer_chan n i) eps) xs ts).
Proof. exact gradcampp_correct. Qed.
Print Assumptions C10_gradcampp_net.

Theorem C10_forward_split :
  forall n k x, forward n x = forward (skipn k n) (forward (firstn k n) x).
Proof. exact forward_split. Qed.
Print Assumptions C10_forward_split.

(* layer choice: default = the last layer having `filters` (an error when there is none); by name = the first layer
   of that name; by index = Python indexing, negative indices from the end *)
Theorem C10_gradcam_layer_choice_default :
  forall n i, choose_layer n None = Some i -> is_last_conv n i.
Proof. exact last_conv_is_last. Qed.
Print Assumptions C10_gradcam_layer_choice_default.

Theorem C10_gradcam_layer_choice_default_none :
  forall n, choose_layer n None = None -> forall j, ~ has_filters_at n j.
Proof. exact last_conv_none. Qed.
Print Assumptions C10_gradcam_layer_choice_default_none.

Theorem C10_gradcam_layer_choice_name :
  forall n s i, choose_layer n (Some (ByName s)) = Some i -> name_at n i s /\ forall j, (j < i)%nat -> ~ name_at n j s.
Proof. exact find_by_name. Qed.
Print Assumptions C10_gradcam_layer_choice_name.

Theorem C10_gradcam_layer_choice_index :
  forall n z i, choose_layer n (Some (ByIndex z)) = Some i <->
    ((0 <= z < Z.of_nat (length n))%Z /\ i = Z.to_nat z) \/
    ((- Z.of_nat (length n) <= z < 0)%Z /\ i = Z.to_nat (Z.of_nat (length n) + z)).
Proof. exact find_by_index. Qed.
Print Assumptions C10_gradcam_layer_choice_index.

Theorem C10_gradcam_batch_invariant :
  forall weights resize n cl bs bs' xs ts, bs_ok bs -> bs_ok bs' ->
    gradcam_gen weights resize n cl bs xs ts = gradcam_gen weights resize n cl bs' xs ts.
Proof. exact gradcam_batch_invariant. Qed.
Print Assumptions C10_gradcam_batch_invariant.

Theorem C10_cam_nonneg :
  forall feat K w x t v, In v (cam_spec feat K w x t) -> 0 <= v.
Proof. exact cam_spec_nonneg. Qed.
Print Assumptions C10_cam_nonneg.

(* non-vacuity: Input(2) -> Dense(2, 'relu') -> ReLU(max_value = 2) -> Dense(1) meets slopes0 / std_relus; on x = (1, 1),
   t = (1) the plain gradient, DeconvNet and GuidedBackprop give three different maps; the same net read as a
   (1 x 1 x 2)-feature "conv" layer meets cam_shapes and Grad-CAM chooses layer 1. *)
Open Scope string_scope.
Definition ex_net : net :=
  [ mk "input" false 2 OId;
    mk "d1" true 2 (ODense [[1; q (-1) 1]; [1; 1]] [0; q (-1) 1] ARelu);
    mk "r2" false 2 (ORelu {| r_max := Some two; r_thr := 0; r_slope := 0 |});
    mk "d3" false 1 (ODense [[q (-1) 1; 1]] [0] ALin) ].
Close Scope string_scope.
Example C10_nonvacuous :
  slopes0 ex_net /\ std_relus ex_net /\ bs_ok (Some 2%nat) /\
  batch_gradient ex_net None [[1; 1]] [[1]] = [[1; 1]] /\
  deconvnet ex_net (Some 2%nat) [[1; 1]] [[1]] = [[1; 1]] /\
  deconvnet ex_net (Some 2%nat) [[1; q (-3) 1]] [[1]] = [[1; 1]] /\
  batch_gradient ex_net None [[1; q (-3) 1]] [[1]] = [[0; 0]] /\
  guided_backprop ex_net (Some 2%nat) [[1; q (-3) 1]] [[1]] = [[0; 0]] /\
  deconvnet ex_net None [[1; 1]] [[q (-1) 1]] = [[1; q (-1) 1]] /\
  guided_backprop ex_net None [[1; 1]] [[q (-1) 1]] = [[0; 0]] /\
  batch_gradient ex_net None [[1; 1]] [[q (-1) 1]] = [[q (-1) 1; q (-1) 1]] /\
  choose_layer ex_net None = Some 1%nat /\
  cam_shapes (net_feat ex_net 1) (net_featgrad ex_net 1) (layer_chan ex_net 1) [[1; 1]] [[1]].
Proof.
  assert (S0 : std_relus ex_net).
  { intros l c Hl Hc. cbn in Hl. repeat destruct Hl as [<-|Hl]; try discriminate Hc; try contradiction.
    injection Hc as <-. repeat split. }
  split; [intros l c Hl Hc; apply (S0 l c Hl Hc)|]. split; [exact S0|]. split; [cbn; lia|].
  repeat (split; [vm_compute; reflexivity|]).
  split; [cbn; lia|]. intros x t [H|[]]. injection H as <- <-. vm_compute. split; reflexivity.
Qed.
