(* Props/C15.v — property C15: MuFidelity and AverageStability measure what they document, within their bounds.
   Only statements, each closed by [exact]; proofs live in C15/Proofs.v.

   Reading guide.  [mufid_lists score bm c cphi bs nb rows] is the executable model of MuFidelity.evaluate up to the
   call of spearmanr: per input, the pair (score drops, summed attributions).  [mufid_triples] applies the model of
   spearmanr in root-free form (cov, var_a, var_b) of the average ranks; [mufid sqrt ...] is the returned float with
   the square root as a parameter.  The correlation of a triple is specified without a root by [corr_of t r]:
   r = 0 when a variance is 0 (the code's NaN -> 0), otherwise r^2 var_a var_b = cov^2 and r has the sign of cov;
   it determines r (C15_corr_unique), and the value the model computes satisfies it whenever [sqrt] is a square
   root at var_a*var_b (C15_model_value_is_corr).  A statement "for every rs with Forall2 corr_of triples rs, P (qmean rs)"
   is therefore a statement about the value of the metric. *)
From Xpl Require Import Base.Tensor C15.Spec C15.Proofs.
From Xpl Require Import C06.Proofs.
Open Scope Qc_scope.

(* mufid_pairs — for EVERY batch size (or None), every nb_samples >= 1, any number of inputs, any score, any baseline
   mode: the model pairs, per input, the drop score(x) - score(x with S at baseline) and the sum of the attributions
   of the SAME subset S, for exactly the nb_samples subsets applied to that input, in the same order. *)
Theorem C15_mufid_pairs :
  forall (score : sample -> sample -> Qc) bm c cphi bs nb rows,
    bs_ok bs -> (1 <= nb)%nat -> (forall r, In r rows -> row_ok bm c cphi nb r) ->
    mufid_lists score bm c cphi bs nb rows
    = map (fun r => (map (fun m => score (rx r) (rt r) - score (with_baseline bm c (rx r) m) (rt r)) (rm r),
                     map (attr_sum cphi (rphi r)) (rm r))) rows.
Proof. exact mufid_pairs. Qed.
Print Assumptions C15_mufid_pairs.

(* exactly nb_samples perturbations per sample whatever the batch size (no hypothesis on the mask values) *)
Theorem C15_mufid_count :
  forall (score : sample -> sample -> Qc) bm c cphi bs nb rows,
    bs_ok bs -> (1 <= nb)%nat -> (forall r, In r rows -> length (rm r) = nb) ->
    length (mufid_lists score bm c cphi bs nb rows) = length rows /\
    Forall (fun pa => length (fst pa) = nb /\ length (snd pa) = nb) (mufid_lists score bm c cphi bs nb rows).
Proof. exact mufid_count. Qed.
Print Assumptions C15_mufid_count.

Theorem C15_mufid_batch_invariant :
  forall (score : sample -> sample -> Qc) bm c cphi bs bs' nb rows,
    bs_ok bs -> bs_ok bs' -> (1 <= nb)%nat -> (forall r, In r rows -> length (rm r) = nb) ->
    forall sqrt, mufid score bm c cphi sqrt bs nb rows = mufid score bm c cphi sqrt bs' nb rows.
Proof. exact mufid_batch_invariant. Qed.
Print Assumptions C15_mufid_batch_invariant.

(* ranks_scale_invariant — average ranks depend only on the order: unchanged by v -> k*v, k > 0, and by any strictly
   increasing map *)
Theorem C15_ranks_scale_invariant : forall k v, 0 < k -> ranks (map (Qcmult k) v) = ranks v.
Proof. exact ranks_scale_invariant. Qed.
Print Assumptions C15_ranks_scale_invariant.

Theorem C15_ranks_increasing :
  forall (f : Qc -> Qc) v, (forall a b, a < b <-> f a < f b) -> ranks (map f v) = ranks v.
Proof. exact ranks_increasing. Qed.
Print Assumptions C15_ranks_increasing.

(* ranks of the negation: rank_i(-v) = n + 1 - rank_i(v) (ties included) *)
Theorem C15_ranks_opp : forall v, ranks (map Qcopp v) = map (fun r => qn (length v) + 1 - r) (ranks v).
Proof. exact ranks_opp. Qed.
Print Assumptions C15_ranks_opp.

(* the metric is unchanged by positive rescaling of the explanations: the rank triples are identical, for every
   batch size *)
Theorem C15_mufid_scale_invariant :
  forall (score : sample -> sample -> Qc) bm c cphi k bs nb rows,
    0 < k -> bs_ok bs -> (1 <= nb)%nat -> (forall r, In r rows -> length (rm r) = nb) ->
    mufid_triples score bm c cphi bs nb (map (with_phi (map (Qcmult k))) rows) = mufid_triples score bm c cphi bs nb rows.
Proof. exact mufid_scale_invariant. Qed.
Print Assumptions C15_mufid_scale_invariant.

(* spearman_self — rho(v, v) = 1 and rho(v, -v) = -1 whenever defined (rank variance > 0) *)
Theorem C15_spearman_self :
  forall v r, 0 < rank_var v -> corr_of (spearman3 v v) r -> r = 1.
Proof. exact spearman_self_one. Qed.
Print Assumptions C15_spearman_self.

Theorem C15_spearman_opp :
  forall v r, 0 < rank_var v -> corr_of (spearman3 v (map Qcopp v)) r -> r = - (1).
Proof. exact spearman_opp_minus_one. Qed.
Print Assumptions C15_spearman_opp.

(* spearman_bounded — Cauchy-Schwarz on the centred ranks: cov^2 <= var_a * var_b *)
Theorem C15_spearman_bounded :
  forall a b, length a = length b ->
    let t := spearman3 a b in t_cov t * t_cov t <= t_va t * t_vb t /\ 0 <= t_va t /\ 0 <= t_vb t.
Proof. exact spearman_bounded. Qed.
Print Assumptions C15_spearman_bounded.

Theorem C15_corr_unique : forall t r r', corr_of t r -> corr_of t r' -> r = r'.
Proof. exact corr_of_unique. Qed.
Print Assumptions C15_corr_unique.

Theorem C15_model_value_is_corr :
  forall sqrt t,
    (t_va t * t_vb t <> 0 -> 0 < sqrt (t_va t * t_vb t) /\ sqrt (t_va t * t_vb t) * sqrt (t_va t * t_vb t) = t_va t * t_vb t) ->
    corr_of t (corr_nan0 sqrt t).
Proof. exact corr_nan0_is_corr. Qed.
Print Assumptions C15_model_value_is_corr.

(* the metric lies in [-1, 1]: every per-sample correlation and their mean, for every batch size *)
Theorem C15_mufid_bounded :
  forall (score : sample -> sample -> Qc) bm c cphi bs nb rows rs,
    bs_ok bs -> (1 <= nb)%nat -> (forall r, In r rows -> length (rm r) = nb) ->
    Forall2 corr_of (mufid_triples score bm c cphi bs nb rows) rs ->
    (forall rho, In rho rs -> - (1) <= rho /\ rho <= 1) /\ - (1) <= qmean rs /\ qmean rs <= 1.
Proof. exact mufid_bounded. Qed.
Print Assumptions C15_mufid_bounded.

(* mufid_additive_exact — additive score, exact attributions w_i (x_i - b_i) with respect to the baseline: the drop of
   every subset EQUALS the sum of its attributions (any mask values), so each sample's correlation is +1 when the
   drops are not all tied (0 by the NaN rule otherwise); -1 for the negated attributions; for every batch size *)
Theorem C15_additive_drop_is_attr :
  forall (score : sample -> sample -> Qc) bm c w bias x t m,
    additive score w bias -> length x = (length m * c)%nat -> length (w t) = length x ->
    length (baseline_of bm x) = length x ->
    score x t - score (degrade bm c x m) t = attr_of c (exact_phi bm w x t) m.
Proof. exact additive_drop_is_attr. Qed.
Print Assumptions C15_additive_drop_is_attr.

Theorem C15_mufid_additive_exact :
  forall (score : sample -> sample -> Qc) bm c w bias bs nb rows rs,
    additive score w bias -> bs_ok bs -> (1 <= nb)%nat -> (forall r, In r rows -> exact_row bm c w nb r) ->
    Forall2 corr_of (mufid_triples score bm c c bs nb rows) rs ->
    Forall2 (fun r rho => (0 < drop_var score bm c r -> rho = 1) /\ (drop_var score bm c r = 0 -> rho = 0)) rows rs.
Proof. exact mufid_additive_exact. Qed.
Print Assumptions C15_mufid_additive_exact.

Theorem C15_mufid_additive_exact_neg :
  forall (score : sample -> sample -> Qc) bm c w bias bs nb rows rs,
    additive score w bias -> bs_ok bs -> (1 <= nb)%nat -> (forall r, In r rows -> exact_row bm c w nb r) ->
    Forall2 corr_of (mufid_triples score bm c c bs nb (map (with_phi (map Qcopp)) rows)) rs ->
    Forall2 (fun r rho => (0 < drop_var score bm c r -> rho = - (1)) /\ (drop_var score bm c r = 0 -> rho = 0)) rows rs.
Proof. exact mufid_additive_exact_neg. Qed.
Print Assumptions C15_mufid_additive_exact_neg.

(* the value: +1 / -1 when every sample's drops are not all tied *)
Theorem C15_mufid_additive_value :
  forall (score : sample -> sample -> Qc) bm c w bias bs nb rows rs,
    additive score w bias -> bs_ok bs -> (1 <= nb)%nat -> rows <> [] ->
    (forall r, In r rows -> exact_row bm c w nb r) -> (forall r, In r rows -> 0 < drop_var score bm c r) ->
    (Forall2 corr_of (mufid_triples score bm c c bs nb rows) rs -> qmean rs = 1) /\
    (Forall2 corr_of (mufid_triples score bm c c bs nb (map (with_phi (map Qcopp)) rows)) rs -> qmean rs = - (1)).
Proof. exact mufid_additive_value. Qed.
Print Assumptions C15_mufid_additive_value.

(* when the correlation is defined: the rank variance is positive as soon as two entries differ, 0 when all are tied;
   for a sample: as soon as two of its subsets change the score differently *)
Theorem C15_rank_var_pos : forall v x y, In x v -> In y v -> x <> y -> 0 < rank_var v.
Proof. exact rank_var_pos. Qed.
Print Assumptions C15_rank_var_pos.

Theorem C15_rank_var_const : forall v d, (forall x, In x v -> x = d) -> rank_var v = 0.
Proof. exact rank_var_const. Qed.
Print Assumptions C15_rank_var_const.

Theorem C15_drop_var_pos :
  forall (score : sample -> sample -> Qc) bm c r m m', In m (rm r) -> In m' (rm r) ->
    score (degrade bm c (rx r) m) (rt r) <> score (degrade bm c (rx r) m') (rt r) -> 0 < drop_var score bm c r.
Proof. exact drop_var_pos. Qed.
Print Assumptions C15_drop_var_pos.

(* mufid_constant_zero — when the score never varies over the applied subsets, every correlation and the metric are 0 *)
Theorem C15_mufid_constant_zero :
  forall (score : sample -> sample -> Qc) bm c cphi bs nb rows rs,
    bs_ok bs -> (1 <= nb)%nat -> (forall r, In r rows -> length (rm r) = nb) ->
    (forall r m, In r rows -> In m (rm r) -> score (degrade bm c (rx r) m) (rt r) = score (rx r) (rt r)) ->
    Forall2 corr_of (mufid_triples score bm c cphi bs nb rows) rs ->
    (forall rho, In rho rs -> rho = 0) /\ qmean rs = 0.
Proof. exact mufid_constant_zero. Qed.
Print Assumptions C15_mufid_constant_zero.

(* ---------------- AverageStability ---------------- *)
(* the model is the mean over inputs of the mean distance between the explanation of the input and those of its
   neighbours x + e (row-wise explainer; base explanations computed by the metric or handed in) *)
Theorem C15_stability_correct :
  forall (e : sample -> sample -> sample) dist xs ts noises,
    stability (expl_rowwise e) dist None xs ts noises
    = qmean (map (fun p => qmean (map (fun n => dist (e (vadd (fst (fst p)) n) (snd (fst p))) (e (fst (fst p)) (snd (fst p)))) (snd p)))
                 (combine (combine xs ts) noises)) /\
    stability (expl_rowwise e) dist (Some (map2 e xs ts)) xs ts noises
    = stability (expl_rowwise e) dist None xs ts noises.
Proof. intros e dist xs ts noises. destruct (stability_correct e dist xs ts noises) as [H1 H2]. split; [exact H1 | congruence]. Qed.
Print Assumptions C15_stability_correct.

(* stability_nonneg — ANY explainer (a batch function), any noises: non-negative distance => non-negative score;
   l1 is non-negative; l2 is as soon as the square root is *)
Theorem C15_stability_nonneg :
  forall expl dist base xs ts noises, (forall a b, 0 <= dist a b) -> 0 <= stability expl dist base xs ts noises.
Proof. exact stability_nonneg. Qed.
Print Assumptions C15_stability_nonneg.

Theorem C15_stability_nonneg_l1 :
  forall expl base xs ts noises, 0 <= stability expl dist_l1 base xs ts noises.
Proof. intros. apply stability_nonneg. exact dist_l1_nonneg. Qed.
Print Assumptions C15_stability_nonneg_l1.

Theorem C15_stability_nonneg_l2 :
  forall sqrt expl base xs ts noises, (forall x, 0 <= sqrt x) -> 0 <= stability expl (dist_l2 sqrt) base xs ts noises.
Proof. intros sqrt expl base xs ts noises H. apply stability_nonneg. intros a b. apply dist_l2_nonneg, H. Qed.
Print Assumptions C15_stability_nonneg_l2.

(* stability_constant_zero — an explainer that ignores its input scores exactly 0 (l1; l2 with sqrt 0 = 0; any
   distance with d(a,a) = 0) *)
Theorem C15_stability_constant_zero :
  forall (e : sample -> sample -> sample) dist xs ts noises,
    (forall x x' t, e x t = e x' t) -> (forall a, dist a a = 0) ->
    stability (expl_rowwise e) dist None xs ts noises = 0.
Proof. exact stability_constant_zero. Qed.
Print Assumptions C15_stability_constant_zero.

Theorem C15_stability_constant_zero_l1_l2 :
  forall (e : sample -> sample -> sample) sqrt xs ts noises,
    (forall x x' t, e x t = e x' t) -> sqrt 0 = 0 ->
    stability (expl_rowwise e) dist_l1 None xs ts noises = 0 /\
    stability (expl_rowwise e) (dist_l2 sqrt) None xs ts noises = 0.
Proof. intros e sqrt xs ts noises He Hs. split; apply stability_constant_zero; auto; intro a;
  [apply dist_l1_self | apply dist_l2_self; exact Hs]. Qed.
Print Assumptions C15_stability_constant_zero_l1_l2.

(* stability_count — for every input the explainer is asked about exactly its nb_samples neighbours x + e_j, each
   with the input's own label; the loop has no batch size, so this holds whatever batch_size is passed *)
Theorem C15_stability_count :
  forall xs ts noises nb, (forall ns, In ns noises -> length ns = nb) ->
    Forall (fun q => length (fst q) = nb /\ length (snd q) = nb) (stability_queries xs ts noises) /\
    stability_queries xs ts noises
    = map (fun p => (map (vadd (fst (fst p))) (snd p), repeat (snd (fst p)) (length (snd p))))
          (combine (combine xs ts) noises).
Proof. exact stability_count. Qed.
Print Assumptions C15_stability_count.

(* non-vacuity: two tabular inputs, nb_samples = 3, batch_size = 2 (perturbation batches 2 + 1, one input per input
   batch), baseline 0, additive score <(2,-1,3), x>, exact attributions: the hypotheses of the theorems above hold, the
   drops are not all tied, the three triple entries coincide and the executable value (with the 1e-9 square root of the
   correspondence, which is exact here) is 1; the executable square root meets the hypotheses of the l2 theorems *)
Definition ex_w : sample -> sample := fun _ => [q 2 1; q (-1) 1; q 3 1].
Definition ex_score : sample -> sample -> Qc := fun x t => 0 + dot (ex_w t) x.
Definition ex_row (x : sample) (ms : list sample) : row :=
  {| rx := x; rt := [1]; rphi := exact_phi (BConst 0) ex_w x [1]; rm := ms |}.
Definition ex_rows : list row :=
  [ex_row [q 1 1; q 2 1; q (-1) 1] [[1; 0; 1]; [0; 1; 1]; [1; 1; 0]];
   ex_row [q 1 2; q (-3) 1; q 1 1] [[0; 0; 1]; [1; 0; 1]; [1; 1; 1]]].

Example C15_nonvacuous :
  bs_ok (Some 2%nat) /\ additive ex_score ex_w (fun _ => 0) /\
  (forall r, In r ex_rows -> row_ok (BConst 0) 1 1 3 r) /\
  (forall r, In r ex_rows -> exact_row (BConst 0) 1 ex_w 3 r) /\
  (forall r, In r ex_rows -> 0 < drop_var ex_score (BConst 0) 1 r) /\
  mufid ex_score (BConst 0) 1 1 qsqrt9 (Some 2%nat) 3 ex_rows = 1 /\
  (forall x, 0 <= qsqrt9 x) /\ qsqrt9 0 = 0.
Proof.
  split; [cbn; lia|]. split; [intros x t; reflexivity|].
  split.
  { intros r [<-|[<-|[]]]; (split; [reflexivity|]); intros m Hm; cbn [rm ex_row] in Hm;
      repeat (destruct Hm as [<-|Hm]; [split; [intros v Hv; cbn [In] in Hv; intuition | repeat split; reflexivity]|]);
      destruct Hm. }
  split.
  { intros r [<-|[<-|[]]]; (split; [reflexivity|]); (split; [reflexivity|]); (split; [reflexivity|]);
      (split; [reflexivity|]); intros m Hm; cbn [rm ex_row] in Hm;
      repeat (destruct Hm as [<-|Hm]; [reflexivity|]); destruct Hm. }
  split.
  { intros r [<-|[<-|[]]]; vm_compute; reflexivity. }
  split; [apply Qc_is_canon; vm_compute; reflexivity|].
  split; [exact qsqrt9_nonneg | exact qsqrt9_zero].
Qed.
