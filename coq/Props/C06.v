(* Props/C06.v — property C06: Occlusion equals its reference definition for every geometry.
   Only statements, each closed by [exact]; proofs live in C06/Proofs.v. *)
From Xpl Require Import Base.Tensor C06.Spec C06.Proofs.
Open Scope Qc_scope.

(* For every score function (any model / operator, non-additive included), every well-formed geometry
   (tabular, time series, image; any patch sizes / strides >= 1), every occlusion value, every batch size
   (or None) and every list of inputs of the right size, the executable model of Occlusion.explain
   returns the reference map: for each position, the sum over the patches covering it of
   score(x) - score(x with the patch set to v). *)
Theorem C06_occlusion_correct :
  forall (score : list Qc -> list Qc -> Qc) g bs v xs ts,
    geom_ok g -> bs_ok bs -> (forall x, In x xs -> length x = geom_size g) ->
    occlusion score g bs v xs ts = map2 (fun x t => map (spec_at score g v x t) (seq 0 (geom_npos g))) xs ts.
Proof. exact occlusion_correct. Qed.
Print Assumptions C06_occlusion_correct.

Theorem C06_batch_invariant :
  forall (score : list Qc -> list Qc -> Qc) g bs bs' v xs ts,
    geom_ok g -> bs_ok bs -> bs_ok bs' -> (forall x, In x xs -> length x = geom_size g) ->
    occlusion score g bs v xs ts = occlusion score g bs' v xs ts.
Proof. exact occlusion_batch_invariant. Qed.
Print Assumptions C06_batch_invariant.

(* the patches are exactly the boxes anchored at multiples of the stride that lie fully inside *)
Theorem C06_patches_tabular :
  forall d p s P, (1 <= s)%nat -> (1 <= p)%nat ->
    (In P (patches (Tab d p s)) <-> exists a, P = P1 a /\ (exists k, a = k * s)%nat /\ (a + p <= d)%nat).
Proof. exact patches_tab. Qed.
Print Assumptions C06_patches_tabular.

Theorem C06_patches_grid :
  forall h w c p0 p1 s0 s1 P, (1 <= s0)%nat -> (1 <= s1)%nat -> (1 <= p0)%nat -> (1 <= p1)%nat ->
    (In P (patches (Grid h w c p0 p1 s0 s1)) <->
     exists a b, P = P2 a b /\ ((exists k, a = k * s0) /\ a + p0 <= h)%nat
                            /\ ((exists k, b = k * s1) /\ b + p1 <= w)%nat).
Proof. exact patches_grid. Qed.
Print Assumptions C06_patches_grid.

Theorem C06_anchors_nodup : forall d p s, (1 <= s)%nat -> NoDup (anchors d p s).
Proof. exact anchors_nodup. Qed.
Print Assumptions C06_anchors_nodup.

(* features in the border left by a non-tiling stride, or that the score ignores, get exactly 0 *)
Theorem C06_uncovered_zero :
  forall (score : list Qc -> list Qc -> Qc) g v x t pos,
    (forall P, In P (patches g) -> covers g P pos = false) -> spec_at score g v x t pos = 0.
Proof. exact spec_uncovered_zero. Qed.
Print Assumptions C06_uncovered_zero.

Theorem C06_ignored_zero :
  forall (score : list Qc -> list Qc -> Qc) g v x t pos,
    (forall P, In P (patches g) -> covers g P pos = true -> score (occlude g v x P) t = score x t) ->
    spec_at score g v x t pos = 0.
Proof. exact spec_ignored_zero. Qed.
Print Assumptions C06_ignored_zero.

(* non-vacuity: a 3x4x2 image, patch (2,3), stride (2,2) (does not tile), batch size 2 meets the
   hypotheses, has two patches, and leaves the last row and column uncovered *)
Example C06_nonvacuous :
  geom_ok (Grid 3 4 2 2 3 2 2) /\ bs_ok (Some 2%nat) /\
  patches (Grid 3 4 2 2 3 2 2) = [P2 0 0] /\ patches (Grid 5 4 2 2 3 2 1) = [P2 0 0; P2 0 1; P2 2 0; P2 2 1] /\
  covers (Grid 3 4 2 2 3 2 2) (P2 0 0) 11 = false.
Proof. repeat split; cbn; lia. Qed.
