(* Props/C18.v — property C18: prototype selection is batching-independent and maximises its stated objective.
   Only statements, each closed by [exact]; proofs live in C18/Proofs.v.
   Everything DESIGN.md section 5 (C18) lists is proved: colmeans_triangular, greedy_batch_invariant (for any
   objective of the family, any batch size), selected_distinct, mmd_objective_spec (+ ProtoGreedy), protodash_first,
   weights_normalised, local_index_translation, prototypes_labels_indices.  [check_spec] (Spec.v) still evaluates
   Model = Spec on every generated case as a regression test of the executable definitions.
   Not covered by a theorem: that the batched KNN over the prototypes returns the k nearest (C16's subject);
   exact_selection_weights_update=True (scipy SLSQP; unreachable through the public ProtoDash class). *)
From Xpl Require Import C18.Spec C18.Proofs.
Open Scope Qc_scope.

(* 0a. triangular accumulation: for a symmetric kernel matrix and EVERY batch size, the (nb, b) tables built over the
   lower block triangle (column sums + transposed row sums + diagonal blocks) are the row-major cut of the dense
   column means and of the dense diagonal, zero padded *)
Theorem C18_colmeans_triangular :
  forall K n bs, symmetric K n -> (1 <= bs)%nat ->
    col_means_table K bs n = table_of bs (dense_col_means K n) /\
    diag_table K bs n = table_of bs (dense_diag K n).
Proof. exact colmeans_triangular. Qed.
Print Assumptions C18_colmeans_triangular.

(* 0b. batching independence of the whole selection: for EVERY batch size, number of prototypes, weight update and
   ANY objective that is a function of the candidate's diagonal value, column mean, kernel row to the selection
   (and the selection's own col means / kernel), the dataset positions selected by the batched model are the dense
   greedy selection with first-index tie-breaking computed from the full kernel matrix *)
Theorem C18_greedy_batch_invariant :
  forall obj updw K n bs np, symmetric K n -> (1 <= bs)%nat ->
    map (flat_idx bs) (g_sel (run_greedy K bs n np obj updw (col_means_table K bs n) (diag_table K bs n)))
    = dense_select obj K n np.
Proof. exact greedy_batch_invariant. Qed.
Print Assumptions C18_greedy_batch_invariant.

Theorem C18_prototypes_batch_invariant :
  forall m eps K bs np, symmetric K (length K) -> (1 <= bs)%nat ->
    map (flat_idx bs) (fst (find_prototypes m eps K bs np)) = dense_select (method_obj eps m) K (length K) np.
Proof. exact prototypes_batch_invariant. Qed.
Print Assumptions C18_prototypes_batch_invariant.

Theorem C18_selection_batch_independent :
  forall m eps K bs bs' np, symmetric K (length K) -> (1 <= bs)%nat -> (1 <= bs')%nat ->
    map (flat_idx bs) (fst (find_prototypes m eps K bs np)) = map (flat_idx bs') (fst (find_prototypes m eps K bs' np)).
Proof. exact selection_batch_independent. Qed.
Print Assumptions C18_selection_batch_independent.

(* 1. weights: non-negative and summing to one, for the three methods, every kernel matrix, batch size and number
   of prototypes, as soon as one un-normalised weight is positive (otherwise the code divides by zero) *)
Theorem C18_weights_normalised :
  forall m eps K bs np,
    let n := length K in
    let s := run_greedy K bs n np (method_obj eps m) (method_updw eps m) (col_means_table K bs n) (diag_table K bs n) in
    (exists x, In x (g_w s) /\ 0 < x) -> weights_ok (snd (find_prototypes m eps K bs np)).
Proof. exact weights_normalised. Qed.
Print Assumptions C18_weights_normalised.

(* 2. the selected cases are distinct: distinct (batch, position) pairs, positions inside the batch, hence
   distinct dataset positions batch * bs + position — every method, kernel matrix, batch size, nb_prototypes *)
Theorem C18_selected_distinct :
  forall m eps K bs np,
    let sel := fst (find_prototypes m eps K bs np) in
    NoDup sel /\ (forall bp, In bp sel -> (snd bp < bs)%nat) /\ NoDup (map (flat_idx bs) sel).
Proof. exact selected_distinct. Qed.
Print Assumptions C18_selected_distinct.

(* 3. batching independence of the arg-max: the loop "first arg-max inside each batch, kept unless a later batch
   is STRICTLY better" returns the first maximiser of the concatenated candidates, for every cut into batches *)
Theorem C18_batched_argmax_is_dense :
  forall (A : Type) (bl : list (list (A * Qc))), fold_left merge_best bl None = first_max (concat bl).
Proof. exact @batched_first_max. Qed.
Print Assumptions C18_batched_argmax_is_dense.

Theorem C18_batching_invariant_argmax :
  forall (A : Type) (bl bl' : list (list (A * Qc))), concat bl = concat bl' ->
    fold_left merge_best bl None = fold_left merge_best bl' None.
Proof. exact @batched_first_max_invariant. Qed.
Print Assumptions C18_batching_invariant_argmax.

(* the model's tf.argmax reads that first maximiser *)
Theorem C18_argmax_reads_first_max :
  forall (A : Type) (val : A -> Qc) (l : list A),
    option_map (fun a => (a, val a)) (nth_error l (argmax (map val l))) = first_max (map (fun a => (a, val a)) l).
Proof. exact @argmax_first_max. Qed.
Print Assumptions C18_argmax_reads_first_max.

(* ... and a first maximiser is a maximiser, strictly better than every earlier candidate *)
Theorem C18_first_max_is_maximiser :
  forall (A : Type) (l : list (A * Qc)) x, first_max l = Some x -> is_first_max l x.
Proof. exact @first_max_spec. Qed.
Print Assumptions C18_first_max_is_maximiser.

(* 4. the dense greedy step selects a first maximiser of the objective among the cases not yet selected *)
Theorem C18_dense_step_maximises :
  forall obj K n S c, dense_step obj K n S = S ++ [c] -> dense_candidates n S <> [] ->
    is_first_max (map (fun c => (c, fst (dense_value obj K n S c))) (dense_candidates n S))
                 (c, fst (dense_value obj K n S c)).
Proof. exact dense_step_spec. Qed.
Print Assumptions C18_dense_step_maximises.

Theorem C18_dense_candidates :
  forall n S c, In c (dense_candidates n S) <-> (c < n)%nat /\ ~ In c S.
Proof. exact dense_candidates_spec. Qed.
Print Assumptions C18_dense_candidates.

(* 5. the objective the code computes from (diag, column mean, kernel row to the selection, K_SS) is the documented
   one written on the full kernel matrix *)
Theorem C18_mmd_objective_spec :
  forall K n S c, (n <> 0)%nat -> symmetric K n -> (c < n)%nat -> (forall s, In s S -> (s < n)%nat) ->
    fst (dense_value mmd_obj K n S c) = mmd_documented K n S c.
Proof. exact dense_value_mmd. Qed.
Print Assumptions C18_mmd_objective_spec.

Theorem C18_greedy_objective_spec :
  forall eps K n S c, symmetric K n -> (c < n)%nat -> (forall s, In s S -> (s < n)%nat) ->
    fst (dense_value (greedy_obj eps) K n S c) = greedy_documented eps K n S c.
Proof. exact dense_value_greedy. Qed.
Print Assumptions C18_greedy_objective_spec.

(* 6. ProtoDash starts from the case with the largest mean kernel value *)
Theorem C18_protodash_first :
  forall K n c, (n <> 0)%nat -> dense_select dash_obj K n 1 = [c] ->
    is_first_max (map (fun c => (c, colmean K n c)) (seq 0 n)) (c, colmean K n c).
Proof. exact protodash_first. Qed.
Print Assumptions C18_protodash_first.

(* 7. local explanations: flat = batch * bs + position addresses the same element as (batch, position) in the
   batched list, and the label returned with a neighbour is the dataset label at the returned dataset index *)
Theorem C18_local_index_translation :
  forall (A : Type) (l : list A) bs b p d, (1 <= bs)%nat -> (p < bs)%nat ->
    nth p (nth b (chunks bs l) []) d = nth (b * bs + p) l d.
Proof. exact @nth_chunks. Qed.
Print Assumptions C18_local_index_translation.

Theorem C18_prototypes_labels_indices :
  forall bs k protos labels drow d idx lab, (1 <= bs)%nat ->
    (forall bp, In bp protos -> (snd bp < bs)%nat) ->
    In (d, Some idx, Some lab) (local_row bs k protos (proto_labels bs labels protos) drow) ->
    In idx protos /\ lab = nth (flat_idx bs idx) labels 0%nat.
Proof. exact local_row_labels_indices. Qed.
Print Assumptions C18_prototypes_labels_indices.

(* non-vacuity: a symmetric 4 x 4 kernel matrix, batch size 3 (remainder batch), 3 prototypes: the three methods
   run, MMDCritic selects the dataset positions 1, 2, 0 with weights 1/3 (also with batch size 2), and the batched model agrees with the
   dense specification on the tables and on the selection *)
Definition K4 : list (list Qc) :=
  [[q 1 1; q 1 2; q 1 8; q 1 4]; [q 1 2; q 1 1; q 1 4; q 1 2]; [q 1 8; q 1 4; q 1 1; q 1 8]; [q 1 4; q 1 2; q 1 8; q 1 1]].
Example C18_nonvacuous :
  symmetric K4 4 /\
  find_prototypes MMDCritic (q 1 1000000) K4 3 3 = ([(0, 1); (0, 2); (0, 0)]%nat, [q 1 3; q 1 3; q 1 3]) /\
  find_prototypes MMDCritic (q 1 1000000) K4 2 3 = ([(0, 1); (1, 0); (0, 0)]%nat, [q 1 3; q 1 3; q 1 3]) /\
  check_spec MMDCritic (q 1 1000000) K4 3 3 = true /\ check_spec ProtoDash (q 1 1000000) K4 3 3 = true /\
  check_spec ProtoGreedy (q 1 1000000) K4 3 3 = true /\
  weights_ok (snd (find_prototypes ProtoGreedy (q 1 1000000) K4 3 3)).
Proof.
  split.
  { intros r c Hr Hc.
    do 4 (destruct r as [|r]; [do 4 (destruct c as [|c]; [reflexivity|]); exfalso; lia|]). exfalso; lia. }
  split; [vm_compute; reflexivity|]. split; [vm_compute; reflexivity|].
  split; [vm_compute; reflexivity|]. split; [vm_compute; reflexivity|]. split; [vm_compute; reflexivity|].
  apply C18_weights_normalised. vm_compute. eexists. split; [left; reflexivity|]. reflexivity.
Qed.
