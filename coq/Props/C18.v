From Xpl Require Import C18.Spec C18.Proofs.
Open Scope Qc_scope.
Theorem C18_tmp : forall w, qsum w <> 0 -> qsum (normalise w) = 1.
Proof. exact normalise_sum. Qed.
Print Assumptions C18_tmp.
