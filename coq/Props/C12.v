(* Props/C12.v — property C12: common API contract (containers, one explanation per input, documented shapes).
   Only statements; proofs in C12/Proofs.v.  dtype (float32) and finiteness are properties of TensorFlow values that
   exact rationals cannot express: they are checked on the implementation's outputs by harness/c12.py only. *)
From Xpl Require Import C12.Model C12.Proofs.
From Xpl Require C01.Model C01.Spec C01.Proofs C04.Model C04.Spec C06.Model C06.Spec C06.Proofs C09.Model C09.Proofs.
Close Scope Qc_scope. Open Scope nat_scope.

(* a dataset of (input, target) pairs batched by ANY b >= 1 (remainder batch included), the unbatched dataset and the
   plain arrays are sanitised to the same (inputs, targets) *)
Theorem C12_sanitize_dataset_roundtrip :
  forall (S T : Type) (b : nat) (xs : list S) (ts : list T), 1 <= b -> length xs = length ts ->
    sanitize (batched b xs ts) = (xs, ts) /\ sanitize (unbatched xs ts) = (xs, ts) /\ sanitize (Arrays xs ts) = (xs, ts).
Proof. exact @sanitize_dataset_roundtrip. Qed.
Print Assumptions C12_sanitize_dataset_roundtrip.

(* so every explain function returns identical explanations for the three containers, whatever the dataset batch sizes *)
Theorem C12_containers_agree :
  forall (S T O : Type) (E : list S -> list T -> O) b b' xs ts, 1 <= b -> 1 <= b' -> length xs = length ts ->
    explain_on E (batched b xs ts) = explain_on E (Arrays xs ts) /\
    explain_on E (batched b xs ts) = explain_on E (batched b' xs ts) /\
    explain_on E (unbatched xs ts) = explain_on E (Arrays xs ts).
Proof. exact @containers_agree. Qed.
Print Assumptions C12_containers_agree.

Theorem C12_call_is_explain :
  forall (S T O : Type) (E : list S -> list T -> O) (c : container S T), call_on E c = explain_on E c.
Proof. exact @call_is_explain. Qed.
Print Assumptions C12_call_is_explain.

Theorem C12_sample_count_kept :
  forall (S T : Type) b (xs : list S) (ts : list T), 1 <= b -> length xs = length ts ->
    length (fst (sanitize (batched b xs ts))) = length xs.
Proof. exact @sanitize_count. Qed.
Print Assumptions C12_sample_count_kept.

(* one explanation per input, with the documented size: W (tabular), T*W (time series), H*W i.e. (H,W,1) for images
   with a channel reducer, H*W*C with reducer None — for every N >= 1, batch size and shape *)
Theorem C12_saliency_shape :
  forall (grad : list Qc -> list Qc -> list Qc) k r bs xs ts,
    C01.Spec.shape_preserving grad -> C01.Spec.kind_ok k -> C06.Proofs.bs_ok bs -> length xs = length ts ->
    (forall x, In x xs -> length x = C01.Model.kind_size k) ->
    length (C01.Model.saliency grad k r bs xs ts) = length xs /\
    forall e, In e (C01.Model.saliency grad k r bs xs ts) -> length e = out_size k r.
Proof. exact saliency_shape. Qed.
Print Assumptions C12_saliency_shape.

Theorem C12_gradient_input_shape :
  forall (grad : list Qc -> list Qc -> list Qc) k r bs xs ts,
    C01.Spec.shape_preserving grad -> C01.Spec.kind_ok k -> C06.Proofs.bs_ok bs -> length xs = length ts ->
    (forall x, In x xs -> length x = C01.Model.kind_size k) ->
    length (C01.Model.gradient_input grad k r bs xs ts) = length xs /\
    forall e, In e (C01.Model.gradient_input grad k r bs xs ts) -> length e = out_size k r.
Proof. exact gradient_input_shape. Qed.
Print Assumptions C12_gradient_input_shape.

Theorem C12_gradient_statistics_shape :
  forall (grad : list Qc -> list Qc -> list Qc) k r st bs nb xs ts noises,
    C01.Spec.shape_preserving grad -> C01.Spec.kind_ok k -> C06.Proofs.bs_ok bs -> 1 <= nb ->
    (st = C01.Model.SVar -> 2 <= nb) -> C01.Spec.noises_ok nb (C01.Proofs.rows xs ts noises) ->
    length xs = length ts -> length xs = length noises ->
    (forall x, In x xs -> length x = C01.Model.kind_size k) ->
    length (C01.Model.gradstat grad k r st bs nb xs ts noises) = length xs /\
    forall e, In e (C01.Model.gradstat grad k r st bs nb xs ts noises) -> length e = out_size k r.
Proof. exact gradstat_shape. Qed.
Print Assumptions C12_gradient_statistics_shape.

Theorem C12_occlusion_shape :
  forall (score : list Qc -> list Qc -> Qc) g bs v xs ts,
    C06.Spec.geom_ok g -> C06.Proofs.bs_ok bs -> length xs = length ts ->
    (forall x, In x xs -> length x = C06.Spec.geom_size g) ->
    length (C06.Model.occlusion score g bs v xs ts) = length xs /\
    forall e, In e (C06.Model.occlusion score g bs v xs ts) -> length e = C06.Model.geom_npos g.
Proof. exact occlusion_shape. Qed.
Print Assumptions C12_occlusion_shape.

Theorem C12_integrated_gradients_shape :
  forall (grad : list Qc -> list Qc -> list Qc) n m bs bv xs ts,
    C04.Spec.bs_ok bs -> 2 <= m -> xs <> [] -> length xs = length ts -> (forall x, In x xs -> length x = n) ->
    (forall p t, length p = n -> length (grad p t) = n) ->
    length (C04.Model.ig grad n m bs bv xs ts) = length xs /\
    forall e, In e (C04.Model.ig grad n m bs bv xs ts) -> length e = n.
Proof. exact ig_shape. Qed.
Print Assumptions C12_integrated_gradients_shape.

Theorem C12_rise_count :
  forall (score : list Qc -> list Qc -> Qc) k bs nb v xs ts mss,
    length xs = length ts -> length xs = length mss -> length (C09.Model.rise score k bs nb v xs ts mss) = length xs.
Proof. exact C09.Proofs.rise_length. Qed.
Print Assumptions C12_rise_count.

Theorem C12_out_size_documented :
  forall d t w h c r (r' : C01.Model.reducer), out_size (C01.Model.KTab d) r = d /\ out_size (C01.Model.KTs t w) r = t * w /\
    out_size (C01.Model.KImg h w c) (Some r') = h * w * 1 /\ out_size (C01.Model.KImg h w c) None = h * w * c.
Proof. intros. cbn. repeat split; lia. Qed.
Print Assumptions C12_out_size_documented.

Example C12_nonvacuous :
  sanitize (batched 2 [1; 2; 3; 4; 5] [10; 20; 30; 40; 50]) = ([1; 2; 3; 4; 5], [10; 20; 30; 40; 50]) /\
  batched 2 [1; 2; 3] [7; 8; 9] = DsBatched [[(1, 7); (2, 8)]; [(3, 9)]].
Proof. split; reflexivity. Qed.
