(* Props/C11.v — property C11: wrapping a model (TorchWrapper, NumPy callable, predict_proba) changes no result.
   Only statements, each closed by [exact]; proofs live in C11/Proofs.v. *)
From Xpl Require Import C11.Spec C11.Proofs.
Close Scope Qc_scope. Open Scope nat_scope.

(* np.moveaxis with the axes the wrapper uses is the transposition (0,3,1,2), resp. (0,2,3,1) *)
Theorem C11_moveaxis_orders :
  moveaxis_order 4 [3; 1; 2] [1; 2; 3] = [0; 3; 1; 2] /\ moveaxis_order 4 [1; 2; 3] [3; 1; 2] = [0; 2; 3; 1].
Proof. exact moveaxis_orders. Qed.
Print Assumptions C11_moveaxis_orders.

(* explicit index formulas, every N, H, W, C (H <> W included): on flat row-major data, element (b, ch, i, j) of
   np.moveaxis(x, [3,1,2], [1,2,3]) is element (b, i, j, ch) of x, and conversely for the gradient's move *)
Theorem C11_moveaxis_explicit :
  forall n h w c x,
    moveaxis [n; h; w; c] [3; 1; 2] [1; 2; 3] x = nhwc_to_nchw n h w c x /\
    moveaxis [n; c; h; w] [1; 2; 3] [3; 1; 2] x = nchw_to_nhwc n h w c x.
Proof. exact moveaxis_explicit. Qed.
Print Assumptions C11_moveaxis_explicit.

(* NHWC -> NCHW -> NHWC (and NCHW -> NHWC -> NCHW) is the identity *)
Theorem C11_moveaxis_roundtrip :
  forall n h w c x, length x = n * h * w * c ->
    moveaxis [n; c; h; w] [1; 2; 3] [3; 1; 2] (moveaxis [n; h; w; c] [3; 1; 2] [1; 2; 3] x) = x /\
    moveaxis [n; h; w; c] [3; 1; 2] [1; 2; 3] (moveaxis [n; c; h; w] [1; 2; 3] [3; 1; 2] x) = x.
Proof. exact moveaxis_roundtrip. Qed.
Print Assumptions C11_moveaxis_roundtrip.

(* <P^-1 g, x> = <g, P x>: the move applied to the gradient is the adjoint of the move applied to the input,
   i.e. the chain rule for f o P *)
Theorem C11_moveaxis_adjoint :
  forall n h w c g x, length x = n * h * w * c -> length g = n * h * w * c ->
    dot (moveaxis [n; c; h; w] [1; 2; 3] [3; 1; 2] g) x = dot g (moveaxis [n; h; w; c] [3; 1; 2] [1; 2; 3] x).
Proof. exact moveaxis_adjoint. Qed.
Print Assumptions C11_moveaxis_adjoint.

(* one sample: reading positions in closed form, inverse of each other *)
Theorem C11_sample_positions :
  forall h w c x g,
    nhwc_to_nchw 1 h w c x = map (fun q => nthq x (first_reads h w c q)) (seq 0 (c * (h * w))) /\
    nchw_to_nhwc 1 h w c g = map (fun p => nthq g (last_reads h w c p)) (seq 0 (h * (w * c))) /\
    (forall p, p < h * w * c -> first_reads h w c (last_reads h w c p) = p) /\
    (forall q, q < c * (h * w) -> last_reads h w c (first_reads h w c q) = q).
Proof. exact sample_positions. Qed.
Print Assumptions C11_sample_positions.

(* for EVERY torch module (f = forward on one sample, vjp = torch.autograd's input gradient, row-wise) and every batch:
   through the wrapper with conversion, outputs are f(channel-first x) and gradients are the module's own gradients
   moved back to channel-last positions, sample by sample *)
Theorem C11_wrapper_is_native :
  forall (f : list Qc -> list Qc) (vjp : list Qc -> list Qc -> list Qc) h w c xs ts,
    (forall x t, length (vjp x t) = length x) -> 1 <= h -> 1 <= w -> 1 <= c -> length ts = length xs ->
    (forall x, In x xs -> length x = h * w * c) ->
    wrapper_call f true [length xs; h; w; c] (concat xs) = map (native_out f true h w c) xs /\
    wrapper_gradients vjp true [length xs; h; w; c] xs ts = map2 (native_grad vjp true h w c) xs ts.
Proof. exact wrapper_is_native. Qed.
Print Assumptions C11_wrapper_is_native.

(* without conversion (dense modules, or as requested) the wrapper is transparent for any input shape *)
Theorem C11_wrapper_is_native_no_conversion :
  forall (f : list Qc -> list Qc) (vjp : list Qc -> list Qc -> list Qc) tail xs ts,
    (forall x t, length (vjp x t) = length x) -> 1 <= prod tail -> (forall x, In x xs -> length x = prod tail) ->
    wrapper_call f false (length xs :: tail) (concat xs) = map f xs /\
    wrapper_gradients vjp false (length xs :: tail) xs ts = map2 vjp xs ts.
Proof. exact wrapper_is_native_no_conversion. Qed.
Print Assumptions C11_wrapper_is_native_no_conversion.

(* F-quad written on channel-first data: value and gradient through the wrapper are those of the channel-last family
   member whose parameters are the channel-first ones moved back (linear and quadratic weights re-indexed, cross terms
   re-addressed) *)
Theorem C11_wrapper_grad_correct :
  forall ks h w c xs ts, 1 <= h -> 1 <= w -> 1 <= c -> length ts = length xs ->
    (forall x, In x xs -> length x = h * w * c) -> (forall k, In k ks -> class_ok (h * w * c) k) ->
    fq_outputs ks true [length xs; h; w; c] (concat xs) = map (fquad_out (map (moved_class h w c) ks)) xs /\
    fq_scores ks true [length xs; h; w; c] xs ts = map2 (fquad (map (moved_class h w c) ks)) xs ts /\
    fq_gradients ks true [length xs; h; w; c] xs ts = map2 (fquad_grad (map (moved_class h w c) ks)) xs ts.
Proof. exact wrapper_grad_correct. Qed.
Print Assumptions C11_wrapper_grad_correct.

Theorem C11_wrapper_grad_correct_no_conversion :
  forall ks tail xs ts, 1 <= prod tail -> (forall x, In x xs -> length x = prod tail) ->
    fq_outputs ks false (length xs :: tail) (concat xs) = map (fquad_out ks) xs /\
    fq_gradients ks false (length xs :: tail) xs ts = map2 (fquad_grad ks) xs ts.
Proof. exact wrapper_grad_correct_no_conversion. Qed.
Print Assumptions C11_wrapper_grad_correct_no_conversion.

(* conversion iff requested, or, when nothing is requested, iff a Conv2d occurs among module.modules() *)
Theorem C11_channel_first_rule :
  forall req mods,
    init_channel_first req mods = channel_first_spec req mods /\
    (init_channel_first None mods = true <-> In LConv2d mods).
Proof. exact channel_first_rule_full. Qed.
Print Assumptions C11_channel_first_rule.

(* a NumPy callable / predict_proba object is scored like a Keras model, sum_c pred_c * target_c per sample, for 2-D
   predictions and for predictions whose batch axis is squeezed away on a batch of one sample, for every batch size
   (batches of one sample and remainder batches included) *)
Theorem C11_callable_equals_keras :
  forall (f : list Qc -> list Qc) K bs inputs targets,
    1 <= length inputs -> targets_ok K inputs targets -> (forall x, length (f x) = K) -> bs_ok bs ->
    batch_one_hot_callable (model_2d f) bs inputs targets = Some (keras_scores f inputs targets) /\
    batch_one_hot_callable (model_squeezed f) bs inputs targets = Some (keras_scores f inputs targets).
Proof. exact callable_equals_keras. Qed.
Print Assumptions C11_callable_equals_keras.

(* 1-D predictions of a single-output model, batch size 1 and > 1: f1(x) * t per sample *)
Theorem C11_callable_1d_equals_keras :
  forall (f1 : list Qc -> Qc) bs inputs targets,
    1 <= length inputs -> targets_ok 1 inputs targets -> bs_ok bs ->
    batch_one_hot_callable (model_1d f1) bs inputs targets = Some (keras_scores (fun x => [f1 x]) inputs targets) /\
    keras_scores (fun x => [f1 x]) inputs targets = map2 (fun x t => (f1 x * nthq t 0 + 0)%Qc) inputs targets.
Proof. exact callable_1d_equals_keras. Qed.
Print Assumptions C11_callable_1d_equals_keras.

(* the container of the inputs (current code): explainers hand tf tensors, metrics hand NumPy arrays to
   operator_batching(predictions_one_hot_callable); both are scored like a Keras model for EVERY batch size, None included *)
Theorem C11_callable_container_ok :
  forall k (f : list Qc -> list Qc) K bs inputs targets,
    1 <= length inputs -> targets_ok K inputs targets -> (forall x, length (f x) = K) -> bs_ok bs ->
    batch_one_hot_callable_on k (model_2d f) bs inputs targets = Some (keras_scores f inputs targets).
Proof. exact callable_container_ok. Qed.
Print Assumptions C11_callable_container_ok.

(* FINDING, code as found (operator_batching passed the caller's object through when batch_size=None): inputs.numpy() does
   not exist on a NumPy array, so a metric (Deletion / Insertion) built on a NumPy callable or predict_proba object with
   batch_size=None raised AttributeError instead of returning the scores a Keras model gets; fine with a batch size and
   for explainers.  Witness: one sample [1/2], target [2], f(x) = [x_0]. *)
Theorem C11_metric_callable_bs_none_refuted :
  exists (f : list Qc -> list Qc) inputs targets,
    1 <= length inputs /\ targets_ok 1 inputs targets /\ (forall x, length (f x) = 1) /\
    batch_one_hot_callable_on_orig explainer_container (model_2d f) None inputs targets = Some (keras_scores f inputs targets) /\
    batch_one_hot_callable_on_orig metric_container (model_2d f) (Some 1) inputs targets = Some (keras_scores f inputs targets) /\
    batch_one_hot_callable_on_orig metric_container (model_2d f) None inputs targets = None.
Proof. exact metric_callable_bs_none_refuted. Qed.
Print Assumptions C11_metric_callable_bs_none_refuted.

(* non-vacuity: a batch of two 2x3x2 images (H <> W) meets the hypotheses; position (ch=1, i=1, j=2) of the
   channel-first sample reads channel-last position 11; the three conversions of a concrete sample; a module list with
   a nested Conv2d converts, a dense one does not, a request overrides; 1-D predictions on a batch of one and of two *)
Example C11_nonvacuous :
  first_reads 2 3 2 11 = 11 /\ first_reads 2 3 2 1 = 2 /\ last_reads 2 3 2 2 = 1 /\
  moveaxis [1; 2; 3; 2] [3; 1; 2] [1; 2; 3] (map qn (seq 0 12)) = map qn [0; 2; 4; 6; 8; 10; 1; 3; 5; 7; 9; 11] /\
  init_channel_first None [LContainer; LContainer; LConv2d; LLinear] = true /\
  init_channel_first None [LContainer; LLinear; LConv1d; LConvTranspose2d] = false /\
  init_channel_first (Some false) [LConv2d] = false /\
  class_ok (2 * 3 * 2) {| qb := q 1 1; qW := map qn (seq 0 12); qV := map qn (seq 0 12); qX := [(0, 11, q 1 2)] |} /\
  targets_ok 1 [[q 1 2]; [q 3 2]] [[q 2 1]; [q 5 1]] /\ bs_ok (Some 1) /\
  one_hot_callable (model_1d (fun x => nthq x 0)) [[q 1 2]] [[q 2 1]] = Some [q 1 1] /\
  one_hot_callable (model_1d (fun x => nthq x 0)) [[q 1 2]; [q 3 2]] [[q 2 1]; [q 5 1]] = Some [q 1 1; q 15 2].
Proof.
  split; [reflexivity|]. split; [reflexivity|]. split; [reflexivity|]. split; [vm_compute; reflexivity|].
  split; [reflexivity|]. split; [reflexivity|]. split; [reflexivity|].
  split. { split; [reflexivity|]. split; [reflexivity|]. intros a b v [E|[]]. inversion E; subst. cbn. lia. }
  split. { split; [reflexivity|]. intros t [<-|[<-|[]]]; reflexivity. }
  split; [cbn; lia|]. split; vm_compute; reflexivity.
Qed.
