(* Props/C11.v — provisional (being built) *)
From Xpl Require Import C11.Model.
Close Scope Qc_scope. Open Scope nat_scope.
Theorem C11_moveaxis_orders :
  moveaxis_order 4 [3; 1; 2] [1; 2; 3] = [0; 3; 1; 2] /\ moveaxis_order 4 [1; 2; 3] [3; 1; 2] = [0; 2; 3; 1].
Proof. split; reflexivity. Qed.
Print Assumptions C11_moveaxis_orders.
