(* Props/C14.v — property C14: Deletion / Insertion follow the documented curve, and only the ranking matters.
   Only statements, each closed by [exact]; proofs live in C14/Proofs.v.

   Vocabulary (C14/Model.v, C14/Spec.v):
     detailed_evaluate / evaluate   executable transcription of CausalFidelity.detailed_evaluate / evaluate
     score : sample -> target -> Qc any model + operator, applied row-wise;   rank : argsort(.)[::-1] (library)
     cfg   : nb_features cF, channels cC (1 without channel axis), channels of 4-D explanations cEC, steps, pct, mode
     curve score md C xs bl rs ts k mean over the samples of the score after the k first features of each ranking
                                    were moved (Deletion: x -> baseline, Insertion: baseline -> x), feature = k / C
     steps_of c                     np.linspace(0, max_nb, S + 1, dtype=int32) in exact arithmetic
     distinct_steps                 the dictionary keys: step values in order of first occurrence *)
From Xpl Require Import Base.Tensor C14.Spec C14.Proofs.
Open Scope Qc_scope.

(* Model = Spec: for every score, every argsort, every configuration, every batch size (or None), every number of
   samples, constant or function baseline: the dictionary returned by detailed_evaluate maps each distinct step k to
   the documented curve at k, the ranking being rank applied to the (channel-averaged) explanation of each sample. *)
Theorem C14_causal_curve_correct :
  forall (score : list Qc -> list Qc -> Qc) (rank : list Qc -> list nat) c bs bm xs ts es,
    cfg_ok c -> bs_ok bs -> sizes_ok c xs (baselines_of bm xs) -> expl_ok c es ->
    detailed_evaluate score rank c bs bm xs ts es
    = map (fun k => (k, curve score (cMode c) (cC c) xs (baselines_of bm xs)
                              (map rank (map (feature_values (cEC c) (cF c)) es)) ts k))
          (distinct_steps (steps_of c)).
Proof. exact causal_curve_correct. Qed.
Print Assumptions C14_causal_curve_correct.

(* the steps: S+1 values, step_j = floor(j * max_nb / S) (S = max_nb when steps = -1), first 0, last max_nb;
   pairwise distinct iff S <= max_nb; when S >= max_nb (steps exceeding the feature count included) duplicates collapse
   and the dictionary keys are exactly 0, 1, ..., max_nb *)
Theorem C14_steps_spaced :
  forall c, steps_ok c ->
    let m := max_nb (cF c) (cPct c) in
    let S := eff_steps (cSteps c) m in
    (1 <= S)%nat /\ length (steps_of c) = (S + 1)%nat /\
    (forall j, (j <= S)%nat -> nth j (steps_of c) 0%nat = (j * m / S)%nat /\
                        (S * nth j (steps_of c) 0 <= j * m < S * (nth j (steps_of c) 0 + 1))%nat) /\
    hd 0%nat (steps_of c) = 0%nat /\ last (steps_of c) 0%nat = m /\
    (NoDup (steps_of c) <-> (S <= m)%nat) /\
    ((S <= m)%nat -> distinct_steps (steps_of c) = steps_of c) /\
    ((m <= S)%nat -> distinct_steps (steps_of c) = seq 0 (m + 1)).
Proof. exact steps_spaced_all. Qed.
Print Assumptions C14_steps_spaced.

(* max_nb = floor(nb_features * max_percentage), and = nb_features when max_percentage = 1 *)
Theorem C14_max_nb_floor :
  forall F pct, 0 <= pct ->
    qn (max_nb F pct) <= qn F * pct /\ qn F * pct < qn (max_nb F pct) + 1.
Proof. exact max_nb_floor. Qed.
Print Assumptions C14_max_nb_floor.

Theorem C14_max_nb_full : forall F, max_nb F 1 = F.
Proof. exact max_nb_full. Qed.
Print Assumptions C14_max_nb_full.

(* only the ranking matters (1): explanations with the same rankings give the same dictionary and the same metric *)
Theorem C14_same_ranking_same_result :
  forall (score : list Qc -> list Qc -> Qc) (rank : list Qc -> list nat) c bs bm xs ts es es',
    ranking_of rank c es = ranking_of rank c es' ->
    detailed_evaluate score rank c bs bm xs ts es = detailed_evaluate score rank c bs bm xs ts es' /\
    evaluate score rank c bs bm xs ts es = evaluate score rank c bs bm xs ts es'.
Proof. exact same_ranking_same_result. Qed.
Print Assumptions C14_same_ranking_same_result.

(* only the ranking matters (2): on pairwise distinct values a sorting permutation is unique (ties are the only
   freedom of argsort), so every argsort gives the same ranking after a strictly increasing transformation *)
Theorem C14_ranking_unique :
  forall e r r', NoDup e -> is_ranking e r -> is_ranking e r' -> r = r'.
Proof. exact ranking_unique. Qed.
Print Assumptions C14_ranking_unique.

Theorem C14_argsort_strictly_increasing_invariant :
  forall rank g e, rank_ok rank -> strictly_increasing g -> NoDup e -> rank (map g e) = rank e.
Proof. exact rank_strict_invariant. Qed.
Print Assumptions C14_argsort_strictly_increasing_invariant.

(* hence: a strictly increasing transformation of explanations without channel axis (pairwise distinct values per
   sample) changes neither the dictionary nor the metric — for every argsort meeting its contract.
   (With a channel axis the code ranks the channel MEANS, which a non-affine g does not preserve: not claimed.) *)
Theorem C14_ranking_only :
  forall (score : list Qc -> list Qc -> Qc) (rank : list Qc -> list nat) g c bs bm xs ts es,
    rank_ok rank -> strictly_increasing g -> cEC c = None -> Forall (@NoDup Qc) es ->
    detailed_evaluate score rank c bs bm xs ts (map (map g) es) = detailed_evaluate score rank c bs bm xs ts es /\
    evaluate score rank c bs bm xs ts (map (map g) es) = evaluate score rank c bs bm xs ts es.
Proof. exact ranking_only. Qed.
Print Assumptions C14_ranking_only.

(* the concrete argsort used to run the model meets the contract (so rank_ok is satisfiable) *)
Theorem C14_rank_insertion_ok : rank_ok rank_insertion.
Proof. exact rank_insertion_ok. Qed.
Print Assumptions C14_rank_insertion_ok.

(* end points: the first entry is step 0 with the mean score of the originals (Deletion) / baselines (Insertion);
   the last entry is step max_nb and, when max_nb = nb_features (e.g. max_percentage = 1), carries the mean score of
   the baselines (Deletion) / originals (Insertion) *)
Theorem C14_endpoints :
  forall (score : list Qc -> list Qc -> Qc) (rank : list Qc -> list nat) c bs bm xs ts es,
    cfg_ok c -> bs_ok bs -> sizes_ok c xs (baselines_of bm xs) -> expl_ok c es -> rank_ok rank ->
    length (baselines_of bm xs) = length xs -> length es = length xs ->
    let d := detailed_evaluate score rank c bs bm xs ts es in
    let m := max_nb (cF c) (cPct c) in
    nth 0 d (0%nat, 0) = (0%nat, qmean (map2 score (start_input (cMode c) xs (baselines_of bm xs)) ts)) /\
    fst (last d (0%nat, 0)) = m /\
    (m = cF c -> snd (last d (0%nat, 0)) = qmean (map2 score (end_input (cMode c) xs (baselines_of bm xs)) ts)).
Proof. exact endpoints. Qed.
Print Assumptions C14_endpoints.

(* duality, as functions of the number of moved features (any j, any grid): Insertion(e) at j = Deletion(-e) at F - j.
   What the code does: both metrics rank by DEcreasing explanation value; Insertion restores the j top features of e
   onto the baseline, Deletion(-e) deletes the F - j top features of -e, i.e. the F - j bottom features of e. *)
Theorem C14_duality :
  forall (score : list Qc -> list Qc -> Qc) (rank : list Qc -> list nat) c bm xs ts es j,
    cfg_ok c -> sizes_ok c xs (baselines_of bm xs) -> expl_ok c es -> rank_ok rank -> values_distinct c es ->
    curve score Insertion (cC c) xs (baselines_of bm xs) (spec_rankings rank c es) ts j
    = curve score Deletion (cC c) xs (baselines_of bm xs) (spec_rankings rank c (map (map Qcopp) es)) ts (cF c - j).
Proof. exact insertion_deletion_duality. Qed.
Print Assumptions C14_duality.

(* duality on the step grid when it is symmetric because it visits every count (max_nb = F and steps = -1 or
   steps >= F): keys 0..F on both sides, Insertion(e) values = Deletion(-e) values reversed, equal metrics *)
Theorem C14_duality_on_grid :
  forall (score : list Qc -> list Qc -> Qc) (rank : list Qc -> list nat) c bs bm xs ts es,
    cfg_ok c -> bs_ok bs -> sizes_ok c xs (baselines_of bm xs) -> expl_ok c es -> rank_ok rank -> values_distinct c es ->
    max_nb (cF c) (cPct c) = cF c -> (cF c <= eff_steps (cSteps c) (cF c))%nat ->
    let dI := detailed_evaluate score rank (set_mode Insertion c) bs bm xs ts es in
    let dD := detailed_evaluate score rank (set_mode Deletion c) bs bm xs ts (map (map Qcopp) es) in
    map fst dI = seq 0 (cF c + 1) /\ map fst dD = seq 0 (cF c + 1) /\
    map snd dI = rev (map snd dD) /\
    evaluate score rank (set_mode Insertion c) bs bm xs ts es
    = evaluate score rank (set_mode Deletion c) bs bm xs ts (map (map Qcopp) es).
Proof. exact duality_on_grid. Qed.
Print Assumptions C14_duality_on_grid.

(* the metric is the trapezoidal mean of the dictionary values v_0..v_n (n >= 1):
   np.mean(v[:-1] + v[1:]) * 0.5 = (v_0/2 + v_1 + ... + v_(n-1) + v_n/2) / n *)
Theorem C14_auc_trapezoid :
  forall v, (2 <= length v)%nat -> auc_of v = (qsum v - (hd 0 v + last v 0) / two) / qn (length v - 1).
Proof. exact auc_trapezoid. Qed.
Print Assumptions C14_auc_trapezoid.

(* batch_size only bounds memory *)
Theorem C14_causal_batch_invariant :
  forall (score : list Qc -> list Qc -> Qc) (rank : list Qc -> list nat) c bs bs' bm xs ts es,
    (1 <= cC c)%nat -> bs_ok bs -> bs_ok bs' -> sizes_ok c xs (baselines_of bm xs) ->
    detailed_evaluate score rank c bs bm xs ts es = detailed_evaluate score rank c bs' bm xs ts es /\
    evaluate score rank c bs bm xs ts es = evaluate score rank c bs' bm xs ts es.
Proof. exact causal_batch_invariant. Qed.
Print Assumptions C14_causal_batch_invariant.

(* additive models: the exact attributions reach the optimum over all orderings.  For a per-sample contribution
   vector a (a_f = what moving feature f removes from / adds to the score), a ranking r of a and ANY duplicate-free
   list s of k features: the k top-ranked features carry at least as much as s. *)
Theorem C14_topk_sum_optimal :
  forall a r s k, is_ranking a r -> NoDup s -> (forall f, In f s -> (f < length a)%nat) -> length s = k -> (k <= length a)%nat ->
    qsum (map (nthq a) s) <= qsum (map (nthq a) (firstn k r)).
Proof. exact topk_sum_optimal. Qed.
Print Assumptions C14_topk_sum_optimal.

(* ... hence for an additive score  s(z) = c0 + sum_f contrib_f(channels of feature f of z)  (any number of
   channels), along a ranking r of the exact attributions a_f = contrib_f(x) - contrib_f(b) the Deletion point of a
   sample is <= the point along ANY other ordering r', and the Insertion point is >= — for every k, per sample, hence
   for the mean over the samples and for the trapezoidal mean. *)
Theorem C14_additive_optimal :
  forall (contrib : nat -> list Qc -> Qc) (c0 : Qc) C F x b r r' k,
    (1 <= C)%nat -> length x = (F * C)%nat -> length b = (F * C)%nat ->
    is_ranking (exact_attr contrib C F x b) r -> Permutation r' (seq 0 F) -> (k <= F)%nat ->
    additive_score contrib c0 C F (move C x b (firstn k r)) <= additive_score contrib c0 C F (move C x b (firstn k r')) /\
    additive_score contrib c0 C F (move C b x (firstn k r')) <= additive_score contrib c0 C F (move C b x (firstn k r)).
Proof. exact additive_optimal. Qed.
Print Assumptions C14_additive_optimal.

(* non-vacuity: a 2x3 image with 2 channels, 2-channel explanations, steps = 4, pct = 3/4, batch size 2 meets the
   hypotheses; floor(6 * 3/4) = 4 so the steps are 0,1,2,3,4; with steps = 9 > 4 they collapse to the same keys;
   with steps = 3 they are 0,1,2,4; rank_insertion ranks [1/2; 2; -1] as [1; 0; 2] *)
Example C14_nonvacuous :
  let c := {| cF := 6; cC := 2; cEC := Some 2%nat; cSteps := 4; cPct := q 3 4; cMode := Deletion |} in
  cfg_ok c /\ bs_ok (Some 2%nat) /\
  sizes_ok c [repeat 1 12; repeat 0 12] (baselines_of (BConst half) [repeat 1 12; repeat 0 12]) /\
  expl_ok c [repeat 1 12; repeat 0 12] /\
  steps_of c = [0; 1; 2; 3; 4]%nat /\
  distinct_steps (linspace_int 4 9) = [0; 1; 2; 3; 4]%nat /\ linspace_int 4 3 = [0; 1; 2; 4]%nat /\
  rank_insertion [half; two; - (1)] = [1; 0; 2]%nat /\
  map fst (detailed_evaluate (fun x _ => qsum x) rank_insertion c (Some 2%nat) (BConst 0)
             [repeat 1 12] [[]] [map qn [5;5;4;4;3;3;2;2;1;1;0;0]%nat]) = [0; 1; 2; 3; 4]%nat.
Proof.
  cbv zeta. repeat split; try (vm_compute; reflexivity); try (vm_compute; lia).
  - right. vm_compute. discriminate.
  - repeat constructor.
  - repeat constructor.
  - repeat constructor.
Qed.
