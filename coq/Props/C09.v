(* Props/C09.v — property C09: RISE averages the scores of exactly the masked inputs it evaluated.
   Only statements, each closed by [exact]; proofs live in C09/Proofs.v.
   The upsampled masks (random grid, bilinear resize, random crop: library code) are arbitrary lists of
   rationals here: every theorem holds for ALL masks, all score functions, all batch sizes.
   That the masks the library produces lie in [0,1], have the input's spatial shape and the requested mean is
   checked / reported at run time by harness/c09.py (the last one is statistical: support only). *)
From Xpl Require Import Base.Tensor C09.Spec C09.Proofs.
Open Scope Qc_scope.

(* For every score function, input kind (tabular, time series, image of any H, W, C), batch size (or None),
   nb_samples >= 1, mask value, inputs of the kind's size and masks of its spatial shape, the executable model
   of Rise.explain (loop over mask batches with a remainder batch, two accumulators) returns for each input
   the map  p |-> sum_k score(masked_k) m_k[p] / (sum_k m_k[p] + eps),  masked_k = m_k x + (1 - m_k) v. *)
Theorem C09_rise_correct :
  forall (score : list Qc -> list Qc -> Qc) k bs nb v xs ts mss,
    bs_ok bs -> (1 <= nb)%nat ->
    (forall x, In x xs -> length x = size k) -> (forall ms, In ms mss -> masks_ok k ms) ->
    rise score k bs nb v xs ts mss
    = map (fun xtm => let '(x, t, ms) := xtm in
             map (fun p => qsum (map (fun m => score (masked k v x m) t * nthq m p) ms)
                           / (qsum (map (fun m => nthq m p) ms) + eps)) (seq 0 (npos k)))
          (combine (combine xs ts) mss).
Proof. exact rise_correct_explicit. Qed.
Print Assumptions C09_rise_correct.

(* batch_size (dividing nb_samples or not, larger than it, None) never changes a value *)
Theorem C09_batch_invariant :
  forall (score : list Qc -> list Qc -> Qc) k bs bs' nb v xs ts mss,
    bs_ok bs -> bs_ok bs' -> (1 <= nb)%nat ->
    (forall x, In x xs -> length x = size k) -> (forall ms, In ms mss -> masks_ok k ms) ->
    rise score k bs nb v xs ts mss = rise score k bs' nb v xs ts mss.
Proof. exact rise_batch_invariant. Qed.
Print Assumptions C09_batch_invariant.

(* one map per input *)
Theorem C09_rise_length :
  forall (score : list Qc -> list Qc -> Qc) k bs nb v xs ts mss,
    length xs = length ts -> length xs = length mss -> length (rise score k bs nb v xs ts mss) = length xs.
Proof. exact rise_length. Qed.
Print Assumptions C09_rise_length.

(* a model whose score is the constant c yields c * D / (D + eps) at every position, D = sum_k m_k[p] ... *)
Theorem C09_rise_const :
  forall (score : list Qc -> list Qc -> Qc) k B v x t ms c,
    (1 <= B)%nat -> length x = size k -> masks_ok k ms -> (forall o, score o t = c) ->
    rise_one score k B v x t ms = map (fun p => c * mass ms p / (mass ms p + eps)) (seq 0 (npos k)).
Proof. exact rise_const. Qed.
Print Assumptions C09_rise_const.

(* ... which is the constant up to epsilon: the gap is c * eps / (D + eps) *)
Theorem C09_const_gap : forall c D, 0 <= D -> c - c * D / (D + eps) = c * eps / (D + eps).
Proof. exact const_gap. Qed.
Print Assumptions C09_const_gap.

(* with non-negative masks the map lies between the smallest and the largest evaluated score, times
   D / (D + eps); [evaluated] is the list of the scores of the nb masked inputs *)
Theorem C09_rise_bounds :
  forall (score : list Qc -> list Qc -> Qc) k B v x t ms p,
    (1 <= B)%nat -> length x = size k -> masks_ok k ms -> (p < npos k)%nat ->
    (forall m, In m ms -> 0 <= nthq m p) ->
    qmin_of (evaluated score k v x t ms) * mass ms p / (mass ms p + eps) <= nthq (rise_one score k B v x t ms) p /\
    nthq (rise_one score k B v x t ms) p <= qmax_of (evaluated score k v x t ms) * mass ms p / (mass ms p + eps).
Proof. exact rise_bounds. Qed.
Print Assumptions C09_rise_bounds.

(* [qmin_of] / [qmax_of] really are the smallest / largest evaluated scores (nb >= 1) *)
Theorem C09_min_max_evaluated :
  forall (score : list Qc -> list Qc -> Qc) k v x t ms, ms <> [] ->
    let ev := evaluated score k v x t ms in
    In (qmin_of ev) ev /\ In (qmax_of ev) ev /\ (forall s, In s ev -> qmin_of ev <= s /\ s <= qmax_of ev).
Proof. exact min_max_evaluated. Qed.
Print Assumptions C09_min_max_evaluated.

(* the same with any bounds lo <= score <= hi on the evaluated scores *)
Theorem C09_rise_bounds_gen :
  forall (score : list Qc -> list Qc -> Qc) k B v x t ms p lo hi,
    (1 <= B)%nat -> length x = size k -> masks_ok k ms -> (p < npos k)%nat ->
    (forall m, In m ms -> 0 <= nthq m p) ->
    (forall s, In s (evaluated score k v x t ms) -> lo <= s /\ s <= hi) ->
    lo * mass ms p / (mass ms p + eps) <= nthq (rise_one score k B v x t ms) p /\
    nthq (rise_one score k B v x t ms) p <= hi * mass ms p / (mass ms p + eps).
Proof. exact rise_bounds_gen. Qed.
Print Assumptions C09_rise_bounds_gen.

(* the model is queried on exactly one masked input per mask (nb_samples per input), in order, whatever the
   batch size ... *)
Theorem C09_rise_queries :
  forall k bs nb v xs mss,
    bs_ok bs -> (1 <= nb)%nat ->
    (forall x, In x xs -> length x = size k) -> (forall ms, In ms mss -> masks_ok k ms) ->
    rise_queries k bs nb v xs mss = map (fun xm => map (masked k v (fst xm)) (snd xm)) (combine xs mss).
Proof. exact rise_queries_correct. Qed.
Print Assumptions C09_rise_queries.

Theorem C09_rise_queries_count :
  forall k B v x ms, (1 <= B)%nat -> length x = size k -> masks_ok k ms ->
    length (rise_queries_one k B v x ms) = length ms.
Proof. exact rise_queries_count. Qed.
Print Assumptions C09_rise_queries_count.

(* ... each of the stated form: entry j is m[j / c] * x[j] + (1 - m[j / c]) * v — the c channels of a pixel share
   one mask value — and the query has the input's size *)
Theorem C09_query_form :
  forall k v x m j, (j < length x)%nat ->
    nthq (masked k v x m) j = nthq m (j / chan k) * nthq x j + (1 - nthq m (j / chan k)) * v.
Proof. exact masked_nth. Qed.
Print Assumptions C09_query_form.

Theorem C09_query_size : forall k v x m, length (masked k v x m) = length x.
Proof. exact masked_length. Qed.
Print Assumptions C09_query_size.

(* the bilinear upsampling (exact value of int(H * (1 + 1/h)) = H + H / h) is at least as large as the input, so
   the random crop exists; it is strictly larger when h <= H and never exceeds 2H.
   (float evaluation of the Python formula can give one less when h divides H — then H / h >= 1 and the size
   is still >= H; measured by the harness, see evidence.) *)
Theorem C09_rise_upsampled_size :
  forall H h, (1 <= h)%nat ->
    (H <= upsampled H h /\ (h <= H -> H + 1 <= upsampled H h) /\ upsampled H h <= 2 * H)%nat.
Proof. exact upsampled_size. Qed.
Print Assumptions C09_rise_upsampled_size.

(* non-vacuity: a 2x3 image with 2 channels, 3 masks with values in [0,1], batch size 2 (one full and one
   remainder batch) meets every hypothesis; with the score "sum of the entries" the map is not trivial *)
Example C09_nonvacuous :
  let k := Img 2 3 2 in
  let x := [q 1 2; 1; q 2 1; q (-1) 2; q 4 1; 1; q 1 4; q 2 1; 1; 1; q (-3) 2; q 2 1] in
  let ms := [[1; 0; q 1 2; q 1 4; 1; 0]; [0; 0; 1; q 3 4; q 1 2; 0]; [1; q 1 2; 0; 0; 1; 0]] in
  bs_ok (Some 2%nat) /\ length x = size k /\ masks_ok k ms /\
  (forall m p, In m ms -> 0 <= nthq m p) /\
  nthq (rise_one (fun o _ => qsum o) k 2 (q 1 4) x [] ms) 0 = q 141875 20001 /\
  nthq (rise_one (fun o _ => qsum o) k 2 (q 1 4) x [] ms) 5 = 0.
Proof.
  cbv zeta. split; [cbn; lia|]. split; [reflexivity|]. split.
  - intros m Hm. cbn in Hm. destruct Hm as [<-|[<-|[<-|[]]]]; reflexivity.
  - split.
    + intros m p Hm. cbn in Hm.
      destruct Hm as [<-|[<-|[<-|[]]]];
        do 7 (destruct p as [|p]; [vm_compute; discriminate|]); vm_compute; discriminate.
    + split; apply Qc_is_canon; vm_compute; reflexivity.
Qed.
