(* Props/C05.v — property C05: perturbation attributions are spatially aligned with what the model uses.
   Only statements, each closed by [exact]; proofs live in C05/Proofs.v.

   What is proved: the index algebra between perturbed cells and reported cells (nearest upsampling, the Sobol
   reshape, the implicit / explicit transposes of HSIC, the two gathers of Lime / KernelShap) for every image
   height, width, channel count and grid size, and the exact-zero clauses (Occlusion, Sobol before upsampling).
   What is NOT proved (DESIGN.md section 6): "the largest attribution lies in the region" for the sampled estimators
   (RISE, HSIC, Lime, KernelShap on finite samples, Sobol after the bicubic resize) — support evidence only, checked
   on the implementation's output under margin guards by harness/c05.py.  For Sobol before upsampling it IS proved
   (C05_sobol_inert_minimal) and for Occlusion too (C05_occlusion_max_in_region). *)
From Xpl Require Import Base.Tensor C05.Spec C05.Proofs C06.Proofs C08.Proofs.
From Xpl Require C07.Spec C05.LimeLink.   (* not imported: C07.Model and C06.Model share constructor names *)
Close Scope Qc_scope. Open Scope nat_scope.

(* ------------------------------------------------------------------ nearest_block *)
(* tf.image.resize(masks, (H, W), "nearest") as modelled (validated against TensorFlow by the correspondence for all
   g <= 7, H, W <= 13): output index i of an axis of size n reads grid index nb_idx g n i =
   min (floor ((2i+1) g / (2n))) (g-1).  It never leaves the grid, never flips (monotone), and for i < n it is the
   unique cell a whose interval [a/g, (a+1)/g) contains the pixel centre (i + 1/2)/n. *)
Theorem C05_nearest_in_range : forall g n i, 1 <= g -> nb_idx g n i < g.
Proof. exact nb_idx_lt. Qed.
Print Assumptions C05_nearest_in_range.

Theorem C05_nearest_monotone : forall g n i j, i <= j -> nb_idx g n i <= nb_idx g n j.
Proof. exact nb_idx_mono. Qed.
Print Assumptions C05_nearest_monotone.

Theorem C05_nearest_block :
  forall g n a i, 1 <= g -> i < n -> (nb_idx g n i = a <-> 2 * n * a <= (2 * i + 1) * g < 2 * n * (a + 1)).
Proof. exact nb_idx_block. Qed.
Print Assumptions C05_nearest_block.

(* every grid cell is read by at least one pixel when the grid is not finer than the image *)
Theorem C05_nearest_covers : forall g n a, 1 <= g -> g <= n -> a < g -> exists i, i < n /\ nb_idx g n i = a.
Proof. exact nb_idx_covers. Qed.
Print Assumptions C05_nearest_covers.

(* exact blocks of k pixels when the grid divides the image *)
Theorem C05_nearest_exact_blocks : forall g k i, 1 <= g -> 1 <= k -> i < g * k -> nb_idx g (g * k) i = i / k.
Proof. exact nb_idx_exact. Qed.
Print Assumptions C05_nearest_exact_blocks.

(* rows are resized with H and columns with W (no H/W swap): pixel (i, j) of the upsampled mask is cell
   (nb_idx g H i, nb_idx g W j); on flat data, position pos of the image reads entry
   cell_of g H W pos = nb_idx g H (pos / W) * g + nb_idx g W (pos mod W) of the design row *)
Theorem C05_upsample_rows_H_cols_W :
  forall (A : Type) (d : A) g H W (m : list (list A)) i j, i < H -> j < W ->
    cell d (upsample_nearest d g H W m) i j = cell d m (nb_idx g H i) (nb_idx g W j).
Proof. exact @upsample_cell. Qed.
Print Assumptions C05_upsample_rows_H_cols_W.

Theorem C05_upsample_design_row :
  forall (A : Type) (d : A) g H W (row : list A) pos, 1 <= g -> pos < H * W ->
    nth pos (concat (upsample_nearest d g H W (reshape2 g g row))) d
    = nth (nb_idx g H (pos / W) * g + nb_idx g W (pos mod W)) row d.
Proof. exact @upsample_design_row. Qed.
Print Assumptions C05_upsample_design_row.

(* ------------------------------------------------------------------ sobol_cell_of_dim *)
(* row-major both ways: design column a*g + b drives cell (a, b) of mask k (reshape (-1, g, g, 1)), and entry
   a*g + b of the estimator's result is reported at cell (a, b) of the map (post_process reshape (g, g, 1));
   conversely dimension k <-> cell (k / g, k mod g); flattening the map gives the indices back *)
Theorem C05_sobol_cell_of_dim :
  forall (A : Type) (d : A) g (design : list (list A)) (stis : list A),
    (forall k a b, a < g -> b < g -> k < length design ->
        cell d (nth k (sobol_masks g design) []) a b = nth (a * g + b) (nth k design []) d) /\
    (forall a b, a < g -> b < g -> cell d (sobol_post g stis) a b = nth (a * g + b) stis d) /\
    (forall k, k < g * g -> cell d (sobol_post g stis) (k / g) (k mod g) = nth k stis d) /\
    (length stis = g * g -> concat (sobol_post g stis) = stis).
Proof. exact @sobol_cell_of_dim. Qed.
Print Assumptions C05_sobol_cell_of_dim.

(* whatever the per-dimension statistic F: cell (a, b) of the Sobol map is F of design column a*g + b *)
Theorem C05_sobol_cell_identity :
  forall (B : Type) (dB : B) (F : nat -> B) g a b, a < g -> b < g -> cell dB (sobol_map_lit F g) a b = F (a * g + b).
Proof. exact @sobol_cell_identity. Qed.
Print Assumptions C05_sobol_cell_identity.

(* ------------------------------------------------------------------ hsic_cell_of_dim *)
(* tf.transpose(masks) (full axis reversal) + reshape (nb_dim, 1, n, 1) enumerate the cells COLUMN-major:
   estimator dimension b*g + a holds the n design values of mask cell (row a, column b); post_process
   (reshape (g, g, 1) then transpose (1, 0, 2)) reports the score of dimension b*g + a at cell (a, b) *)
Theorem C05_hsic_cell_of_dim :
  forall (A : Type) (d : A) g n (masks : list (list (list A))) (scores : list A) a b, a < g -> b < g ->
    nth (b * g + a) (hsic_dims_lit d g n masks) [] = map (fun k => cell d (nth k masks []) a b) (seq 0 n) /\
    cell d (hsic_post_lit d g scores) a b = nth (b * g + a) scores d.
Proof. exact @hsic_cell_of_dim. Qed.
Print Assumptions C05_hsic_cell_of_dim.

(* the explicit transpose is exactly the inverse of the implicit one: for every per-dimension statistic F
   (C08_hsic_per_dimension: the HSIC score of a dimension depends only on its own design values and the outputs),
   cell (a, b) of the map is F of the design values of mask cell (a, b) *)
Theorem C05_hsic_cell_identity :
  forall (A B : Type) (dA : A) (dB : B) (F : list A -> B) g n masks a b, a < g -> b < g ->
    cell dB (hsic_map_lit dA dB F g n masks) a b = F (map (fun k => cell dA (nth k masks []) a b) (seq 0 n)).
Proof. exact @hsic_cell_identity. Qed.
Print Assumptions C05_hsic_cell_identity.

(* the loop-nest transcriptions above are the closed index formulas of C08's model (the model that is tied to the
   implementation end to end by C08's and this property's correspondence) *)
Theorem C05_index_maps_are_C08 :
  (forall g n i, near g n i = nb_idx g n i) /\
  (forall g H W C (m : list Qc) k, up_at g H W C m k = nthq m (cell_of g H W (k / C))) /\
  (forall g n (design : list (list Qc)), length design = n ->
      hsic_dims_lit 0%Qc g n (sobol_masks g design) = hsic_dims g design) /\
  (forall g (scores : list Qc), concat (hsic_post_lit 0%Qc g scores) = hsic_post g scores).
Proof. exact index_maps_are_C08. Qed.
Print Assumptions C05_index_maps_are_C08.

(* ------------------------------------------------------------------ occlusion_zero_outside *)
(* if the score depends only on the features of a set R of positions, every position none of whose covering
   patches meets R receives exactly 0 from Occlusion.explain — any geometry (tabular / time series / image, any
   patch size and stride), any occlusion value, any batch size, any channel count *)
Theorem C05_occlusion_zero_outside :
  forall (score : list Qc -> list Qc -> Qc) g bs v xs ts (R : nat -> bool) m pos,
    geom_ok g -> bs_ok bs -> (forall x, In x xs -> length x = geom_size g) ->
    (forall x x' t, length x = length x' ->
        (forall k, R (k / geom_chan g) = true -> nthq x k = nthq x' k) -> score x t = score x' t) ->
    In m (occlusion score g bs v xs ts) -> pos < geom_npos g ->
    (forall P, In P (patches g) -> covers g P pos = true ->
        forall p, p < geom_npos g -> covers g P p = true -> R p = false) ->
    nthq m pos = 0%Qc.
Proof. exact occlusion_zero_outside_words. Qed.
Print Assumptions C05_occlusion_zero_outside.

(* ------------------------------------------------------------------ sobol_zero_inert *)
(* if the score depends only on the features of R, a grid cell none of whose pixels (the pixels that read the cell
   through the nearest upsampling) lies in R gets a total-order index of exactly 0 before upsampling, for the five
   estimators (Jansen unconditionally; Homma, Saltelli, Janon when the outputs on A have a non-zero variance — they
   divide by it; Glen given in addition what a square root does on a square): inpainting, blurring (any baseline x0)
   and amplitude, every forward batch size (None included), every replicated design, every H, W (non-square
   included), C and grid size (grids finer than the image included) *)
Theorem C05_sobol_zero_inert :
  forall (score : list Qc -> list Qc -> Qc) pf g H W C bs n A B x t (R : nat -> bool) i,
    bs_valid bs -> is_matrix n (g * g) A -> is_matrix n (g * g) B -> i < g * g ->
    (forall x x' t, length x = length x' ->
        (forall k, R (k / C) = true -> nthq x k = nthq x' k) -> score x t = score x' t) ->
    (forall pos, pos < H * W -> nb_idx g H (pos / W) * g + nb_idx g W (pos mod W) = i -> R pos = false) ->
    let low est := nth 0 (sobol_explain score est pf g H W C bs n (replicated_design (g * g) A B) [x] [t]) [] in
    let fA := map (fun m => score (perturb (pf x) g H W C x m) t) A in
    nthq (low jansen) i = 0%Qc /\
    (Vpop fA <> 0%Qc -> nthq (low homma) i = 0%Qc /\ nthq (low saltelli) i = 0%Qc /\ nthq (low janon) i = 0%Qc /\
       forall sqrt : Qc -> Qc, sqrt (Vpop fA * Vpop fA)%Qc = Vpop fA -> nthq (low (glen sqrt)) i = 0%Qc).
Proof. exact sobol_zero_inert_words. Qed.
Print Assumptions C05_sobol_zero_inert.

(* hence, with at least two design points, no such cell beats any cell of the low-resolution map: its largest
   value is attained at a cell that touches the region (as soon as one exists) *)
Theorem C05_sobol_inert_minimal :
  forall (score : list Qc -> list Qc -> Qc) pf g H W C bs n A B x t (R : nat -> bool) i j,
    bs_valid bs -> 2 <= n -> is_matrix n (g * g) A -> is_matrix n (g * g) B -> i < g * g -> j < g * g ->
    ignores_outside C R score -> inert_cell g H W R i = true ->
    let low := nth 0 (sobol_explain score jansen pf g H W C bs n (replicated_design (g * g) A B) [x] [t]) [] in
    (nthq low i <= nthq low j)%Qc.
Proof. exact sobol_inert_minimal. Qed.
Print Assumptions C05_sobol_inert_minimal.

(* ------------------------------------------------------------------ lime_broadcast_gather *)
(* Lime / KernelShap: the mask of a binary sample z and the returned map have the layout of the mapping; position p
   is kept iff bit z[mapping p] is set, and reports coef[mapping p] — the same mapping, the same orientation
   (C07_lime_broadcast / lime_fit_arguments prove that Lime.explain is made of these two gathers) *)
Theorem C05_lime_broadcast_gather :
  forall (B : Type) (dB : B) (mapping : list nat) (z : list bool) (coef : list B),
    length (lime_mask mapping z) = length mapping /\ length (lime_gather dB mapping coef) = length mapping /\
    forall p, p < length mapping ->
      nth p (lime_mask mapping z) false = nth (nth p mapping 0) z false /\
      nth p (lime_gather dB mapping coef) dB = nth (nth p mapping 0) coef dB.
Proof. exact @lime_broadcast_gather. Qed.
Print Assumptions C05_lime_broadcast_gather.

Theorem C05_lime_same_segment :
  forall (B : Type) (dB : B) mapping z (coef : list B) p p', p < length mapping -> p' < length mapping ->
    nth p mapping 0 = nth p' mapping 0 ->
    nth p (lime_mask mapping z) false = nth p' (lime_mask mapping z) false /\
    nth p (lime_gather dB mapping coef) dB = nth p' (lime_gather dB mapping coef) dB.
Proof. exact @lime_same_segment. Qed.
Print Assumptions C05_lime_same_segment.

(* the two gathers above are those of Lime.explain / KernelShap.explain as modelled by C07 (C07's model is tied to the
   implementation by C07's correspondence, and to these gathers by this property's lime_index stream): for every
   batch size, the returned map is lime_gather of the fitted coefficients, and query i keeps feature p iff
   lime_mask mapping z_i is set at position p / C (reference of channel p mod C otherwise) *)
Theorem C05_lime_explain_one_mapping :
  forall (score : list Qc -> list Qc -> Qc) (karg : list Qc -> list bool -> list Qc -> Qc)
         (fit : list (list bool) -> list Qc -> list Qc -> list Qc) B k ref x t mapping Z,
    1 <= B -> C07.Spec.lime_ok k ref x mapping ->
    let tr := C07.Model.lime_one score karg fit B k ref x t mapping Z in
    C07.Model.tr_expl tr = lime_gather 0%Qc mapping (C07.Model.tr_coef tr) /\
    length (C07.Model.tr_queries tr) = length Z /\
    forall i p, i < length Z -> p < C07.Model.kind_size k ->
      nthq (nth i (C07.Model.tr_queries tr) []) p
      = if nth (p / C07.Model.kind_chan k) (lime_mask mapping (nth i Z [])) false
        then nthq x p else nthq ref (p mod C07.Model.kind_chan k).
Proof. exact C05.LimeLink.lime_explain_one_mapping. Qed.
Print Assumptions C05_lime_explain_one_mapping.

(* kernelshap_zero_additive: KernelShap on an additive score that puts no weight outside R gives exactly 0 (exact
   arithmetic; ~1e-16 in the implementation) to every position whose segment contains no position of R — under the
   hypotheses of C07_kshap_exact (the drawn design has full column rank, the estimator returns a least-squares
   minimiser).  For non-additive scores the finite-sample coefficient of an ignored segment is not 0: not claimed. *)
Theorem C05_kernelshap_zero_outside :
  forall (score : list Qc -> list Qc -> Qc) b wv fit bs nb k ref x t mapping Z (R : nat -> bool) q,
    C07.Spec.additive (C07.Model.kind_size k) score b wv -> C07.Spec.bs_ok bs nb -> C07.Spec.lime_ok k ref x mapping ->
    (forall z, In z Z -> length z = C07.Model.num_features mapping) ->
    C07.Spec.design_injective (C07.Model.num_features mapping) Z ->
    (forall y, exists b0, C07.Spec.ls_minimiser (C07.Model.num_features mapping) Z y
                            (fit Z y (map (fun _ => 0%Qc) Z)) b0) ->
    (forall p, p < C07.Model.kind_size k -> R (p / C07.Model.kind_chan k) = false -> nthq (wv t) p = 0%Qc) ->
    q < length mapping ->
    (forall p, p < length mapping -> nth p mapping 0 = nth q mapping 0 -> R p = false) ->
    nthq (C07.Model.tr_expl (C07.Model.lime_one score (fun _ _ _ => 0%Qc) fit (eff_bs bs nb) k ref x t mapping Z)) q
    = 0%Qc.
Proof. exact C05.LimeLink.kshap_zero_outside. Qed.
Print Assumptions C05_kernelshap_zero_outside.

(* ------------------------------------------------------------------ occlusion_max_in_region
   Occlusion on images / time series: if the score depends only on, and increases with, the features of a rectangle R
   (rows r0..r1-1, columns c0..c1-1) and the occlusion value is not above the input on R, then the largest value of
   the map is attained inside R, in the tie-tolerant sense: every position outside R is matched or beaten by a
   position of R (its projection on the rectangle) — every geometry, every patch size and stride, every batch size.
   (The strict arg-max can be outside: measured on the unchanged tree, an outside position sharing all its patches
   with a region position ties with it.) *)
Theorem C05_occlusion_max_in_region :
  forall (score : list Qc -> list Qc -> Qc) h w c p0 p1 s0 s1 r0 r1 c0 c1,
    r0 < r1 -> r1 <= h -> c0 < c1 -> c1 <= w ->
    ignores_outside c (rect w r0 r1 c0 c1) score -> increasing score ->
    forall bs v xs ts m,
    geom_ok (Grid h w c p0 p1 s0 s1) -> bs_ok bs ->
    (forall x, In x xs -> length x = geom_size (Grid h w c p0 p1 s0 s1)) ->
    (forall x, In x xs -> forall k, k < length x -> rect w r0 r1 c0 c1 (k / c) = true -> (v <= nthq x k)%Qc) ->
    In m (occlusion score (Grid h w c p0 p1 s0 s1) bs v xs ts) ->
    forall p, p < h * w -> rect w r0 r1 c0 c1 p = false ->
      exists p', p' < h * w /\ rect w r0 r1 c0 c1 p' = true /\ (nthq m p <= nthq m p')%Qc.
Proof. exact occlusion_max_in_region. Qed.
Print Assumptions C05_occlusion_max_in_region.

(* ------------------------------------------------------------------ not proved
   The "largest attribution in the region" clause
   for RISE / HSIC / Lime / KernelShap / Sobol-after-resize and for the Sobol estimators other than Jansen is
   statistical (DESIGN.md section 6): support evidence from the correspondence only. *)

(* ------------------------------------------------------------------ record of a defect found through this property
   The property says "Sobol assigns them zero before upsampling" for all estimators.  The faithful model of the code
   as found refuted it for HommaEstimator and SaltelliEstimator: an inert cell received exactly 1/n (the 1/n moment was
   divided by the unbiased variance); GlenEstimator gave -1/(n-1) (C08_glen_zero_inert_refuted_orig).  Fixed in /repo
   (469446f, 124b443); homma_orig / saltelli_orig are C08's transcriptions of the old code.
   Witness: 1x2 image, 2x2 grid, n = 2, score = first feature; cell 0 is read by no pixel. *)
Theorem C05_sobol_zero_inert_refuted_orig :
  exists (score : list Qc -> list Qc -> Qc) pf g H W C bs n A B x t (R : nat -> bool) i,
    bs_valid bs /\ is_matrix n (g * g) A /\ is_matrix n (g * g) B /\ i < g * g /\
    ignores_outside C R score /\ inert_cell g H W R i = true /\
    let low est := nth 0 (sobol_explain score est pf g H W C bs n (replicated_design (g * g) A B) [x] [t]) [] in
    nthq (low jansen) i = 0%Qc /\ nthq (low homma) i = 0%Qc /\
    nthq (low homma_orig) i = (1 / qn n)%Qc /\ nthq (low saltelli_orig) i = (1 / qn n)%Qc /\ (1 / qn n)%Qc <> 0%Qc.
Proof. exact sobol_zero_inert_refuted_orig_exists. Qed.
Print Assumptions C05_sobol_zero_inert_refuted_orig.

(* non-vacuity: a 3x5 image and a 2x2 grid (2 divides neither 3 nor 5): row blocks {0} | {1,2}, column blocks
   {0,1} | {2,3,4}; region = the single pixel (0, 4): cell 1 is the only active cell; a score reading the features of
   that pixel only meets the hypotheses (depends only on the region, increasing); an Occlusion geometry 4x6, patch (2,2), stride (1,2) with the region in the
   top-left corner leaves position (3, 5) untouched and position (1, 1) touched *)
Example C05_nonvacuous :
  map (nb_idx 2 3) (seq 0 3) = [0; 1; 1] /\ map (nb_idx 2 5) (seq 0 5) = [0; 0; 1; 1; 1] /\
  map (inert_cell 2 3 5 (rect 5 0 1 4 5)) (seq 0 4) = [true; false; true; true] /\
  ignores_outside 2 (rect 5 0 1 4 5) (fun x _ => (nthq x 8 + nthq x 9)%Qc) /\
  increasing (fun x _ => (nthq x 8 + nthq x 9)%Qc) /\
  map (occl_untouched (Grid 4 6 1 2 2 1 2) (rect 6 0 1 0 2)) [7; 23] = [false; true] /\
  hsic_dims_lit 0 2 1 [[[1; 2]; [3; 4]]] = [[1]; [3]; [2]; [4]] /\ hsic_post_lit 0 2 [1; 3; 2; 4] = [[1; 2]; [3; 4]].
Proof.
  repeat split; try reflexivity.
  - intros x x' t [_ H]. rewrite (H 8), (H 9) by reflexivity. reflexivity.
  - intros x x' t _ H. apply Qcplus_le_compat; apply H.
Qed.
