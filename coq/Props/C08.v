(* Props/C08.v — property C08: Sobol / HSIC designs and estimators compute the published sensitivity indices.
   Only statements, each closed by [exact]; proofs live in C08/Proofs.v.
   Out of reach of proof (support only): convergence of the estimators to the analytic indices as the design grows.
   Library calls are arguments: QMC / LHS draws (the matrices A, B / AB), sqrt, exp (the output Gram matrix L and the
   rbf input Gram matrices are given), np.percentile, cv2.blur, the model (score), the final bicubic resize. *)
From Xpl Require Import Base.Tensor Base.Families C08.Spec C08.Proofs C08.Aux.
Open Scope Qc_scope.

(* ---- replicated designs ---- *)
(* For all n x d matrices A, B the design is A, then B, then for each dimension i (in increasing order) a block whose
   row r equals row r of A except in column i, where it equals B; it has n (d + 2) rows of d values. *)
Theorem C08_design_structure :
  forall n d A B, is_matrix n d A -> is_matrix n d B ->
    let D := replicated_design d A B in
    is_matrix (n * (d + 2)) d D /\
    (forall r, (r < n)%nat -> nth r D [] = nth r A []) /\
    (forall r, (r < n)%nat -> nth (n + r) D [] = nth r B []) /\
    (forall i r j, (i < d)%nat -> (r < n)%nat ->
        entry D (2 * n + i * n + r) j = replicated_entry A B i r j).
Proof. exact design_structure. Qed.
Print Assumptions C08_design_structure.

(* the four replicated samplers cut the (n, 2d) library draw into A (left half) and B (right half) *)
Theorem C08_sampler_halves :
  forall n d AB, is_matrix n (2 * d) AB ->
    replicated_sampler d AB = replicated_design d (map (firstn d) AB) (map (skipn d) AB) /\
    is_matrix n d (map (firstn d) AB) /\ is_matrix n d (map (skipn d) AB).
Proof. intros n d AB H. split; [reflexivity | exact (sampler_halves n d AB H)]. Qed.
Print Assumptions C08_sampler_halves.

(* split_abc undoes the stacking for the outputs of ANY row-wise function f *)
Theorem C08_split_abc_design :
  forall (T : Type) (f : list Qc -> T) n d A B, is_matrix n d A -> is_matrix n d B ->
    split_abc (map f (replicated_design d A B)) n d
    = (map f A, map f B, map (fun i => map f (c_block i A B)) (seq 0 d)).
Proof. exact @split_abc_design. Qed.
Print Assumptions C08_split_abc_design.

(* every value of the design is a value of A or B: a range such as [0,1] carries over *)
Theorem C08_design_range :
  forall (P : Qc -> Prop) n d A B, is_matrix n d A -> is_matrix n d B ->
    (forall r, In r A -> forall v, In v r -> P v) -> (forall r, In r B -> forall v, In v r -> P v) ->
    forall r, In r (replicated_design d A B) -> forall v, In v r -> P v.
Proof. exact design_range. Qed.
Print Assumptions C08_design_range.

(* make_binary (np.round, ties to even) sends [0,1] into {0,1} *)
Theorem C08_binary_round_range : forall x, in_unit x -> is_binary (round_half_even x).
Proof. exact binary_round_range. Qed.
Print Assumptions C08_binary_round_range.

(* ---- the five estimators equal their formulas on (f(A), f(C_i)), for all n, d and all outputs ---- *)
Theorem C08_jansen_formula :
  forall ya yb ycs n d, length ya = n -> length yb = n -> length ycs = d -> (forall c, In c ycs -> length c = n) ->
    jansen (ya ++ yb ++ concat ycs) n d = map (jansen_spec ya) ycs.
Proof. exact jansen_formula. Qed.
Print Assumptions C08_jansen_formula.

Theorem C08_homma_formula :
  forall ya yb ycs n d, length ya = n -> length yb = n -> length ycs = d -> (forall c, In c ycs -> length c = n) ->
    homma (ya ++ yb ++ concat ycs) n d = map (homma_spec ya) ycs.
Proof. exact homma_formula. Qed.
Print Assumptions C08_homma_formula.

Theorem C08_saltelli_formula :
  forall ya yb ycs n d, length ya = n -> length yb = n -> length ycs = d -> (forall c, In c ycs -> length c = n) ->
    saltelli (ya ++ yb ++ concat ycs) n d = map (saltelli_spec ya) ycs.
Proof. exact saltelli_formula. Qed.
Print Assumptions C08_saltelli_formula.

(* Homma-Saltelli and Saltelli are the same number whenever the variance is not 0 *)
Theorem C08_homma_eq_saltelli : forall ya yc, Vpop ya <> 0 -> homma_spec ya yc = saltelli_spec ya yc.
Proof. exact homma_eq_saltelli. Qed.
Print Assumptions C08_homma_eq_saltelli.

(* Janon et al. (2014): every empirical moment a 1/N average (the code after the fix "Janon estimator normalises
   the second moment by 1/N as published") *)
Theorem C08_janon_formula :
  forall ya yb ycs n d, length ya = n -> length yb = n -> length ycs = d -> (forall c, In c ycs -> length c = n) ->
    janon (ya ++ yb ++ concat ycs) n d = map (janon_published ya) ycs.
Proof. exact janon_formula. Qed.
Print Assumptions C08_janon_formula.

(* record of the defect: the code BEFORE the fix ([janon_orig]: second moment normalised by 1/(N-1)) computes
   [janon_orig_spec], which is not the published estimator, and differs from the current code *)
Theorem C08_janon_orig_formula :
  forall ya yb ycs n d, length ya = n -> length yb = n -> length ycs = d -> (forall c, In c ycs -> length c = n) ->
    janon_orig (ya ++ yb ++ concat ycs) n d = map (janon_orig_spec ya) ycs.
Proof. exact janon_orig_formula. Qed.
Print Assumptions C08_janon_orig_formula.

Theorem C08_janon_published_refuted_orig :
  (exists ya yc, length ya = length yc /\ (2 <= length ya)%nat /\ janon_orig_spec ya yc <> janon_published ya yc) /\
  (exists outputs n d, length outputs = (n * (d + 2))%nat /\ janon_orig outputs n d <> janon outputs n d).
Proof. exact (conj janon_orig_not_published janon_orig_differs). Qed.
Print Assumptions C08_janon_published_refuted_orig.

(* Glen-Isaacs, for every function used as square root *)
Theorem C08_glen_formula :
  forall (sqrt : Qc -> Qc) ya yb ycs n d,
    length ya = n -> length yb = n -> length ycs = d -> (forall c, In c ycs -> length c = n) ->
    glen sqrt (ya ++ yb ++ concat ycs) n d = map (glen_spec sqrt ya) ycs /\
    glen_radicands (ya ++ yb ++ concat ycs) n d = map (fun yc => Vpop ya * Vpop yc) ycs.
Proof. intros; split; [apply glen_formula | apply glen_radicands_formula]; assumption. Qed.
Print Assumptions C08_glen_formula.

(* ---- Jansen: non-negative, zero on inert dimensions, affine invariant ---- *)
Theorem C08_jansen_nonneg :
  forall ya yb ycs n d v, length ya = n -> length yb = n -> length ycs = d -> (forall c, In c ycs -> length c = n) ->
    0 < Vhat ya -> In v (jansen (ya ++ yb ++ concat ycs) n d) -> 0 <= v.
Proof. exact jansen_model_nonneg. Qed.
Print Assumptions C08_jansen_nonneg.

Theorem C08_variance_nonneg : forall ya, (2 <= length ya)%nat -> 0 <= Vhat ya.
Proof. exact Vhat_nonneg. Qed.
Print Assumptions C08_variance_nonneg.

Theorem C08_jansen_zero_inert :
  forall ya yb ycs n d i, length ya = n -> length yb = n -> length ycs = d -> (forall c, In c ycs -> length c = n) ->
    (i < d)%nat -> nth i ycs [] = ya -> nthq (jansen (ya ++ yb ++ concat ycs) n d) i = 0.
Proof. exact jansen_model_zero_inert. Qed.
Print Assumptions C08_jansen_zero_inert.

Theorem C08_jansen_affine :
  forall a b ya yb ycs n d, length ya = n -> length yb = n -> length ycs = d -> (forall c, In c ycs -> length c = n) ->
    a <> 0 -> (1 <= n)%nat ->
    jansen (map (fun y => a * y + b) (ya ++ yb ++ concat ycs)) n d = jansen (ya ++ yb ++ concat ycs) n d.
Proof. exact jansen_model_affine. Qed.
Print Assumptions C08_jansen_affine.

(* ---- Homma, Saltelli, Janon, Glen (current code): exactly 0 on an inert dimension (f(C_i) = f(A), Var > 0) ---- *)
Theorem C08_homma_zero_inert :
  forall ya yb ycs n d i, length ya = n -> length yb = n -> length ycs = d -> (forall c, In c ycs -> length c = n) ->
    (i < d)%nat -> nth i ycs [] = ya -> 0 < Vpop ya -> nthq (homma (ya ++ yb ++ concat ycs) n d) i = 0.
Proof. exact homma_model_zero_inert. Qed.
Print Assumptions C08_homma_zero_inert.

Theorem C08_saltelli_zero_inert :
  forall ya yb ycs n d i, length ya = n -> length yb = n -> length ycs = d -> (forall c, In c ycs -> length c = n) ->
    (i < d)%nat -> nth i ycs [] = ya -> 0 < Vpop ya -> nthq (saltelli (ya ++ yb ++ concat ycs) n d) i = 0.
Proof. exact saltelli_model_zero_inert. Qed.
Print Assumptions C08_saltelli_zero_inert.

Theorem C08_janon_zero_inert :
  forall ya yb ycs n d i, length ya = n -> length yb = n -> length ycs = d -> (forall c, In c ycs -> length c = n) ->
    (i < d)%nat -> nth i ycs [] = ya -> 0 < Vpop ya -> nthq (janon (ya ++ yb ++ concat ycs) n d) i = 0.
Proof. exact janon_model_zero_inert. Qed.
Print Assumptions C08_janon_zero_inert.

(* Glen: for every function used as square root that returns v on v * v, v >= 0 *)
Theorem C08_glen_zero_inert :
  forall ya yb ycs n d i, length ya = n -> length yb = n -> length ycs = d -> (forall c, In c ycs -> length c = n) ->
    (i < d)%nat -> nth i ycs [] = ya -> 0 < Vpop ya ->
    forall sqrt : Qc -> Qc, (forall v, 0 <= v -> sqrt (v * v) = v) ->
    nthq (glen sqrt (ya ++ yb ++ concat ycs) n d) i = 0.
Proof. exact glen_model_zero_inert. Qed.
Print Assumptions C08_glen_zero_inert.

(* records of the defects (code before the fixes in /repo): the transcriptions [homma_orig], [saltelli_orig]
   (unbiased variance) and [glen_orig] (covariance / (n-1)) compute their own formulas ... *)
Theorem C08_orig_formulas :
  forall ya yb ycs n d, length ya = n -> length yb = n -> length ycs = d -> (forall c, In c ycs -> length c = n) ->
    homma_orig (ya ++ yb ++ concat ycs) n d = map (homma_orig_spec ya) ycs /\
    saltelli_orig (ya ++ yb ++ concat ycs) n d = map (saltelli_orig_spec ya) ycs /\
    forall sqrt, glen_orig sqrt (ya ++ yb ++ concat ycs) n d = map (glen_orig_spec sqrt ya) ycs.
Proof.
  intros; repeat split; [apply homma_orig_formula | apply saltelli_orig_formula | intro; apply glen_orig_formula];
    assumption.
Qed.
Print Assumptions C08_orig_formulas.

(* ... and did NOT give 0 on an inert dimension: f(A) = f(C_0) = [0; 1] gets 1/2 (= 1/n), resp. -1 (= -1/(n-1)) *)
Theorem C08_homma_zero_inert_refuted_orig :
  exists ya yb, length ya = 2%nat /\ length yb = 2%nat /\ 0 < Vhat ya /\
    nthq (homma_orig (ya ++ yb ++ concat [ya]) 2 1) 0 = half.
Proof. exact homma_zero_inert_refuted_orig. Qed.
Print Assumptions C08_homma_zero_inert_refuted_orig.

Theorem C08_saltelli_zero_inert_refuted_orig :
  exists ya yb, length ya = 2%nat /\ length yb = 2%nat /\ 0 < Vhat ya /\
    nthq (saltelli_orig (ya ++ yb ++ concat [ya]) 2 1) 0 = half.
Proof. exact saltelli_zero_inert_refuted_orig. Qed.
Print Assumptions C08_saltelli_zero_inert_refuted_orig.

Theorem C08_glen_zero_inert_refuted_orig :
  exists (sqrt : Qc -> Qc) ya yb, length ya = 2%nat /\ length yb = 2%nat /\ 0 < Vpop ya /\
    is_sqrt sqrt (Vpop ya * Vpop ya) /\ sqrt (Vpop ya * Vpop ya) = Vpop ya /\
    nthq (glen_orig sqrt (ya ++ yb ++ concat [ya]) 2 1) 0 = - (1).
Proof. exact glen_zero_inert_refuted_orig. Qed.
Print Assumptions C08_glen_zero_inert_refuted_orig.

(* ---- attribution maps = estimator of the scores of the perturbed inputs, for every forward batch size (None = all masks at once) ---- *)
Theorem C08_gsa_map_is_estimator :
  forall (score : list Qc -> list Qc -> Qc) (est : list Qc -> list Qc) pf g H W C bs masks xs ts, bs_valid bs ->
    gsa_explain score est pf g H W C bs masks xs ts
    = map2 (fun x t => est (perturbed_scores score (pf x) g H W C masks x t)) xs ts.
Proof. exact gsa_explain_correct. Qed.
Print Assumptions C08_gsa_map_is_estimator.

Theorem C08_sobol_map_is_estimator :
  forall (score : list Qc -> list Qc -> Qc) pf g H W C bs n A B xs ts,
    bs_valid bs -> is_matrix n (g * g) A -> is_matrix n (g * g) B ->
    sobol_explain score jansen pf g H W C bs n (replicated_design (g * g) A B) xs ts
    = map2 (fun x t => let s := fun m => score (perturb (pf x) g H W C x m) t in
                       map (fun i => jansen_spec (map s A) (map s (c_block i A B))) (seq 0 (g * g))) xs ts.
Proof. exact sobol_map_is_estimator. Qed.
Print Assumptions C08_sobol_map_is_estimator.

(* "exactly zero for dimensions the outputs do not depend on", at the level of the explainer: if the score of the
   input perturbed by a row of C_i equals the score with the matching row of A, cell i of the map is exactly 0 *)
Theorem C08_sobol_cell_zero_inert :
  forall (score : list Qc -> list Qc -> Qc) pf g H W C bs n A B x t i,
    bs_valid bs -> is_matrix n (g * g) A -> is_matrix n (g * g) B -> (i < g * g)%nat ->
    (forall ra rc, In (ra, rc) (combine A (c_block i A B)) ->
        score (perturb (pf x) g H W C x rc) t = score (perturb (pf x) g H W C x ra) t) ->
    nthq (nth 0 (sobol_explain score jansen pf g H W C bs n (replicated_design (g * g) A B) [x] [t]) []) i = 0.
Proof. exact sobol_cell_zero_inert. Qed.
Print Assumptions C08_sobol_cell_zero_inert.

Theorem C08_hsic_map_is_estimator :
  forall (score : list Qc -> list Qc -> Qc) gramf Lof pf g H W C bs ebs n masks xs ts,
    bs_valid bs -> (1 <= ebs)%nat ->
    hsic_explain score gramf Lof pf g H W C bs ebs n masks xs ts
    = map2 (fun x t => let o := perturbed_scores score (pf x) g H W C masks x t in
                       map (fun p => hsic_one gramf (Lof o) n (col p masks)) (seq 0 (g * g))) xs ts.
Proof. exact hsic_explain_correct. Qed.
Print Assumptions C08_hsic_map_is_estimator.

(* ---- HSIC: per-dimension scores, estimator batch size irrelevant, scores permute with the cells ---- *)
Theorem C08_hsic_per_dimension :
  forall gramf ebs dims L n, (1 <= ebs)%nat ->
    hsic_estimator gramf ebs dims L n = map (hsic_one gramf L n) dims.
Proof. exact hsic_per_dimension. Qed.
Print Assumptions C08_hsic_per_dimension.

Theorem C08_hsic_batch_invariant :
  forall gramf ebs ebs' dims L n, (1 <= ebs)%nat -> (1 <= ebs')%nat ->
    hsic_estimator gramf ebs dims L n = hsic_estimator gramf ebs' dims L n.
Proof. exact hsic_batch_invariant. Qed.
Print Assumptions C08_hsic_batch_invariant.

Theorem C08_hsic_map_per_cell :
  forall gramf ebs g design L n, (1 <= ebs)%nat ->
    hsic_map gramf ebs g design L n = map (fun p => hsic_one gramf L n (col p design)) (seq 0 (g * g)).
Proof. exact hsic_map_per_cell. Qed.
Print Assumptions C08_hsic_map_per_cell.

Theorem C08_hsic_permute :
  forall gramf ebs g design design' L n (pi : nat -> nat) p, (1 <= ebs)%nat ->
    (p < g * g)%nat -> (pi p < g * g)%nat -> col p design' = col (pi p) design ->
    nthq (hsic_map gramf ebs g design' L n) p = nthq (hsic_map gramf ebs g design L n) (pi p).
Proof. exact hsic_permute. Qed.
Print Assumptions C08_hsic_permute.

(* ---- HSIC, binary kernel on a binary design: quadratic form of L, non-negative when L is PSD ---- *)
(* psd n L := forall v, 0 <= sum_{a,b<n} v_a L_ab v_b.  That the RBF Gram matrix of the outputs is PSD is a
   hypothesis (a property of exp), not proved here.  Full statement "HSIC scores are non-negative" for the rbf and
   sobolev input kernels (K PSD as well, Schur product) is not proved: only the binary kernel, the explainer's
   default. *)
Theorem C08_hsic_binary_quadratic_form :
  forall n x L, (1 <= n)%nat -> length x = n -> (forall v, In v x -> is_binary v) -> is_matrix n n L ->
    hsic_one (gram_of k_binary) L n x = (two / qn n) * qform n (entry L) (fun j => nthq x j - mean x).
Proof. exact hsic_binary_quadratic_form. Qed.
Print Assumptions C08_hsic_binary_quadratic_form.

Theorem C08_hsic_nonneg_partial :
  forall ebs g design L n v,
    (1 <= ebs)%nat -> (1 <= n)%nat -> is_matrix n (g * g) design ->
    (forall r, In r design -> forall w, In w r -> is_binary w) -> is_matrix n n L -> psd n L ->
    In v (hsic_map (gram_of k_binary) ebs g design L n) -> 0 <= v.
Proof. exact hsic_map_binary_nonneg. Qed.
Print Assumptions C08_hsic_nonneg_partial.

(* non-vacuity: a 2 x 2 pair (A, B) meets the hypotheses; its design has 8 rows; block C_1 is A with column 1 from B;
   the Jansen index of concrete outputs with positive variance is positive for an active dimension and 0 for an
   inert one *)
Example C08_nonvacuous :
  let A := [[q 1 4; q 1 2]; [q 3 4; q 1 8]] in
  let B := [[q 1 8; q 5 8]; [q 7 8; q 3 8]] in
  is_matrix 2 2 A /\ is_matrix 2 2 B /\
  replicated_design 2 A B = A ++ B ++ [[q 1 8; q 1 2]; [q 7 8; q 1 8]] ++ [[q 1 4; q 5 8]; [q 3 4; q 3 8]] /\
  0 < Vhat [1; two] /\
  jansen ([1; two] ++ [0; 0] ++ concat [[two; 1]; [1; two]]) 2 2 = [1; 0] /\
  psd 2 [[1; 0]; [0; 1]] /\ is_matrix 2 2 [[1; 0]; [0; 1]].
Proof.
  cbv zeta. split; [|split; [|split; [|split; [|split; [|split]]]]].
  - split; [reflexivity|]. intros r [<-|[<-|[]]]; reflexivity.
  - split; [reflexivity|]. intros r [<-|[<-|[]]]; reflexivity.
  - vm_compute. reflexivity.
  - vm_compute. reflexivity.
  - apply (proj1 (list_eqb_eq Qceqb Qceqb_eq _ _)). vm_compute. reflexivity.
  - intro v. unfold qform, sumn, entry, nthq. cbn [seq map qsum nth].
    replace (v 0%nat * 1 * v 0%nat + (v 0%nat * 0 * v 1%nat + 0) + (v 1%nat * 0 * v 0%nat + (v 1%nat * 1 * v 1%nat + 0) + 0))
      with (v 0%nat * v 0%nat + v 1%nat * v 1%nat) by ring.
    replace 0 with (0 + 0) by ring. apply Qcplus_le_compat; apply Qc_sq_nonneg.
  - split; [reflexivity|]. intros r [<-|[<-|[]]]; reflexivity.
Qed.
