(* Props/C13.v — property C13: explainers and metrics are reusable, results do not depend on call history.
   Only statements; proofs in C13/Proofs.v. *)
From Xpl Require Import C13.Model C13.Proofs.
Close Scope Qc_scope. Open Scope nat_scope.

(* (1) class-level model cache.  For EVERY history of model creations, models sharing tensors, discards followed
   by garbage collection (after which Python may reuse the ids of freed objects) and explainer constructions, a new
   explainer explains the function of the model it is given ... *)
Theorem C13_cache_sound :
  forall (h : list op) (e : nat) (m : uid) (k : kmodel),
    find_model (run h) m = Some k -> effective (run (h ++ [NewExplainer e m])) e = Some k.
Proof. exact cache_sound. Qed.
Print Assumptions C13_cache_sound.

(* ... and keeps explaining it whatever is created, shared, discarded or collected afterwards *)
Theorem C13_explainer_stable :
  forall (h : list op) (o : op) (e : nat) (f : uid * uid),
    effective (run h) e = Some f -> (forall m, o <> NewExplainer e m) -> effective (run (h ++ [o])) e = Some f.
Proof.
  intros h o e f He Hne. unfold run. rewrite fold_left_app. cbn [fold_left].
  apply explainer_stable; [apply run_inv | exact He | exact Hne].
Qed.
Print Assumptions C13_explainer_stable.

(* the invariant behind both: ids of live tensors are unique, every cached key is the id pair of the tensors of
   the live model it maps to *)
Theorem C13_cache_invariant : forall h, Inv (run h).
Proof. exact run_inv. Qed.
Print Assumptions C13_cache_invariant.

(* (2) lazily set attributes and accumulators: for every object with optional fields filled on first use by a
   kind-determined value, and accumulators reset at the start of each call, the result of a call is independent
   of the calls made before it on inputs of the same kind (any number of them, any arguments, any draws) *)
Theorem C13_history_independent :
  forall (K V X O A : Type) (default : K -> nat -> V) (acc0 : A) (compute : list V -> A -> X -> O * A)
         (o : obj V A) (k : K) (h : list (K * X)) (x : X),
    (forall kx, In kx h -> fst kx = k) ->
    snd (call K V X O A default acc0 compute (after K V X O A default acc0 compute o h) (k, x))
    = snd (call K V X O A default acc0 compute o (k, x)).
Proof. exact history_independent. Qed.
Print Assumptions C13_history_independent.

Theorem C13_idempotent :
  forall (K V X O A : Type) (default : K -> nat -> V) (acc0 : A) (compute : list V -> A -> X -> O * A)
         (o : obj V A) (k : K) (x : X),
    snd (call K V X O A default acc0 compute (fst (call K V X O A default acc0 compute o (k, x))) (k, x))
    = snd (call K V X O A default acc0 compute o (k, x)).
Proof. exact idempotent. Qed.
Print Assumptions C13_idempotent.

(* accumulators initialised only at construction would break it *)
Theorem C13_noreset_refuted :
  exists (o : obj nat nat) (x : nat),
    let c := call_noreset unit nat nat nat nat (fun _ _ => 0) (fun _ a x => (a + x, a + x)) in
    snd (c (fst (c o (tt, x))) (tt, x)) <> snd (c o (tt, x)).
Proof. exact noreset_refuted. Qed.
Print Assumptions C13_noreset_refuted.

(* non-vacuity: a history with a discarded-and-collected uncached model whose ids are reused by a new model, and a
   cached model whose ids cannot be *)
Example C13_nonvacuous :
  let h := [NewModel 10 11; Discard 2; NewModel 10 11; NewExplainer 0 5; ShareIO 5; Discard 5; NewExplainer 1 6;
            NewModel 10 11; NewModel 12 13; NewExplainer 2 9; NewOutput 9 14; NewExplainer 3 11] in
  effective (run h) 0 = Some (3, 4) /\ effective (run h) 1 = Some (3, 4) /\ effective (run h) 2 = Some (7, 8)
  /\ effective (run h) 3 = Some (7, 10) /\ map fst (models (run h)) = [11; 9; 6; 5].
Proof. vm_compute. repeat split; reflexivity. Qed.
