(* Props/C01.v — property C01: gradient attributions equal the analytic gradient of the explained score.
   Only statements, each closed by [exact]; proofs live in C01/Proofs.v.

   Reading guide.  [grad x t] is ds/dx at the single sample x for the target t, s being the explained score
   (arbitrary function: the theorems hold for every model / operator whose gradient has the shape of the
   input).  [saliency], [gradient_input], [gradstat] are the executable transcriptions (C01/Model.v) of
   Saliency.explain, GradientInput.explain and GradientStatistic.explain (SmoothGrad / SquareGrad / VarGrad =
   SMean / SSquare / SVar) including operator_batching and _harmonize_channel_dimension.
   [bs : option nat] is batch_size (None = Python None); [noises] are the tensors drawn by tf.random.normal,
   one list of nb_samples tensors per input.  Samples are flat row-major lists. *)
From Xpl Require Import Base.Tensor C01.Spec C01.Aux C01.Proofs C01.FQuad C06.Proofs.
From Coq Require Import Permutation.
Open Scope Qc_scope.

(* Saliency = |ds/dx| per sample, then the channel reduction; for every batch size *)
Theorem C01_saliency_correct :
  forall (grad : sample -> sample -> sample) k r bs xs ts,
    shape_preserving grad -> kind_ok k -> bs_ok bs -> (forall x, In x xs -> length x = kind_size k) ->
    saliency grad k r bs xs ts = map2 (fun x t => spec_reduce k r (map Qcabs (grad x t))) xs ts.
Proof. exact saliency_correct. Qed.
Print Assumptions C01_saliency_correct.

(* GradientInput = x * ds/dx *)
Theorem C01_gradient_input_correct :
  forall (grad : sample -> sample -> sample) k r bs xs ts,
    shape_preserving grad -> kind_ok k -> bs_ok bs -> (forall x, In x xs -> length x = kind_size k) ->
    gradient_input grad k r bs xs ts = map2 (fun x t => spec_reduce k r (map2 Qcmult x (grad x t))) xs ts.
Proof. exact gradient_input_correct. Qed.
Print Assumptions C01_gradient_input_correct.

(* SmoothGrad: component j of the explanation of x is the mean over its nb noises e of component j of ds/dx(x + e) *)
Theorem C01_smoothgrad_correct :
  forall (grad : sample -> sample -> sample) k r bs nb xs ts noises,
    shape_preserving grad -> kind_ok k -> bs_ok bs -> (1 <= nb)%nat -> noises_ok nb (rows xs ts noises) ->
    (forall x, In x xs -> length x = kind_size k) ->
    gradstat grad k r SMean bs nb xs ts noises
    = map (fun row : row => let '(x, t, es) := row in
             spec_reduce k r (map (fun j => qsum (map (fun e => nthq (grad (vadd x e) t) j) es) / qn (length es))
                                  (seq 0 (length x))))
          (combine (combine xs ts) noises).
Proof. exact smoothgrad_correct. Qed.
Print Assumptions C01_smoothgrad_correct.

(* SquareGrad: mean of the squares *)
Theorem C01_squaregrad_correct :
  forall (grad : sample -> sample -> sample) k r bs nb xs ts noises,
    shape_preserving grad -> kind_ok k -> bs_ok bs -> (1 <= nb)%nat -> noises_ok nb (rows xs ts noises) ->
    (forall x, In x xs -> length x = kind_size k) ->
    gradstat grad k r SSquare bs nb xs ts noises
    = map (fun row : row => let '(x, t, es) := row in
             spec_reduce k r (map (fun j => qsum (map (fun e => nthq (grad (vadd x e) t) j * nthq (grad (vadd x e) t) j) es)
                                            / qn (length es))
                                  (seq 0 (length x))))
          (combine (combine xs ts) noises).
Proof. exact squaregrad_correct. Qed.
Print Assumptions C01_squaregrad_correct.

(* VarGrad: unbiased variance  sum_e (g_e - mean)^2 / (nb - 1),  nb >= 2 *)
Theorem C01_vargrad_correct :
  forall (grad : sample -> sample -> sample) k r bs nb xs ts noises,
    shape_preserving grad -> kind_ok k -> bs_ok bs -> (2 <= nb)%nat -> noises_ok nb (rows xs ts noises) ->
    (forall x, In x xs -> length x = kind_size k) ->
    gradstat grad k r SVar bs nb xs ts noises
    = map (fun row : row => let '(x, t, es) := row in
             spec_reduce k r (map (fun j =>
                 let g := map (fun e => nthq (grad (vadd x e) t) j) es in
                 let mean := qsum g / qn (length g) in
                 qsum (map (fun v => (v - mean) * (v - mean)) g) / qn (length g - 1))
               (seq 0 (length x))))
          (combine (combine xs ts) noises).
Proof. exact vargrad_correct. Qed.
Print Assumptions C01_vargrad_correct.

(* exactly nb_samples noisy copies of each input are evaluated, and they are the points x + e *)
Theorem C01_stat_queries_exact :
  forall (grad : sample -> sample -> sample) bs nb xs ts noises,
    bs_ok bs -> (1 <= nb)%nat -> (forall r, In r (rows xs ts noises) -> length (rn r) = nb) ->
    gradstat_points grad bs nb xs ts noises = map (fun r => map (vadd (rx r)) (rn r)) (rows xs ts noises)
    /\ Forall (fun p => length p = nb) (gradstat_points grad bs nb xs ts noises).
Proof. exact stat_queries_exact. Qed.
Print Assumptions C01_stat_queries_exact.

(* batch_size never changes a result *)
Theorem C01_batch_invariant :
  forall (grad : sample -> sample -> sample) k r st bs bs' nb xs ts noises,
    shape_preserving grad -> bs_ok bs -> bs_ok bs' -> (1 <= nb)%nat -> (st = SVar -> (2 <= nb)%nat) ->
    noises_ok nb (rows xs ts noises) ->
    saliency grad k r bs xs ts = saliency grad k r bs' xs ts /\
    gradient_input grad k r bs xs ts = gradient_input grad k r bs' xs ts /\
    gradstat grad k r st bs nb xs ts noises = gradstat grad k r st bs' nb xs ts noises.
Proof. exact batch_invariant. Qed.
Print Assumptions C01_batch_invariant.

(* the statistic does not depend on the order in which an input's noises are listed
   (justifies feeding the recorded noises in a canonical order) *)
Theorem C01_stat_perm_invariant :
  forall (grad : sample -> sample -> sample) k r st bs nb xs ts noises noises',
    shape_preserving grad -> kind_ok k -> bs_ok bs -> (1 <= nb)%nat -> (st = SVar -> (2 <= nb)%nat) ->
    noises_ok nb (rows xs ts noises) -> (forall x, In x xs -> length x = kind_size k) ->
    Forall2 (@Permutation sample) noises noises' ->
    gradstat grad k r st bs nb xs ts noises = gradstat grad k r st bs nb xs ts noises'.
Proof. exact gradstat_perm_invariant. Qed.
Print Assumptions C01_stat_perm_invariant.

(* the channel reduction: tabular / time series / single-channel / reducer None are untouched; otherwise pixel p
   receives reduce r of its c channel values e[p*c .. p*c+c-1]; and the reducers are sum / mean / max / min *)
Theorem C01_reducer_correct :
  forall k r e, kind_ok k -> length e = kind_size k ->
    harmonize k r e =
    match k, r with
    | KImg h w c, Some r => if Nat.eqb c 1 then e
                            else map (fun p => reduce r (map (fun ch => nthq e (p * c + ch)) (seq 0 c))) (seq 0 (h * w))
    | _, _ => e
    end.
Proof. exact harmonize_spec. Qed.
Print Assumptions C01_reducer_correct.

Theorem C01_reduce_spec :
  forall r l, l <> [] ->
    match r with
    | RSum => reduce r l = qsum l
    | RMean => reduce r l = qsum l / qn (length l)
    | RMax => In (reduce r l) l /\ forall y, In y l -> y <= reduce r l
    | RMin => In (reduce r l) l /\ forall y, In y l -> reduce r l <= y
    end.
Proof. exact reduce_spec. Qed.
Print Assumptions C01_reduce_spec.

(* the execution family has a shape-preserving gradient (the hypothesis is satisfiable) *)
Theorem C01_fquad_grad_shape : forall ks, shape_preserving (fquad_grad ks).
Proof. exact fquad_grad_shape. Qed.
Print Assumptions C01_fquad_grad_shape.

(* TF autodiff is not modelled; for the execution family the closed-form gradient used on the Coq side is
   proved to be the derivative: moving coordinate i by h changes the score by h * grad_i(x) + h^2 * r_i with r_i
   independent of h (F-quad is a polynomial of degree 2), and the linear coefficient of such an expansion is unique *)
Theorem C01_fquad_grad_is_derivative :
  forall ks x t i h, (i < length x)%nat ->
    fquad ks (bump x i h) t - fquad ks x t = h * nthq (fquad_grad ks x t) i + h * h * fquad_curv ks t i.
Proof. exact fquad_grad_is_derivative. Qed.
Print Assumptions C01_fquad_grad_is_derivative.

Theorem C01_bump_is_coordinate_shift :
  forall x i h j, (i < length x)%nat ->
    length (bump x i h) = length x /\ nthq (bump x i h) j = nthq x j + (if Nat.eqb j i then h else 0).
Proof. exact bump_spec. Qed.
Print Assumptions C01_bump_is_coordinate_shift.

Theorem C01_derivative_unique :
  forall g g' r r' : Qc, (forall h, h * g + h * h * r = h * g' + h * h * r') -> g = g'.
Proof. exact derivative_unique. Qed.
Print Assumptions C01_derivative_unique.


(* non-vacuity: two 2x3x2 images, batch_size 2, nb_samples 5 (perturbation chunks 2,2,1, one input per input
   batch — the pattern of the real loop) meet every hypothesis, 5 points per input are evaluated, and the
   statistics differ from each other *)
Example C01_nonvacuous :
  let ks := [ {| qb := 0; qW := repeat 1 12; qV := repeat 1 12; qX := [(0, 1, two)%nat] |} ] in
  let xs := [repeat (q 1 2) 12; repeat (q (-3) 4) 12] in
  let ts := [[1]; [q 3 2]] in
  let noises := repeat (map (fun i => repeat (q i 8) 12) [1; -2; 3; -4; 5]%Z) 2 in
  kind_ok (KImg 2 3 2) /\ bs_ok (Some 2%nat) /\ shape_preserving (fquad_grad ks) /\
  noises_ok 5 (rows xs ts noises) /\ (forall x, In x xs -> length x = kind_size (KImg 2 3 2)) /\
  (gs_B (Some 2%nat) 2 5, gs_pb (Some 2%nat) 2 5, gs_ib (Some 2%nat) 2 5) = (2, 2, 1)%nat /\
  map (@length _) (gradstat_points (fquad_grad ks) (Some 2%nat) 5 xs ts noises) = [5; 5]%nat /\
  qlist2_eqb (gradstat (fquad_grad ks) (KImg 2 3 2) (Some RMax) SVar (Some 2%nat) 5 xs ts noises)
             (gradstat (fquad_grad ks) (KImg 2 3 2) (Some RMax) SMean (Some 2%nat) 5 xs ts noises) = false.
Proof.
  cbv zeta. split; [cbn; lia|]. split; [cbn; lia|]. split; [apply fquad_grad_shape|]. split.
  { intros r Hr. unfold rows in Hr. cbn [combine repeat] in Hr. destruct Hr as [<-|[<-|[]]]; (split; [reflexivity|]);
      cbn [rn rx snd fst map]; intros e He; repeat (destruct He as [<-|He]; [reflexivity|]); destruct He. }
  split; [intros x [<-|[<-|[]]]; reflexivity|].
  split; [reflexivity|]. split; vm_compute; reflexivity.
Qed.
