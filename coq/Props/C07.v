(* Props/C07.v — property C07: Lime fits its surrogate on its own queries; KernelShap is exact on additive models.
   Only statements, each closed by [exact]; proofs live in C07/Proofs.v.
   Library behaviour is universally quantified: score (model + operator, row-wise), karg (similarity kernel, as the
   argument of exp), fit (the estimator), sqrtf (norms), the drawn samples Z, the random rows and sorting permutations. *)
From Xpl Require Import Base.Tensor C07.Spec C07.Proofs.
From Coq Require Import Permutation Sorted.
Open Scope Qc_scope.

(* ---------------------------------------------------------------- Lime *)

(* gather by the mapping + repeat along channels + broadcast reference = "the input masked accordingly with the
   reference value": a feature keeps its value iff its segment is active, else takes the reference of its channel *)
Theorem C07_lime_masked_input :
  forall k ref x mapping z, lime_ok k ref x mapping ->
    apply_mask (kind_chan k) (kind_npos k) ref x (get_mask mapping z) = spec_masked k ref x mapping z.
Proof. exact apply_mask_spec. Qed.
Print Assumptions C07_lime_masked_input.

(* for every batch size (or None): the inputs handed to the model are exactly the masked inputs of the drawn samples,
   and the triple handed to fit is (Z, [score (masked z)]_z, [kernel (x, z, masked z)]_z) in row order *)
Theorem C07_lime_fit_arguments :
  forall (score : list Qc -> list Qc -> Qc) (karg : list Qc -> list bool -> list Qc -> Qc)
         (fit : list (list bool) -> list Qc -> list Qc -> list Qc) bs nb k ref x t mapping Z,
    bs_ok bs nb -> lime_ok k ref x mapping ->
    let tr := lime_one score karg fit (eff_bs bs nb) k ref x t mapping Z in
    tr_queries tr = map (spec_masked k ref x mapping) Z /\
    tr_y tr = map (fun z => score (spec_masked k ref x mapping z) t) Z /\
    tr_w tr = map (fun z => karg x z (spec_masked k ref x mapping z)) Z /\
    tr_coef tr = fit Z (tr_y tr) (tr_w tr).
Proof. exact lime_fit_arguments. Qed.
Print Assumptions C07_lime_fit_arguments.

(* the whole explain call (several inputs, one mapping and one sample matrix each) equals the unbatched definition *)
Theorem C07_lime_correct :
  forall (score : list Qc -> list Qc -> Qc) (karg : list Qc -> list bool -> list Qc -> Qc)
         (fit : list (list bool) -> list Qc -> list Qc -> list Qc) bs nb k ref xs ts mappings Zs,
    bs_ok bs nb -> (forall x mp, In (x, mp) (combine xs mappings) -> lime_ok k ref x mp) ->
    lime score karg fit bs nb k ref xs ts mappings Zs =
    map (fun a => spec_trace score karg fit k ref (fst (fst (fst a))) (snd (fst (fst a))) (snd (fst a)) (snd a))
        (combine (combine (combine xs ts) mappings) Zs).
Proof. exact lime_correct. Qed.
Print Assumptions C07_lime_correct.

Theorem C07_lime_batch_invariant :
  forall (score : list Qc -> list Qc -> Qc) (karg : list Qc -> list bool -> list Qc -> Qc)
         (fit : list (list bool) -> list Qc -> list Qc -> list Qc) bs bs' nb k ref xs ts mappings Zs,
    bs_ok bs nb -> bs_ok bs' nb -> (forall x mp, In (x, mp) (combine xs mappings) -> lime_ok k ref x mp) ->
    lime score karg fit bs nb k ref xs ts mappings Zs = lime score karg fit bs' nb k ref xs ts mappings Zs.
Proof. exact lime_batch_invariant. Qed.
Print Assumptions C07_lime_batch_invariant.

(* explain = coef o mapping: every position receives the coefficient of its segment; positions of the same segment
   receive the same value *)
Theorem C07_lime_broadcast :
  forall (score : list Qc -> list Qc -> Qc) (karg : list Qc -> list bool -> list Qc -> Qc)
         (fit : list (list bool) -> list Qc -> list Qc -> list Qc) B k ref x t mapping Z,
    let tr := lime_one score karg fit B k ref x t mapping Z in
    tr_expl tr = map (fun j => nthq (tr_coef tr) j) mapping /\
    length (tr_expl tr) = length mapping /\
    (forall p, (p < length mapping)%nat -> nthq (tr_expl tr) p = nthq (tr_coef tr) (nth p mapping 0%nat)) /\
    (forall p p', (p < length mapping)%nat -> (p' < length mapping)%nat -> nth p mapping 0%nat = nth p' mapping 0%nat ->
        nthq (tr_expl tr) p = nthq (tr_expl tr) p').
Proof. exact lime_broadcast. Qed.
Print Assumptions C07_lime_broadcast.

(* Euclidean kernel: with sqrtf a square root at the squared distance, the argument of exp is -(sum (x - m)^2)/width^2
   (width squared); the root-free form run by the check is the same *)
Theorem C07_lime_kernel_arg_eucl :
  forall sqrtf width x m, is_sqrt_at sqrtf (sqdist x m) ->
    eucl_arg_lit sqrtf width x m = spec_eucl_arg width x m /\ eucl_arg width x m = spec_eucl_arg width x m.
Proof. exact lime_kernel_arg_eucl. Qed.
Print Assumptions C07_lime_kernel_arg_eucl.

(* cosine kernel (code after commit 48db21f): argument -(1 - <x,m>/(|x||m|))^2/width^2, the norms being the library
   square roots of <x,x> and <m,m> *)
Theorem C07_lime_kernel_arg_cos :
  forall sqrtf width x m,
    cos_arg sqrtf width x m = spec_cos_arg width (sqrtf (dot x x)) (sqrtf (dot m m)) x m.
Proof. exact lime_kernel_arg_cos. Qed.
Print Assumptions C07_lime_kernel_arg_cos.

(* record of the defect found: the original code (1.0 - keras cosine_similarity = 1 + cos) gave a sample equal to the
   input the argument -4/width^2 instead of 0 *)
Theorem C07_lime_kernel_arg_cos_refuted_orig :
  exists sqrtf width x m, is_sqrt_at sqrtf (dot x x) /\ is_sqrt_at sqrtf (dot m m) /\ m = x /\
    spec_cos_arg width (sqrtf (dot x x)) (sqrtf (dot m m)) x m = 0 /\
    cos_arg_orig sqrtf width x m = - (q 4 1) /\
    cos_arg_orig sqrtf width x m <> spec_cos_arg width (sqrtf (dot x x)) (sqrtf (dot m m)) x m.
Proof. exact lime_kernel_arg_cos_refuted_orig. Qed.
Print Assumptions C07_lime_kernel_arg_cos_refuted_orig.

(* reference value defaults: 0 for tabular / time series / one-channel images, 0.5 per channel for RGB; a user value
   (or the value of a previous call) is kept; a default always has one entry per channel *)
Theorem C07_lime_default_ref :
  (forall d, set_ref None (Tab d) = Some [0]) /\
  (forall t w, set_ref None (TS t w) = Some [0]) /\
  (forall h w, set_ref None (Img h w 1) = Some [0]) /\
  (forall h w, set_ref None (Img h w 3) = Some [half; half; half]) /\
  (forall r k, set_ref (Some r) k = Some r) /\
  (forall k r, set_ref None k = Some r -> length r = kind_chan k).
Proof. exact lime_default_ref. Qed.
Print Assumptions C07_lime_default_ref.

Theorem C07_lime_default_map :
  forall segment,
  (forall d x, set_map None segment (Tab d) x = seq 0 d) /\
  (forall t w x, set_map None segment (TS t w) x = seq 0 (t * w)) /\
  (forall f k x, set_map (Some f) segment k x = f x).
Proof. exact lime_default_map. Qed.
Print Assumptions C07_lime_default_map.

(* ---------------------------------------------------------------- KernelShap *)

(* the probability vector of the code: F entries, P(0) = 0, entry k = (F-1)/(k (F-k)) > 0 for k = 1..F-1; so the
   normalised distribution is proportional to it, supported on 1..F-1, and symmetric *)
Theorem C07_kshap_probs :
  forall F, (2 <= F)%nat ->
  length (kshap_probs F) = F /\
  nthq (kshap_probs F) 0 = 0 /\
  (forall k, (1 <= k <= F - 1)%nat ->
     nthq (kshap_probs F) k = qn (F - 1) / (qn k * qn (F - k)) /\ 0 < nthq (kshap_probs F) k) /\
  0 < qsum (kshap_probs F) /\
  kshap_P F 0 = 0 /\
  (forall k, (1 <= k <= F - 1)%nat ->
     kshap_P F k = (qn (F - 1) / (qn k * qn (F - k))) / qsum (kshap_probs F) /\ 0 < kshap_P F k) /\
  (forall k, (1 <= k <= F - 1)%nat -> kshap_P F k = kshap_P F (F - k)).
Proof. exact kshap_probs_spec. Qed.
Print Assumptions C07_kshap_probs.

(* the sampler's construction (one-hot selections, threshold, strict comparison): for ANY tie-free random row, ANY
   permutation sorting it in decreasing order, and a drawn size k in 1..F-1, the coalition has exactly k active
   features — hence between 1 and F-1 *)
Theorem C07_kshap_coalition_size :
  forall F k r perm,
    length r = F -> NoDup r -> Permutation perm (seq 0 F) ->
    StronglySorted (fun a b => b <= a) (map (nthq r) perm) -> (1 <= k <= F - 1)%nat ->
    count_true (kshap_row F k r perm) = k /\ coalition_ok F (kshap_row F k r perm) = true.
Proof. exact kshap_coalition_size. Qed.
Print Assumptions C07_kshap_coalition_size.

(* additive scores are affine in the binary sample: y_z = s(ref) + sum_j z_j Delta_j *)
Theorem C07_kshap_additive_linear :
  forall k (score : list Qc -> list Qc -> Qc) b wv, additive (kind_size k) score b wv ->
  forall ref x t mapping z,
    score (spec_masked k ref x mapping z) t
    = score (ref_input k ref) t
      + qsum (map (fun j => b2q (nth j z false) * delta k ref x (wv t) mapping j) (seq 0 (num_features mapping))).
Proof. exact kshap_additive_linear. Qed.
Print Assumptions C07_kshap_additive_linear.

(* exact affine targets + full column rank of [Z 1] => every least-squares minimiser is the generating one *)
Theorem C07_ols_exact :
  forall F Z y D c beta b0,
    length D = F -> y = map (fun z => dot (zq z) D + c) Z ->
    design_injective F Z -> ls_minimiser F Z y beta b0 -> beta = D /\ b0 = c.
Proof. exact ols_exact. Qed.
Print Assumptions C07_ols_exact.

(* the Shapley values sum to score(x) - score(reference) *)
Theorem C07_kshap_efficiency :
  forall k (score : list Qc -> list Qc -> Qc) b wv, additive (kind_size k) score b wv ->
  forall ref x t mapping, length x = kind_size k ->
    qsum (deltas k ref x (wv t) mapping) = score x t - score (ref_input k ref) t.
Proof. exact kshap_efficiency. Qed.
Print Assumptions C07_kshap_efficiency.

(* end to end, every batch size: if the estimator returns a least-squares minimiser (unit weights) and the drawn
   design has full column rank, KernelShap returns w_p (x_p - ref_p) summed per segment, broadcast by the mapping,
   and the coefficients sum to score(x) - score(reference) *)
Theorem C07_kshap_exact :
  forall (score : list Qc -> list Qc -> Qc) b wv fit bs nb k ref x t mapping Z,
    additive (kind_size k) score b wv -> bs_ok bs nb -> lime_ok k ref x mapping ->
    (forall z, In z Z -> length z = num_features mapping) ->
    design_injective (num_features mapping) Z ->
    (forall y, exists b0, ls_minimiser (num_features mapping) Z y (fit Z y (map (fun _ => 0) Z)) b0) ->
    let tr := lime_one score (fun _ _ _ => 0) fit (eff_bs bs nb) k ref x t mapping Z in
    tr_coef tr = deltas k ref x (wv t) mapping /\
    tr_expl tr = shapley_expl k ref x (wv t) mapping /\
    qsum (tr_coef tr) = score x t - score (ref_input k ref) t.
Proof. exact kshap_exact. Qed.
Print Assumptions C07_kshap_exact.

(* F = 2 (known finding C07-kshap-F2): every admissible design (coalitions of size 1) is rank deficient, and least
   squares does not determine the coefficients — the exactness clause cannot hold for F = 2 with this sampler *)
Theorem C07_kshap_F2_design_singular :
  forall Z, (forall z, In z Z -> coalition_ok 2 z = true) -> ~ design_injective 2 Z.
Proof. exact kshap_F2_design_singular. Qed.
Print Assumptions C07_kshap_F2_design_singular.

Theorem C07_kshap_F2_ols_not_unique :
  forall Z y beta b0, (forall z, In z Z -> coalition_ok 2 z = true) -> ls_minimiser 2 Z y beta b0 ->
    ls_minimiser 2 Z y (vadd beta [1; 1]) (b0 - 1) /\ vadd beta [1; 1] <> beta.
Proof. exact kshap_F2_ols_not_unique. Qed.
Print Assumptions C07_kshap_F2_ols_not_unique.

(* the F-quad members without squares and cross terms (the ones the check runs) are additive *)
Theorem C07_fquad_additive :
  forall n ks, (forall k, In k ks -> class_additive n k) -> additive n (fquad ks) (lin_bias ks) (lin_weights n ks).
Proof. exact fquad_additive. Qed.
Print Assumptions C07_fquad_additive.

(* non-vacuity: a 2x2 RGB image with unequal segments and batch size 2 of 5 samples meets the hypotheses; an F = 3
   design with coalitions of sizes 1 and 2 has full column rank; a tie-free row with its sorting permutation selects
   exactly its largest value for k = 1 *)
Example C07_nonvacuous :
  lime_ok (Img 2 2 3) [half; half; half] (map qn (seq 0 12)) [0; 1; 1; 2]%nat /\ bs_ok (Some 2%nat) 5 /\
  num_features [0; 1; 1; 2]%nat = 3%nat /\
  design_injective 3 [[true; false; false]; [false; true; false]; [false; false; true]; [true; true; false]] /\
  (forall z, In z [[true; false; false]; [false; true; false]; [false; false; true]; [true; true; false]] ->
     coalition_ok 3 z = true) /\
  kshap_row 3 1 [half; two; - (1)] [1; 0; 2]%nat = [false; true; false] /\
  class_additive 2 (additive_class 1 [two; - (1)]).
Proof. exact nonvacuous. Qed.
