(* Props/C04.v — property C04: Integrated Gradients follows the straight path, uses the trapezoidal rule
   and satisfies completeness.  Only statements, each closed by [exact]; proofs live in C04/Proofs.v. *)
From Xpl Require Import Base.Tensor Base.Families C04.Fam C04.Spec C04.Proofs.
Open Scope Qc_scope.

(* For every gradient function that returns the shape of its input (any model / operator, real-valued
   targets), every steps m >= 2, every baseline value, every batch size (None, below steps, equal to steps,
   not a multiple of steps ...) and every non-empty list of inputs of n scalars, the executable model of
   IntegratedGradients.explain returns, for input x with target t and feature i,
     (x_i - baseline) * (1/(m-1)) * sum_{k<m-1} (g_k[i] + g_{k+1}[i]) / 2,
   g_k = grad (baseline + k/(m-1) (x - baseline)) t. *)
Theorem C04_ig_correct :
  forall (grad : sample -> target -> sample) n m bs bv xs ts,
    bs_ok bs -> (2 <= m)%nat -> xs <> [] -> (forall x, In x xs -> length x = n) ->
    (forall p t, length p = n -> length (grad p t) = n) ->
    ig grad n m bs bv xs ts
    = map2 (fun x t => map (fun i =>
         (nthq x i - bv)
         * (qsum (map (fun k => (nthq (grad (seg_point n m bv x k) t) i
                                 + nthq (grad (seg_point n m bv x (S k)) t) i) / two) (seq 0 (m - 1)))
            / qn (m - 1))) (seq 0 n)) xs ts.
Proof. exact ig_correct. Qed.
Print Assumptions C04_ig_correct.

(* batch_size never changes the result (no hypothesis on the gradient) *)
Theorem C04_ig_batch_invariant :
  forall (grad : sample -> target -> sample) n m bs bs' bv xs ts,
    bs_ok bs -> bs_ok bs' -> (1 <= m)%nat -> xs <> [] ->
    ig grad n m bs bv xs ts = ig grad n m bs' bv xs ts.
Proof. exact ig_batch_invariant. Qed.
Print Assumptions C04_ig_batch_invariant.

(* the (point, target) pairs handed to the gradient are exactly, input after input, the m points
   baseline + k/(m-1) (x - baseline), k = 0 .. m-1, each with that input's own target *)
Theorem C04_ig_path_points :
  forall n m bs bv xs ts,
    bs_ok bs -> xs <> [] -> (1 <= m)%nat -> (forall x, In x xs -> length x = n) ->
    ig_queries n m bs bv xs ts
    = flat_map (fun xt => map (fun k => (map (fun i => bv + (qn k / qn (m - 1)) * (nthq (fst xt) i - bv)) (seq 0 n),
                                         snd xt)) (seq 0 m)) (combine xs ts).
Proof. exact ig_path_points. Qed.
Print Assumptions C04_ig_path_points.

(* end points included, equally spaced *)
Theorem C04_path_first : forall n m bv x, seg_point n m bv x 0 = repeat bv n.
Proof. exact seg_point_first. Qed.
Print Assumptions C04_path_first.

Theorem C04_path_last : forall n m bv x, (2 <= m)%nat -> length x = n -> seg_point n m bv x (m - 1) = x.
Proof. exact seg_point_last. Qed.
Print Assumptions C04_path_last.

Theorem C04_path_equally_spaced :
  forall n m bv x k i, (2 <= m)%nat -> (i < n)%nat ->
    nthq (seg_point n m bv x (S k)) i - nthq (seg_point n m bv x k) i = (nthq x i - bv) / qn (m - 1).
Proof. exact seg_point_step. Qed.
Print Assumptions C04_path_equally_spaced.

(* the trapezoidal average is exact when the gradient is affine along the path: it is the mid-point value *)
Theorem C04_trapezoid_affine_exact :
  forall m (g : nat -> Qc) u v, (2 <= m)%nat ->
    (forall k, (k < m)%nat -> g k = u + (qn k / qn (m - 1)) * v) ->
    qsum (map (fun k => (g k + g (S k)) / two) (seq 0 (m - 1))) / qn (m - 1) = u + v / two.
Proof. exact trapezoid_affine_exact. Qed.
Print Assumptions C04_trapezoid_affine_exact.

(* the closed-form gradient of every member of F-quad (general quadratic with cross terms) is affine in alpha
   along the segment *)
Theorem C04_fquad_grad_affine :
  forall n bv x a ks t i, length x = n -> (i < n)%nat ->
    nthq (fquad_grad ks (map (fun j => bv + a * (nthq x j - bv)) (seq 0 n)) t) i
    = nthq (fquad_grad ks (repeat bv n) t) i
      + a * (nthq (fquad_grad ks x t) i - nthq (fquad_grad ks (repeat bv n) t) i).
Proof. exact fquad_grad_affine. Qed.
Print Assumptions C04_fquad_grad_affine.

(* completeness: for every quadratic model the attributions computed by the model of explain sum to
   score(x) - score(baseline) exactly, for every steps >= 2, every baseline, every batch size *)
Theorem C04_ig_complete_quadratic :
  forall n m bs bv ks xs ts,
    bs_ok bs -> (2 <= m)%nat -> xs <> [] -> (forall x, In x xs -> length x = n) ->
    map qsum (ig (fquad_grad ks) n m bs bv xs ts)
    = map2 (fun x t => fquad ks x t - fquad ks (repeat bv n) t) xs ts.
Proof. exact ig_complete_quadratic. Qed.
Print Assumptions C04_ig_complete_quadratic.

(* "for smooth models the gap shrinks as steps grows" — provable content, on the F-cubic family
   s(x,t) = fquad ks x t + sum_c t_c sum_i A_ci x_i^3 : the completeness gap of the model of explain is EXACTLY
   K(x, baseline) / (m-1)^2 with K = 1/2 sum_i (sum_c t_c A_ci) (x_i - baseline)^3 independent of m and of the
   batch size ... *)
Theorem C04_ig_gap_cubic :
  forall n m bs bv ks As xs ts,
    bs_ok bs -> (2 <= m)%nat -> xs <> [] -> (forall x, In x xs -> length x = n) ->
    map qsum (ig (fcubic_grad ks As) n m bs bv xs ts)
    = map2 (fun x t => fcubic ks As x t - fcubic ks As (repeat bv n) t
          + (qsum (map (fun i => cube_coef As t i * ((nthq x i - bv) * (nthq x i - bv) * (nthq x i - bv))) (seq 0 n)) / two)
            / (qn (m - 1) * qn (m - 1))) xs ts.
Proof. exact ig_gap_cubic. Qed.
Print Assumptions C04_ig_gap_cubic.

(* ... hence strictly decreasing in absolute value as steps grows (and identically 0 when K = 0) *)
Theorem C04_gap_strictly_decreasing :
  forall (K : Qc) m m', (2 <= m)%nat -> (m < m')%nat -> K <> 0 ->
    Qcabs (K / (qn (m' - 1) * qn (m' - 1))) < Qcabs (K / (qn (m - 1) * qn (m - 1))).
Proof. exact gap_strictly_decreasing. Qed.
Print Assumptions C04_gap_strictly_decreasing.

(* trapezoidal average of a gradient that is quadratic in alpha: exact integral plus w / (6 (m-1)^2) *)
Theorem C04_trapezoid_quadratic :
  forall m (g : nat -> Qc) u v w, (2 <= m)%nat ->
    (forall k, (k < m)%nat -> g k = u + (qn k / qn (m - 1)) * v + (qn k / qn (m - 1)) * (qn k / qn (m - 1)) * w) ->
    qsum (map (fun k => (g k + g (S k)) / two) (seq 0 (m - 1))) / qn (m - 1)
    = u + v / two + w / three + w / (two * three * (qn (m - 1) * qn (m - 1))).
Proof. exact trapezoid_quadratic. Qed.
Print Assumptions C04_trapezoid_quadratic.

(* channel harmonisation keeps completeness: reducer "sum" preserves the total, the default reducer "mean"
   divides it by the number of channels C (H*W*C scalars per input) *)
Theorem C04_reducer_sum_total : forall c e, qsum (harmonize RSum c e) = qsum e.
Proof. exact harmonize_sum_total. Qed.
Print Assumptions C04_reducer_sum_total.

Theorem C04_reducer_mean_total :
  forall c k e, (2 <= c)%nat -> length e = (k * c)%nat -> qn c * qsum (harmonize RMean c e) = qsum e.
Proof. exact harmonize_mean_total. Qed.
Print Assumptions C04_reducer_mean_total.

(* non-vacuity: 2 inputs of 4 features, steps = 5, batch_size = 3 < steps, baseline -1/2, a quadratic with a
   cross term and real-valued targets meet the hypotheses; completeness evaluates to concrete non-zero values *)
Example C04_nonvacuous :
  let ks := [ {| qb := q 1 1; qW := [q 1 1; q (-2) 1; q 0 1; q 3 1]; qV := [q 1 1; q 0 1; q (-1) 1; q 2 1];
                 qX := [(0%nat, 2%nat, q 2 1)] |};
              {| qb := q 0 1; qW := [q 0 1; q 1 1; q 1 1; q (-1) 1]; qV := [q 0 1; q 1 1; q 0 1; q 0 1];
                 qX := [(1%nat, 3%nat, q (-1) 1)] |} ] in
  let xs := [[q 1 2; q (-3) 4; q 5 4; q 1 1]; [q (-1) 1; q 1 4; q 0 1; q 7 8]] in
  let ts := [[q 1 1; q (-1) 2]; [q 0 1; q 1 1]] in
  bs_ok (Some 3%nat) /\ (2 <= 5)%nat /\ xs <> [] /\ (forall x, In x xs -> length x = 4%nat) /\
  qlist_eqb (map qsum (ig (fquad_grad ks) 4 5 (Some 3%nat) (q (-1) 2) xs ts)) [q 201 32; q (-9) 32] = true /\
  qlist_eqb (map2 (fun x t => fquad ks x t - fquad ks (repeat (q (-1) 2) 4) t) xs ts) [q 201 32; q (-9) 32] = true.
Proof.
  cbv zeta. repeat split; try (cbn; lia); try discriminate.
  - intros x [<-|[<-|[]]]; reflexivity.
Qed.
